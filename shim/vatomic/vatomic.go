// Package vatomic replaces "sync/atomic" in instrumented sources: every
// operation is preceded by a scheduling point, then performed for real.
package vatomic

import (
	"sync/atomic"

	"github.com/pion/turn/v5/verif/shim/vsched"
)

func pt() { vsched.PointHere("atomic") }

type Bool struct{ v atomic.Bool }

func (b *Bool) Load() bool                       { vsched.PointHere("atomic"); return b.v.Load() }
func (b *Bool) Store(x bool)                     { vsched.PointHere("atomic"); b.v.Store(x) }
func (b *Bool) Swap(x bool) bool                 { vsched.PointHere("atomic"); return b.v.Swap(x) }
func (b *Bool) CompareAndSwap(o, n bool) bool    { vsched.PointHere("atomic"); return b.v.CompareAndSwap(o, n) }

type Int32 struct{ v atomic.Int32 }

func (b *Int32) Load() int32                     { vsched.PointHere("atomic"); return b.v.Load() }
func (b *Int32) Store(x int32)                   { vsched.PointHere("atomic"); b.v.Store(x) }
func (b *Int32) Swap(x int32) int32              { vsched.PointHere("atomic"); return b.v.Swap(x) }
func (b *Int32) Add(x int32) int32               { vsched.PointHere("atomic"); return b.v.Add(x) }
func (b *Int32) CompareAndSwap(o, n int32) bool  { vsched.PointHere("atomic"); return b.v.CompareAndSwap(o, n) }

type Int64 struct{ v atomic.Int64 }

func (b *Int64) Load() int64                     { vsched.PointHere("atomic"); return b.v.Load() }
func (b *Int64) Store(x int64)                   { vsched.PointHere("atomic"); b.v.Store(x) }
func (b *Int64) Swap(x int64) int64              { vsched.PointHere("atomic"); return b.v.Swap(x) }
func (b *Int64) Add(x int64) int64               { vsched.PointHere("atomic"); return b.v.Add(x) }
func (b *Int64) CompareAndSwap(o, n int64) bool  { vsched.PointHere("atomic"); return b.v.CompareAndSwap(o, n) }

type Uint32 struct{ v atomic.Uint32 }

func (b *Uint32) Load() uint32                    { vsched.PointHere("atomic"); return b.v.Load() }
func (b *Uint32) Store(x uint32)                  { vsched.PointHere("atomic"); b.v.Store(x) }
func (b *Uint32) Swap(x uint32) uint32            { vsched.PointHere("atomic"); return b.v.Swap(x) }
func (b *Uint32) Add(x uint32) uint32             { vsched.PointHere("atomic"); return b.v.Add(x) }
func (b *Uint32) CompareAndSwap(o, n uint32) bool { vsched.PointHere("atomic"); return b.v.CompareAndSwap(o, n) }

type Uint64 struct{ v atomic.Uint64 }

func (b *Uint64) Load() uint64                    { vsched.PointHere("atomic"); return b.v.Load() }
func (b *Uint64) Store(x uint64)                  { vsched.PointHere("atomic"); b.v.Store(x) }
func (b *Uint64) Swap(x uint64) uint64            { vsched.PointHere("atomic"); return b.v.Swap(x) }
func (b *Uint64) Add(x uint64) uint64             { vsched.PointHere("atomic"); return b.v.Add(x) }
func (b *Uint64) CompareAndSwap(o, n uint64) bool { vsched.PointHere("atomic"); return b.v.CompareAndSwap(o, n) }

type Value struct{ v atomic.Value }

func (b *Value) Load() any                        { vsched.PointHere("atomic"); return b.v.Load() }
func (b *Value) Store(x any)                      { vsched.PointHere("atomic"); b.v.Store(x) }
func (b *Value) Swap(x any) any                   { vsched.PointHere("atomic"); return b.v.Swap(x) }
func (b *Value) CompareAndSwap(o, n any) bool     { vsched.PointHere("atomic"); return b.v.CompareAndSwap(o, n) }

type Pointer[T any] struct{ v atomic.Pointer[T] }

func (b *Pointer[T]) Load() *T                    { vsched.PointHere("atomic"); return b.v.Load() }
func (b *Pointer[T]) Store(x *T)                  { vsched.PointHere("atomic"); b.v.Store(x) }
func (b *Pointer[T]) Swap(x *T) *T                { vsched.PointHere("atomic"); return b.v.Swap(x) }
func (b *Pointer[T]) CompareAndSwap(o, n *T) bool { vsched.PointHere("atomic"); return b.v.CompareAndSwap(o, n) }

func LoadInt32(p *int32) int32                       { pt(); return atomic.LoadInt32(p) }
func StoreInt32(p *int32, v int32)                   { pt(); atomic.StoreInt32(p, v) }
func AddInt32(p *int32, d int32) int32               { pt(); return atomic.AddInt32(p, d) }
func SwapInt32(p *int32, v int32) int32              { pt(); return atomic.SwapInt32(p, v) }
func CompareAndSwapInt32(p *int32, o, n int32) bool  { pt(); return atomic.CompareAndSwapInt32(p, o, n) }
func LoadInt64(p *int64) int64                       { pt(); return atomic.LoadInt64(p) }
func StoreInt64(p *int64, v int64)                   { pt(); atomic.StoreInt64(p, v) }
func AddInt64(p *int64, d int64) int64               { pt(); return atomic.AddInt64(p, d) }
func SwapInt64(p *int64, v int64) int64              { pt(); return atomic.SwapInt64(p, v) }
func CompareAndSwapInt64(p *int64, o, n int64) bool  { pt(); return atomic.CompareAndSwapInt64(p, o, n) }
func LoadUint32(p *uint32) uint32                      { pt(); return atomic.LoadUint32(p) }
func StoreUint32(p *uint32, v uint32)                  { pt(); atomic.StoreUint32(p, v) }
func AddUint32(p *uint32, d uint32) uint32             { pt(); return atomic.AddUint32(p, d) }
func CompareAndSwapUint32(p *uint32, o, n uint32) bool { pt(); return atomic.CompareAndSwapUint32(p, o, n) }
func LoadUint64(p *uint64) uint64                      { pt(); return atomic.LoadUint64(p) }
func StoreUint64(p *uint64, v uint64)                  { pt(); atomic.StoreUint64(p, v) }
func AddUint64(p *uint64, d uint64) uint64             { pt(); return atomic.AddUint64(p, d) }
func CompareAndSwapUint64(p *uint64, o, n uint64) bool { pt(); return atomic.CompareAndSwapUint64(p, o, n) }
