// Package vtime replaces "time" in instrumented sources: everything passes
// through to the (virtual, synctest) clock except timers, which the controlled
// scheduler must know about.
package vtime

import (
	"time"

	"github.com/pion/turn/v5/verif/shim/vsched"
)

type (
	Duration = time.Duration
	Time     = time.Time
	Month    = time.Month
	Weekday  = time.Weekday
	Location = time.Location
	Timer    = vsched.Timer
	Ticker   = time.Ticker
)

const (
	Nanosecond  = time.Nanosecond
	Microsecond = time.Microsecond
	Millisecond = time.Millisecond
	Second      = time.Second
	Minute      = time.Minute
	Hour        = time.Hour
	RFC3339     = time.RFC3339
	RFC3339Nano = time.RFC3339Nano
)

var (
	UTC   = time.UTC
	Local = time.Local
)

func Now() Time                         { return time.Now() }
func Since(t Time) Duration             { return time.Since(t) }
func Until(t Time) Duration             { return time.Until(t) }
func Unix(s, n int64) Time              { return time.Unix(s, n) }
func UnixMilli(m int64) Time            { return time.UnixMilli(m) }
func UnixMicro(m int64) Time            { return time.UnixMicro(m) }
func Date(y int, m Month, d, h, mi, s, ns int, l *Location) Time {
	return time.Date(y, m, d, h, mi, s, ns, l)
}
func ParseDuration(s string) (Duration, error) { return time.ParseDuration(s) }
func Parse(l, v string) (Time, error)          { return time.Parse(l, v) }

// Sleep inside instrumented code lets virtual time pass only when the system is idle.
func Sleep(d Duration) { vsched.IdleSleep(d) }

func AfterFunc(d Duration, f func()) *Timer { return vsched.AfterFunc(d, f) }
func NewTimer(d Duration) *Timer            { return vsched.NewTimer(d) }
func After(d Duration) <-chan Time          { return vsched.NewTimer(d).C }
func NewTicker(d Duration) *Ticker          { return time.NewTicker(d) }
func Tick(d Duration) <-chan Time           { return time.Tick(d) }
