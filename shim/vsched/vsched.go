// Package vsched is Engine B's controlled scheduler. The repository sources
// are rewritten at check time (see /verif/instr) so that every lock, atomic,
// channel, timer, socket and goroutine-spawn operation first calls into this
// package. One execution runs inside a testing/synctest bubble: the root
// goroutine is the scheduler, every other goroutine of the bubble is a
// *thread* that runs only when granted and parks again at its next
// scheduling point. synctest.Wait() is the quiescence barrier, the bubble's
// virtual clock is the scheduler clock and only moves when the scheduler
// decides so.
package vsched

import (
	"fmt"
	"runtime"
	"sort"
	"strings"
	"sync"
	"testing/synctest"
	"time"
)

// Thread states.
const (
	stNew = iota
	stParked
	stRunning
	stDone
)

type pending struct {
	kind  string
	obj   string
	ready func() bool
	until  time.Time // idle-sleep: wake at this instant
	isIdle bool
	aux    int // >1: the thread offers this many alternatives (select preference)
	lock   *LockState
}

// Thread is one scheduled goroutine.
type Thread struct {
	ID    int
	Name  string
	order uint64
	goid  uint64
	wake  chan struct{}
	state int
	pend  pending
	kill  bool
	held  map[*LockState]string // lock -> acquisition site
	Panic string
	auxPick int
}

// LockState is the scheduler-side state of a shim mutex.
type LockState struct {
	writer       *Thread
	writerUnmgd  bool
	readers      map[*Thread]int
	readersUnmgd int
	pendingW     int
	site         string
	// grantedR: the readers that were already waiting when the last writer unlocked. As in sync.RWMutex they go
	// first: a second writer still queues for the writers' mutex at that moment and has not announced itself.
	grantedR map[*Thread]bool
}

// Step records one scheduling decision.
type Step struct {
	Enabled []string
	Chosen  int
	RunningEnabled bool
}

// Sched is one execution under control.
type Sched struct {
	mu       sync.Mutex
	threads  []*Thread
	byGoid   map[uint64]*Thread
	prefix   []int
	Steps    []Step
	running  *Thread
	nextID   int
	spawnSeq uint64
	timers   []*Timer
	timerSeq int
	// FireSlack: a pending timer whose deadline is within this much of the clock
	// may fire at any scheduling point (the request "arrived just before the deadline").
	FireSlack time.Duration
	// IdleFire: when nothing is enabled, advance to the next timer deadline if it
	// lies within this horizon (0 = never).
	IdleFire   time.Duration
	IdleTies   bool
	MaxSteps   int
	Violations []string
	Diverged   string
	Log        []string
	LogOn      bool
	aborting   bool
	WritePref  bool // model Go's writer preference of RWMutex (two-phase write lock)
	Livelock   bool
	BranchFrom int // alternatives of steps before this index are not explored (sequential setup)
	wind       func()
}

// OnWind registers a wind-down step for the current execution: after the
// scenario's final check (the verdict is already fixed) f runs on the root
// goroutine - typically closing the harness's connections - and the remaining
// threads are then run to quiescence deterministically (first enabled thread,
// no clock moves, nothing recorded or branched on) before whatever is still
// parked is killed. Without it a library goroutine that waits in a real channel
// operation for threads the explorer kills (e.g. the ConnectionBind handler
// waiting for its two copy loops) would stay blocked for ever and leak.
func OnWind(f func()) {
	if s := Current(); s != nil {
		s.wind = f
	}
}

// drain runs enabled threads (lowest spawn order first) until none is enabled.
func (s *Sched) drain() {
	for step := 0; step < 4000; step++ {
		synctest.Wait()
		s.mu.Lock()
		var pick *Thread
		for _, t := range s.threads {
			if t.state == stParked && !t.pend.isIdle && s.enabledLocked(t) && (pick == nil || t.order < pick.order) {
				pick = t
			}
		}
		if pick == nil {
			s.mu.Unlock()

			return
		}
		pick.state = stRunning
		pick.auxPick = 0
		s.running = pick
		s.mu.Unlock()
		pick.wake <- struct{}{}
	}
}

var (
	cur   *Sched
	curMu sync.RWMutex
)

// Current returns the active execution or nil.
func Current() *Sched {
	curMu.RLock()
	defer curMu.RUnlock()

	return cur
}

func goid() uint64 {
	var buf [64]byte
	n := runtime.Stack(buf[:], false)
	// "goroutine 123 ["
	var id uint64
	for i := len("goroutine "); i < n; i++ {
		c := buf[i]
		if c < '0' || c > '9' {
			break
		}
		id = id*10 + uint64(c-'0')
	}

	return id
}

func (s *Sched) me() *Thread {
	g := goid()
	s.mu.Lock()
	t := s.byGoid[g]
	s.mu.Unlock()

	return t
}

// Managed reports whether the calling goroutine is a scheduled thread.
func Managed() bool {
	s := Current()

	return s != nil && s.me() != nil
}

func site(skip int) string {
	_, file, line, ok := runtime.Caller(skip)
	if !ok {
		return "?"
	}
	if i := strings.LastIndex(file, "/"); i >= 0 {
		file = file[i+1:]
	}

	return fmt.Sprintf("%s:%d", file, line)
}

// Go spawns f as a new scheduled thread (rewritten `go` statements and harness threads).
func Go(name string, f func()) {
	s := Current()
	if s == nil {
		go f()

		return
	}
	s.mu.Lock()
	s.spawnSeq++
	t := &Thread{ID: s.nextID, Name: name, order: s.spawnSeq << 1, wake: make(chan struct{}), held: map[*LockState]string{}}
	s.nextID++
	s.threads = append(s.threads, t)
	s.mu.Unlock()
	go s.threadMain(t, f)
}

func (s *Sched) threadMain(t *Thread, f func()) {
	g := goid()
	s.mu.Lock()
	t.goid = g
	s.byGoid[g] = t
	s.mu.Unlock()
	defer func() {
		if r := recover(); r != nil {
			buf := make([]byte, 4096)
			buf = buf[:runtime.Stack(buf, false)]
			t.Panic = fmt.Sprintf("%v\n%s", r, buf)
		}
		s.mu.Lock()
		t.state = stDone
		delete(s.byGoid, g)
		if len(t.held) > 0 && !t.kill {
			for _, where := range t.held {
				s.Violations = append(s.Violations, fmt.Sprintf("lock-held-at-exit:%s thread=%s", where, t.Name))
			}
		}
		if t.Panic != "" && !t.kill {
			s.Violations = append(s.Violations, "panic:"+panicSite(t.Panic)+" thread="+t.Name+"\n"+t.Panic)
		}
		s.mu.Unlock()
	}()
	s.park(t, pending{kind: "start", obj: t.Name})
	f()
}

func panicSite(p string) string {
	// first frame inside pion/turn that is not the shim
	lines := strings.Split(p, "\n")
	msg := lines[0]
	for _, l := range lines {
		l = strings.TrimSpace(l)
		if strings.HasPrefix(l, "github.com/pion/turn/v5") && !strings.Contains(l, "/verif/") {
			if i := strings.Index(l, "("); i > 0 {
				l = l[:i]
			}

			return msg + "@" + strings.TrimPrefix(l, "github.com/pion/turn/v5")
		}
	}

	return msg
}

func (s *Sched) park(t *Thread, p pending) {
	s.mu.Lock()
	if t.kill || s.aborting {
		s.mu.Unlock()
		t.kill = true
		runtime.Goexit()
	}
	t.pend = p
	t.state = stParked
	s.mu.Unlock()
	<-t.wake
	if t.kill {
		runtime.Goexit()
	}
}

// Point is a scheduling point that is always enabled.
func Point(kind, obj string) {
	s := Current()
	if s == nil {
		return
	}
	t := s.me()
	if t == nil {
		return
	}
	s.park(t, pending{kind: kind, obj: obj})
}

// PointHere is Point with the caller's file:line as object (rewritten channel operations).
func PointHere(kind string) {
	s := Current()
	if s == nil {
		return
	}
	t := s.me()
	if t == nil {
		return
	}
	s.park(t, pending{kind: kind, obj: site(2)})
}

// Block parks until the scheduler picks the thread while ready() holds.
func Block(kind, obj string, ready func() bool) {
	s := Current()
	if s == nil {
		return
	}
	t := s.me()
	if t == nil {
		return
	}
	s.park(t, pending{kind: kind, obj: obj, ready: ready})
}

// IdleSleep lets virtual time pass: the thread continues after the clock has
// been advanced by d, which the scheduler does only when no other thread is enabled.
func IdleSleep(d time.Duration) {
	s := Current()
	if s == nil {
		time.Sleep(d)

		return
	}
	t := s.me()
	if t == nil {
		time.Sleep(d)
		synctest.Wait()

		return
	}
	s.park(t, pending{kind: "idle-sleep", obj: d.String(), until: time.Now().Add(d), isIdle: true})
}

// Mark declares the sequential setup phase finished: the explorer branches
// only on scheduling decisions taken after this call.
func Mark() {
	s := Current()
	if s == nil {
		return
	}
	s.mu.Lock()
	s.BranchFrom = len(s.Steps)
	s.mu.Unlock()
}

// Fail records a harness-detected violation for the current execution.
func Fail(sig string) {
	s := Current()
	if s == nil {
		return
	}
	s.mu.Lock()
	s.Violations = append(s.Violations, sig)
	s.mu.Unlock()
}

// SimHook adapts the scheduler to simnet.Sched.
type SimHook struct{}

func (SimHook) Block(kind, obj string, ready func() bool) { Block(kind, obj, ready) }
func (SimHook) Point(kind, obj string)                    { Point(kind, obj) }
func (SimHook) Managed() bool                             { return Managed() }

// ---------------------------------------------------------------- timers

// Timer replaces time.Timer in instrumented code.
type Timer struct {
	C        <-chan time.Time
	rt       *time.Timer
	seq      int
	deadline time.Time
	active   bool
	fires    int
	s        *Sched
	isFunc   bool
}

// AfterFunc replaces time.AfterFunc.
func AfterFunc(d time.Duration, f func()) *Timer {
	s := Current()
	t := &Timer{isFunc: true, s: s}
	if s == nil {
		t.rt = time.AfterFunc(d, f)

		return t
	}
	s.mu.Lock()
	s.timerSeq++
	t.seq = s.timerSeq
	t.deadline = time.Now().Add(d)
	t.active = true
	s.timers = append(s.timers, t)
	s.mu.Unlock()
	t.rt = time.AfterFunc(d, func() {
		// runs in a fresh goroutine created by the runtime when the clock reaches the deadline
		s.mu.Lock()
		t.active = false
		t.fires++
		th := &Thread{ID: s.nextID, Name: fmt.Sprintf("timer#%d.%d", t.seq, t.fires),
			order: (uint64(1)<<40 + uint64(t.seq)<<8 + uint64(t.fires)) << 1, wake: make(chan struct{}), held: map[*LockState]string{}} //nolint:gosec
		s.nextID++
		s.threads = append(s.threads, th)
		s.mu.Unlock()
		s.threadMain(th, f)
	})

	return t
}

// NewTimer replaces time.NewTimer.
func NewTimer(d time.Duration) *Timer {
	s := Current()
	t := &Timer{s: s}
	t.rt = time.NewTimer(d)
	t.C = t.rt.C
	if s != nil {
		s.mu.Lock()
		s.timerSeq++
		t.seq = s.timerSeq
		t.deadline = time.Now().Add(d)
		t.active = true
		s.timers = append(s.timers, t)
		s.mu.Unlock()
	}

	return t
}

// Stop replaces (*time.Timer).Stop.
func (t *Timer) Stop() bool {
	if t.s != nil && t.s.me() != nil {
		Point("timer-stop", site(2))
	}
	r := t.rt.Stop()
	if t.s != nil {
		t.s.mu.Lock()
		t.active = false
		t.s.mu.Unlock()
	}

	return r
}

// Reset replaces (*time.Timer).Reset.
func (t *Timer) Reset(d time.Duration) bool {
	if t.s != nil && t.s.me() != nil {
		Point("timer-reset", site(2))
	}
	r := t.rt.Reset(d)
	if t.s != nil {
		t.s.mu.Lock()
		t.active = true
		t.deadline = time.Now().Add(d)
		t.s.mu.Unlock()
	}

	return r
}

// nextTimer returns the earliest active deadline.
func (s *Sched) nextTimer() (time.Time, bool) {
	var best time.Time
	ok := false
	for _, t := range s.timers {
		if !t.active {
			continue
		}
		if !t.isFunc {
			// channel timers that already fired are inactive in effect
			if !t.deadline.After(time.Now()) {
				continue
			}
		}
		if !ok || t.deadline.Before(best) {
			best, ok = t.deadline, true
		}
	}

	return best, ok
}

// ActiveTimers lists timers still armed (leak detection at quiescence).
func (s *Sched) ActiveTimers() []string {
	s.mu.Lock()
	defer s.mu.Unlock()
	var out []string
	for _, t := range s.timers {
		if t.active && t.deadline.After(time.Now()) {
			out = append(out, fmt.Sprintf("timer#%d@+%v", t.seq, time.Until(t.deadline)))
		}
	}

	return out
}

// ---------------------------------------------------------------- execution

// Result of one execution.
type Result struct {
	Steps       []Step
	Violations  []string
	Diverged    string
	Preemptions int
	Quiescent   bool
	StuckLocks  []string
	Leftover    []string
	ParkedAtEnd []string
	Log         []string
	BranchFrom  int
}

// Options configure one execution.
type Options struct {
	FireSlack time.Duration
	IdleFire  time.Duration
	MaxSteps  int
	WritePref bool
	LogOn     bool
	// IdleTies: idle sleepers whose instant has come are all enabled together (and so interleave with each other
	// and with whatever the first of them starts); without it they are woken one per quiescence.
	IdleTies bool
}

// RunOne executes body under the scheduler inside the current synctest bubble,
// following prefix and then always choosing 0. body runs on the root goroutine
// and must only create things and spawn threads with Go; it returns a final
// check that runs at quiescence (still inside the bubble, before teardown) and
// a teardown function that runs after all parked threads have been released.
func RunOne(prefix []int, opt Options, body func(s *Sched) (check func() []string, teardown func())) *Result {
	s := &Sched{byGoid: map[uint64]*Thread{}, prefix: prefix, FireSlack: opt.FireSlack, IdleFire: opt.IdleFire,
		MaxSteps: opt.MaxSteps, WritePref: opt.WritePref, LogOn: opt.LogOn, IdleTies: opt.IdleTies}
	if s.MaxSteps == 0 {
		s.MaxSteps = 5000
	}
	curMu.Lock()
	cur = s
	curMu.Unlock()
	defer func() {
		curMu.Lock()
		cur = nil
		curMu.Unlock()
	}()
	check, teardown := body(s)
	res := &Result{}
	s.loop(res)
	res.ParkedAtEnd = s.Parked()
	if check != nil && s.Diverged == "" {
		for _, v := range check() {
			s.Violations = append(s.Violations, v)
		}
	}
	if s.wind != nil && s.Diverged == "" && !s.Livelock {
		s.wind()
		s.drain()
	}
	// release everything that is still parked
	s.mu.Lock()
	s.aborting = true
	var parked []*Thread
	for _, t := range s.threads {
		if t.state == stParked {
			t.kill = true
			parked = append(parked, t)
		}
	}
	s.mu.Unlock()
	// one at a time: a released thread runs its deferred functions with the locks no longer enforced, so two of
	// them must not run side by side (two connection handlers both untracking their connection wrote one map
	// concurrently: "fatal error: concurrent map writes" on a loaded machine)
	for _, t := range parked {
		t.wake <- struct{}{}
		synctest.Wait()
	}
	if teardown != nil {
		teardown()
	}
	synctest.Wait()
	// threads blocked in real channel operations may be woken by teardown and reach a point: kill again
	for range 8 {
		s.mu.Lock()
		parked = parked[:0]
		for _, t := range s.threads {
			if t.state == stParked {
				t.kill = true
				parked = append(parked, t)
			}
		}
		s.mu.Unlock()
		if len(parked) == 0 {
			break
		}
		for _, t := range parked {
			t.wake <- struct{}{}
			synctest.Wait()
		}
	}
	s.mu.Lock()
	for _, tm := range s.timers {
		tm.rt.Stop()
	}
	for _, t := range s.threads {
		if t.state != stDone {
			res.Leftover = append(res.Leftover, fmt.Sprintf("%s(%s:%s)", t.Name, t.pend.kind, t.pend.obj))
		}
	}
	res.Steps = s.Steps
	res.BranchFrom = s.BranchFrom
	res.Violations = s.Violations
	res.Diverged = s.Diverged
	res.Log = s.Log
	s.mu.Unlock()

	return res
}

func (s *Sched) enabledLocked(t *Thread) bool {
	if t.state != stParked {
		return false
	}
	if t.pend.isIdle {
		return false // handled separately
	}
	if t.pend.ready != nil {
		return t.pend.ready()
	}

	return true
}

func (s *Sched) loop(res *Result) {
	for step := 0; ; step++ {
		synctest.Wait()
		s.mu.Lock()
		if step >= s.MaxSteps {
			s.Livelock = true
			s.Violations = append(s.Violations, fmt.Sprintf("livelock:step-limit-%d", s.MaxSteps))
			s.mu.Unlock()

			return
		}
		var cands []*Thread
		var idle []*Thread
		for _, t := range s.threads {
			if t.state == stParked && t.pend.isIdle {
				if s.IdleTies && !t.pend.until.After(time.Now()) {
					cands = append(cands, t) // its instant has come

					continue
				}
				idle = append(idle, t)

				continue
			}
			if s.enabledLocked(t) {
				cands = append(cands, t)
			}
		}
		sort.Slice(cands, func(i, j int) bool { return cands[i].order < cands[j].order })
		runningEnabled := false
		if s.running != nil {
			for i, t := range cands {
				if t == s.running {
					copy(cands[1:i+1], cands[:i])
					cands[0] = t
					runningEnabled = true

					break
				}
			}
		}
		// clock choices
		type choice struct {
			t     *Thread
			clock time.Duration
			label string
			aux   int
		}
		var menu []choice
		for _, t := range cands {
			if t.pend.aux > 1 {
				for a := 0; a < t.pend.aux; a++ {
					menu = append(menu, choice{t: t, aux: a, label: fmt.Sprintf("%s:%s:%s#%d", t.Name, t.pend.kind, t.pend.obj, a)})
				}

				continue
			}
			menu = append(menu, choice{t: t, label: fmt.Sprintf("%s:%s:%s", t.Name, t.pend.kind, t.pend.obj)})
		}
		now := time.Now()
		nt, haveTimer := s.nextTimer()
		if haveTimer && !nt.After(now) {
			haveTimer = false // due timers fire by themselves at the next Wait
		}
		if haveTimer && len(cands) > 0 && s.FireSlack > 0 && nt.Sub(now) <= s.FireSlack {
			menu = append(menu, choice{clock: nt.Sub(now), label: "clock:fire-next-timer"})
		}
		if len(cands) == 0 && len(idle) > 0 {
			sort.Slice(idle, func(i, j int) bool { return idle[i].order < idle[j].order })
			best := idle[0]
			for _, t := range idle {
				if t.pend.until.Before(best.pend.until) {
					best = t
				}
			}
			if haveTimer && nt.Before(best.pend.until) {
				// a timer is due before the sleeper wakes: move the clock there first
				menu = append(menu, choice{clock: nt.Sub(now), label: "clock:timer-before-sleeper"})
			} else if s.IdleTies {
				// move the clock only: every sleeper due at that instant is enabled at the next step
				menu = append(menu, choice{clock: best.pend.until.Sub(now), label: "clock:to-next-sleeper"})
			} else {
				d := best.pend.until.Sub(now)
				if d < 0 {
					d = 0
				}
				menu = append(menu, choice{t: best, clock: d, label: fmt.Sprintf("%s:idle-sleep:%s", best.Name, best.pend.obj)})
			}
		} else if len(cands) == 0 && haveTimer && s.IdleFire > 0 && nt.Sub(now) <= s.IdleFire {
			menu = append(menu, choice{clock: nt.Sub(now), label: "clock:idle-fire-next-timer"})
		}
		if len(menu) == 0 {
			res.Quiescent = true
			// deadlock diagnosis
			for _, t := range s.threads {
				if t.state == stParked && (t.pend.kind == "lock" || t.pend.kind == "rlock" || t.pend.kind == "lock-acquire") {
					holder := ""
					if l := t.pend.lock; l != nil {
						switch {
						case l.writer != nil:
							holder = fmt.Sprintf(" [write-held by %s since %s]", l.writer.Name, l.site)
						case l.writerUnmgd:
							holder = " [write-held by an unmanaged goroutine since " + l.site + "]"
						case len(l.readers) > 0 || l.readersUnmgd > 0:
							holder = fmt.Sprintf(" [read-held by %d thread(s), %d unmanaged]", len(l.readers), l.readersUnmgd)
						case l.pendingW > 0:
							holder = fmt.Sprintf(" [%d pending writer(s)]", l.pendingW)
						}
					}
					res.StuckLocks = append(res.StuckLocks, fmt.Sprintf("%s waits %s %s%s", t.Name, t.pend.kind, t.pend.obj, holder))
				}
			}
			s.mu.Unlock()

			return
		}
		idx := 0
		if step < len(s.prefix) {
			idx = s.prefix[step]
			if idx >= len(menu) {
				s.Diverged = fmt.Sprintf("step %d: prefix choice %d but only %d enabled: %v", step, idx, len(menu), labels(menu))
				s.mu.Unlock()

				return
			}
		}
		st := Step{Chosen: idx, RunningEnabled: runningEnabled}
		for _, m := range menu {
			st.Enabled = append(st.Enabled, m.label)
		}
		s.Steps = append(s.Steps, st)
		ch := menu[idx]
		if s.LogOn {
			s.Log = append(s.Log, fmt.Sprintf("%3d %v -> %s", step, st.Enabled, ch.label))
		}
		if ch.t == nil {
			// pure clock move
			s.mu.Unlock()
			time.Sleep(ch.clock)

			continue
		}
		if ch.clock > 0 {
			// idle sleeper: advance, then let it continue
			s.mu.Unlock()
			time.Sleep(ch.clock)
			synctest.Wait()
			s.mu.Lock()
		}
		ch.t.state = stRunning
		ch.t.auxPick = ch.aux
		s.running = ch.t
		s.mu.Unlock()
		ch.t.wake <- struct{}{}
	}
}

func labels[T any](m []T) string { return fmt.Sprint(len(m)) }

// SelectFirst is called by rewritten blocking selects with k cases: it returns
// the index of the case to try first (then (i+1)%k, ...). The explorer
// enumerates the k answers like scheduling alternatives.
func SelectFirst(k int) int {
	s := Current()
	if s == nil {
		return 0
	}
	t := s.me()
	if t == nil {
		return 0
	}
	s.park(t, pending{kind: "select", obj: site(2), aux: k})

	return t.auxPick
}

// MapDesc makes Ordered iterate in descending key order (harness variant).
var MapDesc bool

// Ordered replaces ranging over a map: keys ascend (or descend) by their
// printed form, so iteration order is owned by the harness instead of the runtime.
func Ordered[M ~map[K]V, K comparable, V any](m M) func(yield func(K, V) bool) {
	return func(yield func(K, V) bool) {
		type kv struct {
			s string
			k K
		}
		keys := make([]kv, 0, len(m))
		for k := range m {
			keys = append(keys, kv{fmt.Sprint(k), k})
		}
		sort.Slice(keys, func(i, j int) bool {
			if MapDesc {
				return keys[i].s > keys[j].s
			}

			return keys[i].s < keys[j].s
		})
		for _, e := range keys {
			v, ok := m[e.k]
			if !ok {
				continue // deleted during iteration, as with a real map
			}
			if !yield(e.k, v) {
				return
			}
		}
	}
}

// Parked lists "name(kind:obj)" of every thread that is parked right now.
func (s *Sched) Parked() []string {
	s.mu.Lock()
	defer s.mu.Unlock()
	var out []string
	for _, t := range s.threads {
		if t.state == stParked {
			out = append(out, fmt.Sprintf("%s(%s:%s)", t.Name, t.pend.kind, t.pend.obj))
		}
	}

	return out
}

// Unfinished lists threads that are neither done nor parked (blocked in a real
// channel operation or similar).
func (s *Sched) Unfinished() []string {
	s.mu.Lock()
	defer s.mu.Unlock()
	var out []string
	for _, t := range s.threads {
		if t.state == stRunning || t.state == stNew {
			out = append(out, t.Name)
		}
	}

	return out
}
