package vsched

import "fmt"

// Lock operations of the shim mutexes. State changes happen only in the thread
// that has just been granted (everything else is parked), or on an unmanaged
// goroutine (harness root) while all threads are parked.

func (l *LockState) freeForWriter() bool {
	return l.writer == nil && !l.writerUnmgd && len(l.readers) == 0 && l.readersUnmgd == 0 && len(l.grantedR) == 0
}

// freeForReaderT: like freeForReader, but a reader the last unlocking writer has woken is not held back by a
// writer that queued up behind that writer.
func (l *LockState) freeForReaderT(t *Thread, wpref bool) bool {
	if l.writer != nil || l.writerUnmgd {
		return false
	}
	if l.grantedR[t] {
		return true
	}

	return !wpref || l.pendingW == 0
}

func (l *LockState) freeForReader(wpref bool) bool {
	if l.writer != nil || l.writerUnmgd {
		return false
	}

	return !wpref || l.pendingW == 0
}

// LockW acquires for writing.
func LockW(l *LockState, where string) {
	s := Current()
	if s == nil || s.isAborting() {
		return
	}
	var t *Thread
	if s != nil {
		t = s.me()
	}
	if t == nil {
		if !l.freeForWriter() {
			panic(fmt.Sprintf("vsched: unmanaged goroutine would block on Lock at %s (held since %s)", where, l.site))
		}
		l.writerUnmgd = true
		l.site = where

		return
	}
	if s.WritePref {
		s.park(t, pending{kind: "lock", obj: where})
		s.mu.Lock()
		l.pendingW++
		s.mu.Unlock()
		s.park(t, pending{kind: "lock-acquire", obj: where, ready: l.freeForWriter, lock: l})
		s.mu.Lock()
		l.pendingW--
	} else {
		s.park(t, pending{kind: "lock", obj: where, ready: l.freeForWriter, lock: l})
		s.mu.Lock()
	}
	if !l.freeForWriter() {
		s.mu.Unlock()
		panic("vsched: granted Lock on a busy mutex at " + where)
	}
	l.writer = t
	l.site = where
	t.held[l] = where
	s.mu.Unlock()
}

// UnlockW releases a write lock.
func UnlockW(l *LockState, where string) {
	s := Current()
	if s == nil || s.isAborting() {
		return
	}
	if l.writerUnmgd {
		l.writerUnmgd = false

		return
	}
	if l.writer == nil {
		if s != nil {
			Fail("unlock-of-unlocked:" + where)

			return
		}
		panic("vsync: unlock of unlocked mutex at " + where)
	}
	s.mu.Lock()
	delete(l.writer.held, l)
	l.writer = nil
	// the readers waiting now are released together, ahead of any writer that waits as well
	for _, o := range s.threads {
		if o.pend.lock == l && o.pend.kind == "rlock" && o.state == stParked {
			if l.grantedR == nil {
				l.grantedR = map[*Thread]bool{}
			}
			l.grantedR[o] = true
		}
	}
	s.mu.Unlock()
}

// TryLockW tries to acquire for writing.
func TryLockW(l *LockState, where string) bool {
	s := Current()
	if s == nil || s.isAborting() {
		return true
	}
	var t *Thread
	if s != nil {
		t = s.me()
	}
	if t == nil {
		if !l.freeForWriter() {
			return false
		}
		l.writerUnmgd = true

		return true
	}
	s.park(t, pending{kind: "trylock", obj: where})
	s.mu.Lock()
	defer s.mu.Unlock()
	if !l.freeForWriter() {
		return false
	}
	l.writer = t
	l.site = where
	t.held[l] = where

	return true
}

// LockR acquires for reading.
func LockR(l *LockState, where string) {
	s := Current()
	if s == nil || s.isAborting() {
		return
	}
	var t *Thread
	if s != nil {
		t = s.me()
	}
	if t == nil {
		if !l.freeForReader(false) {
			panic("vsched: unmanaged goroutine would block on RLock at " + where)
		}
		l.readersUnmgd++

		return
	}
	wp := s.WritePref
	s.park(t, pending{kind: "rlock", obj: where, ready: func() bool { return l.freeForReaderT(t, wp) }, lock: l})
	s.mu.Lock()
	delete(l.grantedR, t)
	if l.readers == nil {
		l.readers = map[*Thread]int{}
	}
	l.readers[t]++
	t.held[l] = where
	s.mu.Unlock()
}

// UnlockR releases a read lock.
func UnlockR(l *LockState, where string) {
	s := Current()
	if s == nil || s.isAborting() {
		return
	}
	var t *Thread
	if s != nil {
		t = s.me()
	}
	if t == nil {
		if l.readersUnmgd > 0 {
			l.readersUnmgd--

			return
		}
	}
	if s == nil {
		panic("vsync: RUnlock without scheduler at " + where)
	}
	s.mu.Lock()
	defer s.mu.Unlock()
	// release this thread's read hold, or (Go allows it) somebody else's
	if t != nil && l.readers[t] > 0 {
		l.readers[t]--
		if l.readers[t] == 0 {
			delete(l.readers, t)
			delete(t.held, l)
		}

		return
	}
	for o, n := range l.readers {
		if n > 0 {
			l.readers[o]--
			if l.readers[o] == 0 {
				delete(l.readers, o)
				delete(o.held, l)
			}

			return
		}
	}
	s.Violations = append(s.Violations, "unlock-of-unlocked:"+where)
}

// TryLockR tries to acquire for reading.
func TryLockR(l *LockState, where string) bool {
	s := Current()
	if s == nil || s.isAborting() {
		return true
	}
	var t *Thread
	if s != nil {
		t = s.me()
	}
	if t == nil {
		if !l.freeForReader(false) {
			return false
		}
		l.readersUnmgd++

		return true
	}
	s.park(t, pending{kind: "tryrlock", obj: where})
	s.mu.Lock()
	defer s.mu.Unlock()
	if !l.freeForReader(s.WritePref) {
		return false
	}
	if l.readers == nil {
		l.readers = map[*Thread]int{}
	}
	l.readers[t]++
	t.held[l] = where

	return true
}

func (s *Sched) isAborting() bool {
	s.mu.Lock()
	defer s.mu.Unlock()

	return s.aborting
}
