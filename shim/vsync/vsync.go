// Package vsync replaces "sync" in instrumented pion/turn sources: Mutex and
// RWMutex live in the controlled scheduler (never block for real); the rest
// passes through.
package vsync

import (
	"fmt"
	"runtime"
	"strings"
	"sync"

	"github.com/pion/turn/v5/verif/shim/vsched"
)

type (
	WaitGroup = sync.WaitGroup
	Once      = sync.Once
	Pool      = sync.Pool
	Map       = sync.Map
	Locker    = sync.Locker
	Cond      = sync.Cond
)

// NewCond passes through.
func NewCond(l Locker) *Cond { return sync.NewCond(l) }

// OnceFunc etc. pass through.
func OnceFunc(f func()) func() { return sync.OnceFunc(f) }

func site() string {
	_, file, line, ok := runtime.Caller(2)
	if !ok {
		return "?"
	}
	if i := strings.LastIndex(file, "/"); i >= 0 {
		file = file[i+1:]
	}

	return fmt.Sprintf("%s:%d", file, line)
}

// Mutex replaces sync.Mutex.
type Mutex struct{ st vsched.LockState }

func (m *Mutex) Lock()         { vsched.LockW(&m.st, site()) }
func (m *Mutex) Unlock()       { vsched.UnlockW(&m.st, site()) }
func (m *Mutex) TryLock() bool { return vsched.TryLockW(&m.st, site()) }

// RWMutex replaces sync.RWMutex.
type RWMutex struct{ st vsched.LockState }

func (m *RWMutex) Lock()          { vsched.LockW(&m.st, site()) }
func (m *RWMutex) Unlock()        { vsched.UnlockW(&m.st, site()) }
func (m *RWMutex) RLock()         { vsched.LockR(&m.st, site()) }
func (m *RWMutex) RUnlock()       { vsched.UnlockR(&m.st, site()) }
func (m *RWMutex) TryLock() bool  { return vsched.TryLockW(&m.st, site()) }
func (m *RWMutex) TryRLock() bool { return vsched.TryLockR(&m.st, site()) }
func (m *RWMutex) RLocker() Locker { return rlocker{m} }

type rlocker struct{ m *RWMutex }

func (r rlocker) Lock()   { r.m.RLock() }
func (r rlocker) Unlock() { r.m.RUnlock() }
