"""Registry of checks: property -> level, rule text, parts (test binaries + shards)."""

def A(name, pkg, test, **kw):
    d = {"name": name, "pkg": pkg, "test": test}
    d.update(kw)
    return d

CHECKS = {
    "C06": {
        "level": "model_checking",
        "rule": "Engine A: every event sequence (depth 4 quick / 5 thorough) over {Allocate with LIFETIME in a boundary set, Allocate refused by the relay address generator / the quota handler, "
                "Refresh with LIFETIME in a boundary set, Refresh refused for a mismatching REQUESTED-ADDRESS-FAMILY (LIFETIME 0 and 3000), CreatePermission, ChannelBind, clock advance to next deadline -/+ 1ns, -/+ 1s, by 31s} "
                "x 3 configured default lifetimes on the real turn.Server in virtual time; after every event the response, "
                "Server.AllocationCount and a full probe sweep are compared with the reference model; then a drain through every "
                "remaining deadline. Part sched (Engine B, <= 2/3 preemptions): Refresh 0 followed at once by a new Allocate on the same 5-tuple while the first allocation's relay read loop / "
                "lifetime timer are still winding down: the second allocation still answers a Refresh afterwards and is the one allocation the server counts. "
                "A class is (event class => response); a state is the canonical model key.",
        "parts": [A("vtx", "./checks/c06", "TestC06", budget={"quick": 150, "thorough": 1500}),
              A("bfs", "./checks/c06", "TestC06BFS", tiers=["thorough"], budget={"thorough": 1500}),
              A("sched", "./checks/bsem", "TestC06Sched", overlay=True, gomaxprocs=1, budget={"quick": 90, "thorough": 900})],
    },
}

CHECKS["C07"] = {
    "level": "model_checking",
    "rule": "Engine A: every event sequence (depth 5 quick / 6 thorough, after Allocate) over {CreatePermission [A],[B],[A,B],[A,V6-wrong-family],[A2 = other port of A's host], "
            "ChannelBind (n1,A),(n2,B),(n1,B),(n2,A),(n2,A2), Refresh of the allocation, clock advance to next deadline -/+1ns, -/+1s, by min-timeout/2} x 3 (permission,channel) timeout "
            "configurations on the real turn.Server in virtual time; after every event the response and a probe sweep in both directions "
            "(3 peers incl. same-IP-other-port, 2 channel numbers) are compared with the reference model whose entries live exactly one timeout "
            "past the last successful install/refresh; then a drain through every remaining deadline at -1ns/+1ns. Part sched (Engine B, <= 2/3 preemptions): a CreatePermission / ChannelBind that refreshes an existing entry 1 ns before its timer fires, callbacks yielding: if it is answered with success, data sent half a timeout later is relayed.",
    "parts": [A("vtx", "./checks/c07", "TestC07", budget={"quick": 180, "thorough": 1500}),
              A("bfs", "./checks/c07", "TestC07BFS", tiers=["thorough"], budget={"thorough": 1500}),
              A("sched", "./checks/bsem", "TestC07Sched", overlay=True, gomaxprocs=1, budget={"quick": 90, "thorough": 900})],
}

SWEEP = ("after every event the response, Server.AllocationCount and a probe sweep (one Send indication per client x peer, one ChannelData per "
         "client x channel number, one datagram per peer x relay address incl. relay addresses of deleted allocations) are compared with the reference "
         "model: the complete delivery log must equal the prediction; then a drain through every remaining deadline at -1ns/+1ns. ")
CHECKS["C01"] = {
    "level": "model_checking",
    "rule": "Engine A: every event sequence (depth 4 quick / 5 thorough) over {Allocate c1 (IPv4 | IPv6), Allocate c2, Refresh0, CreatePermission [A],[B],[A,B],[V6], "
            "ChannelBind (n1,A),(n1,B),(n2,V6),(n2,A'), c2: CreatePermission [A], ChannelBind (n1,B), clock to next deadline -/+1ns, by 7s} x operator policies "
            "{allow, deny-IP(B), deny-all} x timeout configurations, on the real turn.Server in virtual time; " + SWEEP +
            "C01 judges: datagrams arriving at peers that the model does not authorise (wrong source included) and permissions/bindings accepted against policy or address family. "
            "Part connect: two TCP allocations on a stream listener x policies {deny-B, deny-all, allow}, depth 3/4 over Connect A/B, CreatePermission, inbound peer connections, ConnectionBind, Refresh0: a refused Connect target is answered with an error and never dialled.",
    "parts": [A("vtx", "./checks/c01", "TestC01", budget={"quick": 150, "thorough": 1500}),
              A("bfs", "./checks/c01", "TestC01BFS", tiers=["thorough"], budget={"thorough": 1500}),
              A("connect", "./checks/c01", "TestC01Connect", budget={"quick": 60, "thorough": 900}),
              A("dual", "./checks/c01", "TestC01Dual", budget={"quick": 60, "thorough": 900})],
}
CHECKS["C02"] = {
    "level": "model_checking",
    "rule": "Engine A: same state space as C01 (two clients, peers A, A' (same IP other port), B (other IP same port), V6; three policies; timeout configurations); " + SWEEP +
            "C02 judges: anything a client receives because of a peer datagram that the model does not authorise (unpermitted sender, wrong client, wrong encapsulation/attribution).",
    "parts": [A("vtx", "./checks/c02", "TestC02", budget={"quick": 150, "thorough": 1500}),
              A("bfs", "./checks/c02", "TestC02BFS", tiers=["thorough"], budget={"thorough": 1500}),
              A("lookalikes", "./checks/c02", "TestC02Lookalikes", budget={"quick": 60, "thorough": 600}),
              A("sched", "./checks/bsem", "TestC02Sched", overlay=True, gomaxprocs=1, budget={"quick": 90, "thorough": 1500})],
}
CHECKS["C04"] = {
    "level": "model_checking",
    "rule": "Engine A: every interleaving (event sequences, depth 4 quick / 5 thorough) of three clients c1=(10.0.0.2:4000,u1), c2=(same IP other port,u2), c3=(other IP,u1) "
            "each doing {Allocate with one shared transaction id, Refresh0, CreatePermission [A], ChannelBind (n1,A),(n1,B)} plus clock advances around deadlines, "
            "2 timeout configurations; " + SWEEP + "The reference model is keyed by client 5-tuple, so any cross-allocation effect is a disagreement. "
            "Part vtx also offers a Refresh 0 of c1 whose relay socket refuses to close (once): the allocation is gone, the next one on the 5-tuple inherits nothing and the first relayed address relays to nobody. Part family: clients 10.0.0.2:4000, [::10.0.0.2]:4000 (same port, IPv4-compatible IPv6 form) and 10.0.0.2:4001. Part tcp: two TCP allocations of different users on one stream listener reusing "
            "peers for Connect / inbound connections / ConnectionBind (own and the other client's connection ids). "
            "Part dual: one server with a UDP socket and a stream listener on the same ip:port sharing one relay address generator object; clients c1 (UDP) and c1t (stream) with the same ip:port and user, "
            "c2t (stream): Allocate, Refresh0, CreatePermission, ChannelBind, closing a control connection, clock. "
            "Part realudp: the same kind of history enumeration (depth 3 quick / 4 thorough, clients c1,c2,c3; Allocate, Refresh0, CreatePermission, ChannelBind) against the real server on kernel loopback "
            "sockets (*net.UDPConn, bundled static generator), strictly sequential, sweep after every history; an unexpected delivery is a violation at once, a missing one only after three probes of 5 s, "
            "an unanswered request makes the history inconclusive (exhaustive=false).",
    "parts": [A("vtx", "./checks/c04", "TestC04", budget={"quick": 90, "thorough": 1500}),
              A("family", "./checks/c04", "TestC04Family", budget={"quick": 60, "thorough": 900}),
              A("tcp", "./checks/c04", "TestC04TCP", budget={"quick": 90, "thorough": 1500}),
              A("dual", "./checks/c04", "TestC04Dual", budget={"quick": 90, "thorough": 1500}),
              A("multihomed", "./checks/c04", "TestC04Multihomed", budget={"quick": 60, "thorough": 900}),
              A("realudp", "./checks/c04", "TestC04RealUDP", budget={"quick": 120, "thorough": 1500}),
              A("sched", "./checks/bsem", "TestC04Sched", overlay=True, gomaxprocs=1, budget={"quick": 90, "thorough": 1500})],
}
CHECKS["C08"] = {
    "level": "model_checking",
    "rule": "Engine A: every sequence (depth 3 quick / 4 thorough, after two Allocates) of ChannelBind over numbers {0x4000,0x4001,0x7FFF,0x3FFF,0x8000,0,0xFFFF} x peers {A, A' (port differs), B}, "
            "second client binds, clock advances around expiry; " + SWEEP + "Plus: all 65536 channel numbers bound on a fresh allocation, each followed by a sweep. "
            "Model: accepted iff number in [0x4000,0x7FFF]; conflicts get 400 and change nothing; identical re-bind refreshes.",
    "parts": [A("vtx", "./checks/c08", "TestC08", budget={"quick": 150, "thorough": 1500}),
              A("bfs", "./checks/c08", "TestC08BFS", tiers=["thorough"], budget={"thorough": 1500}),
              A("all-numbers", "./checks/c08", "TestC08AllNumbers", budget={"quick": 60, "thorough": 300})],
}

CHECKS["C19"] = {
    "level": "model_checking",
    "rule": "Engine A: every request sequence (depth 2 quick, plus every depth-3 sequence that starts with a plain Allocate of the first client / depth 3 thorough) over a vocabulary of 38 request forms (Binding; Allocate plain / retransmitted / "
            "missing or malformed REQUESTED-TRANSPORT / unsupported protocol / DONT-FRAGMENT / RESERVATION-TOKEN+EVEN-PORT / unknown token / bad and malformed "
            "REQUESTED-ADDRESS-FAMILY / family+token / EVEN-PORT / family 4 / family 6 / unknown comprehension-required attribute / LIFETIME 0; Refresh plain / unknown-required / "
            "family mismatch; CreatePermission with and without peer; ChannelBind missing number / peer / unknown-required; Connect on a UDP allocation; transaction ids "
            "all-zero, all-0xFF, shared between clients, fresh) x clients x 5 worlds (IPv4, IPv4 strict, IPv4-mapped source address, IPv6 listener, IPv6 strict) on the real "
            "turn.Server; oracle on every datagram the server writes (destination = requester, id and method equal, at most one), Binding/Allocate truthfulness "
            "(mapped address, relay uniqueness, family, lifetime, even port), retransmission idempotence (same relay+lifetime, no socket created, count unchanged), 437/420 where named, "
            "and after every request AllocationCount, open relay sockets and a reachability probe sweep against the reference model. "
            "Part realudp: every request sequence (depth 3 quick / 4 thorough) of {Binding, Allocate, the same Allocate retransmitted, Refresh 0, CreatePermission} over three clients against the real server on "
            "kernel loopback sockets (*net.UDPConn): answer only at the requester, mapped address = the socket's, relayed address unique and really reachable (sweep), retransmission gets identical attributes; "
            "strictly sequential, unexpected arrivals are violations at once, missing ones after three 5 s probes, unanswered fence => inconclusive. "
            "Part lost-response: the write of the Allocate success response fails once (ENOBUFS) for {plain, EVEN-PORT, LIFETIME 1200}: retransmissions 1..3 get the same success, nothing is created, another Allocate gets 437. Part sched (Engine B): an Allocate retransmitted while the first copy is still inside a slow relay-address generator creates nothing (one allocation, one relay socket, one relayed address answered), all interleavings up to the preemption bound. Over a stream listener, a Binding request of a second connection served while the first connection's Allocate sits in a slow, then failing generator: the 508 still carries the transaction id of the Allocate. "
            "A class is (world, form, state) -> (class, code).",
    "parts": [A("vtx", "./checks/c19", "TestC19", budget={"quick": 90, "thorough": 1500}),
              A("realudp", "./checks/c19", "TestC19RealUDP", budget={"quick": 120, "thorough": 1500}),
              A("lost-response", "./checks/c19", "TestC19LostResponse", budget={"quick": 30, "thorough": 30}),
              A("sched", "./checks/bsem", "TestC19Sched", overlay=True, gomaxprocs=1, budget={"quick": 90, "thorough": 900})],
}

CHECKS["C18"] = {
    "level": "model_checking",
    "engine": "sched",
    "technique": "stateless model checking of the implementation: preemption-bounded exhaustive schedule enumeration (iterative context bounding) under a controlled scheduler, plus exhaustive control-flow path enumeration for lock balance",
    "rule": "Engine B: the repository sources are rewritten at check time (go build -overlay) so that every mutex, atomic, channel, timer, socket and goroutine-spawn "
            "operation is a scheduling point; for each closed scenario (S1 CreatePermission vs lifetime timer, S2 ChannelBind vs lifetime timer, S3 Refresh vs lifetime timer + re-Allocate, "
            "S4 peer datagram vs Refresh0, S5 permission refresh vs permission timer, S6 channel refresh vs channel timer, S7 Connect/duplicate Connect/Refresh on a TCP allocation, "
            "S8 Server.Close vs request vs peer datagram, S10 two stream clients on one manager, S11 inbound peer connection to a TCP allocation vs Refresh 0, S12 Server.Close vs Allocate of a stream client with yielding callbacks, S13 a stream client with a bound channel stops reading (the server's writes to it block, simnet models the full window) while its peer sends, then its allocation ends: the other client of the listener is still served, S14 a permission's expiry (callback yielding) vs ChannelBinds for new channels on that allocation, S15 Server.Close while a Connect is still dialling its peer; client side: K1 PerformTransaction vs response vs retransmission timer vs Close, K1b two transactions with crossed responses, K6 Close vs the start of a transaction, K7 response as fast as the first write, K8 two concurrent closers of the relayed socket, K9 Client.CreatePermission vs closing the relayed socket, K10 two writers to one bound peer, K12 response at the final time-out of a transaction, K11 ReadFrom reporting a timeout vs SetReadDeadline, "
            "K2 two WriteTo on one new peer, K3 relayed-socket Close vs WriteTo vs inbound Data indication, K5 ReadFrom vs inbound vs Close, against a scripted TURN server thread; lifecycle callbacks yield) ALL schedules with at most 2 (thorough 3) preemptions are executed "
            "on the real code by prefix replay; timers whose deadline is within 1ms may fire at any point. Verdicts: panic in any thread, deadlock, lock held when its holder exits, "
            "unlock of unlocked mutex, harness thread that must complete but never does. A class is (scenario => sorted verdict set). "
            "Plus lockpaths: a model extracted mechanically from the sources at check time - every control-flow path (each if/switch/select arm, loops taken 0 and 1 times with a state-preservation check on the back edge, "
            "every return / break / continue / panic) of every function and function literal that calls Lock/RLock on a sync.Mutex/RWMutex, abstract state = multiset of held lock expressions + deferred unlocks; every exit "
            "must have held minus deferred = empty; also re-lock of a held mutex and unlock of an unheld one. Data races themselves are NOT decided by this family (see DESIGN section 7).",
    "parts": [A("sched", "./checks/c18", "TestC18Sched", overlay=True, gomaxprocs=1, budget={"quick": 200, "thorough": 2400}),
              A("client-sched", "./checks/bsem", "TestC18Client", overlay=True, gomaxprocs=1, budget={"quick": 120, "thorough": 2400}),
              A("lockpaths", "./checks/c18", "TestC18LockPaths", nshards=1, budget={"quick": 60, "thorough": 60}),
              A("race", "./checks/c18", "TestC18Race", race=True, sampling=True, budget={"quick": 90, "thorough": 900})],
}

CHECKS["C10"] = {
    "level": "exploration",
    "engine": "enum",
    "technique": "bounded-exhaustive enumeration of frame sequences and of ALL segmentations of the byte stream (every cut, every pair of cuts, all 2^(n-1) splits for short streams) against an independent reference framer",
    "rule": "Engine C: real proto.STUNConn over a scripted net.Conn (one segment per Read, would-block sentinel when drained); frame alphabet: STUN bodies 0,4,8,12,65512,65516,65532; ChannelData payloads "
            "0,1,2,3,4,5,7,8,65531..65535 on numbers 0x4000,0x4ABC,0x7FFF; ChannelData payloads beginning with the magic cookie; five invalid 24-byte tails; every sequence of <=2 (thorough <=3) small frames, "
            "every small frame + invalid tail, every large frame alone and paired; segmentations: whole, byte-at-a-time, every single cut, every pair of cuts, and ALL 2^(n-1) segmentations for n<=16 (20 for single frames; "
            "thorough 20/24); read buffers 1600 and 65536; oracle wire.FrameLen: after each delivered segment exactly the frames completed so far have been returned, byte-identical, in order, one per call, n>=1, "
            "an invalid start yields an error, and a cap on results detects zero-length loops. TCPAllocation.BindConnection on a scripted conn: 6 replies x 3 trailers x whole/byte-at-a-time/every single and double cut "
            "(thorough triple): verdict independent of segmentation and trailing application bytes left unread. A class is (frame reference classes x segmentation kind x read buffer) or (reply x trailer x segmentation kind). Every (stream, segmentation, buffer) case is also run with the two other legal io.Reader behaviours of the underlying connection: the final bytes returned together with io.EOF (crypto/tls before a close_notify) - no frame may be lost - "
            "and 8 empty (0, nil) reads before every data read (pion/dtls empty records; short streams) - same frames, and the call stack must not grow with the number of empty reads. Part twobinds: two ConnectionBind transactions of one TCP allocation in flight: the first reply cut at every offset, the second bind (other reply kind) run completely between the two segments; each verdict is that of its own reply.",
    "parts": [A("framer", "./checks/c10", "TestC10Framer", budget={"quick": 150, "thorough": 900}),
              A("bindreply", "./checks/c10", "TestC10BindReply", budget={"quick": 30, "thorough": 60}),
              A("twobinds", "./checks/c10", "TestC10TwoBinds", nshards=1, budget={"quick": 30, "thorough": 60})],
}
CHECKS["C11"] = {
    "level": "exploration",
    "engine": "enum",
    "technique": "bounded-exhaustive input enumeration of the real codec functions against an independent RFC reference (all 2^32 headers / attribute values in the thorough tier)",
    "rule": "Engine C: (ChannelData) Encode->Decode for all 65536 numbers x payload lengths {0..64,1596..1604,65528..65535} and all lengths 0..65535 x 8 boundary numbers x 6 content patterns "
            "(zeros, ff, counter, magic-cookie-, ChannelData-header-, STUN-header-prefixed): header fields, zero padding, round trip, in-place re-encode; (Headers) Decode and IsChannelData on "
            "all numbers x boundary declared lengths and all declared lengths x boundary numbers (thorough: ALL 2^32 headers) x every relation between declared and actual length against the reference "
            "valid <=> len>=4 and 0x4000<=number<=0x7FFF and declared<=len-4, result must be exactly buf[4:4+declared]; (Attrs) each of the 11 TURN attributes: raw values of every length 0..64 x "
            "content alphabet must error unless right-sized (REQUESTED-ADDRESS-FAMILY: also unless the code is 0x01 or 0x02, the only values of that attribute), right-sized values decode to what the RFC layout denotes; typed AddTo->GetFrom round trips over the value domains (all channel numbers, "
            "protocols, families; thorough: all 2^32 lifetimes, connection ids and raw 4-byte values); XOR-PEER/RELAYED-ADDRESS: all ports x IP patterns x transaction ids and raw values of all "
            "families x lengths 0..64 against an independent XOR decoder. A class is a reference-classified input shape x decoder outcome.",
    "parts": [A("chandata", "./checks/c11", "TestC11ChannelData", gomaxprocs=2, budget={"quick": 60, "thorough": 300}),
              A("headers", "./checks/c11", "TestC11Headers", gomaxprocs=2, budget={"quick": 60, "thorough": 600}),
              A("attrs", "./checks/c11", "TestC11Attrs", gomaxprocs=2, budget={"quick": 60, "thorough": 60}),
              A("attrs32", "./checks/c11", "TestC11Attrs32", gomaxprocs=2, budget={"quick": 60, "thorough": 900}),
              A("xoraddr", "./checks/c11", "TestC11XorAddrs", gomaxprocs=2, budget={"quick": 60, "thorough": 1200})],
}

CHECKS["C17"] = {
    "level": "exploration",
    "engine": "enum",
    "technique": "bounded-exhaustive enumeration of configurations, instants (virtual clock) and single-character mutations against an independent reference of the REST credential scheme",
    "rule": "Engine C in synctest bubbles (virtual clock, exact to the ns): every (secret in {'', 's', 32 B}) x (user in {'', 'u', 'a:b', non-ASCII}; none for the plain generator) x (realm in {'', 'R.Example' (mixed case), 'pion.ly', 127 and 280 bytes}) "
            "x 14 durations (negative, zero, sub-second, 1 s .. 100 d, stamps > 2^31) x generation phase {.000,.500,.999} x both generator/handler pairs; generator output compared with a reference written from "
            "draft-uberti-behave-turn-rest (HMAC-SHA1/base64); handler called at every second boundary +-1 ms in [stamp-3, stamp+4] (thorough +-30 s): ok <=> now.Unix() <= stamp, key = MD5(user:realm:pass), "
            "and a wire-built Allocate signed with the generated password verifies under the returned key; every single-rune substitution/deletion/insertion over {0,9,:,+,-,a,space} of username, password and both; "
            "passwords of other secrets / usernames never authenticate; end to end through a real turn.Server on simnet at 7 instants around expiry plus forged requests. "
            "The handler verdict is taken for every request method (Allocate, Refresh, CreatePermission, ChannelBind, Connect, ConnectionBind). Part concurrent is a sampling side condition, not a deciding step: 8 free-running goroutines share one handler under -race. "
            "A class is (pair kind, duration class, instant relative to the stamp, outcome) or (mutation kind, username shape, outcome).",
    "parts": [A("handlers", "./checks/c17", "TestC17Handlers", budget={"quick": 60, "thorough": 300}),
              A("mutations", "./checks/c17", "TestC17Mutations", budget={"quick": 60, "thorough": 300}),
              A("e2e", "./checks/c17", "TestC17EndToEnd", budget={"quick": 60, "thorough": 300}),
              A("stamps", "./checks/c17", "TestC17Stamps", budget={"quick": 60, "thorough": 120}),
              A("concurrent", "./checks/c17", "TestC17Concurrent", race=True, sampling=True, nshards=1, budget={"quick": 60, "thorough": 120})],
}
CHECKS["C20"] = {
    "level": "exploration",
    "engine": "enum",
    "technique": "bounded-exhaustive enumeration of generator configurations and scripted random answers, plus explicit-state search over allocate/close histories on a 3-port range",
    "rule": "Engine C: (i) port-range generator: boundary set^2 + all (Min,Max) pairs in [1,40] and [65496,65535] x every Intn answer (n<=64) or {0,1,n/2,n-2,n-1} x udp4/udp6/tcp4/tcp6 "
            "(thorough: ALL 2^31 pairs 1<=Min<=Max<=65535 x answers {0,n-1} through a recording stub transport.Net): n passed to Intn = Max-Min+1, bound port in [Min,Max], advertised port = bound port, "
            "advertised IP = RelayAddress, exactly one socket open and freed on Close; (ii) Range/Static/None generators x networks x listen address x MaxRetries x requested port {0, free, in use, bind-fail, twice}: "
            "success => requested = bound = advertised, failure => error, nothing returned, nothing new open; (iii) all histories (depth 6 quick / 7 thorough) over range [50000,50002] x MaxRetries {1,2,10} x udp/tcp of "
            "{allocate with every distinguishable Intn answer sequence, close live socket i}: open sockets = model set after every step, no port live twice, clean failure only when every answered port was busy; "
            "(v) histories over ONE generator instance: every sequence (depth 5 quick / 7 thorough) of {allocate any port, allocate requested P1, allocate requested P2, close i-th live socket} x Static/None/Range(udp) x udp4/tcp4/udp6/tcp6 x "
            "wildcard/specific listen address: fresh socket on a port no live allocation of the history holds, requested = bound = advertised, relay IP advertised, held requested port fails cleanly (udp), Close frees. "
            "A class is (net, range-size class, port position) / (generator, network, mode, outcome) / (MaxRetries, live-before, outcome, Intn calls). (vi) manager: Manager.CreateAllocation x generators x udp4/tcp4/udp6/tcp6 x listening addresses x requested port {none, six values}: the allocation's RelayAddr names the one socket that was bound, on the requested port when one was requested; a second UDP allocation requesting a held port fails cleanly; DeleteAllocation frees the port.",
    "parts": [A("range", "./checks/c20", "TestC20Range", budget={"quick": 60, "thorough": 1500}),
              A("requested", "./checks/c20", "TestC20Requested", budget={"quick": 60, "thorough": 120}, hard_timeout={"quick": 150, "thorough": 400}),
              A("filldrain", "./checks/c20", "TestC20FillDrain", budget={"quick": 60, "thorough": 900}, hard_timeout={"quick": 150, "thorough": 2000}),
              A("filldrain-top", "./checks/c20", "TestC20FillDrainTop", budget={"quick": 60, "thorough": 900}, hard_timeout={"quick": 150, "thorough": 2000}),
              A("histories", "./checks/c20", "TestC20Histories", budget={"quick": 60, "thorough": 900}, hard_timeout={"quick": 150, "thorough": 2000}),
              A("manager", "./checks/c20", "TestC20Manager", budget={"quick": 30, "thorough": 60}, hard_timeout={"quick": 150, "thorough": 400})],
}

CHECKS["C03"] = {
    "level": "exploration",
    "engine": "enum",
    "technique": "bounded-exhaustive enumeration of credential defects x methods x server states on the real server (and of nonce ages / mutations on both nonce managers) with a state-unchanged oracle from the Engine-A reference model",
    "rule": "Engine C over the Engine-A harness: complete product of method in {Allocate, Refresh, Refresh0, CreatePermission, ChannelBind new, ChannelBind re-bind, Connect, ConnectionBind} x credential defect in "
            "{no MESSAGE-INTEGRITY, no credentials at all, wrong key, each of the 160 single-bit flips of the HMAC, each truncation 0..19 of the attribute, unknown user, missing USERNAME / REALM / NONCE, "
            "empty nonce, foreign nonce, other realm, every single-character substitution / deletion / insertion of a valid nonce, valid credentials of another user on an existing 5-tuple} x server state in "
            "{no allocation, own allocation with permission and channel, other user's allocation}; oracle: never a success response, AllocationCount / relay-socket creations / full probe sweep identical to the "
            "reference model before and after, 401 resp. 438 with NONCE and REALM where the statement names them, the fresh nonce of the last challenge is then accepted and the valid request succeeds; "
            "the same defects on Connect (never dialled) and ConnectionBind (the pending connection stays bindable by its owner) over a stream listener; a server without auth handler; a nonce minted at second offset {0,1,59} "
            "presented through the real server at ages 59 min .. 3 h (accepted up to 60 min, 438 from 61 min); nonce managers (NonceHash, ShortNonceHash with every hmacLen 2..32): mint at second offsets {0,1,59}, present at ages around 60 and 61 minutes, future-dated, other instance, all single-character mutations. "
            "A class is (state, method, defect class) -> response. Part unsigned: a correctly signed request of the owner extended AFTER its MESSAGE-INTEGRITY by attributes nobody signed (peer address, LIFETIME 0, channel number; with and without FINGERPRINT): the unsigned attributes must change nothing.",
    "parts": [A("server", "./checks/c03", "TestC03Server", budget={"quick": 60, "thorough": 600}),
              A("nonce", "./checks/c03", "TestC03Nonce", budget={"quick": 60, "thorough": 600}),
              A("expiry", "./checks/c03", "TestC03Expiry", budget={"quick": 60, "thorough": 600}),
              A("noauth", "./checks/c03", "TestC03NoAuth", nshards=1, budget={"quick": 60, "thorough": 60}),
              A("two-servers", "./checks/c03", "TestC03TwoServers", nshards=1, budget={"quick": 60, "thorough": 60}),
              A("unsigned", "./checks/c03", "TestC03Unsigned", nshards=1, budget={"quick": 60, "thorough": 60}),
              A("rotation", "./checks/c03", "TestC03Rotation", nshards=2, budget={"quick": 60, "thorough": 60}),
              A("tcp", "./checks/c03", "TestC03TCP", nshards=2, budget={"quick": 60, "thorough": 60})],
}

CHECKS["C05"] = {
    "level": "exploration",
    "engine": "enum",
    "technique": "bounded-exhaustive enumeration of payload lengths x contents x paths x transports x MTU settings through the real server, with an exactly-once byte-identity oracle; preemption-bounded schedule exploration of the two writers of a stream client's connection",
    "rule": "Engine C over the Engine-A harness: payload length (quick: every length 0..1800, 8960..9010, 32760..32776, 65480..65507; thorough: EVERY length 0..65507) x path in {Send indication -> peer, ChannelData -> peer, "
            "peer -> Data indication, peer -> ChannelData} x client transport in {UDP, stream} x content in {zeros, 0xFF, counter, magic-cookie-prefixed, ChannelData-header-prefixed, STUN-header-prefixed} x "
            "InboundMTU in {1600 default, 600, 9000}, plus an IPv6 listener / client / allocation / peers for every content and transport, back-to-back pairs for lengths <= 5, on the real turn.Server over simnet (UDP read buffers truncate like a kernel does); oracle per datagram: exactly one delivery whose "
            "payload is byte-identical, whose peer attribution (XOR-PEER-ADDRESS / channel number) is the true source and whose source toward the peer is the relayed address, or no delivery at all - and no delivery only for lengths within 100 bytes of, or beyond, the smaller of InboundMTU and the 1600-byte relay buffer; never a second copy, "
            "never different bytes, nothing at any other endpoint. One transient write error (ENOBUFS) is injected in each direction before a final mandatory 10-byte probe on every path; relayed ChannelData carries zero padding. "
            "Part sched (Engine B): on a stream listener the relay loop (a ChannelData frame and a Data indication) and the connection's read loop (a Refresh response) write to one client connection in every interleaving up to the preemption bound: the client reads whole frames. "
            "A class is (transport, MTU, content, path, length class) -> relayed | dropped.",
    "parts": [A("relay", "./checks/c05", "TestC05", budget={"quick": 60, "thorough": 1500}),
              A("sched", "./checks/bsem", "TestC05Sched", overlay=True, gomaxprocs=1, budget={"quick": 60, "thorough": 600}),
              A("stalled", "./checks/c05", "TestC05Stalled", nshards=1, budget={"quick": 60, "thorough": 60})],
}

CHECKS["C09"] = {
    "level": "exploration",
    "engine": "enum",
    "technique": "structured bounded-exhaustive input enumeration against the real server / client inside virtual-time bubbles, with liveness probes, process-crash and wedge detection by the runner",
    "rule": "Engine C over the Engine-A harness (no random or mutational fuzzing): (udp) every value of the first two bytes x declared length in {0,1,2,3,4,5,7,8,19,20,21,actual-1,actual,actual+1,0x7FFF,0x8000,0xFFEB..0xFFFF} x "
            "body length in {0,4,20,1500} (thorough also 16,24,1580,1600,65487) x {magic cookie, zeros}, as UDP datagrams from a source that holds an allocation and from one that does not, plus all short datagrams; "
            "(stream) every value of the first two bytes x 12 declared lengths x {cookie, zeros} x 4 tail lengths, each on its own stream connection (closed / left open), and every proper prefix of every valid message of a "
            "10-message vocabulary, whole and byte-at-a-time; (messages) all 4096 STUN message types alone and with each of 253 attribute scripts (23 attribute types incl. unknown comprehension-required/optional x value lengths "
            "{0,1,3,4,5,8,19,20,21} + overrun-by-1 + overrun-to-0xFFFF), the 8 handled types with every ordered PAIR of scripts, each unsigned and signed with valid credentials; (client) Client.HandleInbound on the header quotient "
            "from the server address and from another address against the documented handled/error table; (client-bursts, shared with C13) a client holding an allocation is fed 1100 / 3000 Data indications with no or a slow reader, "
            "12 ConnectionAttempt indications with nobody accepting, ChannelData/Data payloads of every length 0..24 with and without a leading magic cookie, and must keep reading; (client-states) the inbound messages of a TURN server (Data indication, ChannelData on bound / unbound numbers, ConnectionAttempt, responses to no transaction, requests; whole, empty, attributes missing, every truncation at and next to a 4-byte boundary) in every state of the relayed socket {open, channel bound, closed, closed twice, closed and allocated again, then the old socket closed once more} x UDP/TCP allocation: the read loop is back at its socket after each; (client-lifetimes) Allocate success responses granting LIFETIME {0,1,2,3,600,2^32-1} to a UDP / TCP allocation: the client reaches quiescence and sends at most 25 requests in the next 10 s; (client-sched, Engine B) a TCP allocation closed by the application while ConnectionAttempt indications for it arrive, every interleaving up to the preemption bound: no panic, Close returns, a Binding transaction completes afterwards; (client-stream) the real client with Listen running over turn.NewSTUNConn on a simnet stream is sent one validly framed hostile frame "
            "(STUN success / indication / request or ChannelData in and beyond the bound range x declared length in 21 classes up to 0xFFFF x {whole, 1000-byte segments, byte at a time} x 2 contents) "
            "and must then complete a Binding transaction. (tls) a TLS listener (crypto/tls over simnet, virtual time): after each hostile connection that sends nothing / a partial record header / a record header announcing 16 KiB / clear-text STUN / garbage and stays open, a fresh party must complete its handshake and a Binding transaction within 2 s. Oracle: no panic in any goroutine (process survival), every batch reaches quiescence (no spin / wedge), then a liveness probe: "
            "Binding from the same source answered, a pre-existing victim allocation still relays in both directions and still refreshes. A class is (part, source, shape) -> served.",
    "parts": [A("udp", "./checks/c09", "TestC09ServerUDP", budget={"quick": 60, "thorough": 600}, hard_timeout={"quick": 240, "thorough": 1500}),
              A("stream", "./checks/c09", "TestC09ServerStream", budget={"quick": 60, "thorough": 600}, hard_timeout={"quick": 240, "thorough": 1500}),
              A("messages", "./checks/c09", "TestC09Messages", budget={"quick": 60, "thorough": 900}, hard_timeout={"quick": 240, "thorough": 2000}),
              A("client", "./checks/c09", "TestC09Client", budget={"quick": 60, "thorough": 600}, hard_timeout={"quick": 240, "thorough": 1500}),
              A("tls", "./checks/c09", "TestC09TLS", nshards=1, budget={"quick": 60, "thorough": 60}, hard_timeout={"quick": 240, "thorough": 240}),
              A("client-stream", "./checks/c09", "TestC09ClientStream", budget={"quick": 60, "thorough": 600}, hard_timeout={"quick": 240, "thorough": 1500}),
              A("client-states", "./checks/c13", "TestC09ClientStates", budget={"quick": 60, "thorough": 120}),
              A("client-lifetimes", "./checks/c13", "TestC09ClientLifetimes", budget={"quick": 60, "thorough": 120}),
              A("client-sched", "./checks/bsem", "TestC09ClientSched", overlay=True, gomaxprocs=1, budget={"quick": 60, "thorough": 300}),
              A("client-bursts", "./checks/c13", "TestC13Stress", budget={"quick": 60, "thorough": 120}, hard_timeout={"quick": 240, "thorough": 600})],
}

CHECKS["C15"] = {
    "level": "fault_enumeration",
    "technique": "explicit-state enumeration of operation histories with every teardown cause injected after every prefix (crash-point enumeration) on the real server in virtual time, resource and lifecycle-event accounting after every event",
    "rule": "Engine A: every history (depth 4 quick / 5 thorough) over {Allocate c1/c2, CreatePermission [A],[A,B], ChannelBind (n1,A),(n1,B), request without allocation} with, after every prefix, each way an allocation "
            "can end {Refresh 0, lifetime/permission/channel expiry (clock to next deadline -/+1ns), control connection closed by the client (stream listener), relay socket read error, Server.Close} x configurations "
            "{UDP listener, stream listener, staggered timeouts (100s,40s,70s) on both}; after every event: open relay "
            "sockets/listeners == those of the model's live allocations, Server.AllocationCount == their number, lifecycle callbacks pair up (no delete without create, none twice, outstanding == live model entries); then a drain "
            "through all deadlines, 2 h of silence (no callback, no socket activity on behalf of ended allocations), Server.Close (nothing owned by the server stays open, count 0) and goroutine drain of the bubble. "
            "Part rich: allocations owning several permissions, three channel bindings and (stream listener) a TCP allocation with pending and bound peer connections, EVEN-PORT allocations and a wildcard listener, ended in every way (depth 2/3). Part dual: a server with a UDP socket and a stream listener, histories of depth 3/4 over both kinds of client, Server.Close also when the application has already closed the UDP socket it configured (Close meets an error on one socket and must still release the accepted connections and their allocations). Part tls: every non-empty subset of {silent, stalled in a record, clear text, handshake done idle, handshake done with allocation} connections on a TLS listener, Server.Close at once or after the 10 s handshake time-out: a failed handshake closes its connection, nothing accepted stays open. Part sched (Engine B, preemption-bounded DFS over the real goroutines): expiry during a slow lifecycle callback (allocation / permission / channel, also the permission callback of a ChannelBind), equal deadlines, expiry during a slow Connect dial of the own and of another allocation (with a relay probe after the expiry). "
            "A class is (event class => response); distinct_nontrivial counts those.",
    "parts": [A("vtx", "./checks/c15", "TestC15", budget={"quick": 90, "thorough": 1500}),
              A("rich", "./checks/c15", "TestC15Rich", budget={"quick": 60, "thorough": 900}),
              A("dual", "./checks/c15", "TestC15Dual", budget={"quick": 60, "thorough": 900}),
              A("tls", "./checks/c15", "TestC15TLS", nshards=1, budget={"quick": 60, "thorough": 60}),
              A("sched", "./checks/bsem", "TestC15Sched", overlay=True, gomaxprocs=1, budget={"quick": 90, "thorough": 1500})],
}

CHECKS["C16"] = {
    "level": "model_checking",
    "rule": "Engine A: stream-transport server, TCP allocations of c1 (user u1) and c2 (user u2), peers A (permitted) and B; every event sequence (depth 4 quick / 5 thorough) over {Connect (c1,B),(c1,A),(c2,B), "
            "inbound peer connection from A / from B to c1's relayed address, CreatePermission [B], ConnectionBind on a fresh data connection for every known connection id by {its owner, the other client/user, the owner's "
            "address with the other user's credentials} and for an unknown id, client->peer and peer->client byte streams whole / byte-at-a-time / 7-byte segments, close from the client side / the peer side, Refresh 0, clock to "
            "the next deadline (30 s bind timeout, permission, lifetime) -/+1ns}; oracle: connection ids pairwise distinct and backed by a real simnet connection from / at the relayed address, inbound ones only from permitted IPs "
            "(others closed without indication, nothing reaches another client), bind succeeds exactly once, only for the allocation's user, only before 30 s, after which the peer connection is closed; bound streams are equal as "
            "byte sequences in both directions, nothing echoed, close propagates; duplicate Connect -> 446 and a further request is still served; after every event relay-side connections == model, AllocationCount, relay "
            "listeners; (thorough) also with the deny-B operator policy: refused target never dialled. "
            "Part udp-control: TCP allocations made over a datagram control channel (the server accepts them): Connect, inbound peer connections, ConnectionBind requests sent on that control channel (refused; they must change nothing: "
            "the connection is closed when its 30 s are over), peer closes, Refresh 0, clock. Part ipv6: Connect, inbound connections (truthful ConnectionAttempt attribution), ConnectionBind and bytes over an IPv6 listener, IPv6 TCP allocation and IPv6 peers, depth 3/4; genconn: the bundled generators (static, range, pass-through) x tcp4/tcp6 x wildcard/specific listen address x relay address equal to / different from the default source address: "
            "AllocateConn called as the allocation manager calls it reaches one and two peers from exactly the advertised relayed address and port, and the relay listener still accepts afterwards. Part sched (Engine B): two ConnectionBinds of one id, a bind at the 30 s deadline, and a bound connection carrying data in both directions at once over plain net.Conns (as TLS connections are: io.Copy really uses its buffers) - each end reads exactly what the other wrote.",
    "parts": [A("vtx", "./checks/c16", "TestC16", budget={"quick": 120, "thorough": 1800}),
              A("sched", "./checks/bsem", "TestC16Sched", overlay=True, gomaxprocs=1, budget={"quick": 90, "thorough": 1500}),
              A("client-e2e", "./checks/c16", "TestC16ClientE2E", budget={"quick": 90, "thorough": 900}),
              A("udp-control", "./checks/c16", "TestC16UDPControl", budget={"quick": 90, "thorough": 900}),
              A("ipv6", "./checks/c16", "TestC16V6", budget={"quick": 60, "thorough": 600}),
              A("genconn", "./checks/c16", "TestC16GenConn", nshards=1, budget={"quick": 60, "thorough": 60}),
              A("idclash", "./checks/c16", "TestC16IDClash", nshards=1, budget={"quick": 30, "thorough": 30})],
}

CHECKS["C12"] = {
    "level": "fault_enumeration",
    "technique": "exhaustive fault enumeration (loss / duplication / delay / reordering / write error / Close placement) on the real turn.Client in virtual time against a reference computed from the property text",
    "rule": "Engine A fault enumeration: real turn.Client (Listen running) over simnet in one synctest bubble per case, the harness as scripted server acting at exact virtual instants. Single transaction: complete product of "
            "RTO {default,100,200,400,800,1600 ms} (thorough 12 values incl. 1 ms, 799/800/801, 1599/1600) x set of answered transmissions {never, each single i in 1..7, every pair} (thorough: all 127 subsets) x response delay "
            "{at once, half interval, next timer -1ns, next timer +1ns, after the final failure} x noise {none, two responses whose ids differ in one bit, the matching response twice, a response for a finished transaction, "
            "a non-STUN datagram from the server address / another address, a matching-id response from another source} x write error on transmission j in {none,1..7} x Close placement {never, before, right after transmission k, "
            "racing the timer of transmission k or of the final failure, just before / concurrent with the answer}. Concurrent: two transactions whose ids differ in one bit x answer plans x start offset x duplicates x delivery orders x Close. "
            "Oracle: byte-identical requests at exactly t0,+RTO,+2RTO.. capped 1.6 s, at most 7; PerformTransaction returns exactly once at the predicted nanosecond with its own response or the predicted error, never another id; "
            "afterwards a late response for every finished id is delivered and a fresh transaction must still complete (read loop alive), then Close, 10 s of silence, sockets closed, bubble drains. "
            "Fire-and-forget (ignoreResult): RTO x what the caller does with its message afterwards {nothing, a fresh message, msg.Build in place for a second transaction, overwrite msg.Raw} x instant of the reuse "
            "(at once, between transmissions k and k+1) x answers to either transaction: every transmission byte-identical to the request as handed over, on its own timetable, table empty, read loop alive. "
            "Engine B (sched): K1 response vs retransmission timer vs duplicate vs Close, K1b crossed responses, K6 Close racing the start of a transaction (insert / first write / timer arming / wait), K7 a response that arrives while the sender is still between its first write and the wait, (forget-close) Client.Close half an interval after transmission k = 1..6 of a pending fire-and-forget transaction: nothing more is sent, nothing stays in the table; K12 a response that arrives at the instant of the transaction's last timer (then a second transaction and Close), <= 2/3 preemptions. "
            "A class is (answer kind, noise, write-error kind, close kind -> observed completion).",
    "parts": [A("single", "./checks/c12", "TestC12Single", budget={"quick": 60, "thorough": 900}),
              A("concurrent", "./checks/c12", "TestC12Concurrent", budget={"quick": 60, "thorough": 900}),
              A("forget", "./checks/c12", "TestC12Forget", budget={"quick": 60, "thorough": 900}),
              A("forget-close", "./checks/c12", "TestC12ForgetClose", budget={"quick": 30, "thorough": 60}),
              A("sched", "./checks/bsem", "TestC12Sched", overlay=True, gomaxprocs=1, budget={"quick": 90, "thorough": 1500})],
}

CHECKS["C13"] = {
    "level": "model_checking",
    "rule": "Engine A, client side: every event sequence (depth 5 quick / 6 thorough from a fresh allocation, 4/5 after P1 is permitted+bound, 3/5 after 5 virtual minutes when the channel refresh is due, 6/7 and 5/6 with a "
            "reduced menu) over {WriteTo(P1 | P1' same IP other port | P2), ReadFrom, SetReadDeadline(now+1s | past | zero), Close, server reaction to the oldest pending CreatePermission/ChannelBind in {success, 400, 403, "
            "438+fresh nonce, silence}, Data indication from P1 / unknown P9, ChannelData on the lowest confirmed channel / on unbound 0x4ABC, advance 100ms | 2s | 31s | 121s} on the real turn.Client + UDPConn against a "
            "scripted server in virtual time; after every event the ordered wire log and all app results are judged against the model perm[IP], bind[peer]=(n,state), relayed queue, deadline, closed: (1) no Send/ChannelData "
            "toward P before a CreatePermission success for P's IP was delivered; (2) ChannelData(n) only after ChannelBind(n,P) success was delivered, else Send with XOR-PEER-ADDRESS=P, payload identical, at most once; "
            "(3) numbers in 0x4000-0x7FFF, one per peer address; (4) ReadFrom returns exactly the relayed payloads in order with the right address, nothing from unbound channels; (5) timeout exactly at the deadline, zero "
            "deadline blocks, Close unblocks; (6) a probe queued behind every inbound datagram is consumed (read loop never blocked); (7) WriteTo succeeds only with a granted permission, 438 retried with the fresh nonce. "
            "Stress: 1100-datagram bursts with no reader, 3000 with a slow reader, 12 ConnectionAttempts with nobody in Accept, 16384 distinct peers, payload lengths 0..24 (thorough 0..64) with and without a leading magic "
            "cookie as ChannelData and as Data indication. A class is (start, event [context] => outcome tokens); a state is the canonical model key.",
    "parts": [A("histories", "./checks/c13", "TestC13Histories", gomaxprocs=2, budget={"quick": 90, "thorough": 1500}),
              A("stress", "./checks/c13", "TestC13Stress", budget={"quick": 60, "thorough": 120}),
              A("sched", "./checks/bsem", "TestC13Sched", overlay=True, gomaxprocs=1, budget={"quick": 120, "thorough": 1800})],
}

CHECKS["C14"] = {
    "level": "fault_enumeration",
    "technique": "deviation-bounded exhaustive fault enumeration (every single loss / duplication / delay on every transaction of hours-long runs, and pairs) of the real client against the real server in virtual time",
    "rule": "Engine A fault enumeration: real turn.Client <-> real turn.Server on simnet in one synctest bubble per run; server (lifetime, permission, channel) in {(600,300,600),(120,300,600),(600,150,360)} x traffic in "
            "{idle: one write per peer then only peer probes every 60 s; both directions every 60 s; both every 10 s; 30-write burst to 3 peers (two share an IP) then 40 min idle; a write to a new peer every 7 min; the app talks to one peer while that peer and a second one on the same IP address (covered by the same permission, never written to) both send every 10 s; first writes to new peers every 20 s while the hourly nonce goes stale, each with a never-written sibling on the same IP sending every 10 s; one write to each of 140 peers (single deviations on the many-peer refreshes only)} x (faults) "
            "every single deviation {drop the first k=1..6 transmissions | drop | duplicate | delay-until-next-retransmission the response} on EVERY transaction of the fault-free run (Allocate x2, Refresh, CreatePermission "
            "new/refresh, ChannelBind per peer, the 438 retries, the closing Refresh 0) over 75 min (quick) / 3 h (thorough); (pairs, 75 min) both deviations on one transaction, thorough also every unordered pair of "
            "transactions; (close) fault-free runs closed at every 10 s up to 75 min (quick) / every 5 s up to 3 h (thorough) for all 21 combinations (the 140-peer pattern takes part in the faults part only). Transmission 7 and its response are never touched and probes are never "
            "dropped. Oracle: every probe sent while the relayed socket is open arrives exactly once, byte-identical, at the right endpoint and source; no client WARN/ERROR line, no unanswered transaction, no write error; "
            "after relayConn.Close() + quiescence AllocationCount()==0 and the relay socket is closed; the bubble drains. A class is (part, configuration, traffic, transaction kind - deviation kind) -> outcome.",
    "parts": [A("faults", "./checks/c14", "TestC14Faults", gomaxprocs=1, budget={"quick": 60, "thorough": 600}),
              A("pairs", "./checks/c14", "TestC14Pairs", gomaxprocs=1, budget={"quick": 60, "thorough": 1500}),
              A("close", "./checks/c14", "TestC14Close", gomaxprocs=1, budget={"quick": 60, "thorough": 300})],
}

ENGINES = [
    {"name": "sched", "path": "/verif/sched + /verif/shim + /verif/instr", "serves_properties": ["C18"],
     "kind_free_text": "Engine B: controlled scheduler over sources instrumented at check time (go build -overlay): stateless DFS over all schedules with at most k preemptions, prefix replay, work stealing between shard processes; also serves the schedule halves of C02, C04, C15, C16 (checks/bsem)"},
    {"name": "enum", "path": "/verif/checks/c10 c11 c17 c20", "serves_properties": ["C03", "C05", "C09", "C10", "C11", "C17", "C20"],
     "kind_free_text": "Engine C: bounded-exhaustive enumeration of inputs / configurations / segmentations of sequential functions against an independent RFC reference"},
    {"name": "vtx", "path": "/verif/vtx", "serves_properties": ["C01", "C02", "C04", "C06", "C07", "C08", "C12", "C13", "C14", "C15", "C16", "C19"],
     "kind_free_text": "Engine A: explicit-state search over event histories of the real turn.Server/turn.Client in virtual time (testing/synctest) over an in-memory network, reference model + probe sweep after every event"},
]

_PENDING = "check being integrated (built by a builder agent, not yet registered); the technique applies, see DESIGN.md section 5"
NOT_APPLICABLE = {f"C{i:02d}": _PENDING for i in range(1, 21)}

# Addenda to the rule texts: parts and scenarios added after the texts above were written.
_ADD = {
    "C02": " Part lookalikes: the same sweep with peers whose IP text and port digits concatenate alike (10.1.0.2:25 / 10.1.0.22:5). Part sched (Engine B): a peer datagram / Refresh 0 of a second client vs the "
           "permission timer; a Refresh of an entry at the instant its timer fires (both directions); a peer datagram (UDP allocation) or peer connection (TCP allocation) during the slow Deleted callback of a "
           "neighbouring permission / channel whose own deadline has passed: nothing is relayed or announced for the run-out entry.",
    "C03": " Every truncation of a fresh nonce text is refused. Part two-servers: two turn.Server instances of one process, a nonce minted by one presented to the other is refused (438), each accepts its own; "
           "states own-anon (the auth handler reports an empty user id) and other-user-case (accounts differing in letter case only). Part rotation: after Allocate + CreatePermission + ChannelBind the operator changes the account's password or removes the account "
           "(at once, after 1 min, after 59 min; owner with a user id and with the empty user id): every method signed with the key that was valid before is refused, count and probe sweep unchanged, and succeeds with the new key.",
    "C09": " Parts client-states / client-lifetimes / client-sched: the server's inbound messages in every state of the client's relayed socket (open, bound, closed, closed twice, re-allocated, TCP listener closed), "
           "Allocate success responses granting LIFETIME {0,1,2,3,600,2^32-1}, and (Engine B, K13) a ConnectionAttempt racing TCPAllocation.Close: the client survives and completes a transaction afterwards.",
    "C10": " Empty reads are also combined with byte-at-a-time delivery (more than 100 empty reads within one frame): same frames, no error.",
    "C13": " The harness application re-uses one address object for its WriteTo calls (alternating the 4- and 16-byte IP forms) and overwrites every address ReadFrom hands it: bindings, refreshes and later reads are unaffected.",
    "C15": " Also: a request arriving during a teardown whose Deleted callback is slow (timeouts beyond the horizon: nothing installed on the dying allocation survives it); Server.Close racing a Refresh of a stream client "
           "(no timer re-armed on the closed allocation); a Connect dial completing at the instant of Server.Close (IdleTies: peer connection closed, no bind timer left); in part vtx Server.Close with every UDP relay socket "
           "refusing its first Close: the server still tries to close each of them.",
    "C16": " Also (Engine B): an inbound peer connection accepted at the relayed address while the client deletes the allocation and allocates again on the same 5-tuple: an id announced late is not bindable under the second allocation.",
    "C17": " Handlers are also built at a fractional instant of the clock; a REST-format credential is presented to the plain handler (and the reverse) and must not authenticate; granted transaction ids are replayed and forged end to end. Part stamps: usernames written with the reference for 70+ expiry stamps across the whole int64 range (powers of two, both signs, stamps whose distance from now is just inside / outside what a time.Duration holds, 2^63-1, -2^63) and the library's generators called with durations -2^63, -2^63+1, 2^63-2, 2^63-1 ns, each with its genuine password at three instants: ok <=> now.Unix() <= stamp.",
    "C18": " S16: the Connect dial of S15 completes at the very instant Server.Close is called (scheduler option IdleTies: both sleepers of that instant are enabled together). S17: the operator's allocation handlers call Server.AllocationCount (a metrics handler) while one allocation expires, another is deleted by Refresh 0 and the server is closed: no lock-up.",
    "C20": " Listening addresses are given as IP literals and as host names (simnet resolver: relay.test, relay6.test). In (v) every address object handed out for a live allocation is read again after every later allocation of the history and must still say what it said.",
}
for _k, _v in _ADD.items():
    CHECKS[_k]["rule"] += _v

_ADD2 = {
    "C05": " Part stalled: a stream client stops reading in the middle of a relayed message (its window takes 0..500 more bytes), stays silent for 10 ms .. 3 min while the peer goes on sending, then reads on "
           "(simnet models the partial write: a stream write that meets its deadline returns the bytes already taken): the client's stream still parses into frames each of which is a payload the peer sent, in order.",
    "C12": " In part concurrent also: the first transmission of the second transaction fails with a write error while the first transaction is pending - the first one goes on as if alone.",
    "C14": " In the 140-peer pattern the application speaks once more to the first 40 peers 25 minutes later (their bindings fell due in the same refresh rounds).",
    "C15": " Also (Engine B): Server.Close of a UDP listener while an Allocate is inside a slow relay address generator; Refresh 0 + Allocate on the 5-tuple followed by Server.Close (count 1 after the second Allocate, nothing left at the end).",
    "C16": " Part idclash: the process's random source is scripted to repeat itself, so that the id drawn for a second peer connection equals one that is still pending (same allocation, another user's, another allocation of the "
           "same user): the second Connect may fail but never succeeds with the taken id. Engine B also: a Connect whose dial takes 10 s, ConnectionBind 25 s after its success response binds.",
    "C19": " Engine B also: LIFETIME 1 with a relay address generator that takes 500 ms / 2 s: the allocation exists 700 ms after the success response and is gone 3 s after it.",
}
for _k, _v in _ADD2.items():
    CHECKS[_k]["rule"] += _v
