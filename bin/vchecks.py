"""Registry of checks: property -> level, rule text, parts (test binaries + shards)."""

def A(name, pkg, test, **kw):
    d = {"name": name, "pkg": pkg, "test": test}
    d.update(kw)
    return d

CHECKS = {
    "C06": {
        "level": "model_checking",
        "rule": "Engine A: every event sequence (depth 4 quick / 5 thorough) over {Allocate with LIFETIME in a boundary set, "
                "Refresh with LIFETIME in a boundary set, CreatePermission, ChannelBind, clock advance to next deadline -/+ 1ns, -/+ 1s, by 31s} "
                "x 3 configured default lifetimes on the real turn.Server in virtual time; after every event the response, "
                "Server.AllocationCount and a full probe sweep are compared with the reference model; then a drain through every "
                "remaining deadline. A class is (event class => response); a state is the canonical model key.",
        "parts": [A("vtx", "./checks/c06", "TestC06", budget={"quick": 60, "thorough": 1500})],
    },
}

CHECKS["C07"] = {
    "level": "model_checking",
    "rule": "Engine A: every event sequence (depth 5 quick / 6 thorough, after Allocate) over {CreatePermission [A],[B],[A,B],[A,V6-wrong-family], "
            "ChannelBind (n1,A),(n2,B),(n1,B),(n2,A), clock advance to next deadline -/+1ns, -/+1s, by min-timeout/2} x 3 (permission,channel) timeout "
            "configurations on the real turn.Server in virtual time; after every event the response and a probe sweep in both directions "
            "(3 peers incl. same-IP-other-port, 2 channel numbers) are compared with the reference model whose entries live exactly one timeout "
            "past the last successful install/refresh; then a drain through every remaining deadline at -1ns/+1ns.",
    "parts": [A("vtx", "./checks/c07", "TestC07", budget={"quick": 90, "thorough": 1500})],
}

ENGINES = [
    {"name": "vtx", "path": "/verif/vtx", "serves_properties": ["C06"],
     "kind_free_text": "Engine A: explicit-state search over event histories of the real turn.Server/turn.Client in virtual time (testing/synctest) over an in-memory network, reference model + probe sweep after every event"},
]

_PENDING = "check not built yet (work in progress in this session; the design in DESIGN.md §5 covers it)"
NOT_APPLICABLE = {f"C{i:02d}": _PENDING for i in range(1, 21)}
