// Package simnet is a closed, deterministic in-memory network used by every
// /verif harness. It implements net.PacketConn, net.Listener, net.Conn and
// pion's transport.Net so that the real turn.Server / turn.Client and the
// bundled relay address generators run on it unmodified.
//
// All blocking is channel based, so inside a testing/synctest bubble a blocked
// reader is "durably blocked" and synctest.Wait() gives exact quiescence.
// When Net.Sched is set (Engine B) every potentially blocking call first asks
// the controlled scheduler (see shim/vsched) for permission instead.
package simnet

import (
	"context"
	"errors"
	"fmt"
	"io"
	"net"
	"os"
	"sort"
	"strconv"
	"sync"
	"syscall"
	"time"

	"github.com/pion/transport/v4"
)

// Sched is the hook Engine B installs: every blocking socket operation calls
// Block(kind, ready) which returns once the controlled scheduler has granted
// the thread and ready() is true. Non-blocking operations call Point.
type Sched interface {
	// Block parks the calling thread until the scheduler picks it; the
	// scheduler only picks it when ready() reports true. ready is evaluated by
	// the scheduler goroutine while all threads are parked.
	Block(kind string, obj string, ready func() bool)
	// Point is a plain scheduling point (always enabled).
	Point(kind string, obj string)
	// Managed reports whether the calling goroutine is a scheduler thread.
	Managed() bool
}

// Ev is one entry of the append-only event log.
type Ev struct {
	Kind string // udp-open udp-close send drop trunc listen lclose dial dial-fail accept cclose
	Sock string // local address of the acting socket
	Src  string
	Dst  string
	Len  int
	Note string
}

func (e Ev) String() string {
	return fmt.Sprintf("%s sock=%s src=%s dst=%s len=%d %s", e.Kind, e.Sock, e.Src, e.Dst, e.Len, e.Note)
}

// Dgram is a UDP datagram in flight or queued.
type Dgram struct {
	Src, Dst *net.UDPAddr
	Data     []byte
}

// Net is one closed network.
type Net struct {
	mu        sync.Mutex
	udp       map[string]*UDPSock
	lst       map[string]*Listener
	conns     []*Conn
	log       []Ev
	nextPort  int
	DefaultV4 net.IP // source IP used by wildcard-bound sockets
	DefaultV6 net.IP
	// BindFail makes binding the given "ip:port" (or ":port") fail.
	BindFail map[string]bool
	// DialFail makes dialing the given remote "ip:port" fail.
	DialFail map[string]bool
	Sched    Sched
	// SpinLimit: a reader that performs this many API calls without consuming
	// a byte is terminated (progress monitor). 0 disables.
	SpinLimit int
	Spins     []string
	// LogOff disables event logging (enumerations that do not need it).
	LogOff bool
	// ModelReusePort: sockets created through a ListenConfig / Dialer that carries a Control
	// function (pion's reuseport.Control sets SO_REUSEADDR + SO_REUSEPORT) may share a local
	// address with other such sockets, as on Linux. Off by default: every bind is exclusive.
	ModelReusePort bool
	// DefaultSeg > 0: every TCP connection created from now on delivers at most this many bytes
	// per Read in both directions (1 = byte at a time). Coalesce: consecutive writes that are still
	// unread are merged into one segment, as TCP does with back-to-back writes.
	DefaultSeg int
	Coalesce   bool
	udpExtra   map[string][]*UDPSock
	lstExtra   map[string][]*Listener
}

// New creates an empty network.
func New() *Net {
	return &Net{
		udp:       map[string]*UDPSock{},
		lst:       map[string]*Listener{},
		nextPort:  49152,
		DefaultV4: net.IPv4(10, 9, 0, 1),
		DefaultV6: net.ParseIP("fd00:9::1"),
		BindFail:  map[string]bool{},
		DialFail:  map[string]bool{},
	}
}

func key(ip net.IP, port int) string { return net.JoinHostPort(ip.String(), strconv.Itoa(port)) }

func (n *Net) logf(e Ev) {
	if n.LogOff {
		return
	}
	n.log = append(n.log, e)
}

// Mark returns the current length of the event log.
func (n *Net) Mark() int {
	n.mu.Lock()
	defer n.mu.Unlock()

	return len(n.log)
}

// Since returns a copy of the log entries appended after mark.
func (n *Net) Since(mark int) []Ev {
	n.mu.Lock()
	defer n.mu.Unlock()

	return append([]Ev(nil), n.log[mark:]...)
}

// TruncateLog drops the log (keeps memory bounded in long runs).
func (n *Net) TruncateLog() {
	n.mu.Lock()
	n.log = n.log[:0]
	n.mu.Unlock()
}

// OpenUDP lists the local addresses of open UDP sockets, sorted.
func (n *Net) OpenUDP() []string {
	n.mu.Lock()
	defer n.mu.Unlock()
	out := make([]string, 0, len(n.udp))
	for k := range n.udp {
		out = append(out, k)
		for range n.udpExtra[k] {
			out = append(out, k)
		}
	}
	sort.Strings(out)

	return out
}

// UDPAt returns the open UDP socket bound at "ip:port" (nil if none).
func (n *Net) UDPAt(k string) *UDPSock {
	n.mu.Lock()
	defer n.mu.Unlock()

	return n.udp[k]
}

// ListenerAt returns the open listener bound at "ip:port" (nil if none).
func (n *Net) ListenerAt(k string) *Listener {
	n.mu.Lock()
	defer n.mu.Unlock()

	return n.lst[k]
}

// OpenListeners lists open TCP listeners, sorted.
func (n *Net) OpenListeners() []string {
	n.mu.Lock()
	defer n.mu.Unlock()
	out := make([]string, 0, len(n.lst))
	for k := range n.lst {
		out = append(out, k)
		for range n.lstExtra[k] {
			out = append(out, k)
		}
	}
	sort.Strings(out)

	return out
}

// OpenConns lists TCP connection endpoints that are not closed, sorted
// ("local->remote").
func (n *Net) OpenConns() []string {
	n.mu.Lock()
	defer n.mu.Unlock()
	out := []string{}
	for _, c := range n.conns {
		if !c.isClosed() {
			out = append(out, c.local.String()+"->"+c.remote.String())
		}
	}
	sort.Strings(out)

	return out
}

// Conns returns every TCP endpoint ever created.
func (n *Net) Conns() []*Conn {
	n.mu.Lock()
	defer n.mu.Unlock()

	return append([]*Conn(nil), n.conns...)
}

func isV4(ip net.IP) bool { return ip.To4() != nil }

func (n *Net) pickPort(ip net.IP, taken func(string) bool) int {
	for range 70000 {
		p := n.nextPort
		n.nextPort++
		if n.nextPort > 65535 {
			n.nextPort = 49152
		}
		if !taken(key(ip, p)) {
			return p
		}
	}

	return 0
}

// errAddrInUse is what a bind to an occupied address returns: like the kernel's, it unwraps to syscall.EADDRINUSE
// (code under test may tell it apart with errors.Is).
var errAddrInUse error = &net.OpError{Op: "listen", Net: "simnet", Err: os.NewSyscallError("bind", syscall.EADDRINUSE)}
var errBindFail = errors.New("simnet: bind: injected failure")
var errFamily = errors.New("simnet: address family mismatch for network")

func checkFamily(network string, ip net.IP) error {
	if len(network) == 0 {
		return nil
	}
	switch network[len(network)-1] {
	case '4':
		if !isV4(ip) {
			return errFamily
		}
	case '6':
		if isV4(ip) && !ip.IsUnspecified() {
			return errFamily
		}
	}

	return nil
}

// ---------------------------------------------------------------- UDP

// UDPSock is an in-memory UDP socket.
type UDPSock struct {
	n        *Net
	addr     *net.UDPAddr
	mu       sync.Mutex
	q        []Dgram
	notify   chan struct{}
	closed   chan struct{}
	isClosed bool
	rdl      time.Time
	rdlCh    chan struct{} // closed+replaced whenever the deadline changes
	// fault injection
	ReadErr      error // returned by the next ReadFrom (once)
	WriteErr     error // returned by every WriteTo while set
	WriteErrOnce bool
	// CloseErr: the next Close fails with this error and leaves the socket open (the caller may close it again)
	CloseErr error
	calls    int // progress monitor
	// Manual sockets are harness endpoints: nothing reads them but Drain.
	Reads int
	reuse bool // bound with SO_REUSEPORT (ModelReusePort)
}

// ListenUDP binds a UDP socket. Port 0 picks the lowest free port >= 49152.
func (n *Net) ListenUDP(network string, laddr *net.UDPAddr) (*UDPSock, error) {
	return n.listenUDP(network, laddr, false)
}

func (n *Net) listenUDP(network string, laddr *net.UDPAddr, reuse bool) (*UDPSock, error) {
	n.mu.Lock()
	defer n.mu.Unlock()
	ip := laddr.IP
	if ip == nil {
		ip = net.IPv4zero
		if len(network) > 0 && network[len(network)-1] == '6' {
			ip = net.IPv6unspecified
		}
	}
	if err := checkFamily(network, ip); err != nil {
		return nil, err
	}
	port := laddr.Port
	if port == 0 {
		port = n.pickPort(ip, func(k string) bool { _, ok := n.udp[k]; return ok || n.BindFail[k] })
		if port == 0 {
			return nil, errAddrInUse
		}
	}
	k := key(ip, port)
	if n.BindFail[k] || n.BindFail[":"+strconv.Itoa(port)] {
		return nil, errBindFail
	}
	s := &UDPSock{
		n: n, addr: &net.UDPAddr{IP: append(net.IP(nil), ip...), Port: port},
		notify: make(chan struct{}, 1), closed: make(chan struct{}), rdlCh: make(chan struct{}), reuse: reuse,
	}
	if ex, ok := n.udp[k]; ok {
		if !(n.ModelReusePort && reuse && ex.reuse) {
			return nil, errAddrInUse
		}
		if n.udpExtra == nil {
			n.udpExtra = map[string][]*UDPSock{}
		}
		n.udpExtra[k] = append(n.udpExtra[k], s)
		n.logf(Ev{Kind: "udp-open", Sock: k, Note: "shared (SO_REUSEPORT)"})

		return s, nil
	}
	n.udp[k] = s
	n.logf(Ev{Kind: "udp-open", Sock: k})

	return s, nil
}

func (n *Net) routeUDP(dst *net.UDPAddr) *UDPSock {
	if s, ok := n.udp[key(dst.IP, dst.Port)]; ok {
		return s
	}
	if isV4(dst.IP) {
		if s, ok := n.udp[key(net.IPv4zero, dst.Port)]; ok {
			return s
		}
	}
	if s, ok := n.udp[key(net.IPv6unspecified, dst.Port)]; ok {
		return s
	}

	return nil
}

func (s *UDPSock) srcFor(dst *net.UDPAddr) *net.UDPAddr {
	if !s.addr.IP.IsUnspecified() {
		return &net.UDPAddr{IP: s.addr.IP, Port: s.addr.Port}
	}
	if isV4(dst.IP) {
		return &net.UDPAddr{IP: s.n.DefaultV4, Port: s.addr.Port}
	}

	return &net.UDPAddr{IP: s.n.DefaultV6, Port: s.addr.Port}
}

// LocalAddr returns a copy of the bound address.
func (s *UDPSock) LocalAddr() net.Addr {
	s.spinTick()

	return &net.UDPAddr{IP: append(net.IP(nil), s.addr.IP...), Port: s.addr.Port}
}

func (s *UDPSock) spinTick() {}

// WriteTo sends one datagram.
func (s *UDPSock) WriteTo(p []byte, addr net.Addr) (int, error) {
	if sc := s.n.Sched; sc != nil && sc.Managed() {
		sc.Point("udp-write", s.addr.String())
	}
	dst, ok := addr.(*net.UDPAddr)
	if !ok {
		if t, ok2 := addr.(*net.TCPAddr); ok2 {
			dst = &net.UDPAddr{IP: t.IP, Port: t.Port}
		} else {
			return 0, fmt.Errorf("simnet: WriteTo: bad addr %T", addr)
		}
	}
	s.n.mu.Lock()
	defer s.n.mu.Unlock()
	s.mu.Lock()
	if s.isClosed {
		s.mu.Unlock()

		return 0, net.ErrClosed
	}
	if s.WriteErr != nil {
		err := s.WriteErr
		if s.WriteErrOnce {
			s.WriteErr = nil
		}
		s.mu.Unlock()
		s.n.logf(Ev{Kind: "write-err", Sock: s.addr.String(), Dst: dst.String(), Len: len(p)})

		return 0, err
	}
	s.mu.Unlock()
	if len(p) > 65507 {
		return 0, errors.New("simnet: message too long")
	}
	src := s.srcFor(dst)
	d := Dgram{Src: src, Dst: &net.UDPAddr{IP: append(net.IP(nil), dst.IP...), Port: dst.Port}, Data: append([]byte(nil), p...)}
	t := s.n.routeUDP(dst)
	if t == nil {
		s.n.logf(Ev{Kind: "drop", Sock: s.addr.String(), Src: src.String(), Dst: dst.String(), Len: len(p), Note: "no socket"})

		return len(p), nil
	}
	s.n.logf(Ev{Kind: "send", Sock: s.addr.String(), Src: src.String(), Dst: dst.String(), Len: len(p)})
	t.enqueue(d)

	return len(p), nil
}

func (s *UDPSock) enqueue(d Dgram) {
	s.mu.Lock()
	if s.isClosed {
		s.mu.Unlock()

		return
	}
	s.q = append(s.q, d)
	s.mu.Unlock()
	select {
	case s.notify <- struct{}{}:
	default:
	}
}

// Inject queues a datagram on s as if src had sent it (harness use).
func (s *UDPSock) Inject(src *net.UDPAddr, data []byte) {
	s.n.mu.Lock()
	s.n.logf(Ev{Kind: "send", Sock: "inject", Src: src.String(), Dst: s.addr.String(), Len: len(data)})
	s.n.mu.Unlock()
	s.enqueue(Dgram{Src: src, Dst: s.addr, Data: append([]byte(nil), data...)})
}

// Drain pops every queued datagram (harness endpoints).
func (s *UDPSock) Drain() []Dgram {
	s.mu.Lock()
	defer s.mu.Unlock()
	out := s.q
	s.q = nil

	return out
}

// Pending reports the number of queued datagrams.
func (s *UDPSock) Pending() int {
	s.mu.Lock()
	defer s.mu.Unlock()

	return len(s.q)
}

type timeoutErr struct{}

func (timeoutErr) Error() string   { return "simnet: i/o timeout" }
func (timeoutErr) Timeout() bool   { return true }
func (timeoutErr) Temporary() bool { return true }
func (timeoutErr) Unwrap() error   { return os.ErrDeadlineExceeded }

// ErrTimeout is returned when a deadline passes.
var ErrTimeout error = timeoutErr{}

func (s *UDPSock) readable() bool {
	s.mu.Lock()
	defer s.mu.Unlock()

	return len(s.q) > 0 || s.isClosed || s.ReadErr != nil || (!s.rdl.IsZero() && !time.Now().Before(s.rdl))
}

// ReadFrom blocks until a datagram, close, injected error or deadline.
// A datagram longer than p is silently truncated (UDP semantics).
func (s *UDPSock) ReadFrom(p []byte) (int, net.Addr, error) {
	if sc := s.n.Sched; sc != nil && sc.Managed() {
		sc.Block("udp-read", s.addr.String(), s.readable)
	}
	for {
		s.mu.Lock()
		s.Reads++
		if s.ReadErr != nil {
			err := s.ReadErr
			s.ReadErr = nil
			s.mu.Unlock()

			return 0, nil, err
		}
		if s.isClosed {
			s.mu.Unlock()

			return 0, nil, net.ErrClosed
		}
		if len(s.q) > 0 {
			d := s.q[0]
			s.q = s.q[1:]
			s.mu.Unlock()
			n := copy(p, d.Data)
			if n < len(d.Data) {
				s.n.mu.Lock()
				s.n.logf(Ev{Kind: "trunc", Sock: s.addr.String(), Src: d.Src.String(), Len: len(d.Data), Note: strconv.Itoa(n)})
				s.n.mu.Unlock()
			}

			return n, d.Src, nil
		}
		dl := s.rdl
		dlCh := s.rdlCh
		s.mu.Unlock()
		var timer <-chan time.Time
		if !dl.IsZero() {
			d := time.Until(dl)
			if d <= 0 {
				return 0, nil, ErrTimeout
			}
			t := time.NewTimer(d)
			timer = t.C
			select {
			case <-s.notify:
			case <-s.closed:
			case <-dlCh:
			case <-timer:
			}
			t.Stop()
		} else {
			select {
			case <-s.notify:
			case <-s.closed:
			case <-dlCh:
			}
		}
	}
}

// FailRead makes the pending/next ReadFrom return err.
func (s *UDPSock) FailRead(err error) {
	s.mu.Lock()
	s.ReadErr = err
	s.mu.Unlock()
	select {
	case s.notify <- struct{}{}:
	default:
	}
}

// Close closes the socket.
func (s *UDPSock) Close() error {
	if sc := s.n.Sched; sc != nil && sc.Managed() {
		sc.Point("udp-close", s.addr.String())
	}
	s.n.mu.Lock()
	defer s.n.mu.Unlock()
	s.mu.Lock()
	if s.isClosed {
		s.mu.Unlock()

		return net.ErrClosed
	}
	if s.CloseErr != nil {
		err := s.CloseErr
		s.CloseErr = nil
		s.mu.Unlock()

		return err
	}
	s.isClosed = true
	close(s.closed)
	s.mu.Unlock()
	k := key(s.addr.IP, s.addr.Port)
	if s.n.udp[k] == s {
		delete(s.n.udp, k)
		if ex := s.n.udpExtra[k]; len(ex) > 0 {
			s.n.udp[k] = ex[0]
			s.n.udpExtra[k] = ex[1:]
		}
	} else if ex := s.n.udpExtra[k]; len(ex) > 0 {
		for i, o := range ex {
			if o == s {
				s.n.udpExtra[k] = append(append([]*UDPSock{}, ex[:i]...), ex[i+1:]...)

				break
			}
		}
	}
	s.n.logf(Ev{Kind: "udp-close", Sock: k})

	return nil
}

// Closed reports whether Close was called.
func (s *UDPSock) Closed() bool {
	s.mu.Lock()
	defer s.mu.Unlock()

	return s.isClosed
}

// SetDeadline sets the read deadline (writes never block).
func (s *UDPSock) SetDeadline(t time.Time) error { return s.SetReadDeadline(t) }

// SetReadDeadline sets the read deadline.
func (s *UDPSock) SetReadDeadline(t time.Time) error {
	s.mu.Lock()
	defer s.mu.Unlock()
	if s.isClosed {
		return net.ErrClosed
	}
	s.rdl = t
	close(s.rdlCh)
	s.rdlCh = make(chan struct{})

	return nil
}

// SetWriteDeadline is a no-op.
func (s *UDPSock) SetWriteDeadline(time.Time) error { return nil }

// ---------------------------------------------------------------- TCP

type half struct {
	mu       sync.Mutex
	segs     [][]byte
	eof      bool // writer closed
	notify   chan struct{}
	coalesce bool  // merge a write into the previous unread segment
	maxSeg   int   // >0: writes are split into segments of at most maxSeg bytes
	cuts     []int // explicit absolute cut offsets for the writer (sorted); used before maxSeg
	written  int
	total    int
}

func newHalf() *half { return &half{notify: make(chan struct{}, 1)} }

func (h *half) write(p []byte) {
	h.mu.Lock()
	rest := append([]byte(nil), p...)
	for len(rest) > 0 {
		n := len(rest)
		if h.maxSeg > 0 && n > h.maxSeg {
			n = h.maxSeg
		}
		for _, c := range h.cuts {
			if c > h.written && c-h.written < n {
				n = c - h.written
			}
		}
		// merge with the previous unread segment (coalescing) unless the segment cap forbids it
		if k := len(h.segs); h.coalesce && k > 0 && (h.maxSeg == 0 || len(h.segs[k-1])+n <= h.maxSeg) {
			h.segs[k-1] = append(append([]byte(nil), h.segs[k-1]...), rest[:n]...)
		} else {
			h.segs = append(h.segs, rest[:n:n])
		}
		h.written += n
		rest = rest[n:]
	}
	h.total += len(p)
	h.mu.Unlock()
	select {
	case h.notify <- struct{}{}:
	default:
	}
}

// Conn is one endpoint of an in-memory TCP connection.
type Conn struct {
	n             *Net
	local, remote *net.TCPAddr
	in, out       *half
	peer          *Conn
	mu            sync.Mutex
	closedFlag    bool
	closed        chan struct{}
	rdl           time.Time
	wdl           time.Time // write deadline (writes never block here, so only a deadline in the past matters)
	rdlCh         chan struct{}
	ReadErr       error
	WriteErr      error
	BytesRead     int
	Role          string        // "dialer" or "accepted"
	stalled       bool          // StallWrites: the other side has stopped reading and the window is full
	room          int           // StallAfter: bytes the window still takes before writes block
	unstall       chan struct{} // closed when the stall ends
}

// StallWrites makes every Write on this endpoint block (the remote application has stopped reading, the
// send window is full) until the stall is lifted, either endpoint is closed or the write deadline passes.
func (c *Conn) StallWrites(on bool) {
	c.mu.Lock()
	defer c.mu.Unlock()
	if on && !c.stalled {
		c.stalled, c.unstall = true, make(chan struct{})
	} else if !on && c.stalled {
		c.stalled = false
		close(c.unstall)
	}
}

// StallAfter is StallWrites(true) with a send window that still has room for n bytes: a Write longer than that
// hands over its first n bytes and blocks with the rest; when its deadline passes it returns (n, timeout) - a
// stream write that times out is not all-or-nothing.
func (c *Conn) StallAfter(n int) {
	c.StallWrites(true)
	c.mu.Lock()
	c.room = n
	c.mu.Unlock()
}

func (c *Conn) writable() bool {
	c.mu.Lock()
	st, cl, dl := c.stalled, c.closedFlag, c.wdl
	c.mu.Unlock()

	return !st || cl || c.peer.isClosed() || (!dl.IsZero() && !time.Now().Before(dl))
}

func (c *Conn) isClosed() bool {
	c.mu.Lock()
	defer c.mu.Unlock()

	return c.closedFlag
}

// IsClosed reports whether this endpoint was closed locally.
func (c *Conn) IsClosed() bool { return c.isClosed() }

// Peer returns the other endpoint.
func (c *Conn) Peer() *Conn { return c.peer }

// SetSegmentation configures how bytes written on this endpoint are cut into
// read segments at the other side: every Read there returns at most one segment.
func (c *Conn) SetSegmentation(maxSeg int, cuts []int) {
	c.out.mu.Lock()
	c.out.maxSeg = maxSeg
	c.out.cuts = append([]int(nil), cuts...)
	c.out.mu.Unlock()
}

func (c *Conn) readable() bool {
	c.mu.Lock()
	cl, re, dl := c.closedFlag, c.ReadErr, c.rdl
	c.mu.Unlock()
	if cl || re != nil || (!dl.IsZero() && !time.Now().Before(dl)) {
		return true
	}
	c.in.mu.Lock()
	defer c.in.mu.Unlock()

	return len(c.in.segs) > 0 || c.in.eof
}

// Read returns at most one segment.
func (c *Conn) Read(p []byte) (int, error) {
	if sc := c.n.Sched; sc != nil && sc.Managed() {
		sc.Block("tcp-read", c.local.String(), c.readable)
	}
	for {
		c.mu.Lock()
		if c.ReadErr != nil {
			err := c.ReadErr
			c.ReadErr = nil
			c.mu.Unlock()

			return 0, err
		}
		if c.closedFlag {
			c.mu.Unlock()

			return 0, net.ErrClosed
		}
		dl, dlCh := c.rdl, c.rdlCh
		c.mu.Unlock()
		if !dl.IsZero() && !time.Now().Before(dl) {
			return 0, ErrTimeout
		}
		c.in.mu.Lock()
		if len(c.in.segs) > 0 {
			if len(p) == 0 {
				c.in.mu.Unlock()

				return 0, nil
			}
			seg := c.in.segs[0]
			n := copy(p, seg)
			if n < len(seg) {
				c.in.segs[0] = seg[n:]
			} else {
				c.in.segs = c.in.segs[1:]
			}
			c.in.mu.Unlock()
			c.mu.Lock()
			c.BytesRead += n
			c.mu.Unlock()

			return n, nil
		}
		if c.in.eof {
			c.in.mu.Unlock()

			return 0, io.EOF
		}
		c.in.mu.Unlock()
		if !dl.IsZero() {
			t := time.NewTimer(time.Until(dl))
			select {
			case <-c.in.notify:
			case <-c.closed:
			case <-dlCh:
			case <-t.C:
			}
			t.Stop()
		} else {
			select {
			case <-c.in.notify:
			case <-c.closed:
			case <-dlCh:
			}
		}
	}
}

// Write appends to the peer's inbound pipe.
func (c *Conn) Write(p []byte) (int, error) {
	if sc := c.n.Sched; sc != nil && sc.Managed() {
		sc.Point("tcp-write", c.local.String())
	}
	c.mu.Lock()
	if c.closedFlag {
		c.mu.Unlock()

		return 0, net.ErrClosed
	}
	if c.WriteErr != nil {
		err := c.WriteErr
		c.mu.Unlock()

		return 0, err
	}
	if !c.wdl.IsZero() && !time.Now().Before(c.wdl) {
		// a write deadline in the past fails every write, as on a kernel socket
		c.mu.Unlock()

		return 0, timeoutErr{}
	}
	st, un, dl := c.stalled, c.unstall, c.wdl
	written := 0
	if st && c.room > 0 {
		k := min(c.room, len(p))
		c.room -= k
		c.mu.Unlock()
		c.out.write(p[:k])
		p, written = p[k:], k
		if len(p) == 0 {
			return written, nil
		}
	} else {
		c.mu.Unlock()
	}
	if st {
		if sc := c.n.Sched; sc != nil && sc.Managed() {
			sc.Block("tcp-write-window-full", c.local.String(), c.writable)
		} else {
			var timeout <-chan time.Time
			if !dl.IsZero() {
				t := time.NewTimer(time.Until(dl))
				defer t.Stop()
				timeout = t.C
			}
			select {
			case <-un:
			case <-c.closed:
			case <-c.peer.closed:
			case <-timeout:
			}
		}
		c.mu.Lock()
		cl, dl := c.closedFlag, c.wdl
		c.mu.Unlock()
		if cl {
			return written, net.ErrClosed
		}
		if !dl.IsZero() && !time.Now().Before(dl) {
			return written, timeoutErr{}
		}
	}
	if c.peer.isClosed() {
		return written, errors.New("simnet: write: broken pipe")
	}
	c.out.write(p)

	return written + len(p), nil
}

// Close closes this endpoint; the peer reads EOF after draining.
func (c *Conn) Close() error {
	if sc := c.n.Sched; sc != nil && sc.Managed() {
		sc.Point("tcp-close", c.local.String())
	}
	c.mu.Lock()
	if c.closedFlag {
		c.mu.Unlock()

		return net.ErrClosed
	}
	c.closedFlag = true
	close(c.closed)
	c.mu.Unlock()
	c.out.mu.Lock()
	c.out.eof = true
	c.out.mu.Unlock()
	select {
	case c.out.notify <- struct{}{}:
	default:
	}
	c.n.mu.Lock()
	c.n.logf(Ev{Kind: "cclose", Sock: c.local.String(), Dst: c.remote.String(), Note: c.Role})
	c.n.mu.Unlock()

	return nil
}

// CloseWrite half-closes.
func (c *Conn) CloseWrite() error {
	c.out.mu.Lock()
	c.out.eof = true
	c.out.mu.Unlock()
	select {
	case c.out.notify <- struct{}{}:
	default:
	}

	return nil
}

// CloseRead is a no-op.
func (c *Conn) CloseRead() error { return nil }

// LocalAddr returns a copy of the local address.
func (c *Conn) LocalAddr() net.Addr {
	return &net.TCPAddr{IP: append(net.IP(nil), c.local.IP...), Port: c.local.Port}
}

// RemoteAddr returns a copy of the remote address.
func (c *Conn) RemoteAddr() net.Addr {
	return &net.TCPAddr{IP: append(net.IP(nil), c.remote.IP...), Port: c.remote.Port}
}

// SetDeadline sets the read deadline.
func (c *Conn) SetDeadline(t time.Time) error {
	_ = c.SetWriteDeadline(t)

	return c.SetReadDeadline(t)
}

// SetReadDeadline sets the read deadline.
func (c *Conn) SetReadDeadline(t time.Time) error {
	c.mu.Lock()
	defer c.mu.Unlock()
	if c.closedFlag {
		return net.ErrClosed
	}
	c.rdl = t
	close(c.rdlCh)
	c.rdlCh = make(chan struct{})

	return nil
}

// SetWriteDeadline is a no-op.
func (c *Conn) SetWriteDeadline(t time.Time) error {
	c.mu.Lock()
	c.wdl = t
	c.mu.Unlock()

	return nil
}

// FailRead makes the pending/next Read fail.
func (c *Conn) FailRead(err error) {
	c.mu.Lock()
	c.ReadErr = err
	c.mu.Unlock()
	select {
	case c.in.notify <- struct{}{}:
	default:
	}
}

// SawEOF reports whether the other side has closed (after all data was taken).
func (c *Conn) SawEOF() bool {
	c.in.mu.Lock()
	defer c.in.mu.Unlock()

	return c.in.eof
}

// PendingIn is the number of unread inbound bytes.
func (c *Conn) PendingIn() int {
	c.in.mu.Lock()
	defer c.in.mu.Unlock()
	t := 0
	for _, s := range c.in.segs {
		t += len(s)
	}

	return t
}

// TakeAll pops all inbound bytes without blocking (harness endpoints) and
// reports whether EOF was reached.
func (c *Conn) TakeAll() ([]byte, bool) {
	c.in.mu.Lock()
	defer c.in.mu.Unlock()
	var out []byte
	for _, s := range c.in.segs {
		out = append(out, s...)
	}
	c.in.segs = nil

	return out, c.in.eof
}

// The remaining transport.TCPConn methods.
func (c *Conn) ReadFrom(r io.Reader) (int64, error) {
	buf := make([]byte, 32*1024)
	var total int64
	for {
		n, err := r.Read(buf)
		if n > 0 {
			if _, werr := c.Write(buf[:n]); werr != nil {
				return total, werr
			}
			total += int64(n)
		}
		if err != nil {
			if errors.Is(err, io.EOF) {
				return total, nil
			}

			return total, err
		}
	}
}
func (c *Conn) SetLinger(int) error                    { return nil }
func (c *Conn) SetKeepAlive(bool) error                { return nil }
func (c *Conn) SetKeepAlivePeriod(time.Duration) error { return nil }
func (c *Conn) SetNoDelay(bool) error                  { return nil }
func (c *Conn) SetWriteBuffer(int) error               { return nil }
func (c *Conn) SetReadBuffer(int) error                { return nil }

// Listener is an in-memory TCP listener.
type Listener struct {
	n         *Net
	addr      *net.TCPAddr
	mu        sync.Mutex
	q         []*Conn
	notify    chan struct{}
	closed    chan struct{}
	isClosed  bool
	AcceptErr error
	reuse     bool
}

// ListenTCPAddr binds a listener.
func (n *Net) ListenTCPAddr(network string, laddr *net.TCPAddr) (*Listener, error) {
	return n.listenTCP(network, laddr, false)
}

func (n *Net) listenTCP(network string, laddr *net.TCPAddr, reuse bool) (*Listener, error) {
	n.mu.Lock()
	defer n.mu.Unlock()
	ip := laddr.IP
	if ip == nil {
		ip = net.IPv4zero
		if len(network) > 0 && network[len(network)-1] == '6' {
			ip = net.IPv6unspecified
		}
	}
	if err := checkFamily(network, ip); err != nil {
		return nil, err
	}
	port := laddr.Port
	if port == 0 {
		port = n.pickPort(ip, func(k string) bool { _, ok := n.lst[k]; return ok || n.BindFail[k] })
		if port == 0 {
			return nil, errAddrInUse
		}
	}
	k := key(ip, port)
	if n.BindFail[k] || n.BindFail[":"+strconv.Itoa(port)] {
		return nil, errBindFail
	}
	l := &Listener{n: n, addr: &net.TCPAddr{IP: append(net.IP(nil), ip...), Port: port},
		notify: make(chan struct{}, 1), closed: make(chan struct{}), reuse: reuse}
	if ex, ok := n.lst[k]; ok {
		if !(n.ModelReusePort && reuse && ex.reuse) {
			return nil, errAddrInUse
		}
		if n.lstExtra == nil {
			n.lstExtra = map[string][]*Listener{}
		}
		n.lstExtra[k] = append(n.lstExtra[k], l)
		n.logf(Ev{Kind: "listen", Sock: k, Note: "shared (SO_REUSEPORT)"})

		return l, nil
	}
	n.lst[k] = l
	n.logf(Ev{Kind: "listen", Sock: k})

	return l, nil
}

func (l *Listener) acceptable() bool {
	l.mu.Lock()
	defer l.mu.Unlock()

	return len(l.q) > 0 || l.isClosed || l.AcceptErr != nil
}

// Accept waits for the next connection.
func (l *Listener) Accept() (net.Conn, error) {
	if sc := l.n.Sched; sc != nil && sc.Managed() {
		sc.Block("accept", l.addr.String(), l.acceptable)
	}
	for {
		l.mu.Lock()
		if l.AcceptErr != nil {
			err := l.AcceptErr
			l.AcceptErr = nil
			l.mu.Unlock()

			return nil, err
		}
		if l.isClosed {
			l.mu.Unlock()

			return nil, net.ErrClosed
		}
		if len(l.q) > 0 {
			c := l.q[0]
			l.q = l.q[1:]
			l.mu.Unlock()
			l.n.mu.Lock()
			l.n.logf(Ev{Kind: "accept", Sock: l.addr.String(), Src: c.remote.String()})
			l.n.mu.Unlock()

			return c, nil
		}
		l.mu.Unlock()
		select {
		case <-l.notify:
		case <-l.closed:
		}
	}
}

// Take pops a pending (not yet accepted) connection without blocking; harness
// listeners are never Accept()ed.
func (l *Listener) Take() *Conn {
	l.mu.Lock()
	defer l.mu.Unlock()
	if len(l.q) == 0 {
		return nil
	}
	c := l.q[0]
	l.q = l.q[1:]

	return c
}

// AcceptTCP implements transport.TCPListener.
func (l *Listener) AcceptTCP() (transport.TCPConn, error) {
	c, err := l.Accept()
	if err != nil {
		return nil, err
	}

	return c.(*Conn), nil //nolint:forcetypeassert
}

// SetDeadline is a no-op.
func (l *Listener) SetDeadline(time.Time) error { return nil }

// FailAccept makes the pending/next Accept fail.
func (l *Listener) FailAccept(err error) {
	l.mu.Lock()
	l.AcceptErr = err
	l.mu.Unlock()
	select {
	case l.notify <- struct{}{}:
	default:
	}
}

// Close closes the listener; queued, un-accepted connections are closed.
func (l *Listener) Close() error {
	if sc := l.n.Sched; sc != nil && sc.Managed() {
		sc.Point("lclose", l.addr.String())
	}
	l.n.mu.Lock()
	l.mu.Lock()
	if l.isClosed {
		l.mu.Unlock()
		l.n.mu.Unlock()

		return net.ErrClosed
	}
	l.isClosed = true
	close(l.closed)
	pend := l.q
	l.q = nil
	l.mu.Unlock()
	k := key(l.addr.IP, l.addr.Port)
	if l.n.lst[k] == l {
		delete(l.n.lst, k)
		if ex := l.n.lstExtra[k]; len(ex) > 0 {
			l.n.lst[k] = ex[0]
			l.n.lstExtra[k] = ex[1:]
		}
	} else if ex := l.n.lstExtra[k]; len(ex) > 0 {
		for i, o := range ex {
			if o == l {
				l.n.lstExtra[k] = append(append([]*Listener{}, ex[:i]...), ex[i+1:]...)

				break
			}
		}
	}
	l.n.logf(Ev{Kind: "lclose", Sock: k})
	l.n.mu.Unlock()
	for _, c := range pend {
		_ = c.Close()
	}

	return nil
}

// Closed reports whether the listener is closed.
func (l *Listener) Closed() bool {
	l.mu.Lock()
	defer l.mu.Unlock()

	return l.isClosed
}

// Addr returns a copy of the listening address.
func (l *Listener) Addr() net.Addr {
	return &net.TCPAddr{IP: append(net.IP(nil), l.addr.IP...), Port: l.addr.Port}
}

func (n *Net) routeTCP(dst *net.TCPAddr) *Listener {
	if l, ok := n.lst[key(dst.IP, dst.Port)]; ok {
		return l
	}
	if isV4(dst.IP) {
		if l, ok := n.lst[key(net.IPv4zero, dst.Port)]; ok {
			return l
		}
	}
	if l, ok := n.lst[key(net.IPv6unspecified, dst.Port)]; ok {
		return l
	}

	return nil
}

// DialTCPAddr connects laddr -> raddr. laddr port 0 picks an ephemeral port.
func (n *Net) DialTCPAddr(laddr, raddr *net.TCPAddr) (*Conn, error) {
	n.mu.Lock()
	defer n.mu.Unlock()
	if laddr == nil {
		if isV4(raddr.IP) {
			laddr = &net.TCPAddr{IP: n.DefaultV4}
		} else {
			laddr = &net.TCPAddr{IP: n.DefaultV6}
		}
	}
	if laddr.IP == nil || laddr.IP.IsUnspecified() {
		// an unspecified local IP: the "kernel" picks the default source address of the family
		ip := n.DefaultV4
		if !isV4(raddr.IP) {
			ip = n.DefaultV6
		}
		laddr = &net.TCPAddr{IP: ip, Port: laddr.Port}
	}
	lp := laddr.Port
	if lp == 0 {
		lp = n.pickPort(laddr.IP, func(string) bool { return false })
	}
	local := &net.TCPAddr{IP: append(net.IP(nil), laddr.IP...), Port: lp}
	remote := &net.TCPAddr{IP: append(net.IP(nil), raddr.IP...), Port: raddr.Port}
	l := n.routeTCP(remote)
	if l == nil || n.DialFail[remote.String()] {
		n.logf(Ev{Kind: "dial-fail", Sock: local.String(), Src: local.String(), Dst: remote.String()})

		return nil, errors.New("simnet: dial: connection refused")
	}
	a2b, b2a := newHalf(), newHalf()
	a2b.maxSeg, b2a.maxSeg = n.DefaultSeg, n.DefaultSeg
	a2b.coalesce, b2a.coalesce = n.Coalesce, n.Coalesce
	a := &Conn{n: n, local: local, remote: remote, in: b2a, out: a2b, closed: make(chan struct{}), rdlCh: make(chan struct{}), Role: "dialer"}
	b := &Conn{n: n, local: remote, remote: local, in: a2b, out: b2a, closed: make(chan struct{}), rdlCh: make(chan struct{}), Role: "accepted"}
	a.peer, b.peer = b, a
	n.conns = append(n.conns, a, b)
	n.logf(Ev{Kind: "dial", Sock: local.String(), Src: local.String(), Dst: remote.String()})
	l.mu.Lock()
	if l.isClosed {
		l.mu.Unlock()

		return nil, errors.New("simnet: dial: connection refused")
	}
	l.q = append(l.q, b)
	l.mu.Unlock()
	select {
	case l.notify <- struct{}{}:
	default:
	}

	return a, nil
}

// ---------------------------------------------------------------- transport.Net

var errNotImpl = errors.New("simnet: not implemented")

func splitHostPort(address string) (net.IP, int, error) {
	h, p, err := net.SplitHostPort(address)
	if err != nil {
		return nil, 0, err
	}
	port, err := strconv.Atoi(p)
	if err != nil || port < 0 || port > 65535 {
		return nil, 0, fmt.Errorf("simnet: bad port %q", p)
	}
	var ip net.IP
	if h != "" {
		ip = Resolve(h)
		if ip == nil {
			return nil, 0, fmt.Errorf("simnet: bad host %q", h)
		}
	}

	return ip, port, nil
}

// Hosts are the host names the simulated resolver knows (listening and dialling by name is legal wherever an
// address string is taken).
var Hosts = map[string]net.IP{
	"relay.test":  net.IPv4(10, 9, 0, 1).To4(),
	"relay6.test": net.ParseIP("fd00:9::1"),
}

// Resolve turns an IP literal or a known host name into an IP (nil: unknown).
func Resolve(h string) net.IP {
	if ip := net.ParseIP(h); ip != nil {
		return ip
	}
	if ip, ok := Hosts[h]; ok {
		return append(net.IP(nil), ip...)
	}

	return nil
}

// ListenPacket implements transport.Net.
func (n *Net) ListenPacket(network, address string) (net.PacketConn, error) {
	ip, port, err := splitHostPort(address)
	if err != nil {
		return nil, err
	}
	s, err := n.ListenUDP(network, &net.UDPAddr{IP: ip, Port: port})
	if err != nil {
		return nil, err
	}

	return s, nil
}

// ListenUDPT is transport.Net.ListenUDP.
type netAdapter struct{ *Net }

// Transport returns n as a transport.Net.
func (n *Net) Transport() transport.Net { return netAdapter{n} }

func (a netAdapter) ListenUDP(network string, l *net.UDPAddr) (transport.UDPConn, error) {
	s, err := a.Net.ListenUDP(network, l)
	if err != nil {
		return nil, err
	}

	return udpAdapter{s}, nil
}

func (a netAdapter) ListenTCP(network string, l *net.TCPAddr) (transport.TCPListener, error) {
	return a.Net.ListenTCPAddr(network, l)
}

func (a netAdapter) Dial(network, address string) (net.Conn, error) {
	ip, port, err := splitHostPort(address)
	if err != nil {
		return nil, err
	}

	return a.Net.DialTCPAddr(nil, &net.TCPAddr{IP: ip, Port: port})
}

func (a netAdapter) DialUDP(string, *net.UDPAddr, *net.UDPAddr) (transport.UDPConn, error) {
	return nil, errNotImpl
}

func (a netAdapter) DialTCP(_ string, l, r *net.TCPAddr) (transport.TCPConn, error) {
	return a.Net.DialTCPAddr(l, r)
}

func (a netAdapter) ResolveIPAddr(_, address string) (*net.IPAddr, error) {
	ip := net.ParseIP(address)
	if ip == nil {
		return nil, fmt.Errorf("simnet: resolve %q", address)
	}

	return &net.IPAddr{IP: ip}, nil
}

func (a netAdapter) ResolveUDPAddr(_, address string) (*net.UDPAddr, error) {
	ip, port, err := splitHostPort(address)
	if err != nil {
		return nil, err
	}

	return &net.UDPAddr{IP: ip, Port: port}, nil
}

func (a netAdapter) ResolveTCPAddr(_, address string) (*net.TCPAddr, error) {
	ip, port, err := splitHostPort(address)
	if err != nil {
		return nil, err
	}

	return &net.TCPAddr{IP: ip, Port: port}, nil
}

func (a netAdapter) Interfaces() ([]*transport.Interface, error)          { return nil, errNotImpl }
func (a netAdapter) InterfaceByIndex(int) (*transport.Interface, error)   { return nil, errNotImpl }
func (a netAdapter) InterfaceByName(string) (*transport.Interface, error) { return nil, errNotImpl }
func (a netAdapter) CreateDialer(d *net.Dialer) transport.Dialer          { return dialer{a.Net, d} }
func (a netAdapter) CreateListenConfig(c *net.ListenConfig) transport.ListenConfig {
	return listenCfg{a.Net, c != nil && c.Control != nil}
}

type dialer struct {
	n *Net
	d *net.Dialer
}

func (d dialer) Dial(_, address string) (net.Conn, error) {
	ip, port, err := splitHostPort(address)
	if err != nil {
		return nil, err
	}
	var l *net.TCPAddr
	if d.d != nil && d.d.LocalAddr != nil {
		switch a := d.d.LocalAddr.(type) {
		case *net.TCPAddr:
			l = a
		case *net.UDPAddr:
			l = &net.TCPAddr{IP: a.IP, Port: a.Port}
		}
	}

	return d.n.DialTCPAddr(l, &net.TCPAddr{IP: ip, Port: port})
}

type listenCfg struct {
	n     *Net
	reuse bool // the ListenConfig carries a Control function (SO_REUSEPORT)
}

func (l listenCfg) Listen(_ context.Context, network, address string) (net.Listener, error) {
	ip, port, err := splitHostPort(address)
	if err != nil {
		return nil, err
	}

	return l.n.listenTCP(network, &net.TCPAddr{IP: ip, Port: port}, l.reuse)
}

func (l listenCfg) ListenPacket(_ context.Context, network, address string) (net.PacketConn, error) {
	ip, port, err := splitHostPort(address)
	if err != nil {
		return nil, err
	}
	s, err := l.n.listenUDP(network, &net.UDPAddr{IP: ip, Port: port}, l.reuse)
	if err != nil {
		return nil, err
	}

	return s, nil
}

type udpAdapter struct{ *UDPSock }

func (u udpAdapter) RemoteAddr() net.Addr      { return nil }
func (u udpAdapter) SetReadBuffer(int) error   { return nil }
func (u udpAdapter) SetWriteBuffer(int) error  { return nil }
func (u udpAdapter) Read([]byte) (int, error)  { return 0, errNotImpl }
func (u udpAdapter) Write([]byte) (int, error) { return 0, errNotImpl }
func (u udpAdapter) ReadFromUDP(b []byte) (int, *net.UDPAddr, error) {
	n, a, err := u.ReadFrom(b)
	ua, _ := a.(*net.UDPAddr)

	return n, ua, err
}
func (u udpAdapter) ReadMsgUDP([]byte, []byte) (int, int, int, *net.UDPAddr, error) {
	return 0, 0, 0, nil, errNotImpl
}
func (u udpAdapter) WriteToUDP(b []byte, a *net.UDPAddr) (int, error) { return u.WriteTo(b, a) }
func (u udpAdapter) WriteMsgUDP([]byte, []byte, *net.UDPAddr) (int, int, error) {
	return 0, 0, errNotImpl
}
