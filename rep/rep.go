// Package rep is the shard-report protocol between the per-property test
// binaries and bin/vcheck: flags, counters, violations, samples, and the
// choice-sequence enumerator shared by Engine A and Engine C.
package rep

import (
	"encoding/json"
	"flag"
	"fmt"
	"os"
	"sort"
	"strconv"
	"strings"
	"sync"
	"time"
)

var (
	flagTier   = flag.String("vtier", "quick", "quick|thorough")
	flagShard  = flag.String("vshard", "0/1", "i/n")
	flagOut    = flag.String("vout", "", "report path")
	flagReplay = flag.String("vreplay", "", "replay file")
	flagPart   = flag.String("vpart", "", "part name")
	flagBudget = flag.Duration("vbudget", 0, "soft wall-clock budget for this shard (0 = none)")
)

// Tier returns quick or thorough.
func Tier() string { return *flagTier }

// Thorough reports whether the thorough tier was requested.
func Thorough() bool { return *flagTier == "thorough" }

// Shard returns (i, n).
func Shard() (int, int) {
	p := strings.Split(*flagShard, "/")
	if len(p) != 2 {
		return 0, 1
	}
	i, _ := strconv.Atoi(p[0])
	n, _ := strconv.Atoi(p[1])
	if n <= 0 {
		n = 1
	}

	return i, n
}

// ReplayPath returns the -vreplay argument.
func ReplayPath() string { return *flagReplay }

// Part returns the -vpart argument.
func Part() string { return *flagPart }

// Violation is one property violation with a replayable artefact.
type Violation struct {
	Property  string `json:"property"`
	Oracle    string `json:"oracle"`
	Signature string `json:"signature"`
	Detail    string `json:"detail"`
	Replay    any    `json:"replay,omitempty"`
}

// Report is what one shard writes.
type Report struct {
	Property    string         `json:"property"`
	Part        string         `json:"part"`
	Tier        string         `json:"tier"`
	Shard       string         `json:"shard"`
	Evaluations int64          `json:"evaluations"`
	States      int64          `json:"states"`
	Transitions int64          `json:"transitions"`
	Schedules   int64          `json:"schedules"`
	Bound       int            `json:"bound"`
	Depth       int            `json:"depth"`
	Classes     map[string]int64 `json:"classes"`
	StateKeys   []string       `json:"state_keys,omitempty"`
	Samples     []any          `json:"samples"`
	Violations  []Violation    `json:"violations"`
	Exhaustive  bool           `json:"exhaustive"`
	Capped      string         `json:"capped,omitempty"`
	Notes       []string       `json:"notes,omitempty"`
	Extra       map[string]any `json:"extra,omitempty"`
	WallS       float64        `json:"wall_s"`

	mu       sync.Mutex
	start    time.Time
	vioSeen  map[string]int
	stateSet map[string]struct{}
}

// New starts a report for the current shard.
func New(property string) *Report {
	return &Report{
		Property: property, Part: *flagPart, Tier: *flagTier, Shard: *flagShard,
		Classes: map[string]int64{}, Exhaustive: true, start: time.Now(),
		vioSeen: map[string]int{}, stateSet: map[string]struct{}{}, Extra: map[string]any{},
	}
}

// Class counts one occurrence of an observation / input class.
func (r *Report) Class(k string) {
	r.mu.Lock()
	r.Classes[k]++
	r.mu.Unlock()
}

// State records a canonical state key; returns true when it is new.
func (r *Report) State(k string) bool {
	r.mu.Lock()
	defer r.mu.Unlock()
	if _, ok := r.stateSet[k]; ok {
		return false
	}
	r.stateSet[k] = struct{}{}

	return true
}

// Sample stores up to 6 samples.
func (r *Report) Sample(s any) {
	r.mu.Lock()
	if len(r.Samples) < 6 {
		r.Samples = append(r.Samples, s)
	}
	r.mu.Unlock()
}

// Violate records a violation (at most 3 per signature are kept).
func (r *Report) Violate(v Violation) {
	r.mu.Lock()
	defer r.mu.Unlock()
	if v.Property == "" {
		v.Property = r.Property
	}
	r.vioSeen[v.Signature]++
	if r.vioSeen[v.Signature] <= 2 {
		r.Violations = append(r.Violations, v)
	}
}

// ViolationCount returns the number of violations per signature.
func (r *Report) ViolationCount() map[string]int {
	r.mu.Lock()
	defer r.mu.Unlock()
	out := map[string]int{}
	for k, v := range r.vioSeen {
		out[k] = v
	}

	return out
}

// OverBudget reports whether the soft budget is exhausted; when it is the
// report is marked non-exhaustive with the given reason.
func (r *Report) OverBudget(what string) bool {
	if *flagBudget <= 0 || time.Since(r.start) < *flagBudget {
		return false
	}
	r.mu.Lock()
	r.Exhaustive = false
	if r.Capped == "" {
		r.Capped = "time budget reached: " + what
	}
	r.mu.Unlock()

	return true
}

// Note appends a free-text note.
func (r *Report) Note(f string, a ...any) {
	r.mu.Lock()
	r.Notes = append(r.Notes, fmt.Sprintf(f, a...))
	r.mu.Unlock()
}

// Write stores the report at -vout (or prints it).
func (r *Report) Write() {
	r.mu.Lock()
	defer r.mu.Unlock()
	r.WallS = time.Since(r.start).Seconds()
	if int64(len(r.stateSet)) > r.States {
		r.States = int64(len(r.stateSet))
	}
	if len(r.stateSet) > 0 && len(r.stateSet) <= 200000 {
		r.StateKeys = r.StateKeys[:0]
		for k := range r.stateSet {
			r.StateKeys = append(r.StateKeys, k)
		}
		sort.Strings(r.StateKeys)
	}
	r.Extra["violation_counts"] = r.vioSeen
	b, err := json.Marshal(r)
	if err != nil {
		panic(err)
	}
	if *flagOut == "" {
		fmt.Println(string(b))

		return
	}
	if err := os.WriteFile(*flagOut, b, 0o644); err != nil { //nolint:gosec
		panic(err)
	}
}

// Current records the case about to be executed next to the report file so
// that the runner can name it if the process dies (panic in a library
// goroutine, wedge killed by the supervisor). One pwrite on a descriptor that
// stays open: creating a file per case costs milliseconds on this file system.
func Current(v any) {
	if *flagOut == "" {
		return
	}
	b, _ := json.Marshal(v)
	curMu.Lock()
	defer curMu.Unlock()
	if curFile == nil {
		f, err := os.OpenFile(*flagOut+".current", os.O_CREATE|os.O_RDWR|os.O_TRUNC, 0o644) //nolint:gosec
		if err != nil {
			return
		}
		curFile = f
	}
	for len(b) < curLen {
		b = append(b, ' ')
	}
	curLen = len(b)
	_, _ = curFile.WriteAt(b, 0)
}

var (
	curMu   sync.Mutex
	curFile *os.File
	curLen  int
)

// ---------------------------------------------------------------------------
// Choice-sequence enumeration (stateless DFS by prefix replay).

// Chooser hands out choices during one execution. Beyond the replayed prefix
// it always answers 0 and records the arity so that the enumerator can
// advance like an odometer.
type Chooser struct {
	prefix         []int
	Taken          []int
	Arity          []int
	shard, nshards int
	// Abort is set when this execution belongs to another shard; the body
	// should stop as soon as convenient (its observations are discarded).
	Abort bool
}

// FixedChooser replays exactly the given choices (0 beyond them).
func FixedChooser(choices []int) *Chooser { return &Chooser{prefix: choices, nshards: 1} }

// Pick returns a choice in [0,n). n must be >= 1.
func (c *Chooser) Pick(n int) int {
	if n <= 0 {
		panic("rep: Pick with no alternatives")
	}
	i := len(c.Taken)
	v := 0
	if i < len(c.prefix) {
		v = c.prefix[i]
		if v >= n {
			panic(fmt.Sprintf("rep: replay divergence: choice %d=%d but arity %d", i, v, n))
		}
	}
	c.Taken = append(c.Taken, v)
	c.Arity = append(c.Arity, n)
	if i == 1 && c.nshards > 1 && (c.Taken[0]*131+c.Taken[1])%c.nshards != c.shard {
		c.Abort = true
	}

	return v
}

// Enumerate runs body for every choice sequence. Sharding: the pair of the
// first two choices is assigned to a shard by (c0*131+c1) mod n; executions
// of other shards are aborted right after their second choice. Returns the
// number of owned executions. stop may be nil; when it returns true the
// enumeration ends early (the caller must then mark the report capped).
func Enumerate(shard, nshards int, stop func() bool, body func(c *Chooser)) int64 {
	var runs int64
	prefix := []int{}
	for {
		c := &Chooser{prefix: prefix, shard: shard, nshards: nshards}
		body(c)
		taken, arity := c.Taken, c.Arity
		switch {
		case c.Abort:
			taken, arity = taken[:2], arity[:2]
		case nshards > 1 && len(taken) < 2:
			// sequences with fewer than two choices belong to shard 0
			if shard == 0 {
				runs++
			}
		default:
			runs++
		}
		i := len(taken) - 1
		for i >= 0 && taken[i]+1 >= arity[i] {
			i--
		}
		if i < 0 {
			return runs
		}
		prefix = append(append([]int{}, taken[:i]...), taken[i]+1)
		if stop != nil && stop() {
			return runs
		}
	}
}

// Owned reports whether observations of this execution count for this shard.
func (c *Chooser) Owned() bool {
	if c.Abort {
		return false
	}
	if c.nshards > 1 && len(c.Taken) < 2 {
		return c.shard == 0
	}

	return true
}

// Guard arms a real-time watchdog for one execution: inside a synctest bubble a
// goroutine blocked on a leaked sync.Mutex (or spinning) is not durably blocked,
// so the bubble never reaches quiescence and the test would hang until the
// runner's hard timeout. After d of real time the report is written with a
// wedge violation naming the current case and the process exits. Call the
// returned function when the execution has finished. d should be several orders
// of magnitude above a normal execution (milliseconds): this is a liveness
// backstop, never a timing oracle.
func (r *Report) Guard(d time.Duration, sigHint string, describe func() any) (stop func()) {
	t := time.AfterFunc(d, func() {
		r.mu.Lock()
		r.Exhaustive = false
		r.Capped = "execution wedged (no quiescence within " + d.String() + " of real time)"
		r.mu.Unlock()
		var c any
		if describe != nil {
			c = describe()
		}
		r.Violate(Violation{Oracle: "wedge", Signature: "wedge:" + sigHint, Detail: fmt.Sprint("case: ", c), Replay: map[string]any{"case": c}})
		r.Write()
		os.Exit(0)
	})

	return func() { t.Stop() }
}
