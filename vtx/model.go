package vtx

import (
	"fmt"
	"net"
	"sort"
	"strings"
	"time"
)

// The reference TURN server: plain maps, liveness is now < expiresAt.

// MChan is a modelled channel binding.
type MChan struct {
	Peer *net.UDPAddr
	Exp  time.Time
}

// MAlloc is a modelled allocation.
type MAlloc struct {
	Client   string
	User     string
	Fam      int // 4 or 6
	TCP      bool
	Relay    *net.UDPAddr // learnt from the success response
	Exp      time.Time
	Granted  time.Duration
	Granted0 time.Duration // lifetime granted by the Allocate itself (what a retransmission repeats)
	Tx       [12]byte
	Note     string               // free use by harnesses (e.g. the attributes of the Allocate success response)
	Perms    map[string]time.Time // peer IP -> expiry
	Chans    map[uint16]*MChan
}

// DeadRelay remembers a relay address whose allocation is gone.
type DeadRelay struct {
	Client string
	Relay  *net.UDPAddr
}

// Model is the reference state.
type Model struct {
	Cfg    Config
	Allocs map[string]*MAlloc // by client name
	Dead   []DeadRelay
	Closed bool            // server closed
	Gone   map[string]bool // clients whose control connection is closed
	// ExtraDeadlines and ConnView are filled in by the TCP part before each menu call.
	ExtraDeadlines []time.Time
	ConnView       map[string][]ConnView
}

// NewModel creates an empty model.
func NewModel(cfg Config) *Model {
	return &Model{Cfg: cfg, Allocs: map[string]*MAlloc{}, Gone: map[string]bool{}}
}

// Expire drops everything whose expiry is not after now.
func (m *Model) Expire(now time.Time) {
	for name, a := range m.Allocs {
		if !now.Before(a.Exp) {
			m.Drop(name)

			continue
		}
		for ip, e := range a.Perms {
			if !now.Before(e) {
				delete(a.Perms, ip)
			}
		}
		for n, c := range a.Chans {
			if !now.Before(c.Exp) {
				delete(a.Chans, n)
			}
		}
	}
}

// Drop removes an allocation.
func (m *Model) Drop(name string) {
	if a, ok := m.Allocs[name]; ok {
		if a.Relay != nil {
			m.Dead = append(m.Dead, DeadRelay{name, a.Relay})
		}
		delete(m.Allocs, name)
	}
}

// ConnView is what a menu may know about a modelled peer data connection.
type ConnView struct {
	Bound, In bool
}

// Deadlines returns all pending expiry instants, sorted, de-duplicated.
func (m *Model) Deadlines() []time.Time {
	out := append([]time.Time(nil), m.ExtraDeadlines...)
	if m.Cfg.Policy == "denyBlate" && time.Since(Epoch) < PolicyFlip {
		out = append(out, Epoch.Add(PolicyFlip)) // the instant the operator's verdict changes
	}
	for _, a := range m.Allocs {
		out = append(out, a.Exp)
		for _, e := range a.Perms {
			out = append(out, e)
		}
		for _, c := range a.Chans {
			out = append(out, c.Exp)
		}
	}
	sort.Slice(out, func(i, j int) bool { return out[i].Before(out[j]) })
	w := 0
	for i, t := range out {
		if i == 0 || !t.Equal(out[w-1]) {
			out[w] = t
			w++
		}
	}

	return out[:w]
}

// Granted computes the lifetime in force for a request.
func (m *Model) Granted(requested int64) time.Duration {
	if requested >= 0 && requested < 3600 {
		return time.Duration(requested) * time.Second
	}

	return m.Cfg.LifetimeOrDefault()
}

// Allowed reports whether the operator policy admits the peer IP.
func (m *Model) Allowed(ip net.IP) bool { return m.allowedBy(m.Cfg.Policy, ip) }

// AllowedFor: the policy of the listener the client arrived through (a Dual world may give its stream listener another handler).
func (m *Model) AllowedFor(client string, ip net.IP) bool {
	if m.Cfg.Dual && m.Cfg.StreamPolicy != "" && strings.HasSuffix(client, "t") {
		return m.allowedBy(m.Cfg.StreamPolicy, ip)
	}

	return m.allowedBy(m.Cfg.Policy, ip)
}

func (m *Model) allowedBy(policy string, ip net.IP) bool {
	switch policy {
	case "denyAll":
		return false
	case "denyB":
		return !ip.Equal(PeerSpec["B"].IP)
	case "denyBlate":
		// the operator changes his mind: B is admitted during the first 5 s of the run, refused afterwards
		return !ip.Equal(PeerSpec["B"].IP) || time.Since(Epoch) < PolicyFlip
	}

	return true
}

// Epoch is the start of every synctest bubble clock; PolicyFlip the age at which policy "denyBlate" starts refusing B.
var Epoch = time.Date(2000, 1, 1, 0, 0, 0, 0, time.UTC)

const PolicyFlip = 5 * time.Second

func famOf(ip net.IP) int {
	if ip.To4() != nil {
		return 4
	}

	return 6
}

// ChanByPeer finds the channel bound to an exact peer address.
func (a *MAlloc) ChanByPeer(p *net.UDPAddr) (uint16, bool) {
	for n, c := range a.Chans {
		if c.Peer.IP.Equal(p.IP) && c.Peer.Port == p.Port {
			return n, true
		}
	}

	return 0, false
}

// Key is a canonical rendering of the model with times as remaining durations.
func (m *Model) Key(now time.Time) string {
	var names []string

	for n := range m.Allocs {
		names = append(names, n)
	}
	sort.Strings(names)
	var sb strings.Builder
	for _, n := range names {
		a := m.Allocs[n]
		fmt.Fprintf(&sb, "%s[u=%s f=%d tcp=%v rem=%v", n, a.User, a.Fam, a.TCP, a.Exp.Sub(now))
		var ips []string
		for ip := range a.Perms {
			ips = append(ips, ip)
		}
		sort.Strings(ips)
		for _, ip := range ips {
			fmt.Fprintf(&sb, " p(%s)=%v", ip, a.Perms[ip].Sub(now))
		}
		var ns []int
		for n := range a.Chans {
			ns = append(ns, int(n))
		}
		sort.Ints(ns)
		for _, n := range ns {
			c := a.Chans[uint16(n)] //nolint:gosec
			fmt.Fprintf(&sb, " c(%#x->%s)=%v", n, c.Peer, c.Exp.Sub(now))
		}
		sb.WriteString("] ")
	}
	for _, cn := range names {
		for i, cv := range m.ConnView[cn] {
			fmt.Fprintf(&sb, "%s.conn%d(bound=%v,in=%v) ", cn, i, cv.Bound, cv.In)
		}
	}
	fmt.Fprintf(&sb, "dead=%d", len(m.Dead))
	if m.Cfg.Policy == "denyBlate" {
		// the phase of the time-dependent policy is part of the state (remaining time until the verdict changes)
		if d := Epoch.Add(PolicyFlip).Sub(now); d > 0 {
			fmt.Fprintf(&sb, " policy-flips-in=%v", d)
		} else {
			sb.WriteString(" policy-flipped")
		}
	}

	return sb.String()
}
