package vtx

import (
	"bytes"
	"fmt"
	"net"
	"sort"
	"testing/synctest"
	"time"

	"github.com/pion/turn/v5/verif/simnet"
	"github.com/pion/turn/v5/verif/wire"
)

// MConn is a modelled peer data connection of a TCP allocation (RFC 6062).
type MConn struct {
	ID      uint32
	Peer    string // peer transport address
	Created time.Time
	Bound   bool
	In      bool // accepted at the relayed address (ConnectionAttempt) rather than Connect
	PeerEnd *simnet.Conn
	DataEnd *simnet.Conn
	Seq     int
	// PeerClosed: the peer closed the connection before it was bound; the server
	// only notices when it starts copying, i.e. right after a successful bind.
	PeerClosed bool
	// Doomed: a ConnectionBind for it was in progress when the client reset the data connection. The server may
	// have given the connection up at once or may keep it pending; it does not outlive its bind deadline.
	Doomed bool
}

const bindTimeout = 30 * time.Second

// TCPState is the TCP part of the model, kept per client.
type TCPState struct {
	Conns    map[string][]*MConn // by client
	AllIDs   map[uint32]bool
	seq      int
	peerPort int
	dataPort int
	PeerL    map[string]*simnet.Listener // peer TCP listeners by peer name
}

// TCP returns (creating) the TCP model state of the execution.
func (x *Exec) TCP() *TCPState {
	if x.tcp == nil {
		x.tcp = &TCPState{Conns: map[string][]*MConn{}, AllIDs: map[uint32]bool{}, peerPort: 7000, dataPort: 30000, PeerL: map[string]*simnet.Listener{}}
		for _, pn := range x.W.PNames {
			p := x.W.P[pn]
			l, err := x.W.Net.ListenTCPAddr("tcp", &net.TCPAddr{IP: p.Addr.IP, Port: p.Addr.Port})
			if err == nil {
				x.tcp.PeerL[pn] = l
			}
		}
	}

	return x.tcp
}

// tcpExpire drops connections whose allocation is gone or whose bind deadline passed.
func (x *Exec) tcpExpire(now time.Time) {
	t := x.TCP()
	for cn, list := range t.Conns {
		a := x.M.Allocs[cn]
		var keep []*MConn
		for _, c := range list {
			if a == nil || !a.TCP {
				continue
			}
			if !c.Bound && !now.Before(c.Created.Add(bindTimeout)) {
				continue
			}
			keep = append(keep, c)
		}
		t.Conns[cn] = keep
	}
}

// TCPDeadlines lists pending bind deadlines (for AdvanceMenu).
func (x *Exec) TCPDeadlines() []time.Time {
	var out []time.Time
	for _, list := range x.TCP().Conns {
		for _, c := range list {
			if !c.Bound {
				out = append(out, c.Created.Add(bindTimeout))
			}
		}
	}
	sort.Slice(out, func(i, j int) bool { return out[i].Before(out[j]) })

	return out
}

func (x *Exec) peerName(addr string) string {
	for _, pn := range x.W.PNames {
		if x.W.P[pn].Addr.String() == addr {
			return pn
		}
	}

	return ""
}

// applyTCP executes the RFC 6062 events.
func (x *Exec) applyTCP(ev Event, now time.Time) (*Viol, bool) { //nolint:gocyclo,cyclop,gocognit,maintidx
	w, m := x.W, x.M
	t := x.TCP()
	x.tcpExpire(now)
	switch ev.K {
	case "connect":
		c := w.C[ev.C]
		a := m.Allocs[ev.C]
		p := PeerSpec[ev.Peers[0]]
		mark := w.Net.Mark()
		res := c.Request(wire.Connect, nil, func(b *wire.B) { b.XorAddr(wire.AttrXORPeerAddress, p.IP, p.Port) })
		x.Trace = append(x.Trace, ev.Class()+"->"+respStr(res))
		dialed := false
		for _, e := range w.Net.Since(mark) {
			if (e.Kind == "dial" || e.Kind == "dial-fail") && e.Dst == p.String() {
				dialed = true
			}
		}
		if a == nil || !a.TCP {
			if res.Resp != nil && res.Resp.Class == wire.Success {
				return x.viol("resp", "connect-without-tcp-allocation-success", ev, respStr(res)), true
			}

			return nil, true
		}
		if !m.AllowedFor(ev.C, p.IP) {
			if res.Resp == nil || res.Resp.Class != wire.Error {
				return x.viol("policy", "connect-should-fail-denied", ev, respStr(res)), true
			}
			if dialed {
				return x.viol("policy", "refused-connect-target-dialled", ev, p.String()), true
			}

			return nil, true
		}
		for i, mc := range t.Conns[ev.C] {
			if mc.Peer == p.String() && mc.Doomed && res.Resp != nil && res.Resp.Class == wire.Success {
				// the doomed connection had been given up already: this Connect is an ordinary one
				t.Conns[ev.C] = append(append([]*MConn{}, t.Conns[ev.C][:i]...), t.Conns[ev.C][i+1:]...)

				break
			}
			if mc.Peer == p.String() {
				if res.Resp == nil || res.Resp.Class != wire.Error || res.Resp.ErrorCode() != 446 {
					return x.viol("tcp", "duplicate-connect-not-446", ev, respStr(res)), true
				}
				// "... while the server keeps serving": the manager must answer a further request
				pr := c.Request(wire.CreatePermission, nil, func(b *wire.B) { b.XorAddr(wire.AttrXORPeerAddress, p.IP, p.Port) })
				if pr.Resp == nil || pr.Resp.Class != wire.Success {
					return x.viol("tcp", "server-not-serving-after-446", ev, respStr(pr)), true
				}
				a.Perms[p.IP.String()] = time.Now().Add(m.Cfg.PermOrDefault())

				return nil, true
			}
		}
		pn := x.peerName(p.String())
		if t.PeerL[pn] == nil || t.PeerL[pn].Closed() {
			if res.Resp != nil && res.Resp.Class == wire.Success {
				return x.viol("tcp", "connect-success-without-peer-connection", ev, respStr(res)), true
			}

			return nil, true
		}
		if res.Resp == nil || res.Resp.Class != wire.Success {
			return x.viol("resp", "connect-not-success", ev, respStr(res)), true
		}
		id, ok := res.Resp.U32(wire.AttrConnectionID)
		if !ok {
			return x.viol("tcp", "connect-success-without-connection-id", ev, ""), true
		}
		if t.AllIDs[id] {
			return x.viol("tcp", "connection-id-not-unique", ev, fmt.Sprint(id)), true
		}
		pe := t.PeerL[pn].Take()
		if pe == nil || pe.RemoteAddr().String() != (&net.TCPAddr{IP: a.Relay.IP, Port: a.Relay.Port}).String() {
			return x.viol("tcp", "connect-success-but-no-connection-from-relayed-address", ev, fmt.Sprint(pe)), true
		}
		t.AllIDs[id] = true
		t.seq++
		t.Conns[ev.C] = append(t.Conns[ev.C], &MConn{ID: id, Peer: p.String(), Created: now, PeerEnd: pe, Seq: t.seq})

		return nil, true

	case "peerdial":
		// peer ev.Peers[0] dials the relayed address of client ev.C
		a := m.Allocs[ev.C]
		p := PeerSpec[ev.Peers[0]]
		var relay *net.UDPAddr
		if a != nil {
			relay = a.Relay
		} else if len(m.Dead) > 0 {
			relay = m.Dead[len(m.Dead)-1].Relay
		}
		x.Trace = append(x.Trace, ev.Class())
		if relay == nil {
			return nil, true
		}
		t.peerPort++
		src := &net.TCPAddr{IP: p.IP, Port: t.peerPort}
		conn, err := w.Net.DialTCPAddr(src, &net.TCPAddr{IP: relay.IP, Port: relay.Port})
		synctest.Wait()
		c := w.C[ev.C]
		var attempts []Rx
		for _, rx := range c.Recv() {
			if rx.Msg != nil && rx.Msg.Method == wire.ConnectionAttempt && rx.Msg.Class == wire.Indication {
				attempts = append(attempts, rx)
			} else {
				return x.viol("stray", "unexpected-message-after-peer-dial", ev, rx.String()), true
			}
		}
		for _, on := range w.CNames {
			if on != ev.C {
				if got := w.C[on].Recv(); len(got) > 0 {
					return x.viol("leak-p2c", "connection-attempt-to-other-client", ev, got[0].String()), true
				}
			}
		}
		permitted := false
		if a != nil && a.TCP {
			_, permitted = a.Perms[p.IP.String()]
		}
		if err != nil || !permitted {
			if len(attempts) > 0 {
				return x.viol("leak-p2c", "connection-attempt-from-unpermitted-peer", ev, attempts[0].String()), true
			}
			if err == nil && !conn.SawEOF() {
				return x.viol("tcp", "unpermitted-peer-connection-left-open", ev, src.String()), true
			}

			return nil, true
		}
		if len(attempts) != 1 {
			return x.viol("miss-p2c", fmt.Sprintf("connection-attempt-count-%d", len(attempts)), ev, ""), true
		}
		id, ok := attempts[0].Msg.U32(wire.AttrConnectionID)
		pa, ok2 := attempts[0].Msg.XorAddr(wire.AttrXORPeerAddress)
		if !ok || !ok2 || pa.String() != src.String() {
			return x.viol("tcp", "connection-attempt-attribution", ev, fmt.Sprint(pa, src)), true
		}
		if t.AllIDs[id] {
			return x.viol("tcp", "connection-id-not-unique", ev, fmt.Sprint(id)), true
		}
		t.AllIDs[id] = true
		t.seq++
		t.Conns[ev.C] = append(t.Conns[ev.C], &MConn{ID: id, Peer: src.String(), Created: now, In: true, PeerEnd: conn, Seq: t.seq})

		return nil, true

	case "cbind":
		// ev.C: the client that binds; ev.As: user; ev.N: index of the connection (0 = oldest of ev.Peers[0] client, 0xFFFF = unknown id)
		owner := ev.C
		if len(ev.Peers) > 0 {
			owner = ev.Peers[0] // connection belongs to this client's allocation
		}
		var mc *MConn
		id := uint32(0xDEADBEEF)
		if list := t.Conns[owner]; int(ev.N) < len(list) {
			mc = list[ev.N]
			id = mc.ID
		}
		c := w.C[ev.C]
		user := c.User
		if ev.As != "" {
			user = ev.As
		}
		if ev.Rule == "control" {
			// ConnectionBind sent on the client's (datagram) control channel instead of a new stream connection:
			// it cannot become a data connection, so it is refused - and a refused request changes nothing:
			// the connection stays bindable until its deadline and is closed then
			res := c.Request(wire.ConnectionBind, nil, func(b *wire.B) { b.U32(wire.AttrConnectionID, id) })
			x.Trace = append(x.Trace, ev.Class()+"->"+respStr(res))
			if res.Resp != nil && res.Resp.Class == wire.Success {
				return x.viol("tcp", "connection-bind-over-datagram-control-channel-accepted", ev, respStr(res)), true
			}

			return nil, true
		}
		t.dataPort++
		dc, err := w.Net.DialTCPAddr(&net.TCPAddr{IP: c.Addr.IP, Port: t.dataPort}, &net.TCPAddr{IP: w.SrvAddr.IP, Port: w.SrvAddr.Port})
		if err != nil {
			return x.viol("harness", "data-connection-dial", ev, err.Error()), true
		}
		tx := w.NextTx()
		b := wire.New(wire.ConnectionBind, wire.Request, tx).U32(wire.AttrConnectionID, id)
		b.Str(wire.AttrUsername, user).Str(wire.AttrRealm, Realm).Str(wire.AttrNonce, c.Nonce).Integrity(wire.LongTermKey(user, Realm, Users[user]))
		_, _ = dc.Write(b.Bytes())
		if ev.Rule == "reset" {
			// the client resets the data connection right behind the request: the answer cannot be written
			_ = dc.Close()
			synctest.Wait()
			x.Trace = append(x.Trace, ev.Class()+"->(data connection reset)")
			oa := m.Allocs[owner]
			if mc != nil && !mc.Bound && oa != nil && oa.User == user {
				mc.Doomed = true
			}

			return nil, true
		}
		synctest.Wait()
		raw, _ := dc.TakeAll()
		var resp *wire.Msg
		if n, ferr := wire.FrameLen(raw); ferr == nil && n > 0 {
			if msg, perr := wire.Parse(raw[:n]); perr == nil && msg.TxID == tx {
				resp = msg
				raw = raw[n:]
			}
		}
		got := "silence"
		if resp != nil {
			got = Rx{Msg: resp}.String()
		}
		x.Trace = append(x.Trace, ev.Class()+"->"+got)
		ownerAlloc := m.Allocs[owner]
		should := mc != nil && !mc.Bound && ownerAlloc != nil && ownerAlloc.User == user
		if !should {
			if resp != nil && resp.Class == wire.Success {
				why := "unknown-id"
				switch {
				case mc != nil && mc.Bound:
					why = "already-bound"
				case mc != nil && ownerAlloc != nil && ownerAlloc.User != user:
					why = "other-user"
				case mc != nil:
					why = "stale"
				}

				return x.viol("tcp", "connection-bind-accepted:"+why, ev, got), true
			}
			_ = dc.Close()
			synctest.Wait()

			return nil, true
		}
		if mc.Doomed {
			if resp == nil || resp.Class != wire.Success {
				_ = dc.Close()
				synctest.Wait()

				return nil, true // given up already
			}
			mc.Doomed = false // it had been kept pending: an ordinary bind
		}
		if mc.PeerClosed {
			// either answer is fine; the connection is gone afterwards
			list := t.Conns[owner]
			t.Conns[owner] = append(append([]*MConn{}, list[:ev.N]...), list[ev.N+1:]...)
			_ = dc.Close()
			synctest.Wait()

			return nil, true
		}
		if resp == nil || resp.Class != wire.Success {
			return x.viol("tcp", "connection-bind-refused", ev, got), true
		}
		if len(raw) > 0 {
			return x.viol("tcp", "bytes-before-any-were-sent", ev, fmt.Sprint(raw)), true
		}
		mc.Bound = true
		mc.DataEnd = dc

		return nil, true

	case "bytes":
		// ev.C client, ev.N connection index, ev.Rule "c2p" | "p2c", ev.L segmentation (0 whole, 1 byte-at-a-time, n)
		list := t.Conns[ev.C]
		x.Trace = append(x.Trace, ev.Class())
		if int(ev.N) >= len(list) || !list[ev.N].Bound {
			return nil, true
		}
		mc := list[ev.N]
		payload := []byte(fmt.Sprintf("payload-%d-%s-0123456789abcdefghijklmnopqrstuvwxyz", mc.Seq, ev.Rule))
		src, dst := mc.DataEnd, mc.PeerEnd
		if ev.Rule == "p2c" {
			src, dst = mc.PeerEnd, mc.DataEnd
		}
		src.SetSegmentation(int(ev.L), nil)
		_, _ = src.Write(payload)
		synctest.Wait()
		got, _ := dst.TakeAll()
		if !bytes.Equal(got, payload) {
			return x.viol("tcp", "bytes-altered:"+ev.Rule, ev, fmt.Sprintf("%q vs %q", got, payload)), true
		}
		if back, _ := src.TakeAll(); len(back) > 0 {
			return x.viol("tcp", "bytes-echoed:"+ev.Rule, ev, fmt.Sprintf("%q", back)), true
		}

		return nil, true

	case "closeconn":
		list := t.Conns[ev.C]
		x.Trace = append(x.Trace, ev.Class())
		if int(ev.N) >= len(list) {
			return nil, true
		}
		mc := list[ev.N]
		var other *simnet.Conn
		if ev.Rule == "client" {
			if mc.DataEnd == nil {
				return nil, true
			}
			_ = mc.DataEnd.Close()
			other = mc.PeerEnd
		} else {
			_ = mc.PeerEnd.Close()
			other = mc.DataEnd
		}
		synctest.Wait()
		if mc.Bound {
			if other != nil && !other.SawEOF() {
				return x.viol("tcp", "close-not-propagated:"+ev.Rule, ev, ""), true
			}
			t.Conns[ev.C] = append(append([]*MConn{}, list[:ev.N]...), list[ev.N+1:]...)
		}
		// an unbound connection closed by the peer is only noticed by the server at bind time / timeout
		if !mc.Bound && ev.Rule != "client" {
			mc.PeerClosed = true
		}

		return nil, true
	}

	return nil, false
}

// CheckTCP compares the relay-side peer connections with the model: every
// modelled connection is open on the peer side, and a connection the model no
// longer has (bind timeout, allocation gone, closed) is closed.
func (x *Exec) CheckTCP(ev Event) *Viol {
	if x.tcp == nil {
		return nil
	}
	now := time.Now()
	x.M.Expire(now)
	x.tcpExpire(now)
	live := map[*simnet.Conn]bool{}
	for _, list := range x.tcp.Conns {
		for _, c := range list {
			live[c.PeerEnd] = true
			if c.PeerEnd.SawEOF() && !c.PeerEnd.IsClosed() && !c.PeerClosed && !c.Doomed {
				return x.viol("tcp", "live-peer-connection-closed-by-server", ev, fmt.Sprintf("id=%d peer=%s bound=%v trace=%v", c.ID, c.Peer, c.Bound, x.Trace))
			}
		}
	}
	// relay-side endpoints still open must all belong to live modelled connections
	n := 0
	for _, c := range x.W.Net.Conns() {
		if c.IsClosed() {
			continue
		}
		la := c.LocalAddr().(*net.TCPAddr) //nolint:forcetypeassert
		if la.IP.Equal(x.W.Relay4) || la.IP.Equal(x.W.Relay6) {
			n++
			if !live[c.Peer()] {
				return x.viol("tcp", "peer-connection-open-without-model-entry", ev, fmt.Sprintf("%s->%s trace=%v", la, c.RemoteAddr(), x.Trace))
			}
		}
	}

	return nil
}

// refreshViews publishes the TCP part of the state to the model for menus and deadline rules.
func (x *Exec) refreshViews() {
	if x.tcp == nil {
		return
	}
	now := time.Now()
	x.M.Expire(now)
	x.tcpExpire(now)
	x.M.ExtraDeadlines = x.TCPDeadlines()
	x.M.ConnView = map[string][]ConnView{}
	for cn, list := range x.tcp.Conns {
		for _, c := range list {
			x.M.ConnView[cn] = append(x.M.ConnView[cn], ConnView{Bound: c.Bound, In: c.In})
		}
	}
}
