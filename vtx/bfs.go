package vtx

import (
	"fmt"
	"os"
	"testing"
	"testing/synctest"
	"time"

	"github.com/pion/turn/v5/verif/rep"
)

// Merged breadth-first search (thorough tiers): states are merged on a
// canonical key = configuration + reference-model state with every time
// expressed as a *remaining* duration + what the implementation shows through
// its public API (AllocationCount, number of open relay sockets / listeners /
// relay-side connections, number of lifecycle callbacks outstanding).
//
// Soundness argument for merging: the implementation's future behaviour depends
// on absolute time only through timer deadlines (in the key as remaining time)
// and nonce age (the scripted clients always obtain a fresh nonce on 438, so
// nonce age never changes an outcome), and on the identity of relay ports only
// through "which port", which the harness never chooses (learnt from
// responses). The merge is validated at run time: every NEW state gets a drain
// transcript (advance through every remaining deadline at -1ns/+1ns with a
// sweep at each) that must agree with the model, so a hidden timer or stale
// entry that the key does not show surfaces there. The residual risk (hidden
// state that only shows after a further request) is covered by the unmerged
// enumeration at the smaller depth.

type bfsNode struct {
	events []Event
	menu   []Event
}

type histResult struct {
	viol *Viol
	key  string
	menu []Event
	rp   Replay
}

// execHistory replays events (oracles only on the last one), computes the key
// and the menu of the reached state and, if drain is set, validates the state
// by a drain transcript.
func execHistory(t *testing.T, p *Profile, cfg Config, events []Event, step int, drain bool, r *rep.Report) (res histResult) {
	var fatal string
	var cur *Exec
	stop := r.Guard(30*time.Second, "server-stopped-making-progress:bfs:"+p.Name, func() any {
		if cur != nil {
			return map[string]any{"profile": p.Name, "config": cfg.String(), "trace": cur.Trace}
		}

		return p.Name
	})
	defer stop()
	func() {
		defer func() {
			if e := recover(); e != nil {
				fatal = fmt.Sprint(e)
			}
		}()
		synctest.Test(t, func(*testing.T) {
			res.rp = Replay{Engine: "vtx-bfs", Profile: p.Name, Config: cfg}
			w, err := NewWorld(cfg, p.Clients, p.Peers)
			if err != nil {
				res.viol = &Viol{Tag: "harness", Sig: "harness:newworld", Detail: err.Error()}

				return
			}
			x := &Exec{W: w, M: NewModel(cfg), Chans: p.Chans, SkipDeadRelays: p.SkipDeadRelays}
			cur = x
			if p.Tags != nil {
				x.Select = func(tag string) bool { return p.Tags[tag] }
			}
			defer func() {
				res.rp.Events = x.Events
				res.rp.Trace = x.Trace
				w.CloseServer()
				w.CloseEndpoints()
			}()
			all := events
			if p.Setup != nil {
				all = append(append([]Event{}, p.Setup(cfg)...), events...)
			}
			for i, ev := range all {
				if res.viol = x.Apply(ev); res.viol != nil {
					return
				}
				if i < len(all)-1 {
					continue // prefixes were judged when they were the last event
				}
				r.Transitions++
				if res.viol = x.CheckCount(ev); res.viol != nil {
					return
				}
				if p.Resources {
					if res.viol = x.CheckResources(ev); res.viol != nil {
						return
					}
				}
				if p.Lifecycle {
					if res.viol = x.CheckLifecycle(ev); res.viol != nil {
						return
					}
				}
				if res.viol = x.CheckTCP(ev); res.viol != nil {
					return
				}
				if res.viol = x.Sweep(ev); res.viol != nil {
					return
				}
			}
			x.refreshViews()
			now := time.Now()
			relays := 0
			for _, s := range w.Net.OpenUDP() {
				if len(s) > 8 && (s[:9] == "10.9.0.1:" || s[:7] == "[fd00:9") {
					relays++
				}
			}
			res.key = fmt.Sprintf("%s|%s|impl:count=%d,relays=%d,listeners=%d,life=%d", cfg.String(), x.M.Key(now),
				w.Srv.AllocationCount(), relays, len(w.Net.OpenListeners()), len(w.Life)%2)
			res.menu = p.Menu(x.M, now, step)
			if drain {
				for range 64 {
					x.refreshViews()
					dl := x.M.Deadlines()
					now := time.Now()
					var next time.Time
					for _, d := range dl {
						if d.After(now) {
							next = d

							break
						}
					}
					if next.IsZero() {
						break
					}
					for _, ev := range []Event{
						{K: "adv", Rule: "drain-1ns", D: next.Add(-time.Nanosecond).Sub(now), L: -1},
						{K: "adv", Rule: "drain+1ns", D: 2 * time.Nanosecond, L: -1},
					} {
						if ev.D <= 0 {
							continue
						}
						if res.viol = x.Apply(ev); res.viol != nil {
							return
						}
						if res.viol = x.CheckCount(ev); res.viol != nil {
							return
						}
						if res.viol = x.Sweep(ev); res.viol != nil {
							return
						}
					}
				}
			}
		})
	}()
	if fatal != "" && res.viol == nil {
		res.viol = &Viol{Tag: "fatal", Sig: "fatal:" + fatal, Detail: fatal + " trace=" + fmt.Sprint(res.rp.Trace)}
	}

	return res
}

// ExploreBFS runs the merged search to maxDepth; configurations are spread over shards.
func ExploreBFS(t *testing.T, p *Profile, r *rep.Report, maxDepth int) {
	if rep.ReplayPath() != "" {
		Explore(t, p, r) // replay files are plain event lists

		return
	}
	shard, n := rep.Shard()
	for ci, cfg := range p.Configs {
		root := execHistory(t, p, cfg, nil, 0, false, r)
		if root.viol != nil {
			if shard == 0 {
				r.Violate(rep.Violation{Oracle: root.viol.Tag, Signature: root.viol.Sig, Detail: root.viol.Detail, Replay: root.rp})
			}

			continue
		}
		// one search per (configuration, first event), spread over the shards; each has its own visited set
		for k, first := range root.menu {
			if (ci*131+k)%n != shard {
				continue
			}
			visited := map[string]bool{root.key: true}
			frontier := []bfsNode{{nil, []Event{first}}}
			depthDone := 0
			for depth := 1; depth <= maxDepth && len(frontier) > 0; depth++ {
				var next []bfsNode
				capped := false
				for _, nd := range frontier {
					if r.OverBudget(fmt.Sprintf("bfs %s depth %d", p.Name, depth)) {
						capped = true

						break
					}
					for _, ev := range nd.menu {
						evs := append(append([]Event{}, nd.events...), ev)
						res := execHistory(t, p, cfg, evs, depth, false, r)
						r.Evaluations++
						if res.viol == nil && !visited[res.key] {
							// new state: validate the merge key by a drain transcript
							res = execHistory(t, p, cfg, evs, depth, p.Drain, r)
						}
						if v := res.viol; v != nil {
							if p.Tags == nil || p.Tags[v.Tag] || v.Tag == "fatal" || v.Tag == "harness" || v.Tag == "stray" {
								r.Violate(rep.Violation{Oracle: v.Tag, Signature: v.Sig, Detail: v.Detail, Replay: res.rp})
							} else {
								r.Class("other-property-disagreement:" + v.Tag)
							}

							continue
						}
						r.Class(ev.Class())
						if visited[res.key] {
							continue
						}
						visited[res.key] = true
						r.State(res.key)
						next = append(next, bfsNode{evs, res.menu})
					}
				}
				if capped {
					break
				}
				depthDone = depth
				frontier = next
			}
			if r.Depth == 0 || depthDone < r.Depth {
				r.Depth = depthDone // the depth completed by every search of this shard
			}
			r.Note("bfs %s config[%d] first=%s: %d merged states, depth %d completed (requested %d)", p.Name, ci, first.Class(), len(visited), depthDone, maxDepth)
		}
	}
	_ = os.Getpid
}
