package vtx

import (
	"errors"
	"fmt"
	"github.com/pion/turn/v5/verif/simnet"
	"net"
	"sort"
	"strings"
	"syscall"
	"testing/synctest"
	"time"

	"github.com/pion/turn/v5/verif/wire"
)

// Event is one transition of the explored system. JSON-serialisable: replay
// files are lists of events.
type Event struct {
	K      string        `json:"k"`                 // alloc refresh perm chan adv send cdata peer
	C      string        `json:"c,omitempty"`       // client name
	Peers  []string      `json:"peers,omitempty"`   // peer names
	N      uint16        `json:"n,omitempty"`       // channel number
	L      int64         `json:"l"`                 // LIFETIME seconds, -1 = absent
	Rule   string        `json:"rule,omitempty"`    // advance rule
	D      time.Duration `json:"d,omitempty"`       // advance amount (computed)
	SameTx bool          `json:"same_tx,omitempty"` // Allocate retransmission
	FixTx  string        `json:"fix_tx,omitempty"`  // use this fixed transaction id (shared between clients)
	Fam    int           `json:"fam,omitempty"`     // REQUESTED-ADDRESS-FAMILY 4/6, 0 = absent
	TCP    bool          `json:"tcp,omitempty"`
	As     string        `json:"as,omitempty"`   // authenticate as this user instead of the client's own
	Even   bool          `json:"even,omitempty"` // Allocate with EVEN-PORT (R bit set): the manager probes for an even port first
	Fail   string        `json:"fail,omitempty"` // Allocate: "gen" = the relay address generator fails, "quota" = the quota handler refuses; ChannelBind that repeats an existing binding: "respwrite" = the server's write of the response fails once (ENOBUFS)
}

// Class renders the event without computed values, for signatures.
func (e Event) Class() string {
	switch e.K {
	case "alloc":
		s := fmt.Sprintf("alloc(%s,L=%d", e.C, e.L)
		if e.SameTx {
			s += ",retx"
		}
		if e.FixTx != "" {
			s += ",tx=" + e.FixTx
		}
		if e.Fam != 0 {
			s += fmt.Sprintf(",fam=%d", e.Fam)
		}
		if e.TCP {
			s += ",tcp"
		}
		if e.Fail != "" {
			s += ",refused-by-" + e.Fail
		}
		if e.Even {
			s += ",even-port"
		}

		return s + ")"
	case "refresh":
		if e.Fam != 0 {
			return fmt.Sprintf("refresh(%s,L=%d,fam=%d)", e.C, e.L, e.Fam)
		}

		if e.Fail == "closeerr" {
			return fmt.Sprintf("refresh(%s,L=%d,relay-socket-close-fails)", e.C, e.L)
		}

		return fmt.Sprintf("refresh(%s,L=%d)", e.C, e.L)
	case "perm":
		return fmt.Sprintf("perm(%s,%s)", e.C, strings.Join(e.Peers, "+"))
	case "chan":
		if e.Fail == "respwrite" {
			return fmt.Sprintf("chan(%s,%#x,%s,response-write-fails)", e.C, e.N, strings.Join(e.Peers, "+"))
		}

		return fmt.Sprintf("chan(%s,%#x,%s)", e.C, e.N, strings.Join(e.Peers, "+"))
	case "adv":
		return fmt.Sprintf("adv(%s)", e.Rule)
	case "close-server":
		if e.Fail == "closeerr" {
			return "close-server(relay-socket-closes-fail)"
		}

		return "close-server"
	case "fail-relay", "close-control":
		return fmt.Sprintf("%s(%s)", e.K, e.C)
	case "connect", "peerdial":
		return fmt.Sprintf("%s(%s,%s)", e.K, e.C, strings.Join(e.Peers, "+"))
	case "cbind":
		if e.Rule == "control" {
			return fmt.Sprintf("cbind-on-control-channel(%s,conn=%d of %s)", e.C, e.N, strings.Join(e.Peers, "+"))
		}
		if e.Rule == "reset" {
			return fmt.Sprintf("cbind-then-reset-data-connection(%s,conn=%d of %s)", e.C, e.N, strings.Join(e.Peers, "+"))
		}

		return fmt.Sprintf("cbind(%s,conn=%d of %s,as=%s)", e.C, e.N, strings.Join(e.Peers, "+"), e.As)
	case "bytes":
		return fmt.Sprintf("bytes(%s,conn=%d,%s,seg=%d)", e.C, e.N, e.Rule, e.L)
	case "closeconn":
		return fmt.Sprintf("closeconn(%s,conn=%d,%s)", e.C, e.N, e.Rule)
	}

	return e.K
}

func (e Event) String() string {
	if e.K == "adv" {
		return fmt.Sprintf("adv(%s=%v)", e.Rule, e.D)
	}

	return e.Class()
}

// Viol is a disagreement between implementation and reference.
type Viol struct {
	Tag    string // leak-c2p miss-c2p leak-p2c miss-p2c wrong-src resp lifetime count ...
	Sig    string
	Detail string
}

// Exec is one execution in progress.
type Exec struct {
	W      *World
	M      *Model
	Chans  []uint16 // channel numbers probed by the sweep
	Trace  []string
	Events []Event
	Probes int
	Steps  int
	// NoSweepP2C etc. let profiles narrow the sweep.
	SkipDeadRelays bool
	ServerClosed   bool
	tcp            *TCPState
	sweeps         int
	// Select reports whether a disagreement tag belongs to the property being checked (nil = all).
	Select func(tag string) bool
}

func (x *Exec) viol(tag, class string, ev Event, detail string) *Viol {
	// The signature names the last request event (the likely cause) and whether
	// the clock moved since, not the particular advance rule that exposed it.
	after := ev.Class()
	if ev.K == "adv" {
		after = "start+adv"
		for i := len(x.Events) - 1; i >= 0; i-- {
			if x.Events[i].K != "adv" {
				after = x.Events[i].Class() + "+adv"

				break
			}
		}
	}

	if tag == "chan-range" {
		return &Viol{Tag: tag, Sig: tag + ":" + class, Detail: detail + " after " + after}
	}

	return &Viol{Tag: tag, Sig: fmt.Sprintf("%s:%s:after=%s", tag, class, after), Detail: detail}
}

func peerNames(ps []string) []*net.UDPAddr {
	var out []*net.UDPAddr
	for _, p := range ps {
		out = append(out, peerOf(p))
	}

	return out
}

// Mapped6 marks a peer name whose IPv4 address a request presents in the IPv6 form of the attribute (family 0x02,
// ::ffff:a.b.c.d). The address named is the same IPv4 address: the server must treat the request exactly as it treats
// the plain form (an IPv4 peer, whatever the encoding).
const Mapped6 = "@6"

func peerOf(name string) *net.UDPAddr { return PeerSpec[strings.TrimSuffix(name, Mapped6)] }

// xorPeer appends XOR-PEER-ADDRESS for the named peer in the form its name asks for.
func xorPeer(b *wire.B, name string) {
	p := peerOf(name)
	if strings.HasSuffix(name, Mapped6) {
		b.XorAddr6(wire.AttrXORPeerAddress, p.IP, p.Port)

		return
	}
	b.XorAddr(wire.AttrXORPeerAddress, p.IP, p.Port)
}

// Apply executes ev on the implementation and the model and compares the
// direct observation (response). It returns the first disagreement.
func (x *Exec) Apply(ev Event) *Viol { //nolint:gocyclo,cyclop,maintidx,gocognit
	w, m := x.W, x.M
	x.Events = append(x.Events, ev)
	x.Steps++
	now := time.Now()
	m.Expire(now)
	switch ev.K {
	case "adv":
		Advance(ev.D)
		m.Expire(time.Now())
		x.Trace = append(x.Trace, ev.String())

		return nil

	case "alloc":
		c := w.C[ev.C]
		a := m.Allocs[ev.C]
		var tx *[12]byte
		if ev.SameTx && a != nil {
			t := a.Tx
			tx = &t
		}
		if ev.FixTx != "" {
			var t [12]byte
			copy(t[:], ev.FixTx)
			tx = &t
		}
		isRetx := a != nil && tx != nil && *tx == a.Tx
		gen0 := w.GenCalls
		if c.Nonce == "" && ev.Fail != "" {
			c.Request(wire.Refresh, nil, nil) // obtain a nonce first: the injected refusal must meet the authenticated request
		}
		if a == nil && ev.Fail == "gen" {
			w.GenFailNext = 1
		}
		w.QuotaDeny = a == nil && ev.Fail == "quota"
		defer func() { w.GenFailNext, w.QuotaDeny = 0, false }()
		res := c.Request(wire.Allocate, tx, func(b *wire.B) {
			proto := uint32(17) << 24
			if ev.TCP {
				proto = uint32(6) << 24
			}
			b.U32(wire.AttrRequestedTransport, proto)
			if ev.L >= 0 {
				b.U32(wire.AttrLifetime, uint32(ev.L)) //nolint:gosec
			}
			if ev.Fam == 4 {
				b.U32(wire.AttrRequestedFamily, 0x01000000)
			} else if ev.Fam == 6 {
				b.U32(wire.AttrRequestedFamily, 0x02000000)
			}
			if ev.Even {
				b.Attr(wire.AttrEvenPort, []byte{0x80})
			}
		})
		x.Trace = append(x.Trace, ev.String()+"->"+respStr(res))
		if res.Extra > 0 {
			return x.viol("resp", "duplicate-response", ev, respStr(res))
		}
		if a != nil {
			if isRetx {
				if res.Resp == nil || res.Resp.Class != wire.Success {
					return x.viol("resp", "retx-not-success", ev, respStr(res))
				}
				ra, ok := res.Resp.XorAddr(wire.AttrXORRelayedAddress)
				if !ok || ra.String() != a.Relay.String() {
					return x.viol("resp", "retx-relay-differs", ev, fmt.Sprintf("%v vs %v", ra, a.Relay))
				}
				if w.GenCalls != gen0 {
					return x.viol("resp", "retx-created-socket", ev, "")
				}

				return nil
			}
			if res.Resp == nil || res.Resp.Class != wire.Error || res.Resp.ErrorCode() != 437 {
				return x.viol("resp", "second-allocate-not-437", ev, respStr(res))
			}

			return nil
		}
		granted := m.Granted(ev.L)
		if granted == 0 {
			if res.Resp != nil && res.Resp.Class == wire.Success {
				return x.viol("resp", "allocate-lifetime0-success", ev, respStr(res))
			}

			return nil
		}
		if ev.Fail != "" {
			// refused by the operator's generator / quota handler: an error, and nothing exists afterwards
			if res.Resp == nil || res.Resp.Class != wire.Error {
				return x.viol("resp", "refused-allocate-not-an-error", ev, respStr(res))
			}

			return nil
		}
		if res.Resp == nil || res.Resp.Class != wire.Success {
			return x.viol("resp", "allocate-not-success", ev, respStr(res))
		}
		ra, ok := res.Resp.XorAddr(wire.AttrXORRelayedAddress)
		if !ok {
			return x.viol("resp", "allocate-no-relayed-address", ev, "")
		}
		for _, o := range m.Allocs {
			if o.Relay.String() == ra.String() {
				return x.viol("resp", "relay-address-shared", ev, ra.String())
			}
		}
		if lt, ok := res.Resp.U32(wire.AttrLifetime); !ok || time.Duration(lt)*time.Second != granted {
			return x.viol("lifetime", "allocate-lifetime-attr", ev, fmt.Sprintf("got %d want %v", lt, granted))
		}
		if ma, ok := res.Resp.XorAddr(wire.AttrXORMappedAddress); !ok || ma.String() != c.Addr.String() {
			return x.viol("resp", "allocate-mapped-address", ev, fmt.Sprintf("%v vs %v", ma, c.Addr))
		}
		if !res.Resp.CheckIntegrity(c.Key()) {
			return x.viol("resp", "allocate-response-integrity", ev, "")
		}
		fam := ev.Fam
		if fam == 0 {
			fam = 4
			if w.Cfg.V6 && !w.Cfg.Strict {
				fam = 6
			}
		}
		if famOf(ra.IP) != fam {
			return x.viol("resp", "relay-family", ev, ra.String())
		}
		m.Allocs[ev.C] = &MAlloc{Client: ev.C, User: c.User, Fam: fam, TCP: ev.TCP, Relay: ra, Exp: now.Add(granted),
			Granted: granted, Granted0: granted, Tx: res.Tx, Perms: map[string]time.Time{}, Chans: map[uint16]*MChan{}}

		return nil

	case "refresh":
		c := w.C[ev.C]
		a := m.Allocs[ev.C]
		var failing *simnet.UDPSock
		if ev.Fail == "closeerr" && ev.L == 0 && a != nil && !a.TCP && a.Relay != nil {
			// the relay socket refuses to be closed once (a custom generator's conn may): the allocation ends all the same
			if failing = w.Net.UDPAt(a.Relay.String()); failing != nil {
				failing.CloseErr = errors.New("vtx: injected close error")
				// what the library could not close is released by the harness when the world ends (World.CloseServer)
				w.Unclosable = append(w.Unclosable, failing)
			}
		}
		res := c.Request(wire.Refresh, nil, func(b *wire.B) {
			if ev.L >= 0 {
				b.U32(wire.AttrLifetime, uint32(ev.L)) //nolint:gosec
			}
			if ev.Fam == 4 {
				b.U32(wire.AttrRequestedFamily, 0x01000000)
			} else if ev.Fam == 6 {
				b.U32(wire.AttrRequestedFamily, 0x02000000)
			}
		})
		x.Trace = append(x.Trace, ev.String()+"->"+respStr(res))
		if a == nil {
			if res.Resp != nil && res.Resp.Class == wire.Success {
				return x.viol("resp", "refresh-without-allocation-success", ev, respStr(res))
			}

			return nil
		}
		if ev.Fam != 0 && ev.Fam != a.Fam {
			// RFC 6156: a REQUESTED-ADDRESS-FAMILY that does not match the allocation is refused (443);
			// a refused Refresh changes nothing (checked by the sweeps and counts that follow)
			if res.Resp == nil || res.Resp.Class != wire.Error {
				return x.viol("resp", "refresh-family-mismatch-not-refused", ev, respStr(res))
			}

			return nil
		}
		if res.Resp == nil || res.Resp.Class != wire.Success {
			return x.viol("resp", "refresh-not-success", ev, respStr(res))
		}
		granted := m.Granted(ev.L)
		if lt, ok := res.Resp.U32(wire.AttrLifetime); !ok || time.Duration(lt)*time.Second != granted {
			return x.viol("lifetime", "refresh-lifetime-attr", ev, fmt.Sprintf("got %d want %v", lt, granted))
		}
		if granted == 0 {
			m.Drop(ev.C)
		} else {
			a.Exp = now.Add(granted)
			a.Granted = granted
		}

		return nil

	case "perm":
		c := w.C[ev.C]
		a := m.Allocs[ev.C]
		peers := peerNames(ev.Peers)
		res := c.Request(wire.CreatePermission, nil, func(b *wire.B) {
			for _, pn := range ev.Peers {
				xorPeer(b, pn)
			}
		})
		x.Trace = append(x.Trace, ev.String()+"->"+respStr(res))
		if a == nil {
			if res.Resp != nil && res.Resp.Class == wire.Success {
				return x.viol("resp", "perm-without-allocation-success", ev, respStr(res))
			}

			return nil
		}
		wantCode := 0
		for _, p := range peers {
			if famOf(p.IP) != a.Fam {
				wantCode = 443

				break
			}
			if !m.AllowedFor(ev.C, p.IP) {
				wantCode = 403

				break
			}
		}
		if wantCode != 0 {
			if res.Resp == nil || res.Resp.Class != wire.Error {
				tag := "policy"

				return x.viol(tag, fmt.Sprintf("perm-should-fail-%d", wantCode), ev, respStr(res))
			}

			return nil
		}
		if res.Resp == nil || res.Resp.Class != wire.Success {
			return x.viol("resp", "perm-not-success", ev, respStr(res))
		}
		for _, p := range peers {
			a.Perms[p.IP.String()] = now.Add(m.Cfg.PermOrDefault())
		}

		return nil

	case "chan":
		c := w.C[ev.C]
		a := m.Allocs[ev.C]
		p := peerOf(ev.Peers[0])
		lostResp := false
		if ev.Fail == "respwrite" && a != nil && w.SrvSock != nil && c.Sock != nil && c.Nonce != "" {
			if ex, ok := a.Chans[ev.N]; ok && ex.Peer.IP.Equal(p.IP) && ex.Peer.Port == p.Port {
				// the repeat of an established binding whose answer the server cannot write: the binding stays (and is refreshed)
				w.SrvSock.WriteErr, w.SrvSock.WriteErrOnce, lostResp = syscall.ENOBUFS, true, true
			}
		}
		res := c.Request(wire.ChannelBind, nil, func(b *wire.B) {
			b.U32(wire.AttrChannelNumber, uint32(ev.N)<<16)
			xorPeer(b, ev.Peers[0])
		})
		x.Trace = append(x.Trace, ev.String()+"->"+respStr(res))
		if lostResp {
			w.SrvSock.WriteErr = nil
			if res.Resp != nil {
				return x.viol("harness", "response-arrived-although-its-write-was-failed", ev, respStr(res))
			}
			a.Chans[ev.N] = &MChan{Peer: p, Exp: now.Add(m.Cfg.ChanOrDefault())}
			a.Perms[p.IP.String()] = now.Add(m.Cfg.PermOrDefault())

			return nil
		}
		if a == nil {
			if res.Resp != nil && res.Resp.Class == wire.Success {
				return x.viol("resp", "chan-without-allocation-success", ev, respStr(res))
			}

			return nil
		}
		fail := func(tag, why string, code int) *Viol {
			if res.Resp == nil || res.Resp.Class != wire.Error {
				return x.viol(tag, "chan-should-fail-"+why, ev, respStr(res))
			}
			if code != 0 && res.Resp.ErrorCode() != code {
				return x.viol("resp", fmt.Sprintf("chan-%s-code-not-%d", why, code), ev, respStr(res))
			}

			return nil
		}
		if ev.N < 0x4000 || ev.N > 0x7FFF {
			return fail("chan-range", "out-of-range", 0)
		}
		if famOf(p.IP) != a.Fam {
			return fail("policy", "family", 0)
		}
		if !m.AllowedFor(ev.C, p.IP) {
			return fail("policy", "denied", 0)
		}
		if ex, ok := a.Chans[ev.N]; ok && !(ex.Peer.IP.Equal(p.IP) && ex.Peer.Port == p.Port) {
			return fail("chan-bijection", "number-bound-to-other-peer", 400)
		}
		if n, ok := a.ChanByPeer(p); ok && n != ev.N {
			return fail("chan-bijection", "peer-bound-to-other-number", 400)
		}
		if res.Resp == nil || res.Resp.Class != wire.Success {
			return x.viol("resp", "chan-not-success", ev, respStr(res))
		}
		a.Chans[ev.N] = &MChan{Peer: p, Exp: now.Add(m.Cfg.ChanOrDefault())}
		a.Perms[p.IP.String()] = now.Add(m.Cfg.PermOrDefault())

		return nil
	}
	if v, ok := x.applyTeardown(ev, now); ok {
		return v
	}
	if v, ok := x.applyTCP(ev, now); ok {
		return v
	}
	panic("vtx: unknown event kind " + ev.K)
}

func respStr(r Result) string {
	if r.Resp == nil {
		return "silence"
	}
	s := Rx{Msg: r.Resp}.String()
	if lt, ok := r.Resp.U32(wire.AttrLifetime); ok {
		s += fmt.Sprintf("{lt=%d}", lt)
	}

	return s
}

// Sweep sends one probe on every (client × peer), (client × channel) and
// (peer × relay address) and compares the complete delivery log with the
// model's prediction. Send/ChannelData/peer datagrams refresh no soft state.
func (x *Exec) Sweep(ev Event) *Viol { //nolint:gocognit,cyclop
	w, m := x.W, x.M
	now := time.Now()
	m.Expire(now)
	var want []Delivery
	// stale input from earlier steps must not be attributed to the sweep
	if pre := w.Collect(); len(pre) > 0 {
		return x.viol("stray", "unsolicited-"+pre[0].Kind, ev, fmt.Sprint(pre))
	}
	for _, cn := range w.CNames {
		c := w.C[cn]
		a := m.Allocs[cn]
		for _, pn := range w.PNames {
			p := w.P[pn]
			tag := w.Tag()
			b := wire.New(wire.Send, wire.Indication, w.NextTx()).
				XorAddr(wire.AttrXORPeerAddress, p.Addr.IP, p.Addr.Port).Str(wire.AttrData, tag)
			c.Send(b.Bytes())
			x.Probes++
			if a != nil && !a.TCP {
				if _, ok := a.Perms[p.Addr.IP.String()]; ok {
					want = append(want, Delivery{At: pn, From: a.Relay.String(), Kind: "udp", Body: tag})
				}
			}
		}
		for _, n := range x.Chans {
			tag := w.Tag()
			c.Send(wire.ChannelData(n, []byte(tag), true))
			x.Probes++
			if a != nil && !a.TCP {
				if ch, ok := a.Chans[n]; ok {
					for _, pn := range w.PNames {
						if w.P[pn].Addr.String() == ch.Peer.String() {
							want = append(want, Delivery{At: pn, From: a.Relay.String(), Kind: "udp", Body: tag})
						}
					}
				}
			}
		}
	}
	type rl struct {
		a     *MAlloc
		relay *net.UDPAddr
	}
	var relays []rl
	for _, cn := range w.CNames {
		if a := m.Allocs[cn]; a != nil {
			relays = append(relays, rl{a, a.Relay})
		}
	}
	if !x.SkipDeadRelays {
		for _, d := range m.Dead {
			relays = append(relays, rl{nil, d.Relay})
		}
	}
	for ri, r := range relays {
		if r.a != nil && r.a.TCP {
			continue
		}
		// Order: the sweep of step s starts with peer (s+j) mod n and ends with an extra
		// datagram of peer (s+j+1) mod n, which is the first sender of the next sweep on this
		// relay: consecutive datagrams of one peer across a clock advance expose state that
		// the relay loop carries from one datagram to the next.
		np := len(w.PNames)
		order := make([]string, 0, np+1)
		for k := 0; k < np; k++ {
			order = append(order, w.PNames[(x.sweeps+ri+k)%np])
		}
		order = append(order, w.PNames[(x.sweeps+ri+1)%np])
		for _, pn := range order {
			p := w.P[pn]
			tag := w.Tag()
			_, _ = p.Sock.WriteTo([]byte(tag), r.relay)
			x.Probes++
			if r.a == nil {
				continue
			}
			if n, ok := r.a.ChanByPeer(p.Addr); ok {
				want = append(want, Delivery{At: r.a.Client, From: w.SrvAddr.String(), Kind: "chan", Chan: n, Body: tag})
			} else if _, ok := r.a.Perms[p.Addr.IP.String()]; ok {
				want = append(want, Delivery{At: r.a.Client, From: w.SrvAddr.String(), Kind: "data", Peer: p.Addr.String(), Body: tag})
			}
		}
	}
	x.sweeps++
	synctest.Wait()
	got := w.Collect()
	sort.Slice(want, func(i, j int) bool { return want[i].String() < want[j].String() })

	return x.diff(ev, want, got)
}

func (x *Exec) diff(ev Event, want, got []Delivery) *Viol {
	var all []*Viol
	wm := map[string]int{}
	for _, d := range want {
		wm[d.String()]++
	}
	for _, d := range got {
		k := d.String()
		if wm[k] > 0 {
			wm[k]--

			continue
		}
		// unexpected delivery: classify
		dir := "p2c"
		if d.Kind == "udp" {
			dir = "c2p"
		}
		class := "unauthorised"
		// same body expected elsewhere / with other attributes?
		for _, e := range want {
			if e.Body == d.Body {
				switch {
				case e.At != d.At:
					class = "wrong-recipient"
				case e.From != d.From:
					class = "wrong-source"
				default:
					class = "wrong-encapsulation-or-attribution"
				}
			}
		}
		if d.Kind == "other" {
			class = "unexpected-message"
		}
		all = append(all, x.viol("leak-"+dir, class, ev, fmt.Sprintf("got %v; trace %v", d, x.Trace)))
	}
	for _, d := range want {
		if wm[d.String()] > 0 {
			dir := "p2c"
			if d.Kind == "udp" {
				dir = "c2p"
			}
			all = append(all, x.viol("miss-"+dir, "authorised-not-relayed", ev, fmt.Sprintf("missing %v; trace %v", d, x.Trace)))
		}
	}
	if len(all) == 0 {
		return nil
	}
	// several disagreements in one sweep: report the first one that belongs to the
	// property being checked, so that e.g. a leak toward a peer does not mask a leak
	// toward a client caused by the same stale entry
	if x.Select != nil {
		for _, v := range all {
			if x.Select(v.Tag) {
				return v
			}
		}
	}

	return all[0]
}

// CheckCount compares Server.AllocationCount with the model.
func (x *Exec) CheckCount(ev Event) *Viol {
	if got, want := x.W.Srv.AllocationCount(), len(x.M.Allocs); got != want {
		return x.viol("count", fmt.Sprintf("allocation-count-%d-vs-model-%d", got, want), ev, fmt.Sprint(x.Trace))
	}

	return nil
}

// AdvanceMenu computes clock events from the model's pending deadlines.
// Rules: next-δ, next+δ for δ in deltas, and by(h) for each h. A target that
// is not after now or coincides with any deadline is skipped: coincidences
// belong to Engine B.
func AdvanceMenu(m *Model, now time.Time, deltas []time.Duration, bys []time.Duration) []Event {
	dl := m.Deadlines()
	var out []Event
	ok := func(t time.Time) bool {
		if !t.After(now) {
			return false
		}
		for _, d := range dl {
			if d.Equal(t) {
				return false
			}
		}

		return true
	}
	var next time.Time
	for _, d := range dl {
		if d.After(now) {
			next = d

			break
		}
	}
	if !next.IsZero() {
		for _, dt := range deltas {
			if t := next.Add(-dt); ok(t) {
				out = append(out, Event{K: "adv", Rule: "next-" + dt.String(), D: t.Sub(now), L: -1})
			}
			if t := next.Add(dt); ok(t) {
				out = append(out, Event{K: "adv", Rule: "next+" + dt.String(), D: t.Sub(now), L: -1})
			}
		}
	}
	for _, h := range bys {
		if t := now.Add(h); ok(t) {
			out = append(out, Event{K: "adv", Rule: "by" + h.String(), D: h, L: -1})
		}
	}

	return out
}

// applyTeardown handles the events that end allocations other than by protocol.
func (x *Exec) applyTeardown(ev Event, now time.Time) (*Viol, bool) {
	w, m := x.W, x.M
	switch ev.K {
	case "fail-relay":
		// the relay socket / listener of the client's allocation reports an error
		a := m.Allocs[ev.C]
		x.Trace = append(x.Trace, ev.Class())
		if a == nil {
			return nil, true
		}
		if a.TCP {
			if l := w.Net.ListenerAt(a.Relay.String()); l != nil {
				l.FailAccept(fmt.Errorf("injected accept error"))
			}
		} else if s := w.Net.UDPAt(a.Relay.String()); s != nil {
			s.FailRead(fmt.Errorf("injected read error"))
		}
		x.settle()
		m.Drop(ev.C)

		return nil, true
	case "close-control":
		c := w.C[ev.C]
		x.Trace = append(x.Trace, ev.Class())
		if c.Conn != nil {
			_ = c.Conn.Close()
			c.Gone = true
			m.Gone[ev.C] = true
			x.settle()
			m.Drop(ev.C)
		}

		return nil, true
	case "close-server":
		x.Trace = append(x.Trace, ev.Class())
		if w.Cfg.Dual && w.Cfg.AppClosedUDP && w.SrvSock != nil {
			_ = w.SrvSock.Close()
			x.settle()
		}
		var failing []*simnet.UDPSock
		if ev.Fail == "closeerr" {
			// every UDP relay socket refuses to be closed once: the server still gives up each of its allocations
			// (it tries to close every one of them, whatever order it visits them in)
			names := make([]string, 0, len(m.Allocs))
			for name := range m.Allocs {
				names = append(names, name)
			}
			sort.Strings(names)
			for _, name := range names {
				if a := m.Allocs[name]; !a.TCP && a.Relay != nil {
					if s := w.Net.UDPAt(a.Relay.String()); s != nil {
						s.CloseErr = errors.New("vtx: injected close error")
						failing = append(failing, s)
					}
				}
			}
		}
		_ = w.Srv.Close()
		x.settle()
		var untried []string
		for _, s := range failing {
			if s.CloseErr != nil {
				untried = append(untried, s.LocalAddr().String())
			}
			// what the library could not close is released by the harness
			s.CloseErr = nil
			_ = s.Close()
		}
		x.settle()
		x.ServerClosed = true
		m.Closed = true
		for name := range m.Allocs {
			m.Drop(name)
		}
		if len(untried) > 0 {
			return x.viol("resources", "relay-socket-never-closed-by-server-close", ev, fmt.Sprint(untried, x.Trace)), true
		}

		return nil, true
	}
	_ = now

	return nil, false
}

// settle lets the system reach quiescence; with slow lifecycle callbacks this
// needs virtual time to pass.
func (x *Exec) settle() {
	synctest.Wait()
	if x.W.Cfg.SlowCB > 0 {
		for range 8 {
			time.Sleep(x.W.Cfg.SlowCB)
			synctest.Wait()
		}
	}
}

// CheckResources compares the open relay sockets / listeners with the model.
func (x *Exec) CheckResources(ev Event) *Viol {
	w, m := x.W, x.M
	want := map[string]bool{}
	for _, a := range m.Allocs {
		pre := "udp:"
		if a.TCP {
			pre = "tcp:"
		}
		want[pre+a.Relay.String()] = true
	}
	got := map[string]bool{}
	isRelay := func(s string) bool {
		h, _, _ := net.SplitHostPort(s)
		ip := net.ParseIP(h)

		return ip != nil && (ip.Equal(w.Relay4) || ip.Equal(w.Relay6))
	}
	for _, s := range w.Net.OpenUDP() {
		if isRelay(s) {
			got["udp:"+s] = true
		}
	}
	for _, s := range w.Net.OpenListeners() {
		if isRelay(s) {
			got["tcp:"+s] = true
		}
	}
	for k := range got {
		if !want[k] {
			return x.viol("resources", "relay-socket-open-without-allocation", ev, k+" trace="+fmt.Sprint(x.Trace))
		}
	}
	for k := range want {
		if !got[k] {
			return x.viol("resources", "relay-socket-of-live-allocation-closed", ev, k+" trace="+fmt.Sprint(x.Trace))
		}
	}

	return nil
}

// CheckLifecycle checks that created/deleted callbacks pair up one-to-one and
// that the outstanding ones are exactly the live entries of the model.
func (x *Exec) CheckLifecycle(ev Event) *Viol {
	w, m := x.W, x.M
	open := map[string]int{}
	for _, l := range w.Life {
		f := strings.Fields(l)
		kind := f[0]
		key := kind[:len(kind)-1]
		switch kind {
		case "alloc+", "alloc-":
			key += " " + f[1]
		default:
			key += " " + strings.Join(f[1:], " ")
		}
		if strings.HasSuffix(kind, "+") {
			open[key]++
			if open[key] > 1 {
				return x.viol("lifecycle", "created-twice-without-delete:"+kind[:len(kind)-1], ev, key+" log="+fmt.Sprint(w.Life))
			}
		} else {
			open[key]--
			if open[key] < 0 {
				return x.viol("lifecycle", "deleted-without-create-or-twice:"+kind[:len(kind)-1], ev, key+" log="+fmt.Sprint(w.Life))
			}
		}
	}
	want := map[string]bool{}
	for cn, a := range m.Allocs {
		src := w.C[cn].Addr.String()
		want["alloc "+src] = true
		for ip := range a.Perms {
			want[fmt.Sprintf("perm %s %s %s", src, a.Relay, ip)] = true
		}
		for n, c := range a.Chans {
			want[fmt.Sprintf("chan %s %s %s %#x", src, a.Relay, c.Peer, n)] = true
		}
	}
	for k, n := range open {
		if n == 1 && !want[k] {
			return x.viol("lifecycle", "created-but-never-deleted:"+strings.Fields(k)[0], ev, k+" log="+fmt.Sprint(w.Life))
		}
	}
	for k := range want {
		if open[k] != 1 {
			return x.viol("lifecycle", "live-entry-without-created-event:"+strings.Fields(k)[0], ev, k+" log="+fmt.Sprint(w.Life))
		}
	}

	return nil
}
