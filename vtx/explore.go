package vtx

import (
	"encoding/json"
	"fmt"
	"net"
	"os"
	"strings"
	"testing"
	"testing/synctest"
	"time"

	"github.com/pion/turn/v5/verif/rep"
)

// Profile selects configuration, endpoints and the event menu of a search.
type Profile struct {
	Name    string
	Configs []Config // first choice of every execution
	Clients []string
	Peers   []string
	Chans   []uint16
	Setup   func(cfg Config) []Event
	Menu    func(m *Model, now time.Time, step int) []Event
	Depth   int
	// Tags selects which disagreement tags are violations of the property being
	// checked (nil = all).
	Tags map[string]bool
	// Drain: after the last event advance through every remaining deadline
	// (±1ns) with a sweep at each.
	Drain          bool
	SkipDeadRelays bool
	// PostClose checks that nothing stays open after Server.Close.
	PostClose bool
	// Resources / Lifecycle enable the C15 oracles after every event.
	Resources bool
	Lifecycle bool
	// Quiet2h: after the last event advance 2 h and require that nothing happens on
	// behalf of ended allocations (no lifecycle event, no socket operation).
	Quiet2h bool
}

// Replay is the artefact stored with a violation.
type Replay struct {
	Engine  string   `json:"engine"`
	Profile string   `json:"profile"`
	Config  Config   `json:"config"`
	Events  []Event  `json:"events"`
	Trace   []string `json:"trace"`
}

type runStats struct {
	transitions, probes int64
	classes             map[string]int64
	states              []string
}

// runOne executes one history. events != nil replays exactly those events
// (after setup); otherwise the chooser picks from the menu.
func runOne(t *testing.T, p *Profile, ch *rep.Chooser, fixedCfg *Config, events []Event, r *rep.Report) (v *Viol, rp Replay) {
	st := runStats{classes: map[string]int64{}}
	var fatal string
	// Watchdog in real time (outside the bubble): a goroutine blocked on a leaked
	// sync.Mutex is not durably blocked, so synctest.Wait() would never return.
	// A normal execution takes milliseconds; 30 s is a liveness backstop only.
	var cur *Exec
	wd := time.AfterFunc(30*time.Second, func() {
		trace := []string{}
		last := "start"
		if cur != nil {
			trace = append(trace, cur.Trace...)
			if n := len(cur.Events); n > 0 {
				last = cur.Events[n-1].Class()
			}
		}
		r.Exhaustive = false
		r.Capped = "execution wedged (no quiescence within 30 s of real time)"
		r.Violate(rep.Violation{Oracle: "wedge", Signature: "wedge:server-stopped-making-progress:after=" + last,
			Detail: fmt.Sprint("trace so far: ", trace), Replay: Replay{Engine: "vtx", Profile: p.Name, Config: rp.Config, Events: append([]Event{}, curEvents(cur)...), Trace: trace}})
		r.Write()
		os.Exit(0)
	})
	defer wd.Stop()
	func() {
		defer func() {
			if e := recover(); e != nil {
				fatal = fmt.Sprint(e)
			}
		}()
		synctest.Test(t, func(*testing.T) {
			var cfg Config
			if fixedCfg != nil {
				cfg = *fixedCfg
			} else {
				cfg = p.Configs[ch.Pick(len(p.Configs))]
			}
			rp = Replay{Engine: "vtx", Profile: p.Name, Config: cfg}
			rep.Current(map[string]any{"profile": p.Name, "config": cfg.String(), "choices_prefix": ch.Taken, "sig_hint": p.Name})
			w, err := NewWorld(cfg, p.Clients, p.Peers)
			if err != nil {
				v = &Viol{Tag: "harness", Sig: "harness:newworld", Detail: err.Error()}

				return
			}
			x := &Exec{W: w, M: NewModel(cfg), Chans: p.Chans, SkipDeadRelays: p.SkipDeadRelays}
			cur = x
			if p.Tags != nil {
				x.Select = func(tag string) bool { return p.Tags[tag] }
			}
			defer func() {
				rp.Events = x.Events
				rp.Trace = x.Trace
				st.probes = int64(x.Probes)
			}()
			step := func(ev Event) bool {
				if v = x.Apply(ev); v != nil {
					return false
				}
				st.transitions++
				if v = x.CheckCount(ev); v != nil {
					return false
				}
				if p.Resources {
					if v = x.CheckResources(ev); v != nil {
						return false
					}
				}
				if p.Lifecycle {
					if v = x.CheckLifecycle(ev); v != nil {
						return false
					}
				}
				if v = x.CheckTCP(ev); v != nil {
					return false
				}
				if v = x.Sweep(ev); v != nil {
					return false
				}
				st.states = append(st.states, x.M.Key(time.Now()))

				return true
			}
			ok := true
			if p.Setup != nil {
				for _, ev := range p.Setup(cfg) {
					if ok = step(ev); !ok {
						break
					}
				}
			}
			if ok && events != nil {
				for _, ev := range events {
					if ok = step(ev); !ok {
						break
					}
				}
			} else if ok {
				for i := 0; i < p.Depth; i++ {
					x.refreshViews()
					menu := p.Menu(x.M, time.Now(), i)
					if len(menu) == 0 {
						break
					}
					ev := menu[ch.Pick(len(menu))]
					if ch.Abort {
						break
					}
					if ok = step(ev); !ok {
						break
					}
					st.classes[ev.Class()+"=>"+lastResp(x.Trace)]++
				}
			}
			if ok && p.Drain && !ch.Abort {
				for range 64 {
					x.refreshViews()
					dl := x.M.Deadlines()
					now := time.Now()
					var next time.Time
					for _, d := range dl {
						if d.After(now) {
							next = d

							break
						}
					}
					if next.IsZero() {
						break
					}
					for _, ev := range []Event{
						{K: "adv", Rule: "drain-1ns", D: next.Add(-time.Nanosecond).Sub(now), L: -1},
						{K: "adv", Rule: "drain+1ns", D: 2 * time.Nanosecond, L: -1},
					} {
						if ev.D <= 0 {
							continue
						}
						if ok = step(ev); !ok {
							break
						}
					}
					if !ok {
						break
					}
				}
			}
			if ok && p.Quiet2h && !ch.Abort && len(x.M.Allocs) == 0 {
				life0, mark := len(w.Life), w.Net.Mark()
				Advance(2 * time.Hour)
				if len(w.Life) != life0 {
					v = x.viol("lifecycle", "event-after-everything-ended", Event{K: "adv", Rule: "quiet-2h", L: -1}, fmt.Sprint(w.Life[life0:], x.Trace))
					ok = false
				} else if evs := w.Net.Since(mark); len(evs) > 0 {
					v = x.viol("resources", "socket-activity-after-everything-ended", Event{K: "adv", Rule: "quiet-2h", L: -1}, fmt.Sprint(evs[0], x.Trace))
					ok = false
				}
			}
			w.CloseServer()
			defer w.CloseEndpoints()
			if ok && (p.Lifecycle || p.Resources) && !ch.Abort {
				// after Server.Close nothing remains
				x.M.Closed = true
				for name := range x.M.Allocs {
					x.M.Drop(name)
				}
				fin := Event{K: "close-server", L: -1}
				if p.Resources {
					if v = x.CheckResources(fin); v != nil {
						ok = false
					} else if o := serverSideConns(w); len(o) > 0 {
						v = x.viol("resources", "connection-open-after-server-close", fin, fmt.Sprint(o, x.Trace))
						ok = false
					} else if n := w.Srv.AllocationCount(); n != 0 {
						v = x.viol("resources", "allocations-survive-server-close", fin, fmt.Sprint(n, x.Trace))
						ok = false
					}
				}
				if ok && p.Lifecycle {
					if v = x.CheckLifecycle(fin); v != nil {
						ok = false
					}
				}
			}
			if ok && p.PostClose && !ch.Abort {
				// harness endpoints (clients, peers) are still open here; everything else must be gone
				harness := map[string]bool{}
				for _, c := range w.C {
					harness[c.Addr.String()] = true
				}
				for _, pe := range w.P {
					harness[pe.Addr.String()] = true
				}
				var left []string
				for _, o := range w.Net.OpenUDP() {
					if !harness[o] {
						left = append(left, o)
					}
				}
				if len(left) > 0 {
					v = &Viol{Tag: "post-close", Sig: "post-close:udp-socket-open", Detail: fmt.Sprint(left, x.Trace)}
				}
			}
		})
	}()
	if fatal != "" && v == nil {
		sig := "fatal:" + fatal
		if strings.Contains(fatal, "blocked goroutines remain") {
			sig = "fatal:goroutine-leak-after-close"
		}
		v = &Viol{Tag: "fatal", Sig: sig, Detail: fatal + " trace=" + fmt.Sprint(rp.Trace)}
	}
	if ch.Owned() {
		r.Transitions += st.transitions
		r.Evaluations++
		if x, ok := r.Extra["probes"].(int64); ok {
			r.Extra["probes"] = x + st.probes
		} else {
			r.Extra["probes"] = st.probes
		}
		for k, n := range st.classes {
			for range n {
				r.Class(k)
			}
		}
		for _, s := range st.states {
			r.State(s)
		}
	}

	return v, rp
}

func lastResp(tr []string) string {
	if len(tr) == 0 {
		return ""
	}
	s := tr[len(tr)-1]
	if i := strings.Index(s, "->"); i >= 0 {
		return s[i+2:]
	}

	return "ok"
}

// Explore enumerates every event sequence of the profile (this shard's part)
// and records violations whose tag the profile selects.
func Explore(t *testing.T, p *Profile, r *rep.Report) {
	if path := rep.ReplayPath(); path != "" {
		replayFile(t, p, r, path)

		return
	}
	shard, n := rep.Shard()
	stop := func() bool { return r.OverBudget("vtx " + p.Name) }
	var sampled int
	runs := rep.Enumerate(shard, n, stop, func(ch *rep.Chooser) {
		v, rp := runOne(t, p, ch, nil, nil, r)
		if v != nil && (p.Tags == nil || p.Tags[v.Tag] || v.Tag == "fatal" || v.Tag == "harness" || v.Tag == "stray") {
			r.Violate(rep.Violation{Oracle: v.Tag, Signature: v.Sig, Detail: v.Detail, Replay: rp})
		} else if v != nil {
			r.Class("other-property-disagreement:" + v.Tag)
		}
		if ch.Owned() && sampled < 3 && len(rp.Trace) > 0 {
			sampled++
			r.Sample(map[string]any{"profile": p.Name, "config": rp.Config.String(), "trace": rp.Trace})
		}
	})
	r.Depth = p.Depth
	r.Note("profile %s: %d executions in shard %d/%d, depth %d, configs %d", p.Name, runs, shard, n, p.Depth, len(p.Configs))
}

func replayFile(t *testing.T, p *Profile, r *rep.Report, path string) {
	b, err := os.ReadFile(path) //nolint:gosec
	if err != nil {
		t.Fatal(err)
	}
	var rp Replay
	if err := json.Unmarshal(b, &rp); err != nil {
		t.Fatal(err)
	}
	if rp.Profile != p.Name {
		return
	}
	// strip the setup prefix: replay files store setup+events
	evs := rp.Events
	if p.Setup != nil {
		evs = evs[len(p.Setup(rp.Config)):]
	}
	v, rp2 := runOne(t, p, rep.FixedChooser(nil), &rp.Config, evs, r)
	for _, l := range rp2.Trace {
		fmt.Println("  ", l)
	}
	if v != nil {
		fmt.Printf("REPLAY-VIOLATION sig=%s detail=%s\n", v.Sig, v.Detail)
		r.Violate(rep.Violation{Oracle: v.Tag, Signature: v.Sig, Detail: v.Detail, Replay: rp2})
	} else {
		fmt.Println("REPLAY-OK")
	}
}

// RunEvents executes one fixed history (used by enumerations over inputs).
func RunEvents(t *testing.T, p *Profile, cfg Config, events []Event, r *rep.Report) {
	v, rp := runOne(t, p, rep.FixedChooser(nil), &cfg, events, r)
	if v != nil && (p.Tags == nil || p.Tags[v.Tag] || v.Tag == "fatal" || v.Tag == "harness" || v.Tag == "stray") {
		r.Violate(rep.Violation{Oracle: v.Tag, Signature: v.Sig, Detail: v.Detail, Replay: rp})
	}
	if len(events) > 0 {
		r.Class(lastResp(rp.Trace))
	}
}

// serverSideConns lists open TCP endpoints owned by the server (accepted
// control connections, relay-side peer connections).
func serverSideConns(w *World) []string {
	var out []string
	for _, c := range w.Net.Conns() {
		if c.IsClosed() {
			continue
		}
		la := c.LocalAddr().(*net.TCPAddr) //nolint:forcetypeassert
		if la.IP.Equal(w.SrvAddr.IP) || la.IP.Equal(w.Relay4) || la.IP.Equal(w.Relay6) {
			out = append(out, la.String()+"->"+c.RemoteAddr().String())
		}
	}

	return out
}

func curEvents(x *Exec) []Event {
	if x == nil {
		return nil
	}

	return x.Events
}
