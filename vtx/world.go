// Package vtx is Engine A: explicit-state search over operation histories of
// the real turn.Server in virtual time (testing/synctest), with a reference
// model compared after every event and a non-mutating probe sweep.
package vtx

import (
	"fmt"
	"net"
	"sort"
	"strings"
	"sync"
	"testing/synctest"
	"time"

	"github.com/pion/logging"
	turn "github.com/pion/turn/v5"
	"github.com/pion/turn/v5/verif/simnet"
	"github.com/pion/turn/v5/verif/wire"
)

// Quiet is a logger that discards everything.
type Quiet struct{}

func (Quiet) Trace(string)          {}
func (Quiet) Tracef(string, ...any) {}
func (Quiet) Debug(string)          {}
func (Quiet) Debugf(string, ...any) {}
func (Quiet) Info(string)           {}
func (Quiet) Infof(string, ...any)  {}
func (Quiet) Warn(string)           {}
func (Quiet) Warnf(string, ...any)  {}
func (Quiet) Error(string)          {}
func (Quiet) Errorf(string, ...any) {}

// QuietFactory creates Quiet loggers.
type QuietFactory struct{}

func (QuietFactory) NewLogger(string) logging.LeveledLogger { return Quiet{} }

// Config is the server configuration of one run.
type Config struct {
	Lifetime time.Duration // 0 = library default (10 min)
	Perm     time.Duration // 0 = default (5 min)
	Chan     time.Duration // 0 = default (10 min)
	Policy   string        // "allow" (default) | "denyB" | "denyAll"
	// StreamPolicy: in a Dual world the permission handler of the stream listener ("" = the same as Policy):
	// every listener of a server has its own handler
	StreamPolicy string
	Stream       bool // clients connect over the stream listener
	MTU          int
	Strict       bool
	SlowCB       time.Duration // lifecycle callbacks sleep this long (virtual)
	V6           bool          // server listens on an IPv6 address
	NoAuth       bool          // no AuthHandler configured (STUN-only server)
	Wild         bool          // the stream listener is bound to the unspecified address (0.0.0.0:3478), as in production
	Dual         bool          // a UDP socket AND a stream listener on the same ip:port, one relay address generator; clients named *t use the stream
	// AppClosedUDP (Dual worlds): the application has closed the UDP socket it handed to the server before it
	// calls Server.Close (the order of two deferred Closes), so Server.Close meets a close error on one of its sockets
	AppClosedUDP bool
	Name         string
}

func (c Config) String() string {
	s := fmt.Sprintf("life=%v perm=%v chan=%v policy=%s stream=%v mtu=%d strict=%v slow=%v v6=%v",
		c.Lifetime, c.Perm, c.Chan, c.Policy, c.Stream, c.MTU, c.Strict, c.SlowCB, c.V6)
	if c.Wild {
		s += " wildcard-listener"
	}
	if c.Dual {
		s += " udp+stream-listeners"
		if c.StreamPolicy != "" {
			s += " stream-listener-policy=" + c.StreamPolicy
		}
		if c.AppClosedUDP {
			s += " udp-socket-closed-by-the-application-before-Server.Close"
		}
	}

	return s
}

// LifetimeOrDefault etc. give the effective values.
func (c Config) LifetimeOrDefault() time.Duration {
	if c.Lifetime == 0 {
		return 10 * time.Minute
	}

	return c.Lifetime
}

func (c Config) PermOrDefault() time.Duration {
	if c.Perm == 0 {
		return 5 * time.Minute
	}

	return c.Perm
}

func (c Config) ChanOrDefault() time.Duration {
	if c.Chan == 0 {
		return 10 * time.Minute
	}

	return c.Chan
}

// Realm and users are fixed.
const Realm = "pion.ly"

// "U1" is another account than "u1": user names are compared exactly
var Users = map[string]string{"u1": "p1", "u2": "p2", "U1": "p1-upper", AnonUser: "pa"}

// Peer is a scripted peer endpoint.
type Peer struct {
	Name string
	Addr *net.UDPAddr
	Sock *simnet.UDPSock
}

// Rx is one message received by a harness endpoint.
type Rx struct {
	From *net.UDPAddr
	Msg  *wire.Msg // nil for ChannelData / garbage
	Chan uint16
	Data []byte // ChannelData payload
	Raw  []byte
	Bad  string // non-empty when undecodable
}

func (r Rx) String() string {
	switch {
	case r.Bad != "":
		return fmt.Sprintf("BAD(%s,%dB)", r.Bad, len(r.Raw))
	case r.Msg == nil:
		return fmt.Sprintf("ChannelData(%#x,%q)", r.Chan, trunc(r.Data))
	default:
		s := fmt.Sprintf("%s/%d", wire.MethodName(r.Msg.Method), r.Msg.Class)
		if r.Msg.Class == wire.Error {
			s += fmt.Sprintf("[%d]", r.Msg.ErrorCode())
		}

		return s
	}
}

func trunc(b []byte) string {
	if len(b) > 24 {
		return string(b[:24]) + "..."
	}

	return string(b)
}

// Client is a scripted TURN client endpoint.
type Client struct {
	Name       string
	Addr       *net.UDPAddr
	User, Pass string
	Nonce      string
	Sock       *simnet.UDPSock // UDP transport
	Conn       *simnet.Conn    // stream transport
	rxbuf      []byte
	w          *World
	Retries    int
	Gone       bool // control connection closed
}

// World is one closed system: network, real server, scripted endpoints.
type World struct {
	Cfg       Config
	Net       *simnet.Net
	Srv       *turn.Server
	SrvAddr   *net.UDPAddr
	SrvSock   *simnet.UDPSock
	Lst       *simnet.Listener
	C         map[string]*Client
	P         map[string]*Peer
	CNames    []string
	PNames    []string
	Life      []string
	lifeMu    sync.Mutex
	GenCalls  int
	txc       uint32
	tag       int
	Relay4    net.IP
	Relay6    net.IP
	AuthCalls int
	// Rotated: what the operator did to an account after the world was built (guarded by lifeMu; see Rotate):
	// user -> new password, or "" when the account was removed.
	Rotated map[string]string
	// GenFailNext makes the next n relay allocations fail; QuotaDeny makes the quota handler refuse.
	GenFailNext int
	QuotaDeny   bool
	// Unclosable: relay sockets whose Close was made to fail once (Event.Fail "closeerr"); closed by CloseServer
	Unclosable []*simnet.UDPSock
}

// Standard addresses.
var (
	SrvV4 = &net.UDPAddr{IP: net.IPv4(10, 0, 0, 1).To4(), Port: 3478}
	SrvV6 = &net.UDPAddr{IP: net.ParseIP("fd00:a::1"), Port: 3478}
	// SrvAltV4 is a second address of the server host (a listener bound to 0.0.0.0 is reachable under both)
	SrvAltV4 = net.IPv4(10, 0, 0, 7).To4()
)

// ClientSpec describes the scripted clients available to profiles.
var ClientSpec = map[string]struct {
	Addr *net.UDPAddr
	User string
}{
	"c1": {&net.UDPAddr{IP: net.IPv4(10, 0, 0, 2).To4(), Port: 4000}, "u1"},
	"c2": {&net.UDPAddr{IP: net.IPv4(10, 0, 0, 2).To4(), Port: 4001}, "u2"},
	"c3": {&net.UDPAddr{IP: net.IPv4(10, 0, 0, 3).To4(), Port: 4000}, "u1"},
	"c6": {&net.UDPAddr{IP: net.ParseIP("fd00:a::2"), Port: 4000}, "u1"},
	// an IPv6 address whose first four bytes are c1's IPv4 address (0a00:0002::), with c1's port
	"c1h": {&net.UDPAddr{IP: net.IP{10, 0, 0, 2, 0, 0, 0, 0, 0, 0, 0, 0, 0, 0, 0, 0}, Port: 4000}, "u2"},
	// stream clients of a Dual world with the very ip:port (and user) of the UDP clients c1 / c2
	"c1t": {&net.UDPAddr{IP: net.IPv4(10, 0, 0, 2).To4(), Port: 4000}, "u1"},
	"c2t": {&net.UDPAddr{IP: net.IPv4(10, 0, 0, 2).To4(), Port: 4001}, "u1"},
	// a user to whom the operator's AuthHandler assigns the empty user id (the API allows it)
	"c4": {&net.UDPAddr{IP: net.IPv4(10, 0, 0, 4).To4(), Port: 4000}, AnonUser},
	// c1's very ip:port and user, but (in a world whose stream listener is bound to the unspecified address) connected to
	// ANOTHER address of the multi-homed server: the two 5-tuples differ in the server address only
	"c1m": {&net.UDPAddr{IP: net.IPv4(10, 0, 0, 2).To4(), Port: 4000}, "u1"},
	// IPv4-compatible IPv6 address ::10.0.0.2 with c1's port: differs from c1 only in the first 12 address bytes
	"c1x": {&net.UDPAddr{IP: net.IP{0, 0, 0, 0, 0, 0, 0, 0, 0, 0, 0, 0, 10, 0, 0, 2}, Port: 4000}, "u2"},
}

// RevokedUser is a user whose password the auth handler knows (it returns the right key) but whom it refuses.
const (
	RevokedUser = "revoked"
	RevokedPass = "pr"
	// AnonUser authenticates with its own password like any other user; the handler returns "" as its user id,
	// so its allocations are owned by the same id an unauthenticated request would carry
	AnonUser = "anon"
)

// PeerSpec describes the scripted peers.
var PeerSpec = map[string]*net.UDPAddr{
	"A":  {IP: net.IPv4(10, 1, 0, 1).To4(), Port: 5000},
	"A2": {IP: net.IPv4(10, 1, 0, 1).To4(), Port: 5001},
	"B":  {IP: net.IPv4(10, 1, 0, 2).To4(), Port: 5000},
	// two transport addresses whose IP and port differ but whose texts run together to the same string
	// ("10.1.0.2"+"25000" = "10.1.0.22"+"5000"): an entry for one is no entry for the other
	"X25": {IP: net.IPv4(10, 1, 0, 2).To4(), Port: 25000},
	"Y22": {IP: net.IPv4(10, 1, 0, 22).To4(), Port: 5000},
	"V6":  {IP: net.ParseIP("fd00:1::1"), Port: 5000},
	"V6b": {IP: net.ParseIP("fd00:1::2"), Port: 5000},
	"V62": {IP: net.ParseIP("fd00:1::1"), Port: 5001},
}

type relayGen struct{ w *World }

func (g relayGen) Validate() error { return nil }

func (g relayGen) ipFor(network string) net.IP {
	if strings.HasSuffix(network, "6") {
		return g.w.Relay6
	}

	return g.w.Relay4
}

func (g relayGen) fail() bool {
	g.w.lifeMu.Lock()
	defer g.w.lifeMu.Unlock()
	if g.w.GenFailNext > 0 {
		g.w.GenFailNext--

		return true
	}

	return false
}

func (g relayGen) AllocatePacketConn(c turn.AllocateListenerConfig) (net.PacketConn, net.Addr, error) {
	g.w.lifeMu.Lock()
	g.w.GenCalls++
	g.w.lifeMu.Unlock()
	if g.fail() {
		return nil, nil, fmt.Errorf("injected relay allocation failure")
	}
	s, err := g.w.Net.ListenUDP(c.Network, &net.UDPAddr{IP: g.ipFor(c.Network), Port: c.RequestedPort})
	if err != nil {
		return nil, nil, err
	}

	return s, s.LocalAddr(), nil
}

func (g relayGen) AllocateListener(c turn.AllocateListenerConfig) (net.Listener, net.Addr, error) {
	g.w.lifeMu.Lock()
	g.w.GenCalls++
	g.w.lifeMu.Unlock()
	l, err := g.w.Net.ListenTCPAddr(c.Network, &net.TCPAddr{IP: g.ipFor(c.Network), Port: c.RequestedPort})
	if err != nil {
		return nil, nil, err
	}

	return l, l.Addr(), nil
}

func (g relayGen) AllocateConn(c turn.AllocateConnConfig) (net.Conn, error) {
	la, _ := c.LocalAddr.(*net.TCPAddr)
	ra, _ := c.RemoteAddr.(*net.TCPAddr)

	return g.w.Net.DialTCPAddr(la, ra)
}

// NewWorld builds the network and starts the real server. Must be called
// inside a synctest bubble.
func NewWorld(cfg Config, clients, peers []string) (*World, error) {
	w := &World{Cfg: cfg, Net: simnet.New(), C: map[string]*Client{}, P: map[string]*Peer{},
		Relay4: net.IPv4(10, 9, 0, 1).To4(), Relay6: net.ParseIP("fd00:9::1")}
	w.SrvAddr = SrvV4
	if cfg.V6 {
		w.SrvAddr = SrvV6
	}
	sc := turn.ServerConfig{
		Realm:               Realm,
		LoggerFactory:       QuietFactory{},
		ChannelBindTimeout:  cfg.Chan,
		PermissionTimeout:   cfg.Perm,
		AllocationLifetime:  cfg.Lifetime,
		StrictAddressFamily: cfg.Strict,
		InboundMTU:          cfg.MTU,
		AuthHandler: func(ra *turn.RequestAttributes) (string, []byte, bool) {
			w.lifeMu.Lock()
			w.AuthCalls++
			np, rotated := w.Rotated[ra.Username]
			w.lifeMu.Unlock()
			if rotated {
				if np == "" || ra.Realm != Realm {
					return "", nil, false
				}

				uid := ra.Username
				if uid == AnonUser {
					uid = ""
				}

				return uid, wire.LongTermKey(ra.Username, ra.Realm, np), true
			}
			if ra.Username == RevokedUser && ra.Realm == Realm {
				// an operator handler that derives the key first and decides afterwards: the verdict is "no"
				return ra.Username, wire.LongTermKey(ra.Username, ra.Realm, RevokedPass), false
			}
			p, ok := Users[ra.Username]
			if !ok || ra.Realm != Realm {
				return "", nil, false
			}

			if ra.Username == AnonUser {
				return "", wire.LongTermKey(ra.Username, ra.Realm, p), true
			}

			return ra.Username, wire.LongTermKey(ra.Username, ra.Realm, p), true
		},
		EventHandler: w.eventHandler(),
		QuotaHandler: func(string, string, net.Addr) bool { return !w.QuotaDeny },
	}
	if cfg.NoAuth {
		sc.AuthHandler = nil
	}
	handlerOf := func(policy string) (turn.PermissionHandler, error) {
		switch policy {
		case "", "allow":
			return nil, nil
		case "denyB":
			return func(_ net.Addr, ip net.IP) bool { return !ip.Equal(PeerSpec["B"].IP) }, nil
		case "denyBlate":
			return func(_ net.Addr, ip net.IP) bool { return !ip.Equal(PeerSpec["B"].IP) || time.Since(Epoch) < PolicyFlip }, nil
		case "denyAll":
			return func(net.Addr, net.IP) bool { return false }, nil
		}

		return nil, fmt.Errorf("unknown policy %q", policy)
	}
	ph, err := handlerOf(cfg.Policy)
	if err != nil {
		return nil, err
	}
	phStream := ph
	if cfg.Dual && cfg.StreamPolicy != "" {
		if phStream, err = handlerOf(cfg.StreamPolicy); err != nil {
			return nil, err
		}
	}
	if cfg.Stream || cfg.Dual {
		lip := w.SrvAddr.IP
		if cfg.Wild {
			lip = net.IPv4zero
			if lip4 := w.SrvAddr.IP.To4(); lip4 == nil {
				lip = net.IPv6unspecified
			}
		}
		l, err := w.Net.ListenTCPAddr("tcp", &net.TCPAddr{IP: lip, Port: w.SrvAddr.Port})
		if err != nil {
			return nil, err
		}
		w.Lst = l
		sc.ListenerConfigs = []turn.ListenerConfig{{Listener: l, RelayAddressGenerator: relayGen{w}, PermissionHandler: phStream}}
	}
	if !cfg.Stream || cfg.Dual {
		s, err := w.Net.ListenUDP("udp", w.SrvAddr)
		if err != nil {
			return nil, err
		}
		w.SrvSock = s
		sc.PacketConnConfigs = []turn.PacketConnConfig{{PacketConn: s, RelayAddressGenerator: relayGen{w}, PermissionHandler: ph}}
	}
	srv, err := turn.NewServer(sc)
	if err != nil {
		return nil, err
	}
	w.Srv = srv
	for _, n := range clients {
		spec := ClientSpec[n]
		c := &Client{Name: n, Addr: spec.Addr, User: spec.User, Pass: Users[spec.User], w: w}
		if (cfg.Stream && !cfg.Dual) || (cfg.Dual && strings.HasSuffix(n, "t")) {
			sip := w.SrvAddr.IP
			if cfg.Wild && strings.HasSuffix(n, "m") {
				sip = SrvAltV4
			}
			conn, err := w.Net.DialTCPAddr(&net.TCPAddr{IP: spec.Addr.IP, Port: spec.Addr.Port},
				&net.TCPAddr{IP: sip, Port: w.SrvAddr.Port})
			if err != nil {
				return nil, err
			}
			c.Conn = conn
		} else {
			s, err := w.Net.ListenUDP("udp", spec.Addr)
			if err != nil {
				return nil, err
			}
			c.Sock = s
		}
		w.C[n] = c
		w.CNames = append(w.CNames, n)
	}
	for _, n := range peers {
		s, err := w.Net.ListenUDP("udp", PeerSpec[n])
		if err != nil {
			return nil, err
		}
		w.P[n] = &Peer{Name: n, Addr: PeerSpec[n], Sock: s}
		w.PNames = append(w.PNames, n)
	}
	synctest.Wait()

	return w, nil
}

func (w *World) logLife(s string) {
	w.lifeMu.Lock()
	w.Life = append(w.Life, s)
	w.lifeMu.Unlock()
}

func (w *World) slow() {
	if w.Cfg.SlowCB > 0 {
		time.Sleep(w.Cfg.SlowCB)
	}
}

// Rotate is the operator changing an account while the server runs: a new password, or "" to remove the user.
func (w *World) Rotate(user, newPass string) {
	w.lifeMu.Lock()
	defer w.lifeMu.Unlock()
	if w.Rotated == nil {
		w.Rotated = map[string]string{}
	}
	w.Rotated[user] = newPass
}

func (w *World) eventHandler() turn.EventHandler {
	return turn.EventHandler{
		OnAllocationCreated: func(src, _ net.Addr, _, user, _ string, relay net.Addr, _ int) {
			w.logLife(fmt.Sprintf("alloc+ %s %s %s", src, user, relay))
			w.slow()
		},
		OnAllocationDeleted: func(src, _ net.Addr, _, user, _ string) {
			w.logLife(fmt.Sprintf("alloc- %s %s", src, user))
			w.slow()
		},
		OnPermissionCreated: func(src, _ net.Addr, _, _, _ string, relay net.Addr, peer net.IP) {
			w.logLife(fmt.Sprintf("perm+ %s %s %s", src, relay, peer))
			w.slow()
		},
		OnPermissionDeleted: func(src, _ net.Addr, _, _, _ string, relay net.Addr, peer net.IP) {
			w.logLife(fmt.Sprintf("perm- %s %s %s", src, relay, peer))
			w.slow()
		},
		OnChannelCreated: func(src, _ net.Addr, _, _, _ string, relay, peer net.Addr, n uint16) {
			w.logLife(fmt.Sprintf("chan+ %s %s %s %#x", src, relay, peer, n))
			w.slow()
		},
		OnChannelDeleted: func(src, _ net.Addr, _, _, _ string, relay, peer net.Addr, n uint16) {
			w.logLife(fmt.Sprintf("chan- %s %s %s %#x", src, relay, peer, n))
			w.slow()
		},
	}
}

// CloseServer closes the server and waits for quiescence.
func (w *World) CloseServer() {
	for _, s := range w.Unclosable {
		s.CloseErr = nil
		_ = s.Close()
	}
	w.Unclosable = nil
	synctest.Wait()
	if w.Cfg.Dual && w.Cfg.AppClosedUDP && w.SrvSock != nil {
		_ = w.SrvSock.Close()
		synctest.Wait()
	}
	if w.Srv != nil {
		_ = w.Srv.Close()
	}
	synctest.Wait()
	if w.Cfg.SlowCB > 0 {
		for range 8 {
			time.Sleep(w.Cfg.SlowCB)
			synctest.Wait()
		}
	}
}

// CloseEndpoints closes the harness endpoints.
func (w *World) CloseEndpoints() {
	for _, c := range w.C {
		if c.Conn != nil {
			_ = c.Conn.Close()
		}
		if c.Sock != nil {
			_ = c.Sock.Close()
		}
	}
	for _, p := range w.P {
		_ = p.Sock.Close()
	}
	synctest.Wait()
}

// Close shuts the server and the harness endpoints down.
func (w *World) Close() {
	w.CloseServer()
	w.CloseEndpoints()
}

// NextTx returns a fresh deterministic transaction id.
func (w *World) NextTx() [12]byte {
	w.txc++
	var tx [12]byte
	copy(tx[:], fmt.Sprintf("tx%010d", w.txc))

	return tx
}

// Tag returns a fresh probe payload.
func (w *World) Tag() string {
	w.tag++

	// lengths 12..22 in no particular order: every residue mod 4 (ChannelData padding), and short payloads right
	// behind longer ones (whatever a buffer still holds from the datagram before must not show)
	return fmt.Sprintf("probe-%06d", w.tag) + strings.Repeat("~", (w.tag*7)%11)
}

// Send transmits raw bytes from the client to the server.
func (c *Client) Send(b []byte) {
	if c.Conn != nil {
		_, _ = c.Conn.Write(b)

		return
	}
	_, _ = c.Sock.WriteTo(b, c.w.SrvAddr)
}

// Recv drains and decodes everything the client received.
func (c *Client) Recv() []Rx {
	var out []Rx
	if c.Conn != nil {
		b, _ := c.Conn.TakeAll()
		c.rxbuf = append(c.rxbuf, b...)
		for {
			n, err := wire.FrameLen(c.rxbuf)
			if err != nil {
				out = append(out, Rx{Raw: c.rxbuf, Bad: "stream:" + err.Error()})
				c.rxbuf = nil

				break
			}
			if n == 0 {
				break
			}
			out = append(out, Decode(c.rxbuf[:n:n], &net.UDPAddr{IP: c.w.SrvAddr.IP, Port: c.w.SrvAddr.Port}))
			c.rxbuf = c.rxbuf[n:]
		}

		return out
	}
	for _, d := range c.Sock.Drain() {
		out = append(out, Decode(d.Data, d.Src))
	}

	return out
}

// Decode classifies one received datagram or frame.
func Decode(b []byte, from *net.UDPAddr) Rx {
	r := Rx{From: from, Raw: b}
	if len(b) >= 1 && b[0]&0xC0 == 0 {
		m, err := wire.Parse(b)
		if err != nil {
			r.Bad = err.Error()

			return r
		}
		r.Msg = m

		return r
	}
	num, data, ok := wire.ParseChannelData(b)
	if !ok {
		r.Bad = fmt.Sprintf("chandata num=%#x", num)

		return r
	}
	r.Chan, r.Data = num, data
	// what follows the declared payload is padding to a 4-byte boundary: zero bytes (the codec's contract), never
	// left-overs of whatever the buffer held before (bytes of another sender's datagram would reach this client)
	for _, x := range b[4+len(data):] {
		if x != 0 {
			r.Bad = fmt.Sprintf("chandata num=%#x: non-zero bytes % x behind the %d-byte payload", num, b[4+len(data):], len(data))

			break
		}
	}

	return r
}

// Key returns the client's long-term key.
func (c *Client) Key() []byte { return wire.LongTermKey(c.User, Realm, c.Pass) }

// Auth appends USERNAME/REALM/NONCE and MESSAGE-INTEGRITY.
func (c *Client) Auth(b *wire.B) *wire.B {
	return b.Str(wire.AttrUsername, c.User).Str(wire.AttrRealm, Realm).Str(wire.AttrNonce, c.Nonce).Integrity(c.Key())
}

// Result of a request macro-step.
type Result struct {
	Resp   *wire.Msg // response with the request's transaction id (nil = silence)
	Tx     [12]byte
	Others []Rx // everything else the client received meanwhile
	Extra  int  // number of additional responses with the same id
}

// Request performs one authenticated request macro-step. tx may be nil for a
// fresh id. attrs adds the method specific attributes.
func (c *Client) Request(method uint16, tx *[12]byte, attrs func(b *wire.B)) Result {
	w := c.w
	var id [12]byte
	if tx != nil {
		id = *tx
	} else {
		id = w.NextTx()
	}
	for attempt := 0; ; attempt++ {
		b := wire.New(method, wire.Request, id)
		if attrs != nil {
			attrs(b)
		}
		if c.Nonce != "" {
			c.Auth(b)
		}
		c.Send(b.Bytes())
		synctest.Wait()
		res := Result{Tx: id}
		rxs := c.Recv()
		if w.Cfg.SlowCB > 0 {
			// slow lifecycle callbacks: the answer needs virtual time
			for range 8 {
				got := false
				for _, rx := range rxs {
					if rx.Msg != nil && rx.Msg.TxID == id {
						got = true
					}
				}
				if got {
					break
				}
				time.Sleep(w.Cfg.SlowCB)
				synctest.Wait()
				rxs = append(rxs, c.Recv()...)
			}
		}
		for _, rx := range rxs {
			if rx.Msg != nil && rx.Msg.TxID == id && rx.Msg.Method == method && rx.Msg.Class >= wire.Success {
				if res.Resp == nil {
					res.Resp = rx.Msg
				} else {
					res.Extra++
				}

				continue
			}
			res.Others = append(res.Others, rx)
		}
		if res.Resp != nil && res.Resp.Class == wire.Error && attempt < 2 {
			code := res.Resp.ErrorCode()
			if code == 401 || code == 438 {
				if n, ok := res.Resp.Get(wire.AttrNonce); ok {
					c.Nonce = string(n)
					c.Retries++
					if tx == nil {
						id = w.NextTx()
					}

					continue
				}
			}
		}

		return res
	}
}

// Deliveries observed at peers / clients after a sweep.
type Delivery struct {
	At   string // endpoint name
	From string // source address
	Kind string // "udp" (at a peer), "data" (Data indication), "chan" (ChannelData), "other"
	Chan uint16
	Peer string // XOR-PEER-ADDRESS for data
	Body string
}

func (d Delivery) String() string {
	return fmt.Sprintf("%s<-%s %s chan=%#x peer=%s %q", d.At, d.From, d.Kind, d.Chan, d.Peer, d.Body)
}

// Collect drains every endpoint and returns what arrived, sorted.
func (w *World) Collect() []Delivery {
	var out []Delivery
	for _, n := range w.PNames {
		for _, d := range w.P[n].Sock.Drain() {
			out = append(out, Delivery{At: n, From: d.Src.String(), Kind: "udp", Body: string(d.Data)})
		}
	}
	for _, n := range w.CNames {
		for _, rx := range w.C[n].Recv() {
			d := Delivery{At: n, From: rx.From.String()}
			switch {
			case rx.Bad != "":
				d.Kind, d.Body = "other", rx.Bad
			case rx.Msg == nil:
				d.Kind, d.Chan, d.Body = "chan", rx.Chan, string(rx.Data)
			case rx.Msg.Method == wire.Data && rx.Msg.Class == wire.Indication:
				d.Kind = "data"
				if a, ok := rx.Msg.XorAddr(wire.AttrXORPeerAddress); ok {
					d.Peer = a.String()
				}
				v, _ := rx.Msg.Get(wire.AttrData)
				d.Body = string(v)
			default:
				d.Kind, d.Body = "other", rx.String()
			}
			out = append(out, d)
		}
	}
	sort.Slice(out, func(i, j int) bool { return out[i].String() < out[j].String() })

	return out
}

// Advance moves virtual time forward and lets every timer run.
func Advance(d time.Duration) {
	time.Sleep(d)
	synctest.Wait()
}
