// Package lockpaths enumerates every control-flow path of every function (and
// function literal) of pion/turn that takes a sync.Mutex / sync.RWMutex and
// checks that no path leaves the function with a lock still held (C18, "over
// all control-flow paths of every function that takes a mutex"). The model is
// extracted mechanically from the sources at check time: the abstract state is
// the multiset of held lock expressions plus the multiset of deferred unlocks;
// branches fork the state set, loops are taken zero and one time and must
// preserve the state, every return / fall-off-the-end is an exit.
package lockpaths

import (
	"fmt"
	"go/ast"
	"go/importer"
	"go/parser"
	"go/printer"
	"go/token"
	"go/types"
	"io"
	"os"
	"os/exec"
	"path/filepath"
	"sort"
	"strings"
)

// Finding is one unbalanced path.
type Finding struct {
	Sig    string
	Detail string
}

// Stats describes what was explored.
type Stats struct {
	Functions     int // functions / literals that take a lock
	AllFunctions  int
	Exits         int // (exit point, state) pairs checked
	States        int // distinct abstract states visited
	Branches      int // branch alternatives explored
	LockSites     int
	PerFunction   map[string]int // exits per function
}

type state struct {
	held     string // canonical "expr#mode,expr#mode" sorted multiset
	deferred string
}

func canon(m map[string]int) string {
	var ks []string
	for k, n := range m {
		for range n {
			ks = append(ks, k)
		}
	}
	sort.Strings(ks)

	return strings.Join(ks, ",")
}

func parse(s string) map[string]int {
	m := map[string]int{}
	if s == "" {
		return m
	}
	for _, k := range strings.Split(s, ",") {
		m[k]++
	}

	return m
}

type outcome struct {
	kind  string // "fall", "return", "break", "continue", "panic"
	label string
	st    state
	pos   token.Pos
}

type analyzer struct {
	fset     *token.FileSet
	info     *types.Info
	pkg      string
	fn       string
	findings *[]Finding
	stats    *Stats
	seen     map[state]bool
	lits     []*ast.FuncLit
}

var pkgs = []struct{ dir, path string }{
	{"internal/proto", "github.com/pion/turn/v5/internal/proto"},
	{"internal/allocation", "github.com/pion/turn/v5/internal/allocation"},
	{"internal/server", "github.com/pion/turn/v5/internal/server"},
	{"internal/client", "github.com/pion/turn/v5/internal/client"},
	{".", "github.com/pion/turn/v5"},
}

func exportImporter(fset *token.FileSet, repo string) (types.Importer, error) {
	gobin := "go1.26"
	cmd := exec.Command(gobin, "list", "-export", "-deps", "-f", "{{.ImportPath}}={{.Export}}", "./", "./internal/...")
	cmd.Dir = repo
	cmd.Env = append(os.Environ(), "GOFLAGS=-mod=mod", "GOPROXY=off", "GOSUMDB=off", "GOTOOLCHAIN=local")
	out, err := cmd.Output()
	if err != nil {
		return nil, fmt.Errorf("go list -export: %w", err)
	}
	exports := map[string]string{}
	for _, ln := range strings.Split(string(out), "\n") {
		if i := strings.Index(ln, "="); i > 0 && ln[i+1:] != "" {
			exports[ln[:i]] = ln[i+1:]
		}
	}

	return importer.ForCompiler(fset, "gc", func(path string) (io.ReadCloser, error) {
		f, ok := exports[path]
		if !ok {
			return nil, fmt.Errorf("no export data for %s", path)
		}

		return os.Open(f) //nolint:gosec
	}), nil
}

// Analyze runs the exploration over the repository at repo.
func Analyze(repo string) ([]Finding, *Stats, error) {
	fset := token.NewFileSet()
	imp, err := exportImporter(fset, repo)
	if err != nil {
		return nil, nil, err
	}
	var findings []Finding
	stats := &Stats{PerFunction: map[string]int{}}
	for _, p := range pkgs {
		ents, err := os.ReadDir(filepath.Join(repo, p.dir))
		if err != nil {
			return nil, nil, err
		}
		var files []*ast.File
		for _, e := range ents {
			n := e.Name()
			if e.IsDir() || !strings.HasSuffix(n, ".go") || strings.HasSuffix(n, "_test.go") || strings.HasSuffix(n, "_windows.go") {
				continue
			}
			f, err := parser.ParseFile(fset, filepath.Join(repo, p.dir, n), nil, 0)
			if err != nil {
				return nil, nil, err
			}
			files = append(files, f)
		}
		info := &types.Info{Types: map[ast.Expr]types.TypeAndValue{}, Selections: map[*ast.SelectorExpr]*types.Selection{}}
		conf := types.Config{Importer: imp, Error: func(error) {}}
		_, _ = conf.Check(p.path, fset, files, info)
		short := p.path[strings.LastIndex(p.path, "/")+1:]
		if p.dir == "." {
			short = "turn"
		}
		for _, f := range files {
			for _, d := range f.Decls {
				fd, ok := d.(*ast.FuncDecl)
				if !ok || fd.Body == nil {
					continue
				}
				name := fd.Name.Name
				if fd.Recv != nil && len(fd.Recv.List) > 0 {
					name = typeName(fd.Recv.List[0].Type) + "." + name
				}
				a := &analyzer{fset: fset, info: info, pkg: short, fn: short + "." + name, findings: &findings, stats: stats}
				a.run(fd.Body)
				// function literals are functions of their own (timer callbacks, goroutines)
				for i := 0; i < len(a.lits); i++ {
					b := &analyzer{fset: fset, info: info, pkg: short, fn: fmt.Sprintf("%s.%s$lit%d", short, name, i+1), findings: &findings, stats: stats}
					b.run(a.lits[i].Body)
					a.lits = append(a.lits, b.lits...)
				}
			}
		}
	}

	return findings, stats, nil
}

func typeName(e ast.Expr) string {
	switch t := e.(type) {
	case *ast.StarExpr:
		return typeName(t.X)
	case *ast.Ident:
		return t.Name
	case *ast.IndexExpr:
		return typeName(t.X)
	}

	return "?"
}

func (a *analyzer) exprString(e ast.Expr) string {
	var sb strings.Builder
	_ = printer.Fprint(&sb, a.fset, e)

	return sb.String()
}

// lockCall classifies a call as a mutex operation: returns (lock expression, op).
func (a *analyzer) lockCall(c *ast.CallExpr) (string, string) {
	sel, ok := c.Fun.(*ast.SelectorExpr)
	if !ok {
		return "", ""
	}
	op := sel.Sel.Name
	switch op {
	case "Lock", "Unlock", "RLock", "RUnlock":
	default:
		return "", ""
	}
	tv, ok := a.info.Types[sel.X]
	if !ok || tv.Type == nil {
		return "", ""
	}
	t := tv.Type
	if p, ok := t.(*types.Pointer); ok {
		t = p.Elem()
	}
	named, ok := t.(*types.Named)
	if !ok || named.Obj().Pkg() == nil || named.Obj().Pkg().Path() != "sync" {
		return "", ""
	}
	if n := named.Obj().Name(); n != "Mutex" && n != "RWMutex" {
		return "", ""
	}

	return a.exprString(sel.X), op
}

func (a *analyzer) run(body *ast.BlockStmt) {
	a.stats.AllFunctions++
	a.seen = map[state]bool{}
	takes := false
	ast.Inspect(body, func(n ast.Node) bool {
		if _, ok := n.(*ast.FuncLit); ok {
			return false
		}
		if c, ok := n.(*ast.CallExpr); ok {
			if _, op := a.lockCall(c); op == "Lock" || op == "RLock" {
				takes = true
				a.stats.LockSites++
			}
		}

		return true
	})
	// collect literals (analysed separately) even when this function takes no lock
	ast.Inspect(body, func(n ast.Node) bool {
		if fl, ok := n.(*ast.FuncLit); ok {
			a.lits = append(a.lits, fl)

			return false
		}

		return true
	})
	if !takes {
		return
	}
	a.stats.Functions++
	outs := a.block(body.List, []state{{}})
	for _, o := range outs {
		switch o.kind {
		case "fall", "return":
			a.exit(o)
		case "break", "continue":
			a.exit(o) // stray (should not happen)
		}
	}
	a.stats.States += len(a.seen)
}

func (a *analyzer) exit(o outcome) {
	a.stats.Exits++
	a.stats.PerFunction[a.fn]++
	held := parse(o.st.held)
	for k, n := range parse(o.st.deferred) {
		held[k] -= n
	}
	for k, n := range held {
		if n > 0 {
			pos := a.fset.Position(o.pos)
			*a.findings = append(*a.findings, Finding{
				Sig:    fmt.Sprintf("lock-held-at-return:%s:%s", a.fn, k),
				Detail: fmt.Sprintf("%s: a path reaching %s:%d leaves %s held (held=%q deferred=%q)", a.fn, filepath.Base(pos.Filename), pos.Line, k, o.st.held, o.st.deferred),
			})
		}
		if n < 0 {
			pos := a.fset.Position(o.pos)
			*a.findings = append(*a.findings, Finding{
				Sig:    fmt.Sprintf("deferred-unlock-of-unheld:%s:%s", a.fn, k),
				Detail: fmt.Sprintf("%s: at %s:%d a deferred unlock of %s runs without the lock held", a.fn, filepath.Base(pos.Filename), pos.Line, k),
			})
		}
	}
}

func dedupe(in []state) []state {
	m := map[state]bool{}
	var out []state
	for _, s := range in {
		if !m[s] {
			m[s] = true
			out = append(out, s)
		}
	}

	return out
}

// block executes a statement list from each entry state.
func (a *analyzer) block(list []ast.Stmt, entry []state) []outcome {
	cur := dedupe(entry)
	var outs []outcome
	for _, s := range list {
		if len(cur) == 0 {
			break
		}
		var next []state
		for _, o := range a.stmt(s, cur) {
			if o.kind == "fall" {
				next = append(next, o.st)
			} else {
				outs = append(outs, o)
			}
		}
		cur = dedupe(next)
	}
	end := token.NoPos
	if len(list) > 0 {
		end = list[len(list)-1].End()
	}
	for _, s := range cur {
		outs = append(outs, outcome{kind: "fall", st: s, pos: end})
	}

	return outs
}

func (a *analyzer) apply(st state, expr, op string, pos token.Pos, deferred bool) state {
	h, d := parse(st.held), parse(st.deferred)
	key := expr
	switch op {
	case "Lock":
		if h[key+"#w"] > 0 || h[key+"#r"] > 0 {
			p := a.fset.Position(pos)
			*a.findings = append(*a.findings, Finding{Sig: fmt.Sprintf("relock:%s:%s", a.fn, key),
				Detail: fmt.Sprintf("%s: %s:%d locks %s while a path already holds it", a.fn, filepath.Base(p.Filename), p.Line, key)})
		}
		h[key+"#w"]++
	case "RLock":
		if h[key+"#w"] > 0 {
			p := a.fset.Position(pos)
			*a.findings = append(*a.findings, Finding{Sig: fmt.Sprintf("relock:%s:%s", a.fn, key),
				Detail: fmt.Sprintf("%s: %s:%d read-locks %s while a path holds the write lock", a.fn, filepath.Base(p.Filename), p.Line, key)})
		}
		h[key+"#r"]++
	case "Unlock", "RUnlock":
		k := key + "#w"
		if op == "RUnlock" {
			k = key + "#r"
		}
		if deferred {
			d[k]++
		} else {
			if h[k] == 0 {
				p := a.fset.Position(pos)
				*a.findings = append(*a.findings, Finding{Sig: fmt.Sprintf("unlock-of-unheld:%s:%s", a.fn, key),
					Detail: fmt.Sprintf("%s: %s:%d unlocks %s on a path that does not hold it", a.fn, filepath.Base(p.Filename), p.Line, key)})
			} else {
				h[k]--
				if h[k] == 0 {
					delete(h, k)
				}
			}
		}
	}
	ns := state{canon(h), canon(d)}
	a.seen[ns] = true

	return ns
}

// calls applies every mutex call found directly in n (not inside literals), in source order.
func (a *analyzer) calls(n ast.Node, sts []state, deferred bool) []state {
	if n == nil {
		return sts
	}
	var ops []struct {
		expr, op string
		pos      token.Pos
	}
	ast.Inspect(n, func(x ast.Node) bool {
		if _, ok := x.(*ast.FuncLit); ok {
			return false
		}
		if c, ok := x.(*ast.CallExpr); ok {
			if e, op := a.lockCall(c); op != "" {
				ops = append(ops, struct {
					expr, op string
					pos      token.Pos
				}{e, op, c.Pos()})
			}
		}

		return true
	})
	if len(ops) == 0 {
		return sts
	}
	var out []state
	for _, st := range sts {
		for _, o := range ops {
			st = a.apply(st, o.expr, o.op, o.pos, deferred)
		}
		out = append(out, st)
	}

	return dedupe(out)
}

func isPanic(s ast.Stmt) bool {
	es, ok := s.(*ast.ExprStmt)
	if !ok {
		return false
	}
	c, ok := es.X.(*ast.CallExpr)
	if !ok {
		return false
	}
	if id, ok := c.Fun.(*ast.Ident); ok && id.Name == "panic" {
		return true
	}
	if sel, ok := c.Fun.(*ast.SelectorExpr); ok {
		if id, ok := sel.X.(*ast.Ident); ok && id.Name == "os" && sel.Sel.Name == "Exit" {
			return true
		}
		if id, ok := sel.X.(*ast.Ident); ok && id.Name == "runtime" && sel.Sel.Name == "Goexit" {
			return true
		}
	}

	return false
}

func (a *analyzer) stmt(s ast.Stmt, entry []state) []outcome { //nolint:gocyclo,cyclop
	falls := func(sts []state, pos token.Pos) []outcome {
		var o []outcome
		for _, st := range sts {
			o = append(o, outcome{kind: "fall", st: st, pos: pos})
		}

		return o
	}
	switch x := s.(type) {
	case *ast.BlockStmt:
		return a.block(x.List, entry)
	case *ast.LabeledStmt:
		outs := a.stmt(x.Stmt, entry)
		for i := range outs {
			if (outs[i].kind == "break" || outs[i].kind == "continue") && outs[i].label == x.Label.Name {
				outs[i].kind, outs[i].label = "fall", ""
			}
		}

		return outs
	case *ast.ReturnStmt:
		sts := a.calls(x, entry, false)
		var o []outcome
		for _, st := range sts {
			o = append(o, outcome{kind: "return", st: st, pos: x.Pos()})
		}

		return o
	case *ast.BranchStmt:
		kind := ""
		switch x.Tok {
		case token.BREAK:
			kind = "break"
		case token.CONTINUE:
			kind = "continue"
		case token.GOTO, token.FALLTHROUGH:
			kind = "fall" // approximated
		}
		label := ""
		if x.Label != nil {
			label = x.Label.Name
		}
		var o []outcome
		for _, st := range entry {
			o = append(o, outcome{kind: kind, label: label, st: st, pos: x.Pos()})
		}

		return o
	case *ast.DeferStmt:
		// defer m.Unlock() or defer func() { ... m.Unlock() ... }()
		var node ast.Node = x.Call
		if fl, ok := x.Call.Fun.(*ast.FuncLit); ok {
			node = fl.Body
			// look inside the literal body for unlocks (common idiom)
			var ops []struct{ e, op string }
			ast.Inspect(fl.Body, func(n ast.Node) bool {
				if c, ok := n.(*ast.CallExpr); ok {
					if e, op := a.lockCall(c); op == "Unlock" || op == "RUnlock" {
						ops = append(ops, struct{ e, op string }{e, op})
					}
				}

				return true
			})
			sts := entry
			for _, o := range ops {
				var nx []state
				for _, st := range sts {
					nx = append(nx, a.apply(st, o.e, o.op, x.Pos(), true))
				}
				sts = dedupe(nx)
			}
			_ = node

			return falls(sts, x.End())
		}

		return falls(a.calls(node, entry, true), x.End())
	case *ast.GoStmt:
		return falls(entry, x.End())
	case *ast.IfStmt:
		sts := a.calls(x.Init, entry, false)
		sts = a.calls(x.Cond, sts, false)
		a.stats.Branches += 2
		outs := a.block(x.Body.List, sts)
		if x.Else != nil {
			outs = append(outs, a.stmt(x.Else, sts)...)
		} else {
			outs = append(outs, falls(sts, x.End())...)
		}

		return outs
	case *ast.ForStmt, *ast.RangeStmt:
		var body *ast.BlockStmt
		sts := entry
		infinite := false
		if f, ok := x.(*ast.ForStmt); ok {
			body = f.Body
			sts = a.calls(f.Init, sts, false)
			sts = a.calls(f.Cond, sts, false)
			infinite = f.Cond == nil
		} else {
			r := x.(*ast.RangeStmt) //nolint:forcetypeassert
			body = r.Body
			sts = a.calls(r.X, sts, false)
		}
		a.stats.Branches += 2
		var outs []outcome
		if !infinite {
			outs = append(outs, falls(sts, s.End())...) // zero iterations
		}
		for _, o := range a.block(body.List, sts) { // one iteration
			switch {
			case o.kind == "break" && o.label == "":
				outs = append(outs, outcome{kind: "fall", st: o.st, pos: o.pos})
			case (o.kind == "continue" && o.label == "") || o.kind == "fall":
				// back edge: the iteration must preserve the lock state
				ok := false
				for _, e := range sts {
					if e == o.st {
						ok = true
					}
				}
				if !ok {
					p := a.fset.Position(o.pos)
					*a.findings = append(*a.findings, Finding{Sig: fmt.Sprintf("loop-changes-lock-state:%s", a.fn),
						Detail: fmt.Sprintf("%s: loop iteration ending at %s:%d changes the held locks (%q -> %q)", a.fn, filepath.Base(p.Filename), p.Line, sts, o.st)})
				}
				if !infinite {
					outs = append(outs, outcome{kind: "fall", st: o.st, pos: o.pos})
				}
			default:
				outs = append(outs, o)
			}
		}

		return outs
	case *ast.SwitchStmt, *ast.TypeSwitchStmt, *ast.SelectStmt:
		sts := entry
		var clauses []ast.Stmt
		hasDefault := false
		switch y := x.(type) {
		case *ast.SwitchStmt:
			sts = a.calls(y.Init, sts, false)
			sts = a.calls(y.Tag, sts, false)
			clauses = y.Body.List
		case *ast.TypeSwitchStmt:
			sts = a.calls(y.Init, sts, false)
			clauses = y.Body.List
		case *ast.SelectStmt:
			clauses = y.Body.List
			hasDefault = true // a select always runs exactly one clause
		}
		var outs []outcome
		for _, c := range clauses {
			a.stats.Branches++
			var body []ast.Stmt
			csts := sts
			switch cc := c.(type) {
			case *ast.CaseClause:
				if cc.List == nil {
					hasDefault = true
				}
				for _, e := range cc.List {
					csts = a.calls(e, csts, false)
				}
				body = cc.Body
			case *ast.CommClause:
				csts = a.calls(cc.Comm, csts, false)
				body = cc.Body
			}
			for _, o := range a.block(body, csts) {
				if o.kind == "break" && o.label == "" {
					o.kind = "fall"
				}
				outs = append(outs, o)
			}
		}
		if !hasDefault {
			outs = append(outs, falls(sts, s.End())...)
		}

		return outs
	default:
		if isPanic(s) {
			var o []outcome
			for _, st := range entry {
				o = append(o, outcome{kind: "panic", st: st, pos: s.Pos()})
			}

			return o
		}

		return falls(a.calls(s, entry, false), s.End())
	}
}
