// Package realnet is the closed system of the real-socket parts: the real
// turn.Server on kernel loopback UDP sockets (*net.UDPConn, the bundled static
// relay address generator over the standard library net), scripted wire-level
// clients and peers on loopback addresses 127.0.0.x.
//
// Why it exists: simnet's sockets are not *net.UDPConn, so code that the
// library runs only for real sockets (type switches on the connection, the
// bundled generators' use of the kernel, address objects as the net package
// really hands them out) is out of Engine A's reach. Here histories are
// enumerated exhaustively exactly as in Engine A, but the clock is the real
// one and the kernel schedules. The harness is therefore strictly sequential
// (one request or probe burst at a time, nothing concurrent), and its verdicts
// are asymmetric on purpose:
//
//   - a datagram that arrives where the model forbids it is a violation at once
//     (positive evidence cannot be produced by delay);
//   - an expected datagram that has not arrived is waited for up to 5 s, the
//     probe is repeated twice, and only a datagram that stays away all three
//     times is reported; a request that gets no answer within 5 s makes the
//     history inconclusive (counted, exhaustive=false), never a violation.
package realnet

import (
	"crypto/rand"
	"fmt"
	"net"
	"sort"
	"strings"
	"time"

	"github.com/pion/logging"
	turn "github.com/pion/turn/v5"
	"github.com/pion/turn/v5/verif/wire"
)

const Realm = "verif.test"

var Users = map[string]string{"u1": "p1", "u2": "p2"}

// ClientIP / PeerIP: distinct loopback addresses (all of 127/8 is local on Linux).
var (
	ClientIP   = map[string]string{"c1": "127.0.0.1", "c2": "127.0.0.1", "c3": "127.0.0.4"}
	ClientUser = map[string]string{"c1": "u1", "c2": "u2", "c3": "u1"}
	PeerIP     = map[string]string{"A": "127.0.0.2", "B": "127.0.0.3"}
)

type quiet struct{}

func (quiet) NewLogger(string) logging.LeveledLogger { return nopLog{} }

type nopLog struct{}

func (nopLog) Trace(string)          {}
func (nopLog) Tracef(string, ...any) {}
func (nopLog) Debug(string)          {}
func (nopLog) Debugf(string, ...any) {}
func (nopLog) Info(string)           {}
func (nopLog) Infof(string, ...any)  {}
func (nopLog) Warn(string)           {}
func (nopLog) Warnf(string, ...any)  {}
func (nopLog) Error(string)          {}
func (nopLog) Errorf(string, ...any) {}

// Client is a scripted wire-level client on a real UDP socket.
type Client struct {
	Name, User string
	Sock       *net.UDPConn
	Addr       *net.UDPAddr
	Nonce      string
	Relay      *net.UDPAddr // model: relayed address of the live allocation (nil = none)
	Perms      map[string]bool
	Chan       map[uint16]string // number -> peer name
	AllocTx    [12]byte          // transaction id of the Allocate that created the live allocation
	AllocAttrs string            // rendering of that success response (idempotence of retransmissions)
	backlog    [][]byte
}

// Peer is a scripted peer.
type Peer struct {
	Name string
	Sock *net.UDPConn
	Addr *net.UDPAddr
}

// World is one server with its clients and peers.
type World struct {
	Srv     *turn.Server
	SrvAddr *net.UDPAddr
	C       map[string]*Client
	P       map[string]*Peer
	CNames  []string
	PNames  []string
	seq     int
	// Inconclusive is set when a request got no answer in time.
	Inconclusive string
	Trace        []string
}

// NewWorld starts a server on 127.0.0.1:<ephemeral>.
func NewWorld(clients, peers []string) (*World, error) {
	w := &World{C: map[string]*Client{}, P: map[string]*Peer{}}
	pc, err := net.ListenPacket("udp4", "127.0.0.1:0")
	if err != nil {
		return nil, err
	}
	w.SrvAddr = pc.LocalAddr().(*net.UDPAddr) //nolint:forcetypeassert
	w.Srv, err = turn.NewServer(turn.ServerConfig{
		Realm: Realm, LoggerFactory: quiet{},
		AuthHandler: func(ra *turn.RequestAttributes) (string, []byte, bool) {
			p, ok := Users[ra.Username]
			if !ok || ra.Realm != Realm {
				return "", nil, false
			}

			return ra.Username, wire.LongTermKey(ra.Username, ra.Realm, p), true
		},
		PacketConnConfigs: []turn.PacketConnConfig{{
			PacketConn:            pc,
			RelayAddressGenerator: &turn.RelayAddressGeneratorStatic{RelayAddress: net.ParseIP("127.0.0.1"), Address: "127.0.0.1"},
		}},
	})
	if err != nil {
		_ = pc.Close()

		return nil, err
	}
	for _, n := range clients {
		s, err := net.ListenUDP("udp4", &net.UDPAddr{IP: net.ParseIP(ClientIP[n])})
		if err != nil {
			w.Close()

			return nil, err
		}
		w.C[n] = &Client{Name: n, User: ClientUser[n], Sock: s, Addr: s.LocalAddr().(*net.UDPAddr), Perms: map[string]bool{}, Chan: map[uint16]string{}} //nolint:forcetypeassert
		w.CNames = append(w.CNames, n)
	}
	for _, n := range peers {
		s, err := net.ListenUDP("udp4", &net.UDPAddr{IP: net.ParseIP(PeerIP[n])})
		if err != nil {
			w.Close()

			return nil, err
		}
		w.P[n] = &Peer{Name: n, Sock: s, Addr: s.LocalAddr().(*net.UDPAddr)} //nolint:forcetypeassert
		w.PNames = append(w.PNames, n)
	}

	return w, nil
}

// Close stops everything.
func (w *World) Close() {
	if w.Srv != nil {
		_ = w.Srv.Close()
	}
	for _, c := range w.C {
		_ = c.Sock.Close()
	}
	for _, p := range w.P {
		_ = p.Sock.Close()
	}
}

func newTx() (t [12]byte) {
	_, _ = rand.Read(t[:])

	return t
}

// Request performs one authenticated request (retrying with the nonce of a
// 401/438) and returns the final response. The request is followed by a
// Binding request as a fence: the server handles the datagrams of one socket
// in order, so once the fence is answered (plus a short grace) an unanswered
// request is known to have been dropped silently: (nil, silent=true). No
// answer to the fence within 5 s makes the history inconclusive.
func (w *World) Request(c *Client, method uint16, attrs func(b *wire.B)) (resp *wire.Msg, silent bool) {
	return w.RequestTx(c, method, nil, attrs)
}

// RequestTx is Request with a fixed transaction id (nil = fresh ones).
func (w *World) RequestTx(c *Client, method uint16, fixed *[12]byte, attrs func(b *wire.B)) (resp *wire.Msg, silent bool) {
	for attempt := 0; attempt < 3; attempt++ {
		tx, fence := newTx(), newTx()
		if fixed != nil {
			tx = *fixed
		}
		b := wire.New(method, wire.Request, tx)
		if attrs != nil {
			attrs(b)
		}
		if c.Nonce != "" {
			b.Str(wire.AttrUsername, c.User).Str(wire.AttrRealm, Realm).Str(wire.AttrNonce, c.Nonce).Integrity(wire.LongTermKey(c.User, Realm, Users[c.User]))
		}
		_, err := c.Sock.WriteToUDP(b.Bytes(), w.SrvAddr)
		if err == nil {
			_, err = c.Sock.WriteToUDP(wire.New(wire.Binding, wire.Request, fence).Bytes(), w.SrvAddr)
		}
		if err != nil {
			w.Inconclusive = "write: " + err.Error()

			return nil, false
		}
		deadline := time.Now().Add(5 * time.Second)
		fenced := false
		resp = nil
		for resp == nil {
			_ = c.Sock.SetReadDeadline(deadline)
			buf := make([]byte, 2048)
			n, _, err := c.Sock.ReadFromUDP(buf)
			if err != nil {
				if fenced {
					return nil, true
				}
				w.Inconclusive = fmt.Sprintf("%s: neither %s nor the fence answered within 5 s", c.Name, wire.MethodName(method))

				return nil, false
			}
			m, perr := wire.Parse(buf[:n])
			switch {
			case perr == nil && m.TxID == tx && (m.Class == wire.Success || m.Class == wire.Error):
				resp = m
			case perr == nil && m.TxID == fence:
				fenced = true
				deadline = time.Now().Add(50 * time.Millisecond) // grace for an answer that overtook nothing
			default:
				c.backlog = append(c.backlog, buf[:n]) // relayed traffic still in flight: judged by the next sweep
			}
		}
		if !fenced { // consume the fence answer so that it does not show up in a sweep
			_ = c.Sock.SetReadDeadline(time.Now().Add(5 * time.Second))
			for {
				buf := make([]byte, 2048)
				n, _, err := c.Sock.ReadFromUDP(buf)
				if err != nil {
					w.Inconclusive = c.Name + ": the fence was not answered within 5 s"

					return nil, false
				}
				if m, perr := wire.Parse(buf[:n]); perr == nil && m.TxID == fence {
					break
				}
				c.backlog = append(c.backlog, buf[:n])
			}
		}
		if resp.Class == wire.Error && (resp.ErrorCode() == 401 || resp.ErrorCode() == 438) {
			if n, ok := resp.Get(wire.AttrNonce); ok && attempt < 2 {
				c.Nonce = string(n)

				continue
			}
		}

		return resp, false
	}

	return nil, false
}

// Event is one request of a history.
type Event struct {
	K string `json:"k"` // alloc | refresh0 | perm | chan
	C string `json:"c"`
	P string `json:"p,omitempty"`
	N uint16 `json:"n,omitempty"`
}

func (e Event) String() string {
	switch e.K {
	case "perm":
		return fmt.Sprintf("perm(%s,%s)", e.C, e.P)
	case "chan":
		return fmt.Sprintf("chan(%s,%#x,%s)", e.C, e.N, e.P)
	}

	return fmt.Sprintf("%s(%s)", e.K, e.C)
}

// Apply performs ev and updates the model kept in the clients; it returns a
// violation signature ("" = agreed with the model).
func (w *World) Apply(ev Event) (sig, detail string) {
	c := w.C[ev.C]
	had := c.Relay != nil
	var resp *wire.Msg
	silent := false
	switch ev.K {
	case "binding":
		resp, silent = w.Request(c, wire.Binding, nil)
	case "alloc-retx":
		if !had {
			return "", "" // nothing to retransmit
		}
		tx := c.AllocTx
		resp, silent = w.RequestTx(c, wire.Allocate, &tx, func(b *wire.B) { b.U32(wire.AttrRequestedTransport, 17<<24) })
	case "alloc":
		resp, silent = w.Request(c, wire.Allocate, func(b *wire.B) { b.U32(wire.AttrRequestedTransport, 17<<24) })
	case "refresh0":
		resp, silent = w.Request(c, wire.Refresh, func(b *wire.B) { b.U32(wire.AttrLifetime, 0) })
	case "perm":
		p := w.P[ev.P]
		resp, silent = w.Request(c, wire.CreatePermission, func(b *wire.B) { b.XorAddr(wire.AttrXORPeerAddress, p.Addr.IP, p.Addr.Port) })
	case "chan":
		p := w.P[ev.P]
		resp, silent = w.Request(c, wire.ChannelBind, func(b *wire.B) {
			b.U32(wire.AttrChannelNumber, uint32(ev.N)<<16)
			b.XorAddr(wire.AttrXORPeerAddress, p.Addr.IP, p.Addr.Port)
		})
	}
	if resp == nil {
		if silent {
			w.Trace = append(w.Trace, ev.String()+"->silence")
			if had || ev.K == "alloc" || ev.K == "binding" {
				return "resp:" + ev.K + ":request-dropped-silently", ev.String()
			}
		}

		return "", ""
	}
	ok := resp.Class == wire.Success
	w.Trace = append(w.Trace, fmt.Sprintf("%s->%d/%d", ev, resp.Class, resp.ErrorCode()))
	want := true
	switch ev.K {
	case "binding":
		ma, okM := resp.XorAddr(wire.AttrXORMappedAddress)
		if !ok || !okM || !ma.IP.Equal(c.Addr.IP) || ma.Port != c.Addr.Port {
			return "truth:binding-mapped-address", fmt.Sprintf("%s: mapped %v, socket %v", ev, ma, c.Addr)
		}
	case "alloc-retx":
		if ok {
			if got := renderAttrs(resp); got != c.AllocAttrs {
				return "idempotence:retransmitted-allocate-differs", fmt.Sprintf("%s: %s vs original %s", ev, got, c.AllocAttrs)
			}
		}
	case "alloc":
		want = !had
		if ok {
			ra, okA := resp.XorAddr(wire.AttrXORRelayedAddress)
			ma, okM := resp.XorAddr(wire.AttrXORMappedAddress)
			if !okA || !okM {
				return "resp:allocate-success-without-addresses", ev.String()
			}
			if !ma.IP.Equal(c.Addr.IP) || ma.Port != c.Addr.Port {
				return "truth:allocate-mapped-address", fmt.Sprintf("%s: mapped %v, socket %v", ev, ma, c.Addr)
			}
			for _, o := range w.C {
				if o.Relay != nil && o.Relay.Port == ra.Port {
					return "truth:relayed-address-of-another-live-allocation", fmt.Sprintf("%s: %v also held by %s", ev, ra, o.Name)
				}
			}
			if want {
				c.Relay = ra
				c.AllocTx = resp.TxID
				c.AllocAttrs = renderAttrs(resp)
			}
		}
	case "refresh0":
		want = had
		if ok && had {
			c.Relay, c.Perms, c.Chan = nil, map[string]bool{}, map[uint16]string{}
		}
	case "perm":
		want = had
		if ok && had {
			c.Perms[ev.P] = true
		}
	case "chan":
		want = had
		if had {
			if cur, bound := c.Chan[ev.N]; bound && cur != ev.P {
				want = false
			}
			for n, p := range c.Chan {
				if p == ev.P && n != ev.N {
					want = false
				}
			}
		}
		if ok && want {
			c.Chan[ev.N] = ev.P
			c.Perms[ev.P] = true
		}
	}
	if ok != want {
		return fmt.Sprintf("resp:%s:success=%v-model=%v", ev.K, ok, want), fmt.Sprintf("%s answered %d/%d", ev, resp.Class, resp.ErrorCode())
	}

	return "", ""
}

// renderAttrs renders the attributes of a response except MESSAGE-INTEGRITY / FINGERPRINT.
func renderAttrs(m *wire.Msg) string {
	var out []string
	for _, a := range m.Attrs {
		if a.Type == wire.AttrMessageIntegrity || a.Type == 0x8028 {
			continue
		}
		out = append(out, fmt.Sprintf("%#04x=%x", a.Type, a.Value))
	}

	return strings.Join(out, " ")
}

type delivery struct {
	at   string // socket that received it
	kind string // udp (at a peer) | data | chan | other
	from string // source address of the datagram
	peer string // XOR-PEER-ADDRESS of a Data indication
	num  uint16
	body string
}

func (d delivery) String() string {
	return fmt.Sprintf("%s@%s from=%s peer=%s chan=%#x %q", d.kind, d.at, d.from, d.peer, d.num, d.body)
}

// collect reads everything that arrives on every socket until all of want has
// arrived and a quiet period of grace has passed, or until deadline.
func (w *World) collect(want map[string]bool, grace, max time.Duration) []delivery {
	var out []delivery
	got := map[string]bool{}
	classify := func(at string, isClient bool, b []byte, from *net.UDPAddr) {
		d := delivery{at: at, from: from.String(), kind: "other", body: string(b)}
		if !isClient {
			d.kind = "udp"
		} else if n, pl, ok := wire.ParseChannelData(b); ok && b[0]&0xC0 == 0x40 {
			d.kind, d.num, d.body = "chan", n, string(pl)
		} else if m, err := wire.Parse(b); err == nil && m.Class == wire.Indication && m.Method == wire.Data {
			pa, _ := m.XorAddr(wire.AttrXORPeerAddress)
			pl, _ := m.Get(wire.AttrData)
			d.kind, d.body = "data", string(pl)
			if pa != nil {
				d.peer = pa.String()
			}
		}
		out = append(out, d)
		got[d.at+"|"+d.body] = true
	}
	for _, n := range w.CNames {
		c := w.C[n]
		for _, b := range c.backlog {
			classify(n, true, b, w.SrvAddr)
		}
		c.backlog = nil
	}
	start := time.Now()
	lastNew := time.Now()
	buf := make([]byte, 4096)
	for {
		progress := false
		for _, n := range w.CNames {
			c := w.C[n]
			_ = c.Sock.SetReadDeadline(time.Now().Add(2 * time.Millisecond))
			if k, from, err := c.Sock.ReadFromUDP(buf); err == nil {
				classify(n, true, append([]byte(nil), buf[:k]...), from)
				progress = true
			}
		}
		for _, n := range w.PNames {
			p := w.P[n]
			_ = p.Sock.SetReadDeadline(time.Now().Add(2 * time.Millisecond))
			if k, from, err := p.Sock.ReadFromUDP(buf); err == nil {
				classify(n, false, append([]byte(nil), buf[:k]...), from)
				progress = true
			}
		}
		if progress {
			lastNew = time.Now()

			continue
		}
		all := true
		for k := range want {
			if !got[k] {
				all = false
			}
		}
		if (all && time.Since(lastNew) >= grace) || time.Since(start) >= max {
			return out
		}
	}
}

// Sweep sends one tagged probe along every (client, peer) pair in both
// directions and through both encapsulations and compares what arrives where
// with the model.
func (w *World) Sweep(after string) (sig, detail string) {
	for round := 0; round < 3; round++ {
		w.seq++
		want := map[string]bool{}
		type exp struct {
			at, kind, from, peer, body string
			num                        uint16
		}
		var exps []exp
		for _, cn := range w.CNames {
			c := w.C[cn]
			for _, pn := range w.PNames {
				p := w.P[pn]
				// client -> peer: Send indication
				tag := fmt.Sprintf("c2p:%s>%s:send:%d", cn, pn, w.seq)
				msg := wire.New(wire.Send, wire.Indication, newTx()).XorAddr(wire.AttrXORPeerAddress, p.Addr.IP, p.Addr.Port).Attr(wire.AttrData, []byte(tag)).Bytes()
				_, _ = c.Sock.WriteToUDP(msg, w.SrvAddr)
				if c.Relay != nil && c.Perms[pn] {
					want[pn+"|"+tag] = true
					exps = append(exps, exp{at: pn, kind: "udp", from: c.Relay.String(), body: tag})
				}
				// peer -> client through the relayed address
				if c.Relay != nil {
					tag = fmt.Sprintf("p2c:%s>%s:%d", pn, cn, w.seq)
					_, _ = p.Sock.WriteToUDP([]byte(tag), c.Relay)
					if c.Perms[pn] {
						want[cn+"|"+tag] = true
						e := exp{at: cn, kind: "data", peer: p.Addr.String(), body: tag}
						for n, bp := range c.Chan {
							if bp == pn {
								e.kind, e.num, e.peer = "chan", n, ""
							}
						}
						exps = append(exps, e)
					}
				}
			}
			// client -> peer: ChannelData on every number the harness uses
			for _, n := range []uint16{0x4000, 0x4001} {
				tag := fmt.Sprintf("c2p:%s:chan%#x:%d", cn, n, w.seq)
				_, _ = c.Sock.WriteToUDP(wire.ChannelData(n, []byte(tag), false), w.SrvAddr)
				if pn, ok := c.Chan[n]; ok && c.Relay != nil {
					want[pn+"|"+tag] = true
					exps = append(exps, exp{at: pn, kind: "udp", from: c.Relay.String(), body: tag})
				}
			}
		}
		got := w.collect(want, 60*time.Millisecond, 5*time.Second)
		seen := map[string]int{}
		for _, d := range got {
			if d.kind != "other" && !strings.HasSuffix(d.body, fmt.Sprintf(":%d", w.seq)) {
				continue // a straggler of an earlier round: judged there
			}
			seen[d.at+"|"+d.body]++
			var e *exp
			for i := range exps {
				if exps[i].at == d.at && exps[i].body == d.body {
					e = &exps[i]
				}
			}
			switch {
			case e == nil && d.kind == "other":
				return "real:unsolicited-message:after=" + after, fmt.Sprintf("%s received %d bytes from %s that are neither relayed data nor an answer to its own request: % x", d.at, len(d.body), d.from, d.body[:min(len(d.body), 32)])
			case e == nil:
				dir := strings.SplitN(d.body, ":", 2)[0]

				return "real:leak-" + dir + ":delivered-without-authorisation-or-to-another-party:after=" + after, d.String() + " model=" + w.ModelString()
			case seen[d.at+"|"+d.body] > 1:
				return "real:duplicated:after=" + after, d.String()
			case e.kind != d.kind || (e.kind == "chan" && e.num != d.num):
				return "real:wrong-encapsulation:after=" + after, fmt.Sprintf("%s, expected %s %#x", d, e.kind, e.num)
			case e.kind == "data" && e.peer != d.peer:
				return "real:wrong-peer-attribution:after=" + after, fmt.Sprintf("%s, expected peer %s", d, e.peer)
			case e.kind == "udp" && e.from != d.from:
				return "real:wrong-source-toward-peer:after=" + after, fmt.Sprintf("%s, expected from %s", d, e.from)
			}
		}
		missing := []string{}
		for k := range want {
			if seen[k] == 0 {
				missing = append(missing, k)
			}
		}
		if len(missing) == 0 {
			return "", ""
		}
		sort.Strings(missing)
		if round == 2 {
			dir := strings.SplitN(strings.SplitN(missing[0], "|", 2)[1], ":", 2)[0]

			return "real:miss-" + dir + ":authorised-datagram-never-arrives(3 probes, 5 s each):after=" + after, fmt.Sprint(missing) + " model=" + w.ModelString()
		}
	}

	return "", ""
}

// ModelString renders the model state.
func (w *World) ModelString() string {
	var s []string
	for _, n := range w.CNames {
		c := w.C[n]
		if c.Relay == nil {
			s = append(s, n+":-")

			continue
		}
		var ps, cs []string
		for p := range c.Perms {
			ps = append(ps, p)
		}
		for k, p := range c.Chan {
			cs = append(cs, fmt.Sprintf("%#x>%s", k, p))
		}
		sort.Strings(ps)
		sort.Strings(cs)
		s = append(s, fmt.Sprintf("%s:relay=%d,perm=%v,chan=%v", n, c.Relay.Port, ps, cs))
	}

	return strings.Join(s, " ")
}

// Key is the canonical model state (relay ports abstracted).
func (w *World) Key() string {
	var s []string
	for _, n := range w.CNames {
		c := w.C[n]
		if c.Relay == nil {
			s = append(s, n+":-")

			continue
		}
		var ps, cs []string
		for p := range c.Perms {
			ps = append(ps, p)
		}
		for k, p := range c.Chan {
			cs = append(cs, fmt.Sprintf("%#x>%s", k, p))
		}
		sort.Strings(ps)
		sort.Strings(cs)
		s = append(s, fmt.Sprintf("%s:perm=%v,chan=%v", n, ps, cs))
	}

	return strings.Join(s, " ")
}
