// Command instr rewrites pion/turn's non-test sources for Engine B and emits a
// `go build -overlay` file. /repo itself is never written.
//
//	import "sync"        -> vsync   (scheduler-owned Mutex/RWMutex)
//	import "sync/atomic" -> vatomic (point before every atomic op)
//	import "time"        -> vtime   (scheduler-visible timers)
//	go f(a...)           -> { fn := f; a0 := a...; vsched.Go("file:line", func(){ fn(a0...) }) }
//	chan send/recv/close, select -> vsched.PointHere("chan") before the statement
//	blocking multi-case select   -> explorer-ordered non-blocking attempts, then the original select
//	for k, v := range <map>      -> for k, v := range vsched.Ordered(<map>)
package main

import (
	"bytes"
	"crypto/sha256"
	"encoding/hex"
	"encoding/json"
	"flag"
	"fmt"
	"go/ast"
	"go/format"
	"go/importer"
	"go/parser"
	"go/token"
	"go/types"
	"io"
	"os"
	"os/exec"
	"path/filepath"
	"sort"
	"strconv"
	"strings"
)

const shimBase = "github.com/pion/turn/v5/verif/shim/"

var pkgs = []struct{ dir, path string }{
	{"internal/proto", "github.com/pion/turn/v5/internal/proto"},
	{"internal/allocation", "github.com/pion/turn/v5/internal/allocation"},
	{"internal/server", "github.com/pion/turn/v5/internal/server"},
	{"internal/client", "github.com/pion/turn/v5/internal/client"},
	{".", "github.com/pion/turn/v5"},
}

type stats struct {
	Files, Imports, GoStmts, ChanPoints, Selects, MapRanges int
}

func main() {
	repo := flag.String("repo", "/repo", "repository root")
	out := flag.String("out", "", "output directory")
	flag.Parse()
	if *out == "" {
		fmt.Fprintln(os.Stderr, "usage: instr -repo /repo -out DIR")
		os.Exit(2)
	}
	absOut, err := filepath.Abs(*out)
	if err != nil {
		die(err)
	}
	*out = absOut
	if err := os.Chdir(*repo); err != nil {
		die(err)
	}
	// cache key: hash of all source files + this binary's rewriting version
	h := sha256.New()
	h.Write([]byte("instr-v8"))
	type fileEnt struct{ path string; src []byte }
	files := map[string][]fileEnt{}
	for _, p := range pkgs {
		ents, err := os.ReadDir(p.dir)
		if err != nil {
			die(err)
		}
		for _, e := range ents {
			n := e.Name()
			if e.IsDir() || !strings.HasSuffix(n, ".go") || strings.HasSuffix(n, "_test.go") {
				continue
			}
			full := filepath.Join(*repo, p.dir, n)
			src, err := os.ReadFile(full)
			if err != nil {
				die(err)
			}
			h.Write([]byte(full))
			h.Write(src)
			files[p.dir] = append(files[p.dir], fileEnt{full, src})
		}
	}
	key := hex.EncodeToString(h.Sum(nil))[:16]
	stamp := filepath.Join(*out, "stamp")
	if b, err := os.ReadFile(stamp); err == nil && string(b) == key {
		fmt.Println("instr: overlay up to date", key)

		return
	}
	_ = os.RemoveAll(*out)
	if err := os.MkdirAll(*out, 0o755); err != nil {
		die(err)
	}

	fset := token.NewFileSet()
	imp := exportImporter(fset)
	overlay := map[string]string{}
	var st stats
	for _, p := range pkgs {
		var asts []*ast.File
		var paths []string
		for _, fe := range files[p.dir] {
			f, err := parser.ParseFile(fset, fe.path, fe.src, parser.ParseComments)
			if err != nil {
				die(err)
			}
			if !buildOK(f, fe.path) {
				continue
			}
			asts = append(asts, f)
			paths = append(paths, fe.path)
		}
		info := &types.Info{Types: map[ast.Expr]types.TypeAndValue{}}
		conf := types.Config{Importer: imp, Error: func(error) {}}
		_, _ = conf.Check(p.path, fset, asts, info) // best effort: type errors only lose map-range detection
		for i, f := range asts {
			rw := &rewriter{fset: fset, info: info, file: f, base: filepath.Base(paths[i])}
			rw.rewrite()
			st.Files++
			st.Imports += rw.nImports
			st.GoStmts += rw.nGo
			st.ChanPoints += rw.nChan
			st.Selects += rw.nSelect
			st.MapRanges += rw.nMap
			if !rw.changed {
				continue
			}
			var buf bytes.Buffer
			if err := format.Node(&buf, fset, f); err != nil {
				die(fmt.Errorf("%s: %w", paths[i], err))
			}
			rel, _ := filepath.Rel(*repo, paths[i])
			dst := filepath.Join(*out, strings.ReplaceAll(rel, string(filepath.Separator), "__"))
			if err := os.WriteFile(dst, buf.Bytes(), 0o644); err != nil { //nolint:gosec
				die(err)
			}
			overlay[paths[i]] = dst
		}
	}
	b, _ := json.MarshalIndent(map[string]any{"Replace": overlay}, "", " ")
	if err := os.WriteFile(filepath.Join(*out, "overlay.json"), b, 0o644); err != nil { //nolint:gosec
		die(err)
	}
	sb, _ := json.Marshal(st)
	_ = os.WriteFile(filepath.Join(*out, "stats.json"), sb, 0o644) //nolint:gosec
	_ = os.WriteFile(stamp, []byte(key), 0o644)                     //nolint:gosec
	fmt.Printf("instr: %d files rewritten, %s\n", len(overlay), sb)
}

// exportImporter resolves imports from compiler export data listed by one
// `go list -export -deps` call (fast and offline; built from the working tree).
func exportImporter(fset *token.FileSet) types.Importer {
	gobin := os.Getenv("VERIF_GO")
	if gobin == "" {
		gobin = "go1.26"
	}
	cmd := exec.Command(gobin, "list", "-export", "-deps", "-f", "{{.ImportPath}}={{.Export}}", "./", "./internal/...")
	cmd.Stderr = os.Stderr
	outb, err := cmd.Output()
	if err != nil {
		die(fmt.Errorf("go list -export: %w", err))
	}
	exports := map[string]string{}
	for _, ln := range strings.Split(string(outb), "\n") {
		if i := strings.Index(ln, "="); i > 0 && ln[i+1:] != "" {
			exports[ln[:i]] = ln[i+1:]
		}
	}

	return importer.ForCompiler(fset, "gc", func(path string) (io.ReadCloser, error) {
		f, ok := exports[path]
		if !ok {
			return nil, fmt.Errorf("no export data for %s", path)
		}

		return os.Open(f) //nolint:gosec
	})
}

func die(err error) {
	fmt.Fprintln(os.Stderr, "instr:", err)
	os.Exit(1)
}

// buildOK filters files by trivial GOOS build constraints (windows helpers).
func buildOK(f *ast.File, path string) bool {
	if strings.HasSuffix(path, "_windows.go") {
		return false
	}
	for _, cg := range f.Comments {
		if cg.Pos() > f.Package {
			break
		}
		for _, c := range cg.List {
			if strings.HasPrefix(c.Text, "//go:build") && strings.Contains(c.Text, "windows") && !strings.Contains(c.Text, "!windows") {
				return false
			}
		}
	}

	return true
}

type rewriter struct {
	fset    *token.FileSet
	info    *types.Info
	file    *ast.File
	base    string
	changed bool
	needSched bool
	nImports, nGo, nChan, nSelect, nMap int
	tmp     int
	skip    map[ast.Node]bool
	seen    map[ast.Node]bool
}

func (r *rewriter) rewrite() {
	// imports
	for _, is := range r.file.Imports {
		p, _ := strconv.Unquote(is.Path.Value)
		var shim, name string
		switch p {
		case "sync":
			shim, name = "vsync", "sync"
		case "sync/atomic":
			shim, name = "vatomic", "atomic"
		case "time":
			shim, name = "vtime", "time"
		default:
			continue
		}
		if is.Name != nil {
			name = is.Name.Name
		}
		is.Path.Value = strconv.Quote(shimBase + shim)
		is.Name = ast.NewIdent(name)
		r.changed = true
		r.nImports++
	}
	// statements
	r.skip = map[ast.Node]bool{}
	r.seen = map[ast.Node]bool{}
	ast.Inspect(r.file, func(n ast.Node) bool {
		if n == nil || r.seen[n] {
			return n != nil
		}
		switch b := n.(type) {
		case *ast.BlockStmt:
			r.seen[n] = true
			b.List = r.stmts(b.List)
		case *ast.CaseClause:
			r.seen[n] = true
			b.Body = r.stmts(b.Body)
		case *ast.CommClause:
			r.seen[n] = true
			b.Body = r.stmts(b.Body)
		}

		return true
	})
	if r.needSched {
		r.addImport("vsched", shimBase+"vsched")
		r.changed = true
	}
}

func (r *rewriter) addImport(name, path string) {
	spec := &ast.ImportSpec{Name: ast.NewIdent(name), Path: &ast.BasicLit{Kind: token.STRING, Value: strconv.Quote(path)}}
	for _, d := range r.file.Decls {
		if gd, ok := d.(*ast.GenDecl); ok && gd.Tok == token.IMPORT {
			gd.Specs = append(gd.Specs, spec)
			if !gd.Lparen.IsValid() {
				gd.Lparen = gd.Pos()
				gd.Rparen = gd.End()
			}
			r.file.Imports = append(r.file.Imports, spec)

			return
		}
	}
	gd := &ast.GenDecl{Tok: token.IMPORT, Specs: []ast.Spec{spec}}
	r.file.Decls = append([]ast.Decl{gd}, r.file.Decls...)
	r.file.Imports = append(r.file.Imports, spec)
}

func (r *rewriter) pos(n ast.Node) string {
	p := r.fset.Position(n.Pos())

	return fmt.Sprintf("%s:%d", r.base, p.Line)
}

func (r *rewriter) point(kind string) ast.Stmt {
	r.needSched = true

	return &ast.ExprStmt{X: &ast.CallExpr{
		Fun:  &ast.SelectorExpr{X: ast.NewIdent("vsched"), Sel: ast.NewIdent("PointHere")},
		Args: []ast.Expr{&ast.BasicLit{Kind: token.STRING, Value: strconv.Quote(kind)}},
	}}
}

func (r *rewriter) stmts(list []ast.Stmt) []ast.Stmt {
	var out []ast.Stmt
	for _, s := range list {
		inner := s
		if ls, ok := s.(*ast.LabeledStmt); ok {
			inner = ls.Stmt
		}
		switch x := inner.(type) {
		case *ast.GoStmt:
			repl := r.goStmt(x)
			if ls, ok := s.(*ast.LabeledStmt); ok {
				ls.Stmt = repl
				out = append(out, ls)
			} else {
				out = append(out, repl)
			}

			continue
		case *ast.SelectStmt:
			if r.skip[x] {
				out = append(out, s)

				continue
			}
			if _, labeled := s.(*ast.LabeledStmt); !labeled {
				if repl := r.selectStmt(x); repl != nil {
					out = append(out, repl...)

					continue
				}
			}
			out = append(out, r.point("chan"), s)
			r.nChan++

			continue
		case *ast.RangeStmt:
			r.rangeStmt(x)
		}
		if r.directChanOp(inner) {
			out = append(out, r.point("chan"))
			r.nChan++
		}
		out = append(out, s)
	}

	return out
}

// directChanOp reports whether the statement itself (not nested blocks or
// function literals) performs a channel send, receive or close.
func (r *rewriter) directChanOp(s ast.Stmt) bool {
	var roots []ast.Node
	switch x := s.(type) {
	case *ast.SendStmt:
		return true
	case *ast.ExprStmt, *ast.AssignStmt, *ast.ReturnStmt, *ast.DeclStmt, *ast.IncDecStmt, *ast.DeferStmt:
		roots = append(roots, x)
	case *ast.IfStmt:
		if x.Init != nil {
			roots = append(roots, x.Init)
		}
		roots = append(roots, x.Cond)
	case *ast.ForStmt:
		if x.Init != nil {
			roots = append(roots, x.Init)
		}
		if x.Cond != nil {
			roots = append(roots, x.Cond)
		}
	case *ast.SwitchStmt:
		if x.Init != nil {
			roots = append(roots, x.Init)
		}
		if x.Tag != nil {
			roots = append(roots, x.Tag)
		}
	case *ast.RangeStmt:
		roots = append(roots, x.X)
		if tv, ok := r.info.Types[x.X]; ok {
			if _, isChan := tv.Type.Underlying().(*types.Chan); isChan {
				return true
			}
		}
	default:
		return false
	}
	found := false
	for _, root := range roots {
		ast.Inspect(root, func(n ast.Node) bool {
			switch y := n.(type) {
			case *ast.FuncLit:
				return false
			case *ast.UnaryExpr:
				if y.Op == token.ARROW {
					found = true
				}
			case *ast.CallExpr:
				if id, ok := y.Fun.(*ast.Ident); ok && id.Name == "close" && len(y.Args) == 1 {
					found = true
				}
			}

			return !found
		})
	}

	return found
}

func (r *rewriter) goStmt(g *ast.GoStmt) ast.Stmt {
	r.nGo++
	r.needSched = true
	r.changed = true
	call := g.Call
	var pre []ast.Stmt
	r.tmp++
	fn := ast.NewIdent(fmt.Sprintf("_vfn%d", r.tmp))
	pre = append(pre, &ast.AssignStmt{Lhs: []ast.Expr{fn}, Tok: token.DEFINE, Rhs: []ast.Expr{call.Fun}})
	var args []ast.Expr
	for i, a := range call.Args {
		// nil and constants are passed as they stand: they have no side effects, and a temporary would give an
		// untyped constant its default type (or, for nil, not compile at all)
		if tv, ok := r.info.Types[a]; ok && (tv.IsNil() || tv.Value != nil) {
			args = append(args, a)

			continue
		}
		if id, ok := a.(*ast.Ident); ok && id.Name == "nil" {
			args = append(args, a)

			continue
		}
		id := ast.NewIdent(fmt.Sprintf("_va%d_%d", r.tmp, i))
		pre = append(pre, &ast.AssignStmt{Lhs: []ast.Expr{id}, Tok: token.DEFINE, Rhs: []ast.Expr{a}})
		args = append(args, id)
	}
	inner := &ast.CallExpr{Fun: fn, Args: args, Ellipsis: call.Ellipsis}
	if call.Ellipsis.IsValid() {
		inner.Ellipsis = 1
	}
	spawn := &ast.ExprStmt{X: &ast.CallExpr{
		Fun: &ast.SelectorExpr{X: ast.NewIdent("vsched"), Sel: ast.NewIdent("Go")},
		Args: []ast.Expr{
			&ast.BasicLit{Kind: token.STRING, Value: strconv.Quote("go@" + r.pos(g))},
			&ast.FuncLit{Type: &ast.FuncType{Params: &ast.FieldList{}}, Body: &ast.BlockStmt{List: []ast.Stmt{&ast.ExprStmt{X: inner}}}},
		},
	}}

	return &ast.BlockStmt{List: append(pre, spawn)}
}

func (r *rewriter) rangeStmt(rs *ast.RangeStmt) {
	tv, ok := r.info.Types[rs.X]
	if !ok || tv.Type == nil {
		return
	}
	if _, isMap := tv.Type.Underlying().(*types.Map); !isMap {
		return
	}
	r.nMap++
	r.needSched = true
	r.changed = true
	rs.X = &ast.CallExpr{Fun: &ast.SelectorExpr{X: ast.NewIdent("vsched"), Sel: ast.NewIdent("Ordered")}, Args: []ast.Expr{rs.X}}
}

// selectStmt rewrites a blocking select with several communication cases so
// that, when more than one case is ready, which one runs is decided by the
// explorer (vsched.SelectFirst) instead of Go's random choice. Returns nil when
// the select needs no rewriting (has a default or a single case).
func (r *rewriter) selectStmt(sel *ast.SelectStmt) []ast.Stmt {
	var clauses []*ast.CommClause
	for _, c := range sel.Body.List {
		cc := c.(*ast.CommClause) //nolint:forcetypeassert
		if cc.Comm == nil {
			return nil // has default: non-blocking poll
		}
		clauses = append(clauses, cc)
	}
	if len(clauses) < 2 {
		return nil
	}
	r.nSelect++
	r.needSched = true
	r.changed = true
	r.tmp++
	first := ast.NewIdent(fmt.Sprintf("_vsel%d", r.tmp))
	done := ast.NewIdent(fmt.Sprintf("_vdone%d", r.tmp))
	k := len(clauses)
	out := []ast.Stmt{
		&ast.AssignStmt{Lhs: []ast.Expr{first}, Tok: token.DEFINE, Rhs: []ast.Expr{&ast.CallExpr{
			Fun:  &ast.SelectorExpr{X: ast.NewIdent("vsched"), Sel: ast.NewIdent("SelectFirst")},
			Args: []ast.Expr{&ast.BasicLit{Kind: token.INT, Value: strconv.Itoa(k)}},
		}}},
		&ast.AssignStmt{Lhs: []ast.Expr{done}, Tok: token.DEFINE, Rhs: []ast.Expr{ast.NewIdent("false")}},
	}
	// attempt position p tries case (first+p) mod k with a non-blocking single-case select
	for p := 0; p < k; p++ {
		sw := &ast.SwitchStmt{
			Tag: &ast.BinaryExpr{X: &ast.ParenExpr{X: &ast.BinaryExpr{X: first, Op: token.ADD, Y: &ast.BasicLit{Kind: token.INT, Value: strconv.Itoa(p)}}},
				Op: token.REM, Y: &ast.BasicLit{Kind: token.INT, Value: strconv.Itoa(k)}},
			Body: &ast.BlockStmt{},
		}
		for i, cc := range clauses {
			body := append([]ast.Stmt{&ast.AssignStmt{Lhs: []ast.Expr{done}, Tok: token.ASSIGN, Rhs: []ast.Expr{ast.NewIdent("true")}}}, cc.Body...)
			one := &ast.SelectStmt{Body: &ast.BlockStmt{List: []ast.Stmt{
				&ast.CommClause{Comm: cc.Comm, Body: body},
				&ast.CommClause{Comm: nil},
			}}}
			r.skip[one] = true
			sw.Body.List = append(sw.Body.List, &ast.CaseClause{
				List: []ast.Expr{&ast.BasicLit{Kind: token.INT, Value: strconv.Itoa(i)}},
				Body: []ast.Stmt{one},
			})
		}
		out = append(out, &ast.IfStmt{Cond: &ast.UnaryExpr{Op: token.NOT, X: done}, Body: &ast.BlockStmt{List: []ast.Stmt{sw}}})
	}
	// nothing ready: block on the original select (exactly one case can become ready at the next wake-up
	// under the scheduler unless a single action readies several, which the second evaluation handles)
	r.skip[sel] = true
	out = append(out, &ast.IfStmt{Cond: &ast.UnaryExpr{Op: token.NOT, X: done}, Body: &ast.BlockStmt{List: []ast.Stmt{
		r.point("chan-block"), sel,
	}}})

	res := []ast.Stmt{&ast.BlockStmt{List: out}}
	allTerm := true
	for _, cc := range clauses {
		if len(cc.Body) == 0 {
			allTerm = false

			break
		}
		switch l := cc.Body[len(cc.Body)-1].(type) {
		case *ast.ReturnStmt:
		case *ast.ExprStmt:
			if c, ok := l.X.(*ast.CallExpr); ok {
				if id, ok := c.Fun.(*ast.Ident); ok && id.Name == "panic" {
					continue
				}
			}
			allTerm = false
		default:
			allTerm = false
		}
	}
	if allTerm {
		// the original select was a terminating statement; keep the function well-formed
		res = append(res, &ast.ExprStmt{X: &ast.CallExpr{Fun: ast.NewIdent("panic"),
			Args: []ast.Expr{&ast.BasicLit{Kind: token.STRING, Value: strconv.Quote("vsched: unreachable after select")}}}})
	}

	return res
}

var _ = sort.Strings
