// Package wire is the harness-side STUN/TURN codec, written from RFC 5389 /
// 5766 / 6062 / 6156 with encoding/binary only. It is independent of
// pion/stun and of pion/turn's proto package, so a broken codec in the code
// under test cannot hide itself from the harness that reads its output.
package wire

import (
	"crypto/hmac"
	"crypto/md5"  //nolint:gosec
	"crypto/sha1" //nolint:gosec
	"encoding/binary"
	"errors"
	"fmt"
	"hash/crc32"
	"net"
)

// Methods.
const (
	Binding           = 0x001
	Allocate          = 0x003
	Refresh           = 0x004
	Send              = 0x006
	Data              = 0x007
	CreatePermission  = 0x008
	ChannelBind       = 0x009
	Connect           = 0x00a
	ConnectionBind    = 0x00b
	ConnectionAttempt = 0x00c
)

// Classes.
const (
	Request    = 0
	Indication = 1
	Success    = 2
	Error      = 3
)

// Attribute types.
const (
	AttrMappedAddress      = 0x0001
	AttrUsername           = 0x0006
	AttrMessageIntegrity   = 0x0008
	AttrErrorCode          = 0x0009
	AttrUnknownAttributes  = 0x000A
	AttrChannelNumber      = 0x000C
	AttrLifetime           = 0x000D
	AttrXORPeerAddress     = 0x0012
	AttrData               = 0x0013
	AttrRealm              = 0x0014
	AttrNonce              = 0x0015
	AttrXORRelayedAddress  = 0x0016
	AttrRequestedFamily    = 0x0017
	AttrEvenPort           = 0x0018
	AttrRequestedTransport = 0x0019
	AttrDontFragment       = 0x001A
	AttrXORMappedAddress   = 0x0020
	AttrReservationToken   = 0x0022
	AttrConnectionID       = 0x002a
	AttrSoftware           = 0x8022
	AttrFingerprint        = 0x8028
)

// MagicCookie is the fixed STUN cookie.
const MagicCookie = 0x2112A442

// MethodName names a method.
func MethodName(m uint16) string {
	switch m {
	case Binding:
		return "Binding"
	case Allocate:
		return "Allocate"
	case Refresh:
		return "Refresh"
	case Send:
		return "Send"
	case Data:
		return "Data"
	case CreatePermission:
		return "CreatePermission"
	case ChannelBind:
		return "ChannelBind"
	case Connect:
		return "Connect"
	case ConnectionBind:
		return "ConnectionBind"
	case ConnectionAttempt:
		return "ConnectionAttempt"
	}

	return fmt.Sprintf("M%03x", m)
}

// TypeOf encodes method and class into the 14-bit STUN message type.
func TypeOf(method uint16, class uint8) uint16 {
	m := method & 0x0FFF
	t := (m & 0x000F) | ((m & 0x0070) << 1) | ((m & 0x0F80) << 2)
	t |= uint16(class&1) << 4
	t |= uint16(class&2) << 7

	return t
}

// SplitType decodes the message type.
func SplitType(t uint16) (method uint16, class uint8) {
	method = (t & 0x000F) | ((t & 0x00E0) >> 1) | ((t & 0x3E00) >> 2)
	class = uint8((t>>4)&1) | uint8((t>>7)&2)

	return
}

// Attr is one raw attribute.
type Attr struct {
	Type  uint16
	Value []byte
}

// Msg is a decoded STUN message.
type Msg struct {
	Method uint16
	Class  uint8
	TxID   [12]byte
	Attrs  []Attr
	Raw    []byte
}

var (
	ErrShort     = errors.New("wire: short message")
	ErrNotSTUN   = errors.New("wire: not a STUN message")
	ErrBadLength = errors.New("wire: length mismatch")
	ErrAttr      = errors.New("wire: attribute overruns message")
)

// Parse decodes a STUN message strictly: the declared length must equal the
// number of bytes following the header.
func Parse(b []byte) (*Msg, error) {
	if len(b) < 20 {
		return nil, ErrShort
	}
	if b[0]&0xC0 != 0 || binary.BigEndian.Uint32(b[4:8]) != MagicCookie {
		return nil, ErrNotSTUN
	}
	l := int(binary.BigEndian.Uint16(b[2:4]))
	if l != len(b)-20 || l%4 != 0 {
		return nil, ErrBadLength
	}
	m := &Msg{Raw: b}
	m.Method, m.Class = SplitType(binary.BigEndian.Uint16(b[0:2]))
	copy(m.TxID[:], b[8:20])
	off := 20
	for off < len(b) {
		if off+4 > len(b) {
			return nil, ErrAttr
		}
		t := binary.BigEndian.Uint16(b[off:])
		al := int(binary.BigEndian.Uint16(b[off+2:]))
		off += 4
		if off+al > len(b) {
			return nil, ErrAttr
		}
		m.Attrs = append(m.Attrs, Attr{t, b[off : off+al]})
		off += (al + 3) &^ 3
	}

	return m, nil
}

// Get returns the first attribute of type t.
func (m *Msg) Get(t uint16) ([]byte, bool) {
	for _, a := range m.Attrs {
		if a.Type == t {
			return a.Value, true
		}
	}

	return nil, false
}

// ErrorCode returns the ERROR-CODE number or 0.
func (m *Msg) ErrorCode() int {
	v, ok := m.Get(AttrErrorCode)
	if !ok || len(v) < 4 {
		return 0
	}

	return int(v[2]&7)*100 + int(v[3])
}

// U32 returns a 4-byte attribute as uint32.
func (m *Msg) U32(t uint16) (uint32, bool) {
	v, ok := m.Get(t)
	if !ok || len(v) != 4 {
		return 0, false
	}

	return binary.BigEndian.Uint32(v), true
}

// XorAddr decodes an XOR-*-ADDRESS attribute.
func (m *Msg) XorAddr(t uint16) (*net.UDPAddr, bool) {
	v, ok := m.Get(t)
	if !ok {
		return nil, false
	}

	return DecodeXorAddr(v, m.TxID)
}

// DecodeXorAddr decodes the value of an XOR address attribute.
func DecodeXorAddr(v []byte, tx [12]byte) (*net.UDPAddr, bool) {
	if len(v) < 4 {
		return nil, false
	}
	port := int(binary.BigEndian.Uint16(v[2:4]) ^ uint16(MagicCookie>>16))
	var key [16]byte
	binary.BigEndian.PutUint32(key[0:4], MagicCookie)
	copy(key[4:], tx[:])
	switch v[1] {
	case 1:
		if len(v) != 8 {
			return nil, false
		}
		ip := make(net.IP, 4)
		for i := range 4 {
			ip[i] = v[4+i] ^ key[i]
		}

		return &net.UDPAddr{IP: ip, Port: port}, true
	case 2:
		if len(v) != 20 {
			return nil, false
		}
		ip := make(net.IP, 16)
		for i := range 16 {
			ip[i] = v[4+i] ^ key[i]
		}

		return &net.UDPAddr{IP: ip, Port: port}, true
	}

	return nil, false
}

// EncodeXorAddr encodes an XOR address attribute value.
func EncodeXorAddr(ip net.IP, port int, tx [12]byte) []byte {
	var key [16]byte
	binary.BigEndian.PutUint32(key[0:4], MagicCookie)
	copy(key[4:], tx[:])
	if ip4 := ip.To4(); ip4 != nil {
		v := make([]byte, 8)
		v[1] = 1
		binary.BigEndian.PutUint16(v[2:], uint16(port)^uint16(MagicCookie>>16)) //nolint:gosec
		for i := range 4 {
			v[4+i] = ip4[i] ^ key[i]
		}

		return v
	}
	ip16 := ip.To16()
	v := make([]byte, 20)
	v[1] = 2
	binary.BigEndian.PutUint16(v[2:], uint16(port)^uint16(MagicCookie>>16)) //nolint:gosec
	for i := range 16 {
		v[4+i] = ip16[i] ^ key[i]
	}

	return v
}

// B builds a STUN message.
type B struct {
	typ   uint16
	tx    [12]byte
	attrs []byte
}

// New starts a message.
func New(method uint16, class uint8, tx [12]byte) *B {
	return &B{typ: TypeOf(method, class), tx: tx}
}

// RawType overrides the 16-bit type field.
func (b *B) RawType(t uint16) *B { b.typ = t; return b }

// Attr appends an attribute with zero padding to 4 bytes.
func (b *B) Attr(t uint16, v []byte) *B {
	var h [4]byte
	binary.BigEndian.PutUint16(h[0:], t)
	binary.BigEndian.PutUint16(h[2:], uint16(len(v))) //nolint:gosec
	b.attrs = append(b.attrs, h[:]...)
	b.attrs = append(b.attrs, v...)
	for len(b.attrs)%4 != 0 {
		b.attrs = append(b.attrs, 0)
	}

	return b
}

// RawAttr appends an attribute whose declared length is decl regardless of len(v).
func (b *B) RawAttr(t uint16, decl int, v []byte) *B {
	var h [4]byte
	binary.BigEndian.PutUint16(h[0:], t)
	binary.BigEndian.PutUint16(h[2:], uint16(decl)) //nolint:gosec
	b.attrs = append(b.attrs, h[:]...)
	b.attrs = append(b.attrs, v...)
	for len(b.attrs)%4 != 0 {
		b.attrs = append(b.attrs, 0)
	}

	return b
}

// U32 appends a 4-byte attribute.
func (b *B) U32(t uint16, v uint32) *B {
	var x [4]byte
	binary.BigEndian.PutUint32(x[:], v)

	return b.Attr(t, x[:])
}

// Str appends a string attribute.
func (b *B) Str(t uint16, s string) *B { return b.Attr(t, []byte(s)) }

// XorAddr appends an XOR address attribute.
func (b *B) XorAddr(t uint16, ip net.IP, port int) *B {
	return b.Attr(t, EncodeXorAddr(ip, port, b.tx))
}

// XorAddr6 appends an XOR address attribute in the IPv6 form (family 0x02, 16 address bytes) whatever the
// address: an IPv4 address goes out as ::ffff:a.b.c.d.
func (b *B) XorAddr6(t uint16, ip net.IP, port int) *B {
	var key [16]byte
	binary.BigEndian.PutUint32(key[0:4], MagicCookie)
	copy(key[4:], b.tx[:])
	ip16 := ip.To16()
	v := make([]byte, 20)
	v[1] = 2
	binary.BigEndian.PutUint16(v[2:], uint16(port)^uint16(MagicCookie>>16)) //nolint:gosec
	for i := range 16 {
		v[4+i] = ip16[i] ^ key[i]
	}

	return b.Attr(t, v)
}

// LongTermKey is MD5(user:realm:password).
func LongTermKey(user, realm, pass string) []byte {
	h := md5.Sum([]byte(user + ":" + realm + ":" + pass)) //nolint:gosec

	return h[:]
}

// MAC computes the MESSAGE-INTEGRITY value for the message as built so far
// (the attribute itself not yet appended).
func (b *B) MAC(key []byte) []byte {
	hdr := b.header(len(b.attrs) + 24)
	h := hmac.New(sha1.New, key)
	h.Write(hdr)     //nolint:errcheck
	h.Write(b.attrs) //nolint:errcheck

	return h.Sum(nil)
}

// Integrity appends MESSAGE-INTEGRITY computed with key.
func (b *B) Integrity(key []byte) *B { return b.Attr(AttrMessageIntegrity, b.MAC(key)) }

// Fingerprint appends FINGERPRINT (RFC 5389 15.5): CRC-32 of the message up to the attribute, with the
// length field already counting it, XOR 0x5354554e.
func (b *B) Fingerprint() *B {
	hdr := b.header(len(b.attrs) + 8)
	crc := crc32.ChecksumIEEE(append(hdr, b.attrs...)) ^ 0x5354554e
	v := make([]byte, 4)
	binary.BigEndian.PutUint32(v, crc)

	return b.Attr(AttrFingerprint, v)
}

func (b *B) header(l int) []byte {
	h := make([]byte, 20)
	binary.BigEndian.PutUint16(h[0:], b.typ)
	binary.BigEndian.PutUint16(h[2:], uint16(l)) //nolint:gosec
	binary.BigEndian.PutUint32(h[4:], MagicCookie)
	copy(h[8:], b.tx[:])

	return h
}

// Bytes serialises the message.
func (b *B) Bytes() []byte {
	return append(b.header(len(b.attrs)), b.attrs...)
}

// CheckIntegrity verifies the MESSAGE-INTEGRITY attribute of a parsed message.
func (m *Msg) CheckIntegrity(key []byte) bool {
	off := 20
	for off+4 <= len(m.Raw) {
		t := binary.BigEndian.Uint16(m.Raw[off:])
		al := int(binary.BigEndian.Uint16(m.Raw[off+2:]))
		if t == AttrMessageIntegrity {
			if al != 20 || off+4+al > len(m.Raw) {
				return false
			}
			hdr := append([]byte(nil), m.Raw[:20]...)
			binary.BigEndian.PutUint16(hdr[2:], uint16(off+24-20)) //nolint:gosec
			h := hmac.New(sha1.New, key)
			h.Write(hdr)           //nolint:errcheck
			h.Write(m.Raw[20:off]) //nolint:errcheck

			return hmac.Equal(h.Sum(nil), m.Raw[off+4:off+24])
		}
		off += 4 + (al+3)&^3
	}

	return false
}

// ChannelData encodes a ChannelData frame (padded to 4 when pad is true).
func ChannelData(num uint16, data []byte, pad bool) []byte {
	out := make([]byte, 4, 4+len(data)+3)
	binary.BigEndian.PutUint16(out[0:], num)
	binary.BigEndian.PutUint16(out[2:], uint16(len(data))) //nolint:gosec
	out = append(out, data...)
	if pad {
		for len(out)%4 != 0 {
			out = append(out, 0)
		}
	}

	return out
}

// ParseChannelData decodes a ChannelData datagram per RFC 5766 §11.4/11.6:
// valid channel number, and at least the declared number of bytes present.
func ParseChannelData(b []byte) (num uint16, data []byte, ok bool) {
	if len(b) < 4 {
		return 0, nil, false
	}
	num = binary.BigEndian.Uint16(b[0:])
	l := int(binary.BigEndian.Uint16(b[2:]))
	if num < 0x4000 || num > 0x7FFF || l > len(b)-4 {
		return num, nil, false
	}

	return num, b[4 : 4+l], true
}

// FrameLen is the reference stream framer: given the bytes received so far it
// returns (n>0) the length of the first complete frame, (0,nil) when more
// bytes are needed, or an error when the stream cannot begin a frame.
// STUN: first two bits 00 -> 20+length; ChannelData: 0x4000-0x7FFF ->
// 4+length padded to 4 (RFC 5766 §11.5 over stream transports).
func FrameLen(b []byte) (int, error) {
	if len(b) < 1 {
		return 0, nil
	}
	switch {
	case b[0]&0xC0 == 0x00:
		if len(b) < 4 {
			return 0, nil
		}
		n := 20 + int(binary.BigEndian.Uint16(b[2:4]))
		if len(b) >= 8 && binary.BigEndian.Uint32(b[4:8]) != MagicCookie {
			return 0, ErrNotSTUN
		}
		if len(b) < n {
			return 0, nil
		}

		return n, nil
	case b[0]&0xC0 == 0x40:
		if len(b) < 4 {
			return 0, nil
		}
		n := 4 + (int(binary.BigEndian.Uint16(b[2:4]))+3)&^3
		if len(b) < n {
			return 0, nil
		}

		return n, nil
	}

	return 0, ErrNotSTUN
}
