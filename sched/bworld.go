package sched

import (
	"errors"
	"fmt"
	"net"
	"sync"
	"time"

	turn "github.com/pion/turn/v5"
	"github.com/pion/turn/v5/verif/shim/vsched"
	"github.com/pion/turn/v5/verif/simnet"
	"github.com/pion/turn/v5/verif/vtx"
	"github.com/pion/turn/v5/verif/wire"
)

// BCfg configures an Engine-B world.
type BCfg struct {
	Lifetime, Perm, Chan time.Duration
	Stream               bool
	// CB is invoked inside every lifecycle callback (a yield point or a slow callback).
	CB func(kind string)
	// SlowDial: the relay address generator's AllocateConn (the outgoing connection of a Connect) takes this long.
	SlowDial time.Duration
	// SlowAlloc: the generator's AllocatePacketConn (the relay socket of an Allocate) takes this long.
	SlowAlloc time.Duration
	// FailAlloc: AllocatePacketConn fails (after SlowAlloc): the server answers 508.
	FailAlloc bool
	// PlainConns: the connections the server gets (accepted from the stream listener, dialled for a Connect) are
	// plain net.Conns like those of crypto/tls: no io.ReaderFrom / io.WriterTo short cuts for io.Copy to take.
	PlainConns bool
}

type plainConn struct{ net.Conn }

type plainListener struct{ net.Listener }

func (l plainListener) Accept() (net.Conn, error) {
	c, err := l.Listener.Accept()
	if err != nil {
		return nil, err
	}

	return plainConn{c}, nil
}

var errNoPorts = errors.New("bgen: no relay port available")

// BW is the closed system of an Engine-B scenario.
type BW struct {
	Net     *simnet.Net
	Srv     *turn.Server
	SrvAddr *net.UDPAddr
	SrvSock *simnet.UDPSock
	Lst     *simnet.Listener
	mu      sync.Mutex
	Life    []string
	Notes   []string
	Gen     int
	cfg     BCfg
}

type bgen struct{ w *BW }

func (g bgen) Validate() error { return nil }
func (g bgen) AllocatePacketConn(c turn.AllocateListenerConfig) (net.PacketConn, net.Addr, error) {
	g.w.mu.Lock()
	g.w.Gen++
	g.w.mu.Unlock()
	if g.w.cfg.SlowAlloc > 0 {
		vsched.IdleSleep(g.w.cfg.SlowAlloc)
	}
	if g.w.cfg.FailAlloc {
		return nil, nil, errNoPorts
	}
	s, err := g.w.Net.ListenUDP(c.Network, &net.UDPAddr{IP: net.IPv4(10, 9, 0, 1).To4(), Port: c.RequestedPort})
	if err != nil {
		return nil, nil, err
	}

	return s, s.LocalAddr(), nil
}

func (g bgen) AllocateListener(c turn.AllocateListenerConfig) (net.Listener, net.Addr, error) {
	l, err := g.w.Net.ListenTCPAddr(c.Network, &net.TCPAddr{IP: net.IPv4(10, 9, 0, 1).To4(), Port: c.RequestedPort})
	if err != nil {
		return nil, nil, err
	}

	return l, l.Addr(), nil
}

func (g bgen) AllocateConn(c turn.AllocateConnConfig) (net.Conn, error) {
	la, _ := c.LocalAddr.(*net.TCPAddr)
	ra, _ := c.RemoteAddr.(*net.TCPAddr)
	if g.w.cfg.SlowDial > 0 {
		vsched.IdleSleep(g.w.cfg.SlowDial) // a peer that answers the SYN late
	}

	c2, err := g.w.Net.DialTCPAddr(la, ra)
	if err != nil {
		return nil, err
	}
	if g.w.cfg.PlainConns {
		return plainConn{c2}, nil
	}

	return c2, nil
}

func (w *BW) life(cfg BCfg, kind, s string) {
	w.mu.Lock()
	w.Life = append(w.Life, kind+" "+s)
	w.mu.Unlock()
	if cfg.CB != nil {
		cfg.CB(kind)
	}
}

// Note records a harness observation (thread safe).
func (w *BW) Note(f string, a ...any) {
	w.mu.Lock()
	w.Notes = append(w.Notes, fmt.Sprintf(f, a...))
	w.mu.Unlock()
}

// NewBW builds the network and starts the real (instrumented) server. Root goroutine only.
func NewBW(cfg BCfg) *BW {
	w := &BW{Net: simnet.New(), SrvAddr: vtx.SrvV4, cfg: cfg}
	w.Net.Sched = vsched.SimHook{}
	sc := turn.ServerConfig{
		Realm: vtx.Realm, LoggerFactory: vtx.QuietFactory{},
		ChannelBindTimeout: cfg.Chan, PermissionTimeout: cfg.Perm, AllocationLifetime: cfg.Lifetime,
		AuthHandler: func(ra *turn.RequestAttributes) (string, []byte, bool) {
			p, ok := vtx.Users[ra.Username]
			if !ok || ra.Realm != vtx.Realm {
				return "", nil, false
			}

			return ra.Username, wire.LongTermKey(ra.Username, ra.Realm, p), true
		},
		EventHandler: turn.EventHandler{
			OnAllocationCreated: func(src, _ net.Addr, _, _, _ string, relay net.Addr, _ int) {
				w.life(cfg, "alloc+", fmt.Sprint(src, relay))
			},
			OnAllocationDeleted: func(src, _ net.Addr, _, _, _ string) { w.life(cfg, "alloc-", fmt.Sprint(src)) },
			OnPermissionCreated: func(src, _ net.Addr, _, _, _ string, relay net.Addr, peer net.IP) {
				w.life(cfg, "perm+", fmt.Sprint(src, relay, peer))
			},
			OnPermissionDeleted: func(src, _ net.Addr, _, _, _ string, relay net.Addr, peer net.IP) {
				w.life(cfg, "perm-", fmt.Sprint(src, relay, peer))
			},
			OnChannelCreated: func(src, _ net.Addr, _, _, _ string, relay, peer net.Addr, n uint16) {
				w.life(cfg, "chan+", fmt.Sprint(src, relay, peer, n))
			},
			OnChannelDeleted: func(src, _ net.Addr, _, _, _ string, relay, peer net.Addr, n uint16) {
				w.life(cfg, "chan-", fmt.Sprint(src, relay, peer, n))
			},
		},
	}
	if cfg.Stream {
		l, err := w.Net.ListenTCPAddr("tcp", &net.TCPAddr{IP: w.SrvAddr.IP, Port: w.SrvAddr.Port})
		if err != nil {
			panic(err)
		}
		w.Lst = l
		var ln net.Listener = l
		if cfg.PlainConns {
			ln = plainListener{l}
		}
		sc.ListenerConfigs = []turn.ListenerConfig{{Listener: ln, RelayAddressGenerator: bgen{w}}}
	} else {
		s, err := w.Net.ListenUDP("udp", w.SrvAddr)
		if err != nil {
			panic(err)
		}
		w.SrvSock = s
		sc.PacketConnConfigs = []turn.PacketConnConfig{{PacketConn: s, RelayAddressGenerator: bgen{w}}}
	}
	srv, err := turn.NewServer(sc)
	if err != nil {
		panic(err)
	}
	w.Srv = srv

	return w
}

// BClient is a scripted client used from harness threads.
type BClient struct {
	Name       string
	Addr       *net.UDPAddr
	User, Pass string
	Nonce      string
	Sock       *simnet.UDPSock
	Conn       *simnet.Conn
	rxbuf      []byte
	w          *BW
	txc        int
	Inbox      []vtx.Rx // everything received that was not the awaited response
}

// NewClient binds a scripted client endpoint (root goroutine).
func (w *BW) NewClient(name string) *BClient {
	spec := vtx.ClientSpec[name]
	c := &BClient{Name: name, Addr: spec.Addr, User: spec.User, Pass: vtx.Users[spec.User], w: w}
	if w.Lst != nil {
		conn, err := w.Net.DialTCPAddr(&net.TCPAddr{IP: spec.Addr.IP, Port: spec.Addr.Port}, &net.TCPAddr{IP: w.SrvAddr.IP, Port: w.SrvAddr.Port})
		if err != nil {
			panic(err)
		}
		c.Conn = conn
	} else {
		s, err := w.Net.ListenUDP("udp", spec.Addr)
		if err != nil {
			panic(err)
		}
		c.Sock = s
	}

	return c
}

// NewPeer binds a scripted peer endpoint.
func (w *BW) NewPeer(name string) *simnet.UDPSock {
	s, err := w.Net.ListenUDP("udp", vtx.PeerSpec[name])
	if err != nil {
		panic(err)
	}

	return s
}

func (c *BClient) key() []byte { return wire.LongTermKey(c.User, vtx.Realm, c.Pass) }

// Send transmits raw bytes (a scheduling point inside simnet).
func (c *BClient) Send(b []byte) {
	if c.Conn != nil {
		_, _ = c.Conn.Write(b)

		return
	}
	_, _ = c.Sock.WriteTo(b, c.w.SrvAddr)
}

func (c *BClient) pending() bool {
	if c.Conn != nil {
		return c.Conn.PendingIn() > 0
	}

	return c.Sock.Pending() > 0
}

func (c *BClient) recv() []vtx.Rx {
	var out []vtx.Rx
	if c.Conn != nil {
		b, _ := c.Conn.TakeAll()
		c.rxbuf = append(c.rxbuf, b...)
		for {
			n, err := wire.FrameLen(c.rxbuf)
			if err != nil || n == 0 {
				break
			}
			out = append(out, vtx.Decode(c.rxbuf[:n:n], c.w.SrvAddr))
			c.rxbuf = c.rxbuf[n:]
		}

		return out
	}
	for _, d := range c.Sock.Drain() {
		out = append(out, vtx.Decode(d.Data, d.Src))
	}

	return out
}

// Recv returns what has arrived since the last call (frames of a stream, datagrams of a socket).
func (c *BClient) Recv() []vtx.Rx { return c.recv() }

// Await blocks (as a scheduling point) until the response with id tx arrives
// or the system is otherwise quiescent forever (then the thread stays parked).
func (c *BClient) Await(method uint16, tx [12]byte) *wire.Msg {
	for {
		for i, rx := range c.Inbox {
			if rx.Msg != nil && rx.Msg.TxID == tx && rx.Msg.Method == method && rx.Msg.Class >= wire.Success {
				c.Inbox = append(c.Inbox[:i], c.Inbox[i+1:]...)

				return rx.Msg
			}
		}
		vsched.Block("await", c.Name, c.pending)
		c.Inbox = append(c.Inbox, c.recv()...)
	}
}

// NextTx returns a deterministic per-client transaction id.
func (c *BClient) NextTx() [12]byte {
	c.txc++
	var tx [12]byte
	copy(tx[:], fmt.Sprintf("%s-tx%06d", c.Name, c.txc))

	return tx
}

// Do performs an authenticated request from a harness thread, handling one 401/438 challenge.
func (c *BClient) Do(method uint16, attrs func(b *wire.B)) *wire.Msg {
	for attempt := 0; ; attempt++ {
		tx := c.NextTx()
		b := wire.New(method, wire.Request, tx)
		if attrs != nil {
			attrs(b)
		}
		if c.Nonce != "" {
			b.Str(wire.AttrUsername, c.User).Str(wire.AttrRealm, vtx.Realm).Str(wire.AttrNonce, c.Nonce).Integrity(c.key())
		}
		c.Send(b.Bytes())
		resp := c.Await(method, tx)
		if resp.Class == wire.Error && attempt < 2 {
			if code := resp.ErrorCode(); code == 401 || code == 438 {
				if n, ok := resp.Get(wire.AttrNonce); ok {
					c.Nonce = string(n)

					continue
				}
			}
		}

		return resp
	}
}

// Fire sends a request without waiting for the answer; returns its id.
func (c *BClient) Fire(method uint16, attrs func(b *wire.B)) [12]byte {
	tx := c.NextTx()
	b := wire.New(method, wire.Request, tx)
	if attrs != nil {
		attrs(b)
	}
	b.Str(wire.AttrUsername, c.User).Str(wire.AttrRealm, vtx.Realm).Str(wire.AttrNonce, c.Nonce).Integrity(c.key())
	c.Send(b.Bytes())

	return tx
}

// LifeLock / LifeUnlock guard BW.Life for readers.
func (w *BW) LifeLock()   { w.mu.Lock() }
func (w *BW) LifeUnlock() { w.mu.Unlock() }
