// Package sched is Engine B's explorer: stateless depth-first enumeration of
// all schedules of a closed harness with at most k preemptions, by prefix
// replay on the real (instrumented) pion/turn code.
package sched

import (
	"crypto/rand"
	"encoding/binary"
	"encoding/json"
	"fmt"
	"os"
	"runtime"
	"sort"
	"strings"
	"testing"
	"testing/synctest"
	"time"

	"github.com/pion/turn/v5/verif/rep"
	"github.com/pion/turn/v5/verif/shim/vsched"
)

// Scenario is a closed harness.
type Scenario struct {
	Name  string
	Opt   vsched.Options
	Bound int
	// Body builds the world on the root goroutine and spawns threads; see vsched.RunOne.
	Body func(s *vsched.Sched) (check func() []string, teardown func())
	// Variants: each execution tree is explored once per variant (e.g. map order).
	MapDesc bool
	// BothMapOrders: explore the scenario with ascending and with descending map iteration.
	BothMapOrders bool
	// FreeBound bounds the number of non-default choices taken where the running
	// thread was not enabled (free context switches); <0 = unbounded.
	FreeBound int
	// KnownNoise lists leftover-thread patterns that are expected after teardown.
	AllowLeftover func(name string) bool
}

// ctr is a deterministic crypto/rand.Reader replacement (per execution).
type ctr struct{ n uint64 }

func (c *ctr) Read(p []byte) (int, error) {
	for i := 0; i < len(p); i += 8 {
		c.n++
		var b [8]byte
		binary.BigEndian.PutUint64(b[:], c.n*0x9E3779B97F4A7C15)
		copy(p[i:], b[:])
	}

	return len(p), nil
}

type item struct {
	Prefix []int      `json:"p"`
	Cost   int        `json:"c"`
	Free   int        `json:"f"`
	Depth  int        `json:"d"` // number of deviations from the default schedule
	Shared bool       `json:"s"` // executed by every shard (levels above the split depth)
	Expect [][]string `json:"e"` // enabled labels of the parent's steps before the deviation
}

// Work stealing between shard processes through the file system: an idle
// shard announces itself with idle.<i>; a busy shard claims the announcement
// (rename) and hands over the older half of its stack as work.<i>.json.
type stealer struct {
	dir            string
	shard, nshards int
	execs          int
	takes, gives   int
	waited         time.Duration
}

func newStealer(name string, mapDesc bool) *stealer {
	shard, n := rep.Shard()
	if n <= 1 || rep.ReplayPath() != "" {
		return nil
	}
	base := os.Getenv("VERIF_WORK")
	if base == "" {
		base = ".work"
	}
	d := fmt.Sprintf("%s/steal/%s-%s-%v", base, rep.Part(), name, mapDesc)
	if sd := os.Getenv("VERIF_STEAL"); sd != "" {
		d = fmt.Sprintf("%s/%s-%s-%v", sd, rep.Part(), name, mapDesc)
	}
	_ = os.MkdirAll(d, 0o755)

	return &stealer{dir: d, shard: shard, nshards: n}
}

// give hands over half of the stack if somebody is idle.
func (st *stealer) give(stack []item) []item {
	st.execs++
	if st.execs%8 != 0 || len(stack) < 2 {
		return stack
	}
	ents, _ := os.ReadDir(st.dir)
	for _, e := range ents {
		var who int
		if _, err := fmt.Sscanf(e.Name(), "idle.%d", &who); err != nil {
			continue
		}
		claimed := fmt.Sprintf("%s/claimed.%d.%d", st.dir, who, st.shard)
		if os.Rename(st.dir+"/"+e.Name(), claimed) != nil {
			continue
		}
		half := (len(stack) + 1) / 2
		b, _ := json.Marshal(stack[:half])
		tmp := fmt.Sprintf("%s/tmp.%d", st.dir, who)
		_ = os.WriteFile(tmp, b, 0o644) //nolint:gosec
		_ = os.Rename(tmp, fmt.Sprintf("%s/work.%d.json", st.dir, who))
		_ = os.Remove(claimed)
		st.gives++

		return append([]item{}, stack[half:]...)
	}

	return stack
}

// take waits for work; returns nil when every shard is idle.
func (st *stealer) take() []item {
	idle := fmt.Sprintf("%s/idle.%d", st.dir, st.shard)
	work := fmt.Sprintf("%s/work.%d.json", st.dir, st.shard)
	_ = os.WriteFile(idle, nil, 0o644) //nolint:gosec
	t0 := time.Now()
	defer func() { st.waited += time.Since(t0); st.takes++ }()
	for waited := 0; ; waited++ {
		if b, err := os.ReadFile(work); err == nil { //nolint:gosec
			_ = os.Remove(work)
			var items []item
			if json.Unmarshal(b, &items) == nil && len(items) > 0 {
				return items
			}
		}
		ents, _ := os.ReadDir(st.dir)
		idleN, pending := 0, 0
		for _, e := range ents {
			switch {
			case strings.HasPrefix(e.Name(), "idle.") || strings.HasPrefix(e.Name(), "done."):
				idleN++
			default:
				pending++
			}
		}
		if idleN >= st.nshards && pending == 0 {
			_ = os.Rename(idle, fmt.Sprintf("%s/done.%d", st.dir, st.shard))

			return nil
		}
		if _, err := os.Stat(idle); err != nil {
			// claimed: work is on its way
			if _, err2 := os.Stat(fmt.Sprintf("%s/done.%d", st.dir, st.shard)); err2 == nil {
				return nil
			}
		}
		time.Sleep(20 * time.Millisecond)
		if waited > 50*600 {
			return nil
		}
	}
}

// Replay is the artefact for one violating schedule.
type Replay struct {
	Engine   string   `json:"engine"`
	Scenario string   `json:"scenario"`
	MapDesc  bool     `json:"map_desc"`
	Choices  []int    `json:"choices"`
	Trace    []string `json:"trace,omitempty"`
}

func runOnce(t *testing.T, sc *Scenario, prefix []int, logOn bool) (res *vsched.Result, bubblePanic string) {
	opt := sc.Opt
	opt.LogOn = logOn
	old := rand.Reader
	rand.Reader = &ctr{}
	vsched.MapDesc = sc.MapDesc
	defer func() { rand.Reader = old }()
	func() {
		defer func() {
			if e := recover(); e != nil {
				bubblePanic = fmt.Sprint(e)
			}
		}()
		synctest.Test(t, func(*testing.T) {
			res = vsched.RunOne(prefix, opt, sc.Body)
		})
	}()

	return res, bubblePanic
}

func sigOf(v string) string {
	if i := strings.Index(v, "\n"); i >= 0 {
		v = v[:i]
	}
	if i := strings.Index(v, " thread="); i >= 0 {
		v = v[:i]
	}

	return v
}

// Explore runs the bounded search for this shard and fills the report.
func Explore(t *testing.T, sc *Scenario, r *rep.Report) {
	if path := rep.ReplayPath(); path != "" {
		replay(t, sc, r, path)

		return
	}
	shard, _ := rep.Shard()
	bound := sc.Bound
	outcomes := map[string]int64{}
	var schedules, maxSteps int64
	steal := newStealer(sc.Name, sc.MapDesc)
	stack := []item{{}}
	if steal != nil && shard != 0 {
		stack = nil // everything but the root arrives by work stealing
	}
	capped := false
	for {
		if len(stack) == 0 {
			if steal == nil {
				break
			}
			if stack = steal.take(); stack == nil {
				break
			}
		}
		if r.OverBudget("sched " + sc.Name) {
			capped = true
			if steal != nil {
				_ = os.WriteFile(fmt.Sprintf("%s/done.%d", steal.dir, steal.shard), nil, 0o644) //nolint:gosec
			}

			break
		}
		if steal != nil {
			stack = steal.give(stack)
		}
		it := stack[len(stack)-1]
		stack = stack[:len(stack)-1]
		rep.Current(map[string]any{"scenario": sc.Name, "choices": it.Prefix, "sig_hint": sc.Name})
		res, bp := runOnce(t, sc, it.Prefix, false)
		if os.Getenv("VERIF_MEMDEBUG") != "" && schedules%2000 == 0 {
			var ms runtime.MemStats
			runtime.ReadMemStats(&ms)
			fmt.Fprintf(os.Stderr, "memdebug %s schedules=%d goroutines=%d heap=%dMB stack-items=%d bp=%q\n", sc.Name, schedules, runtime.NumGoroutine(), ms.HeapAlloc>>20, len(stack), bp)
		}
		counted := true
		if counted {
			schedules++
		}
		if res == nil {
			r.Violate(rep.Violation{Oracle: "harness", Signature: "harness:no-result:" + sc.Name, Detail: bp,
				Replay: Replay{Engine: "sched", Scenario: sc.Name, MapDesc: sc.MapDesc, Choices: it.Prefix}})

			continue
		}
		if int64(len(res.Steps)) > maxSteps {
			maxSteps = int64(len(res.Steps))
		}
		// replay determinism: the parent's enabled sets must reappear
		if res.Diverged == "" {
			for i := 0; i < len(it.Expect) && i < len(res.Steps); i++ {
				if strings.Join(it.Expect[i], "|") != strings.Join(res.Steps[i].Enabled, "|") {
					res.Diverged = fmt.Sprintf("step %d enabled %v, parent saw %v", i, res.Steps[i].Enabled, it.Expect[i])

					break
				}
			}
		}
		choices := make([]int, len(res.Steps))
		for i, st := range res.Steps {
			choices[i] = st.Chosen
		}
		rp := Replay{Engine: "sched", Scenario: sc.Name, MapDesc: sc.MapDesc, Choices: choices}
		if res.Diverged != "" {
			if os.Getenv("VERIF_DEBUG_DIVERGE") != "" {
				for i, st := range res.Steps {
					exp := []string{}
					if i < len(it.Expect) {
						exp = it.Expect[i]
					}
					fmt.Fprintf(os.Stderr, "DIVERGE %3d now=%v parent=%v\n", i, st.Enabled, exp)
				}
			}
			r.Violate(rep.Violation{Oracle: "harness", Signature: "nondeterminism:" + sc.Name, Detail: res.Diverged, Replay: rp})

			continue
		}
		var vs []string
		vs = append(vs, res.Violations...)
		if len(res.StuckLocks) > 0 {
			vs = append(vs, "deadlock:"+lockSites(res.StuckLocks)+"\n"+strings.Join(res.StuckLocks, "; "))
		}
		// res.Leftover (threads that could not be released after the run) is NOT a verdict: the
		// explorer ends an execution by killing parked threads, which can strand a thread that
		// waits for one of them in a real channel operation. Leaks are judged by the scenario's
		// own check at quiescence, before anything is killed.
		if bp != "" && !strings.Contains(bp, "blocked goroutines remain") {
			vs = append(vs, "bubble-panic:"+bp)
		}
		out := "ok"
		if len(vs) > 0 {
			var sg []string
			for _, v := range vs {
				sg = append(sg, sigOf(v))
			}
			sort.Strings(sg)
			out = strings.Join(sg, ",")
		}
		if counted {
			outcomes[out]++
			for _, v := range vs {
				tr, _ := runOnceTrace(t, sc, choices)
				rp.Trace = tr
				r.Violate(rep.Violation{Oracle: "sched", Signature: sc.Name + ":" + sigOf(v), Detail: v, Replay: rp})
			}
		}
		// children
		for i := len(res.Steps) - 1; i >= len(it.Prefix) && i >= res.BranchFrom; i-- {
			st := res.Steps[i]
			if len(st.Enabled) < 2 {
				continue
			}
			cost, free := it.Cost, it.Free
			if st.RunningEnabled {
				cost++
			} else {
				free++
			}
			if cost > bound || (sc.FreeBound >= 0 && free > sc.FreeBound) {
				continue
			}
			for alt := len(st.Enabled) - 1; alt >= 1; alt-- {
				p := append(append([]int{}, choices[:i]...), alt)
				exp := make([][]string, i+1)
				for k := 0; k <= i; k++ {
					exp[k] = res.Steps[k].Enabled
				}
				stack = append(stack, item{Prefix: p, Cost: cost, Free: free, Expect: exp, Depth: it.Depth + 1})
			}
		}
	}
	r.Schedules += schedules
	r.Evaluations += schedules
	r.Bound = bound
	if capped {
		r.Note("scenario %s: capped with %d work items left", sc.Name, len(stack))
	}
	for k, v := range outcomes {
		for range v {
			r.Class(sc.Name + " => " + k)
		}
		r.State(sc.Name + " => " + k)
	}
	if steal != nil {
		r.Note("steal stats %s shard %d: takes=%d gives=%d waited=%v", sc.Name, shard, steal.takes, steal.gives, steal.waited)
	}
	key := fmt.Sprintf("schedules[%s,mapdesc=%v]", sc.Name, sc.MapDesc)
	if x, ok := r.Extra[key].(int64); ok {
		r.Extra[key] = x + schedules
	} else {
		r.Extra[key] = schedules
	}
	if shard == 0 {
		r.Note("scenario %s (mapdesc=%v): preemption bound %d, free-switch bound %d, max steps %d; schedule counts per scenario are in coverage[\"schedules[...]\"]",
			sc.Name, sc.MapDesc, bound, sc.FreeBound, maxSteps)
	}
	if shard == 0 {
		tr, _ := runOnceTrace(t, sc, nil)
		if len(tr) > 40 {
			tr = tr[:40]
		}
		r.Sample(map[string]any{"scenario": sc.Name, "default_schedule_first_steps": tr})
	}
}

func runOnceTrace(t *testing.T, sc *Scenario, choices []int) ([]string, *vsched.Result) {
	res, _ := runOnce(t, sc, choices, true)
	if res == nil {
		return nil, nil
	}

	return res.Log, res
}

func lockSites(st []string) string {
	var out []string
	for _, s := range st {
		if i := strings.Index(s, " ["); i >= 0 {
			s = s[:i]
		}
		f := strings.Fields(s)
		out = append(out, f[len(f)-1])
	}
	sort.Strings(out)

	return strings.Join(out, "+")
}

func leftKind(l string) string {
	if i := strings.Index(l, "("); i >= 0 {
		return strings.TrimSuffix(l[i+1:], ")")
	}

	return l
}

func replay(t *testing.T, sc *Scenario, r *rep.Report, path string) {
	b, err := os.ReadFile(path) //nolint:gosec
	if err != nil {
		t.Fatal(err)
	}
	var doc Replay
	if err := json.Unmarshal(b, &doc); err != nil {
		t.Fatal(err)
	}
	if doc.Scenario != sc.Name || doc.MapDesc != sc.MapDesc {
		return
	}
	tr, res := runOnceTrace(t, sc, doc.Choices)
	for _, l := range tr {
		fmt.Println("  ", l)
	}
	if res == nil {
		fmt.Println("REPLAY: no result")

		return
	}
	if res.Diverged != "" {
		fmt.Println("REPLAY-DIVERGED:", res.Diverged)
	}
	for _, v := range res.Violations {
		fmt.Println("REPLAY-VIOLATION", v)
	}
	for _, v := range res.StuckLocks {
		fmt.Println("REPLAY-DEADLOCK", v)
	}
	for _, v := range res.Leftover {
		fmt.Println("REPLAY-LEFTOVER", v)
	}
	if len(res.Violations)+len(res.StuckLocks) == 0 {
		fmt.Println("REPLAY-OK")
	}
}
