package c13

import (
	"encoding/json"
	"fmt"
	"os"
	"strings"
	"testing"
	"testing/synctest"
	"time"

	"github.com/pion/turn/v5/verif/rep"
)

// start is a fixed event prefix that puts the system into a region of the
// state space which the bounded search then explores exhaustively.
type start struct {
	Name   string
	Prefix []string
	Depth  [2]int // quick, thorough
	Core   bool   // reduced menu (see menu)
}

func starts() []start {
	bound := []string{"w:P1", "r:success", "r:success"} // P1 permitted, channel confirmed
	// ... and 5 min of virtual time later (permission refreshes answered): the next binding check refreshes the channel
	aged := append(append([]string{}, bound...), "adv:121s", "r:success", "adv:121s", "r:success", "adv:31s", "adv:31s")

	return []start{
		{Name: "fresh", Depth: [2]int{5, 6}},
		{Name: "bound", Prefix: bound, Depth: [2]int{4, 5}},
		{Name: "aged", Prefix: aged, Depth: [2]int{3, 5}},
		{Name: "fresh-core", Depth: [2]int{6, 7}, Core: true},
		{Name: "bound-core", Prefix: bound, Depth: [2]int{5, 6}, Core: true},
	}
}

// menu lists the enabled events in the current state. Argument domains are
// deliberately tiny; after Close only the events the property talks about
// ("later WriteTo/ReadFrom fail") remain.
func (x *exec) menu(core bool) []string {
	now := time.Now()
	var m []string
	pend := len(x.pending()) > 0
	readOK := x.reader == nil && !(x.m.expired(now) && len(x.m.queue) > 0 && !x.m.closed())
	// A second WriteTo toward an IP whose CreatePermission is still in flight waits
	// on a sync.Mutex inside the client (perm.mutex), which testing/synctest does
	// not treat as durably blocked: the bubble could never reach quiescence.
	// Concurrent writers are therefore enumerated across different peer IPs only
	// (same-IP writers belong to the controlled-scheduler engine).
	free := func(p string) bool { return x.pendingWriters() < maxWriters && !x.writerBlockedOn(peerAddrs[p].IP.String()) }
	if x.m.closed() {
		if free("P1") {
			m = append(m, "w:P1")
		}
		if readOK {
			m = append(m, "read")
		}
		if pend {
			m = append(m, "r:success", "r:403")
		}
		if x.m.appClosed && x.old == nil && !pend && x.reader == nil && x.pendingWriters() == 0 {
			m = append(m, "realloc")
		}

		return append(m, "in:data:P1", "adv:2s")
	}
	if x.old != nil && !x.oldAgain {
		m = append(m, "close-old")
	}
	if free("P1") {
		m = append(m, "w:P1", "w:P1b")
	}
	if !core && free("P2") {
		m = append(m, "w:P2")
	}
	if readOK {
		m = append(m, "read")
	}
	if core {
		m = append(m, "dl:+1s", "close")
	} else {
		m = append(m, "dl:+1s", "dl:past", "dl:zero", "close")
	}
	if pend {
		m = append(m, "r:success", "r:400", "r:403", "r:438", "r:drop")
	}
	m = append(m, "in:data:P1")
	if !core {
		m = append(m, "in:data:P9", "in:chan:unbound")
	}
	if _, _, ok := x.lowestConfirmed(); ok {
		m = append(m, "in:chan:bound")
	}
	if x.pendingBind() != nil {
		m = append(m, "in:chan:requested")
	}
	if x.old != nil && x.oldNum != 0 {
		if _, taken := x.m.owner[x.oldNum]; !taken {
			m = append(m, "in:chan:stale")
		}
	}
	// an unanswered transaction: to the instant just after it has failed (before the periodic timers act on the failure)
	for _, p := range x.out {
		if p.dropped {
			m = append(m, "adv:txfail")

			break
		}
	}
	if core {
		return append(m, "adv:2s", "adv:31s")
	}

	return append(m, "adv:100ms", "adv:2s", "adv:31s", "adv:121s")
}

type replay struct {
	Engine  string   `json:"engine"`
	Start   string   `json:"start"`
	Choices []int    `json:"choices"`
	Events  []string `json:"events"`
	Trace   []string `json:"trace"`
}

type runOut struct {
	v       *viol
	rp      replay
	classes map[string]int64
	states  []string
	steps   int64
}

// runHistory executes one history in a fresh world inside its own bubble.
func runHistory(t *testing.T, st start, depth int, ch *rep.Chooser) (out runOut) {
	out.rp = replay{Engine: "c13-histories", Start: st.Name}
	var fatal string
	func() {
		defer func() {
			if e := recover(); e != nil {
				fatal = fmt.Sprint(e)
			}
		}()
		synctest.Test(t, func(*testing.T) {
			x, err := newWorld(false)
			if err != nil {
				out.v = &viol{"harness:setup", err.Error()}
				if x != nil {
					x.teardown()
				}

				return
			}
			defer func() {
				out.rp.Events, out.rp.Trace = x.events, x.trace
				out.classes, out.states, out.steps = x.classes, x.states, x.steps
				if x.v != nil && out.v == nil {
					out.v = x.v
				}
				x.teardown()
			}()
			for _, ev := range st.Prefix {
				x.apply(ev)
				if x.v != nil {
					x.v.sig = "prefix:" + x.v.sig

					return
				}
			}
			for i := 0; i < depth; i++ {
				m := x.menu(st.Core)
				ev := m[ch.Pick(len(m))]
				if ch.Abort {
					return
				}
				rep.Current(map[string]any{"engine": "c13-histories", "start": st.Name, "choices": ch.Taken})
				x.apply(ev)
				if x.v != nil {
					return
				}
			}
		})
	}()
	if fatal != "" && out.v == nil {
		sig := "fatal:" + fatal
		if strings.Contains(fatal, "blocked goroutines remain") {
			sig = "fatal:goroutine-leak-after-teardown"
		}
		out.v = &viol{sig, fatal + " trace=" + fmt.Sprint(out.rp.Trace)}
	}
	out.rp.Choices = append([]int(nil), ch.Taken...)

	return out
}

func TestC13Histories(t *testing.T) {
	r := rep.New("C13")
	defer r.Write()
	tier := 0
	if rep.Thorough() {
		tier = 1
	}
	if path := rep.ReplayPath(); path != "" {
		replayFile(t, r, path)

		return
	}
	shard, n := rep.Shard()
	classes := map[string]int64{}
	maxDepth := 0
	sampled := 0
	for _, st := range starts() {
		depth := st.Depth[tier]
		if depth > maxDepth {
			maxDepth = depth
		}
		stop := func() bool { return r.OverBudget("c13 histories " + st.Name) }
		runs := rep.Enumerate(shard, n, stop, func(ch *rep.Chooser) {
			out := runHistory(t, st, depth, ch)
			if !ch.Owned() {
				return
			}
			if g := os.Getenv("C13_GREP"); g != "" {
				for _, l := range out.rp.Trace {
					if strings.Contains(l, g) {
						fmt.Println(st.Name, out.rp.Choices, strings.Join(out.rp.Trace, "\n    "))

						break
					}
				}
			}
			r.Evaluations++
			r.Transitions += out.steps
			for k, c := range out.classes {
				classes[st.Name+": "+k] += c
			}
			for _, s := range out.states {
				r.State(s)
			}
			if out.v != nil {
				r.Violate(rep.Violation{Oracle: "c13-histories", Signature: out.v.sig, Detail: out.v.detail, Replay: out.rp})
			} else if sampled < 2 && len(out.rp.Trace) >= depth {
				sampled++
				r.Sample(map[string]any{"start": st.Name, "prefix": st.Prefix, "trace": out.rp.Trace})
			}
		})
		sampled = 0
		r.Note("start %s (prefix %v, core menu %v): %d executions in shard %d/%d, depth %d", st.Name, st.Prefix, st.Core, runs, shard, n, depth)
		if !r.Exhaustive {
			break
		}
	}
	for k, c := range classes {
		r.Classes[k] += c
	}
	r.Depth = maxDepth
}

func replayFile(t *testing.T, r *rep.Report, path string) {
	b, err := os.ReadFile(path) //nolint:gosec
	if err != nil {
		t.Fatal(err)
	}
	var rp replay
	if err := json.Unmarshal(b, &rp); err != nil {
		t.Fatal(err)
	}
	if rp.Engine != "c13-histories" {
		return
	}
	for _, st := range starts() {
		if st.Name != rp.Start {
			continue
		}
		out := runHistory(t, st, len(rp.Choices), rep.FixedChooser(rp.Choices))
		for _, l := range out.rp.Trace {
			fmt.Println("  ", l)
		}
		if out.v != nil {
			fmt.Printf("REPLAY-VIOLATION sig=%s detail=%s\n", out.v.sig, out.v.detail)
			r.Violate(rep.Violation{Oracle: "c13-histories", Signature: out.v.sig, Detail: out.v.detail, Replay: out.rp})
		} else {
			fmt.Println("REPLAY-OK")
		}
	}
}
