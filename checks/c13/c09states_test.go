package c13

import (
	"fmt"
	"testing"
	"testing/synctest"
	"time"

	"github.com/pion/turn/v5/verif/rep"
	"github.com/pion/turn/v5/verif/wire"
)

// TestC09ClientStates (a part of C09, it lives here for the scripted-server
// harness): the inbound messages a TURN server or anybody else can send to a
// client - Data indications, ChannelData on bound / unbound / out-of-range
// numbers, ConnectionAttempt indications, responses to no transaction, each
// whole, with an empty payload, truncated and with attributes missing - in
// every state of the client's relayed socket: open, open with a confirmed
// channel binding, closed by the application, closed twice, closed and
// allocated again (and then the old socket closed once more). The client's read
// loop must come back to its socket after every one (no panic, no hang) and
// complete a fresh transaction at the end.
func TestC09ClientStates(t *testing.T) {
	r := rep.New("C09")
	defer r.Write()
	if i, _ := rep.Shard(); i != 0 {
		return
	}
	states := []string{"open", "bound", "closed", "closed-twice", "reallocated", "reallocated-old-closed-again"}
	for _, tcp := range []bool{false, true} {
		for _, st := range states {
			if tcp && (st == "bound" || st == "reallocated" || st == "reallocated-old-closed-again") {
				continue
			}
			var fatal string
			var v *viol
			func() {
				defer func() {
					if e := recover(); e != nil {
						fatal = fmt.Sprint(e)
					}
				}()
				synctest.Test(t, func(*testing.T) {
					x, err := newWorld(tcp)
					if err != nil {
						v = &viol{"harness:setup", err.Error()}
						if x != nil {
							x.teardown()
						}

						return
					}
					defer x.teardown()
					x.light = true
					closeIt := func() {
						if tcp {
							_ = x.tcp.Close()
						} else {
							_ = x.conn.Close()
						}
						synctest.Wait()
					}
					switch st {
					case "bound":
						for _, ev := range []string{"w:P1", "r:success", "r:success"} {
							x.apply(ev)
						}
					case "closed":
						closeIt()
					case "closed-twice":
						closeIt()
						closeIt()
					case "reallocated", "reallocated-old-closed-again":
						old := x.conn
						closeIt()
						done := false
						go func() {
							x.conn, x.allocErr = x.cl.Allocate()
							done = true
						}()
						synctest.Wait()
						if !done || x.allocErr != nil {
							v = &viol{"harness:second-allocate", fmt.Sprint(done, x.allocErr)}

							return
						}
						if st == "reallocated-old-closed-again" {
							_ = old.Close()
							synctest.Wait()
						}
					}
					if x.v != nil {
						v = &viol{"harness:state-setup:" + x.v.sig, x.v.detail}

						return
					}
					p1 := peerAddrs["P1"]
					msgs := map[string][]byte{
						"data-indication":                   dataInd(x.nextTx(), p1, []byte("payload")),
						"data-indication-empty-payload":     dataInd(x.nextTx(), p1, nil),
						"data-indication-without-data":      wire.New(wire.Data, wire.Indication, x.nextTx()).XorAddr(wire.AttrXORPeerAddress, p1.IP, p1.Port).Bytes(),
						"data-indication-without-peer":      wire.New(wire.Data, wire.Indication, x.nextTx()).Attr(wire.AttrData, []byte("payload")).Bytes(),
						"data-indication-bare":              wire.New(wire.Data, wire.Indication, x.nextTx()).Bytes(),
						"chandata-0x4000":                   wire.ChannelData(0x4000, []byte("payload"), false),
						"chandata-0x4000-empty":             wire.ChannelData(0x4000, nil, false),
						"chandata-0x4001":                   wire.ChannelData(0x4001, []byte("payload"), false),
						"chandata-0x7fff":                   wire.ChannelData(0x7FFF, []byte("payload"), false),
						"chandata-header-only-overlong":     {0x40, 0x00, 0xFF, 0xFF},
						"connection-attempt":                wire.New(wire.ConnectionAttempt, wire.Indication, x.nextTx()).XorAddr(wire.AttrXORPeerAddress, p1.IP, p1.Port).U32(wire.AttrConnectionID, 7).Bytes(),
						"connection-attempt-without-id":     wire.New(wire.ConnectionAttempt, wire.Indication, x.nextTx()).XorAddr(wire.AttrXORPeerAddress, p1.IP, p1.Port).Bytes(),
						"connection-attempt-without-peer":   wire.New(wire.ConnectionAttempt, wire.Indication, x.nextTx()).U32(wire.AttrConnectionID, 7).Bytes(),
						"refresh-success-to-no-transaction": wire.New(wire.Refresh, wire.Success, x.nextTx()).U32(wire.AttrLifetime, 600).Bytes(),
						"allocate-error-to-no-transaction":  wire.New(wire.Allocate, wire.Error, x.nextTx()).Bytes(),
						"send-indication-toward-a-client":   wire.New(wire.Send, wire.Indication, x.nextTx()).XorAddr(wire.AttrXORPeerAddress, p1.IP, p1.Port).Attr(wire.AttrData, []byte("x")).Bytes(),
						"allocate-request-toward-a-client":  wire.New(wire.Allocate, wire.Request, x.nextTx()).Bytes(),
					}
					names := make([]string, 0, len(msgs))
					for n := range msgs {
						names = append(names, n)
					}
					sortStrings(names)
					for _, n := range names {
						b := msgs[n]
						// whole, and every truncation of the longer ones at a 4-byte boundary and one byte off it
						cuts := []int{len(b)}
						for c := 1; c < len(b); c++ {
							if c%4 <= 1 {
								cuts = append(cuts, c)
							}
						}
						for _, c := range cuts {
							x.v = nil
							x.inbound(n, b[:c])
							r.Evaluations++
							if x.v != nil {
								what := "whole"
								if c < len(b) {
									what = "truncated"
								}
								r.Violate(rep.Violation{Oracle: "c09-client-states", Signature: fmt.Sprintf("client-state:%s:tcp=%v:%s:%s:%s", st, tcp, n, what, x.v.sig),
									Detail: fmt.Sprintf("state %s, message %s cut at %d of %d: %s", st, n, c, len(b), x.v.detail),
									Replay: map[string]any{"engine": "c09-client-states", "state": st, "tcp": tcp, "message": n, "cut": c}})

								return
							}
						}
						r.Class(fmt.Sprintf("client relayed socket %s tcp=%v <- %s -> read loop back at its socket", st, tcp, n))
					}
				})
			}()
			if fatal != "" {
				r.Violate(rep.Violation{Oracle: "fatal", Signature: "client-state:" + st + ":crash:" + firstLine(fatal), Detail: fatal,
					Replay: map[string]any{"engine": "c09-client-states", "state": st, "tcp": tcp}})
			}
			if v != nil {
				r.Violate(rep.Violation{Oracle: "harness", Signature: v.sig, Detail: st + ": " + v.detail})
			}
		}
	}
}

func sortStrings(s []string) {
	for i := 1; i < len(s); i++ {
		for j := i; j > 0 && s[j] < s[j-1]; j-- {
			s[j], s[j-1] = s[j-1], s[j]
		}
	}
}

func firstLine(s string) string {
	for i := 0; i < len(s); i++ {
		if s[i] == '\n' {
			return s[:i]
		}
	}

	return s
}

// TestC09ClientLifetimes (a part of C09): the LIFETIME of the Allocate success
// response is a value the server chooses; the client derives its refresh
// cadence from it. For every boundary value {0, 1, 2, 3, 600, 2^32-1} and both
// kinds of allocation the client reaches quiescence (no spin at one instant),
// sends at most 25 requests in the following 10 s of virtual time, and its
// read loop still answers.
func TestC09ClientLifetimes(t *testing.T) {
	r := rep.New("C09")
	defer r.Write()
	if i, _ := rep.Shard(); i != 0 {
		return
	}
	for _, tcp := range []bool{false, true} {
		for _, lt := range []uint32{0, 1, 2, 3, 600, 0xFFFFFFFF} {
			c := map[string]any{"engine": "c09-client-lifetimes", "tcp": tcp, "lifetime": lt}
			rep.Current(c)
			stop := r.Guard(30*time.Second, fmt.Sprintf("client-spins-after-allocate-success-with-lifetime=%d:tcp=%v", lt, tcp), func() any { return c })
			var fatal string
			func() {
				defer func() {
					if e := recover(); e != nil {
						fatal = fmt.Sprint(e)
					}
				}()
				synctest.Test(t, func(*testing.T) {
					x, err := newWorldLT(tcp, lt)
					if err != nil {
						r.Violate(rep.Violation{Oracle: "harness", Signature: "harness:setup", Detail: err.Error(), Replay: c})
						if x != nil {
							x.teardown()
						}

						return
					}
					defer x.teardown()
					x.light = true
					x.mu.Lock()
					n0 := len(x.log)
					x.mu.Unlock()
					time.Sleep(10 * time.Second)
					synctest.Wait()
					x.mu.Lock()
					n := len(x.log) - n0
					x.mu.Unlock()
					r.Evaluations++
					if n > 25 {
						r.Violate(rep.Violation{Oracle: "c09-client-lifetimes", Signature: fmt.Sprintf("client-floods-after-allocate-success-with-lifetime=%d:tcp=%v", lt, tcp),
							Detail: fmt.Sprintf("%d datagrams sent to the server within 10 s of virtual time", n), Replay: c})
					}
					x.v = nil
					x.inbound("probe-after-lifetime", x.probe())
					if x.v != nil {
						r.Violate(rep.Violation{Oracle: "c09-client-lifetimes", Signature: fmt.Sprintf("client-lifetime=%d:tcp=%v:%s", lt, tcp, x.v.sig), Detail: x.v.detail, Replay: c})
					}
					r.Class(fmt.Sprintf("allocate success with LIFETIME=%d tcp=%v -> %d requests in the next 10 s", lt, tcp, n))
				})
			}()
			stop()
			if fatal != "" {
				r.Violate(rep.Violation{Oracle: "fatal", Signature: fmt.Sprintf("client-lifetime=%d:tcp=%v:crash:%s", lt, tcp, firstLine(fatal)), Detail: fatal, Replay: c})
			}
		}
	}
}
