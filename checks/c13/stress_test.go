package c13

import (
	"fmt"
	"net"
	"strings"
	"testing"
	"testing/synctest"
	"time"

	"github.com/pion/turn/v5/verif/rep"
	"github.com/pion/turn/v5/verif/wire"
)

// scenario is one fixed (non-enumerated) stress run; it returns how many
// events it executed.
type scenario struct {
	name string
	tcp  bool
	run  func(x *exec, note func(string)) int64
}

// collect starts a reader that reads until an error and returns a function
// that (after quiescence) gives what it got so far.
type collected struct {
	x   *exec
	res []rres
}

func (x *exec) collector() *collected {
	c := &collected{x: x}
	go func() {
		buf := make([]byte, 4096)
		for {
			n, from, err := x.conn.ReadFrom(buf)
			r := rres{err: err, at: time.Now()}
			if err == nil {
				r.data = string(buf[:n])
				if from != nil {
					r.from = from.String()
				}
				scribble(from)
			}
			x.mu.Lock()
			c.res = append(c.res, r)
			x.mu.Unlock()
			if err != nil {
				return
			}
		}
	}()

	return c
}

func (c *collected) snapshot() []rres {
	c.x.mu.Lock()
	defer c.x.mu.Unlock()

	return append([]rres(nil), c.res...)
}

// judgeSubsequence: (4) what ReadFrom returned must be the relayed payloads in
// order with their peer addresses; a full queue may drop, nothing may be
// altered, reordered or invented. prefixOnly: with no reader at all during
// the burst the survivors must be the first k.
func (x *exec) judgeSubsequence(what string, injected []qent, got []rres, prefixOnly bool) int {
	j := 0
	k := 0
	for _, g := range got {
		if g.err != nil {
			continue
		}
		k++
		found := false
		for j < len(injected) {
			if injected[j].data == g.data {
				found = true

				break
			}
			j++
		}
		if !found {
			x.fail("burst:"+what+":altered-reordered-or-invented", "ReadFrom returned %q which is not the next relayed payload in order", g.data)

			return k
		}
		if injected[j].from != g.from {
			x.fail("burst:"+what+":wrong-peer-address", "%q relayed from %s, ReadFrom says %s", g.data, injected[j].from, g.from)

			return k
		}
		if prefixOnly && j != k-1 {
			x.fail("burst:"+what+":dropped-while-queue-had-room", "payload #%d delivered as #%d although nobody was reading", j, k-1)

			return k
		}
		j++
	}
	if k == 0 && len(injected) > 0 {
		x.fail("burst:"+what+":nothing-delivered", "%d payloads relayed, ReadFrom returned none", len(injected))
	}

	return k
}

// freshTransaction: after a burst a new transaction (WriteTo to a new peer
// -> CreatePermission answered success at once) must still complete.
func (x *exec) freshTransaction(what, peer string) {
	if x.v != nil {
		return
	}
	x.apply("w:" + peer)
	if x.v != nil || len(x.pending()) == 0 {
		x.fail("burst:"+what+":no-createpermission-after-burst", "WriteTo(%s) produced no request", peer)

		return
	}
	x.apply("r:success")
	if x.v != nil {
		return
	}
	w := x.writers[len(x.writers)-1]
	if !x.writerDone(w) || w.err != nil {
		x.fail("inbound-blocked:"+what+":fresh-transaction-does-not-complete", "WriteTo(%s) done=%v err=%v after the burst although CreatePermission was answered at once", peer, w.done, w.err)
	}
	for len(x.pending()) > 0 && x.v == nil { // the background ChannelBind
		x.apply("r:success")
	}
}

func burst(kind string, total, readEvery int) func(x *exec, note func(string)) int64 {
	return func(x *exec, note func(string)) int64 {
		x.light = true
		for _, ev := range []string{"w:P1", "r:success", "r:success"} {
			x.apply(ev)
		}
		if x.v != nil {
			return x.steps
		}
		n, who, _ := x.lowestConfirmed()
		var col *collected
		var injected []qent
		reads := 0
		for i := 0; i < total && x.v == nil; i++ {
			payload := fmt.Sprintf("b%05d", i)
			switch kind {
			case "data":
				injected = append(injected, qent{payload, peerAddrs["P1"].String()})
				x.inbound("burst-data-indication", dataInd(x.nextTx(), peerAddrs["P1"], []byte(payload)))
			case "chandata":
				injected = append(injected, qent{payload, who})
				x.inbound("burst-chandata", wire.ChannelData(n, []byte(payload), true))
			}
			x.steps++
			if readEvery > 0 && i%readEvery == readEvery-1 {
				// slow reader: one ReadFrom per readEvery inbound datagrams
				if col == nil {
					col = &collected{x: x}
				}
				buf := make([]byte, 4096)
				done := false
				go func() {
					nn, from, err := x.conn.ReadFrom(buf)
					x.mu.Lock()
					r := rres{err: err}
					if err == nil {
						r.data, r.from = string(buf[:nn]), from.String()
						scribble(from)
					}
					col.res = append(col.res, r)
					done = true
					x.mu.Unlock()
				}()
				synctest.Wait()
				x.mu.Lock()
				d := done
				x.mu.Unlock()
				if !d {
					x.fail("read:blocked-with-payload-relayed", "slow reader blocked although %d payloads were relayed and %d read", i+1, reads)
				}
				reads++
				x.steps++
			}
		}
		what := kind + "-no-reader"
		if readEvery > 0 {
			what = kind + "-slow-reader"
		}
		x.freshTransaction(what, "P2")
		if x.v != nil {
			return x.steps
		}
		var got []rres
		if col != nil {
			got = col.snapshot()
		}
		rest := x.collector()
		synctest.Wait()
		got = append(got, rest.snapshot()...)
		k := x.judgeSubsequence(what, injected, got, readEvery == 0)
		note(fmt.Sprintf("burst:%s relayed=%d delivered=%d", what, total, k))
		_ = x.conn.Close() // releases the collector
		synctest.Wait()

		return x.steps
	}
}

func connAttemptBurst(x *exec, note func(string)) int64 {
	x.light = true
	peer := &net.UDPAddr{IP: net.IPv4(10, 1, 0, 1).To4(), Port: 6000}
	// control: a transaction completes before the burst
	type call struct {
		done bool
		err  error
	}
	ctl := func(tag string) (bool, error) {
		c := &call{}
		go func() {
			e := x.cl.CreatePermission(&net.TCPAddr{IP: peer.IP, Port: peer.Port})
			x.mu.Lock()
			c.done, c.err = true, e
			x.mu.Unlock()
		}()
		synctest.Wait()
		x.process()
		if p := x.pending(); len(p) > 0 {
			x.react(p[0], "success") // answered at once
			x.process()
		}
		x.steps += 2
		x.mu.Lock()
		d, e := c.done, c.err
		x.mu.Unlock()
		if !d {
			// let the retransmission schedule run out: the call must at least fail
			time.Sleep(txLife() + time.Second)
			synctest.Wait()
			x.process()
			x.expire(time.Now())
			x.mu.Lock()
			d2, e2 := c.done, c.err
			x.mu.Unlock()
			note(fmt.Sprintf("connattempt:%s createpermission answered-at-once: returned only after the retransmission schedule ran out=%v with error=%v", tag, d2, e2 != nil))

			return false, e2
		}

		return d, e
	}
	if d, e := ctl("before-burst"); !d || e != nil {
		x.v = nil
		x.fail("harness:control-transaction-failed", "before the burst: done=%v err=%v", d, e)

		return x.steps
	}
	wedgedAt := 0
	for i := 1; i <= 12; i++ {
		b := wire.New(wire.ConnectionAttempt, wire.Indication, x.nextTx()).
			XorAddr(wire.AttrXORPeerAddress, peer.IP, peer.Port+i).U32(wire.AttrConnectionID, uint32(1000+i)).Bytes() //nolint:gosec
		x.inbound(fmt.Sprintf("connection-attempt#%d", i), b)
		x.steps++
		if x.v != nil {
			wedgedAt = i

			break
		}
	}
	if wedgedAt == 0 {
		note("connattempt: 12 un-accepted ConnectionAttempt indications consumed, read loop alive")
		if d, e := ctl("after-burst"); !d || e != nil {
			x.fail("inbound-blocked:connection-attempt-queue-full", "12 ConnectionAttempts consumed but a fresh transaction fails: done=%v err=%v", d, e)
		}

		return x.steps
	}
	first := x.v
	x.v = nil
	d, e := ctl("after-burst")
	x.v = nil
	state := "blocked"
	if strings.HasPrefix(first.sig, "inbound-loop-exited") {
		state = "loop-exited"
	}
	x.fail("inbound-"+state+":connection-attempt-queue-full",
		"ConnectionAttempt indication #%d with nobody in Accept: %s; afterwards CreatePermission answered success at once: returned-immediately=%v err=%v",
		wedgedAt, first.detail, d, e)
	// release the read loop so that the bubble can end: pop one queued attempt
	_ = x.csock.Close()
	_, _ = x.tcp.AcceptTCPWithConn(nil)
	synctest.Wait()

	return x.steps
}

func exhaustion(total int) func(x *exec, note func(string)) int64 {
	return func(x *exec, note func(string)) int64 {
		x.light = true
		seen := map[uint16]string{}
		for i := 0; i < total && x.v == nil; i++ {
			name := fmt.Sprintf("X%05d", i)
			x.extra[name] = &net.UDPAddr{IP: net.IPv4(10, 2, byte(i%64), 1).To4(), Port: 10000 + i/64}
			x.apply("w:" + name)
			for len(x.pending()) > 0 && x.v == nil {
				x.apply("r:success")
			}
			if x.v != nil {
				if i >= 16384 && (x.v.sig == "channel-number:shared-by-two-peers" || x.v.sig == "channel-number:out-of-range") {
					// The property quantifies over "any set of up to 16384 peers": what happens to peer
					// #16385 is outside it, so this is recorded as an observation, not a violation
					// (the client wraps around and re-uses 0x4000; see DESIGN.md, false alarms corrected).
					note(fmt.Sprintf("exhaustion (outside the property's quantifier): peer #%d (%s): %s", i+1, x.extra[name], x.v.detail))
					x.v = nil
				}

				break
			}
			w := x.writers[len(x.writers)-1]
			b := x.m.bind[x.extra[name].String()]
			switch {
			case !w.done || w.err != nil:
				if i >= 16384 {
					note(fmt.Sprintf("exhaustion: WriteTo to peer #%d returned error=%v (acceptable: exhaustion is an error)", i+1, w.err))
				} else {
					x.fail("channel-exhaustion:writeto-failed-before-exhaustion", "WriteTo to peer #%d: done=%v err=%v", i+1, w.done, w.err)
				}
			case b == nil:
				if i < 16384 {
					x.fail("channel-number:no-channelbind-for-peer", "peer #%d got no ChannelBind", i+1)
				} else {
					note(fmt.Sprintf("exhaustion: peer #%d gets no channel (Send indications only)", i+1))
				}
			default:
				if o, dup := seen[b.n]; dup {
					x.fail("channel-number:shared-by-two-peers", "%#x given to %s and %s", b.n, o, name)
				}
				seen[b.n] = name
			}
			// drop finished writers: keeps checkApp linear
			x.writers = x.writers[:0]
		}
		lo, hi := uint16(0xFFFF), uint16(0)
		for n := range seen {
			if n < lo {
				lo = n
			}
			if n > hi {
				hi = n
			}
		}
		note(fmt.Sprintf("exhaustion: %d peers got %d distinct channel numbers in [%#x,%#x]", len(seen), len(seen), lo, hi))

		return x.steps
	}
}

// cookiePayload: one relayed payload of the given length, optionally starting
// with the STUN magic cookie, arrives as ChannelData on a confirmed channel
// (kind "chan": padded to 4 bytes as pion's server does, "chan-unpadded": bare)
// or in a Data indication (kind "data"); ReadFrom must return it.
func cookiePayload(kind string, l int, withCookie bool) func(x *exec, note func(string)) int64 {
	return func(x *exec, note func(string)) int64 {
		for _, ev := range []string{"w:P1", "r:success", "r:success", "read"} {
			x.apply(ev)
		}
		if x.v != nil {
			return x.steps
		}
		n, who, _ := x.lowestConfirmed()
		payload := make([]byte, l)
		for i := range payload {
			payload[i] = byte('a' + i%26)
		}
		if withCookie {
			copy(payload, cookie)
		}
		x.tokens = map[string]bool{}
		switch kind {
		case "chan", "chan-unpadded":
			x.m.queue = append(x.m.queue, qent{string(payload), who})
			x.inbound("chandata-bound-channel", wire.ChannelData(n, payload, kind == "chan"))
		case "data":
			x.m.queue = append(x.m.queue, qent{string(payload), peerAddrs["P1"].String()})
			x.inbound("data-indication", dataInd(x.nextTx(), peerAddrs["P1"], payload))
		}
		x.steps++
		first := x.v
		x.v = nil
		x.process()
		x.checkApp()
		delivered := len(x.m.queue) == 0
		switch {
		case withCookie && (first != nil || !delivered):
			d := ""
			if first != nil {
				d = first.sig + ": " + first.detail
			} else if x.v != nil {
				d = x.v.detail
			}
			x.v = nil
			sig := "inbound-chandata-misclassified-as-stun"
			if kind == "data" {
				sig = "inbound-data-indication-cookie-payload-lost"
			}
			x.fail(sig, "%s payload of %d bytes beginning 21 12 A4 42 relayed from %s: delivered=%v; %s", kind, l, who, delivered, d)
		case first != nil:
			x.v = first
		}
		note(fmt.Sprintf("payload:%s len=%s cookie=%v delivered=%v loop-alive=%v", kind, lenClass(l), withCookie, delivered, first == nil))

		return x.steps
	}
}

func lenClass(l int) string {
	switch {
	case l < 4:
		return "<4"
	case l < 16:
		return "4..15"
	}

	return ">=16"
}

func scenarios() []scenario {
	sc := []scenario{
		{name: "burst-1100-data-indications-no-reader", run: burst("data", 1100, 0)},
		{name: "burst-1100-chandata-no-reader", run: burst("chandata", 1100, 0)},
		{name: "burst-3000-data-indications-slow-reader", run: burst("data", 3000, 3)},
		{name: "burst-12-connection-attempts-nobody-accepts", tcp: true, run: connAttemptBurst},
		{name: "channel-numbers-16385-peers", run: exhaustion(16385)},
	}
	maxLen := 24
	if rep.Thorough() {
		maxLen = 64
	}
	for _, kind := range []string{"chan", "chan-unpadded", "data"} {
		for l := 0; l <= maxLen; l++ {
			sc = append(sc, scenario{name: fmt.Sprintf("payload-%s-len%d-plain", kind, l), run: cookiePayload(kind, l, false)})
			if l >= 4 {
				sc = append(sc, scenario{name: fmt.Sprintf("payload-%s-len%d-cookie", kind, l), run: cookiePayload(kind, l, true)})
			}
		}
	}

	return sc
}

func TestC13Stress(t *testing.T) {
	r := rep.New("C13")
	defer r.Write()
	shard, n := rep.Shard()
	for idx, sc := range scenarios() {
		if idx%n != shard {
			continue
		}
		if r.OverBudget("c13 stress") {
			break
		}
		rep.Current(map[string]any{"scenario": sc.name})
		var v *viol
		var steps int64
		var fatal string
		var notes []string
		func() {
			defer func() {
				if e := recover(); e != nil {
					fatal = fmt.Sprint(e)
				}
			}()
			synctest.Test(t, func(*testing.T) {
				x, err := newWorld(sc.tcp)
				if err != nil {
					v = &viol{"harness:setup", err.Error()}
					if x != nil {
						x.teardown()
					}

					return
				}
				steps = sc.run(x, func(s string) { notes = append(notes, s) })
				v = x.v
				x.teardown()
			})
		}()
		if fatal != "" && v == nil {
			sig := "fatal:" + fatal
			if strings.Contains(fatal, "blocked goroutines remain") {
				sig = "fatal:goroutine-leak-after-teardown"
			}
			v = &viol{sig, fatal}
		}
		r.Evaluations++
		r.Transitions += steps
		for _, s := range notes {
			r.Class(s)
		}
		r.State(sc.name)
		if v != nil {
			r.Violate(rep.Violation{Oracle: "c13-stress", Signature: v.sig, Detail: v.detail,
				Replay: map[string]any{"engine": "c13-stress", "scenario": sc.name}})
			r.Class("scenario:" + classOf(sc.name) + " => violation:" + v.sig)
		} else {
			r.Class("scenario:" + classOf(sc.name) + " => ok")
		}
		if len(notes) > 0 && idx < 5 {
			r.Sample(map[string]any{"scenario": sc.name, "observations": notes})
		}
	}
}

func classOf(name string) string {
	if i := strings.Index(name, "-len"); i > 0 {
		j := strings.LastIndex(name, "-")

		return name[:i] + name[j:]
	}

	return name
}
