// Package c13 checks property C13 — "the client's relayed socket honours the
// PacketConn contract over TURN" — by explicit-state search over operation
// histories of the REAL turn.Client / UDPConn against a scripted TURN server
// (played by the harness) in virtual time, with a reference model written from
// the property text compared after every event.
package c13

import (
	"errors"
	"fmt"
	"net"
	"sort"
	"strings"
	"sync"
	"testing/synctest"
	"time"

	turn "github.com/pion/turn/v5"
	"github.com/pion/turn/v5/internal/client"
	"github.com/pion/turn/v5/verif/simnet"
	"github.com/pion/turn/v5/verif/vtx"
	"github.com/pion/turn/v5/verif/wire"
)

// ---------------------------------------------------------------- constants

const (
	realm = "pion.ly"
	// The client's retransmission schedule (client.go / transaction.go): RTO
	// 200 ms doubling up to 1.6 s, the 7th timer expiry fails the transaction.
	rto         = 200 * time.Millisecond
	maxRtxIvl   = 1600 * time.Millisecond
	maxRtxCount = 7
	maxWriters  = 3
	// readsAfterClose: a ReadFrom issued after Close with payloads still queued
	// picks between the queue and the closed channel at random (Go select); the
	// harness repeats the call so that the verdict does not depend on the coin
	// (probability of missing the data branch 2^-40).
	readsAfterClose = 40
)

// txLife is the time after which an unanswered transaction has failed.
func txLife() time.Duration {
	ivl, total := rto, time.Duration(0)
	for range maxRtxCount {
		total += ivl
		ivl *= 2
		if ivl > maxRtxIvl {
			ivl = maxRtxIvl
		}
	}

	return total // 7.8 s
}

var (
	srvAddr   = &net.UDPAddr{IP: net.IPv4(10, 0, 0, 1).To4(), Port: 3478}
	cliAddr   = &net.UDPAddr{IP: net.IPv4(10, 0, 0, 2).To4(), Port: 4000}
	relayAddr = &net.UDPAddr{IP: net.IPv4(10, 9, 0, 1).To4(), Port: 50000}
	peerAddrs = map[string]*net.UDPAddr{
		"P1":  {IP: net.IPv4(10, 1, 0, 1).To4(), Port: 5000},
		"P1b": {IP: net.IPv4(10, 1, 0, 1).To4(), Port: 5001}, // same IP as P1, other port
		"P2":  {IP: net.IPv4(10, 1, 0, 2).To4(), Port: 5000},
		"P9":  {IP: net.IPv4(10, 1, 0, 9).To4(), Port: 5999}, // never written to: unknown peer
	}
	cookie = []byte{0x21, 0x12, 0xA4, 0x42}
)

const unboundChan = 0x4ABC

// ---------------------------------------------------------------- records

// rec is one datagram the client sent to the scripted server.
type rec struct {
	at time.Time
	rx vtx.Rx
}

// preq is one request transaction the scripted server has seen.
type preq struct {
	tx      [12]byte
	method  uint16
	ips     []string // CreatePermission: peer IPs
	peer    string   // ChannelBind: peer address
	n       uint16   // ChannelBind: channel number
	at      time.Time
	sends   int
	dropped bool // reaction "silence": never answered, still outstanding at the client
}

func (p *preq) label() string {
	if p.method == wire.ChannelBind {
		return fmt.Sprintf("ChannelBind(%#x,%s)", p.n, p.peer)
	}

	return fmt.Sprintf("CreatePermission(%s)", strings.Join(p.ips, ","))
}

func (p *preq) sortKey() string {
	return fmt.Sprintf("%020d/%d/%s/%s/%05d", p.at.UnixNano(), p.method, strings.Join(p.ips, ","), p.peer, p.n)
}

type wcall struct {
	id            int
	peer          string
	addr          *net.UDPAddr
	payload       string
	startedClosed bool
	done          bool
	n             int
	err           error
	emitted       int
	checked       bool
}

type rcall struct {
	startedAt      time.Time
	startedExpired bool
	startedClosed  bool
	many           int // >1: repeated reads after Close
	done           bool
	res            []rres
}

type rres struct {
	data string
	from string
	err  error
	at   time.Time
}

type qent struct{ data, from string }

// ---------------------------------------------------------------- model

type mbind struct {
	n         uint16
	confirmed bool
}

// model is the reference state, written from the property text.
type model struct {
	granted   map[string]bool   // peer IP -> a CreatePermission success covering it was delivered
	bind      map[string]*mbind // peer addr -> channel number asked for / confirmed
	owner     map[uint16]string // channel number -> peer addr it was requested for
	appClosed bool
	dealloc   bool // the client announced deallocation (Refresh LIFETIME=0) on the wire
	deadline  time.Time
	dlFrom    time.Time // instant from which the deadline condition holds
	queue     []qent    // payloads the server relayed and ReadFrom has not returned yet
	nonce     string
	consec438 map[string]int
}

func (m *model) closed() bool { return m.appClosed || m.dealloc }

func (m *model) expired(now time.Time) bool {
	return !m.deadline.IsZero() && !now.Before(m.dlFrom)
}

type viol struct{ sig, detail string }

// ---------------------------------------------------------------- exec

type exec struct {
	net   *simnet.Net
	srv   *simnet.UDPSock
	csock *simnet.UDPSock
	cl    *turn.Client
	conn  net.PacketConn
	tcp   *client.TCPAllocation

	mu      sync.Mutex
	log     []rec
	cur     int
	srvDone chan struct{}

	m        *model
	out      []*preq // outstanding transactions, oldest first
	seenTx   map[[12]byte]*preq
	writes   map[string]*wcall
	writers  []*wcall
	reader   *rcall
	nw, ni   int
	nonceSeq int
	txc      int
	tokens   map[string]bool // outcome tokens of the current step
	trace    []string
	events   []string
	v        *viol
	classes  map[string]int64
	states   []string
	steps    int64
	allocErr error
	selfCloseSeen bool
	extra    map[string]*net.UDPAddr
	// old is the first relayed socket after the application has closed it and allocated again on the same client;
	// oldAgain: it has been closed a second time since (a deferred Close, or the library's own late clean-up)
	old      net.PacketConn
	oldAgain bool
	oldNum   uint16 // a channel number the first socket had confirmed (0: none)
	// allocLT: the LIFETIME the scripted server grants in its Allocate success response (0 = the usual 3600 s)
	allocLT    uint32
	allocLTSet bool
	scratch    *net.UDPAddr // the one address object the application re-uses for its writes
	light    bool // long runs: no per-step trace/state bookkeeping
}

func (x *exec) fail(sig, f string, a ...any) {
	if x.v == nil {
		x.v = &viol{sig, fmt.Sprintf(f, a...)}
	}
}

func (x *exec) tok(s string) { x.tokens[s] = true }

func errCode(code int, reason string) []byte {
	return append([]byte{0, 0, byte(code / 100), byte(code % 100)}, reason...)
}

// serve is the scripted server's receive loop: it timestamps every datagram
// (virtual clock) and answers what is not part of the enumerated menu
// (Allocate during setup, Refresh).
func (x *exec) serve() {
	defer close(x.srvDone)
	buf := make([]byte, 4096)
	for {
		n, from, err := x.srv.ReadFrom(buf)
		if err != nil {
			return
		}
		b := append([]byte(nil), buf[:n]...)
		fa, _ := from.(*net.UDPAddr)
		rx := vtx.Decode(b, fa)
		x.mu.Lock()
		x.log = append(x.log, rec{at: time.Now(), rx: rx})
		x.mu.Unlock()
		m := rx.Msg
		if m == nil || m.Class != wire.Request {
			continue
		}
		switch m.Method {
		case wire.Allocate:
			if _, ok := m.Get(wire.AttrNonce); !ok {
				x.send(wire.New(wire.Allocate, wire.Error, m.TxID).Attr(wire.AttrErrorCode, errCode(401, "Unauthorized")).
					Str(wire.AttrRealm, realm).Str(wire.AttrNonce, "nonce-0").Bytes())

				continue
			}
			x.send(wire.New(wire.Allocate, wire.Success, m.TxID).
				XorAddr(wire.AttrXORRelayedAddress, relayAddr.IP, relayAddr.Port).
				XorAddr(wire.AttrXORMappedAddress, cliAddr.IP, cliAddr.Port).
				U32(wire.AttrLifetime, x.grantedLifetime()).Bytes())
		case wire.Refresh:
			lt, _ := m.U32(wire.AttrLifetime)
			x.send(wire.New(wire.Refresh, wire.Success, m.TxID).U32(wire.AttrLifetime, lt).Bytes())
		}
	}
}

func (x *exec) send(b []byte) { _, _ = x.srv.WriteTo(b, cliAddr) }

// newWorld builds network, scripted server and the real client with an
// allocation. Must run inside a synctest bubble.
func (x *exec) grantedLifetime() uint32 {
	if x.allocLTSet {
		return x.allocLT
	}

	return 3600
}

func newWorld(tcp bool) (*exec, error) { return newWorldLT(tcp, 3600) }

// newWorldLT: the scripted server answers the Allocate with the given LIFETIME.
func newWorldLT(tcp bool, lifetime uint32) (*exec, error) {
	x := &exec{allocLT: lifetime, allocLTSet: true,net: simnet.New(), srvDone: make(chan struct{}), seenTx: map[[12]byte]*preq{}, writes: map[string]*wcall{},
		tokens: map[string]bool{}, classes: map[string]int64{}, extra: map[string]*net.UDPAddr{},
		m: &model{granted: map[string]bool{}, bind: map[string]*mbind{}, owner: map[uint16]string{}, nonce: "nonce-0", consec438: map[string]int{}}}
	x.net.LogOff = true
	var err error
	if x.srv, err = x.net.ListenUDP("udp4", srvAddr); err != nil {
		return nil, err
	}
	if x.csock, err = x.net.ListenUDP("udp4", cliAddr); err != nil {
		return nil, err
	}
	go x.serve()
	x.cl, err = turn.NewClient(&turn.ClientConfig{
		TURNServerAddr: srvAddr.String(), Username: "u1", Password: "p1", Realm: realm,
		Conn: x.csock, Net: x.net.Transport(), LoggerFactory: vtx.QuietFactory{},
	})
	if err != nil {
		return nil, err
	}
	if err = x.cl.Listen(); err != nil {
		return nil, err
	}
	done := false
	go func() {
		if tcp {
			x.tcp, x.allocErr = x.cl.AllocateTCP()
		} else {
			x.conn, x.allocErr = x.cl.Allocate()
		}
		x.mu.Lock()
		done = true
		x.mu.Unlock()
	}()
	synctest.Wait()
	x.mu.Lock()
	d := done
	x.cur = len(x.log)
	x.mu.Unlock()
	if !d {
		return x, errors.New("Allocate did not return")
	}
	if x.allocErr != nil {
		return x, x.allocErr
	}

	return x, nil
}

// teardown releases every goroutine of the bubble.
func (x *exec) teardown() {
	if x.conn != nil {
		_ = x.conn.Close()
	}
	if x.tcp != nil {
		_ = x.tcp.Close()
	}
	_ = x.csock.Close()
	for range 8 {
		x.cl.Close()
		synctest.Wait()
		busy := x.reader != nil && !x.readerDone()
		for _, w := range x.writers {
			if !x.writerDone(w) {
				busy = true
			}
		}
		if !busy {
			break
		}
	}
	_ = x.srv.Close()
	synctest.Wait()
}

func (x *exec) writerDone(w *wcall) bool {
	x.mu.Lock()
	defer x.mu.Unlock()

	return w.done
}

func (x *exec) readerDone() bool {
	x.mu.Lock()
	defer x.mu.Unlock()

	return x.reader.done
}

// ---------------------------------------------------------------- derived model state

func (x *exec) outstandingPerm(ip string) bool {
	for _, p := range x.out {
		if p.method == wire.CreatePermission {
			for _, q := range p.ips {
				if q == ip {
					return true
				}
			}
		}
	}

	return false
}

func (x *exec) outstandingBind(peer string) bool {
	for _, p := range x.out {
		if p.method == wire.ChannelBind && p.peer == peer {
			return true
		}
	}

	return false
}

func (x *exec) permState(ip string) string {
	switch {
	case x.m.granted[ip]:
		return "granted"
	case x.outstandingPerm(ip):
		return "requested"
	}

	return "none"
}

func (x *exec) bindState(peer string) string {
	b := x.m.bind[peer]
	switch {
	case b != nil && b.confirmed:
		return "confirmed"
	case x.outstandingBind(peer):
		return "requested"
	}

	return "none"
}

func (x *exec) pending() []*preq {
	var out []*preq
	for _, p := range x.out {
		if !p.dropped {
			out = append(out, p)
		}
	}

	return out
}

func (x *exec) pendingWriters() int {
	n := 0
	for _, w := range x.writers {
		if !w.checked {
			n++
		}
	}

	return n
}

func (x *exec) writerBlockedOn(ip string) bool {
	for _, w := range x.writers {
		if !w.checked && w.addr.IP.String() == ip {
			return true
		}
	}

	return false
}

// pendingBind: the oldest ChannelBind the client has sent and not yet had answered, for a number it has never
// seen confirmed (a first bind, not a refresh).
func (x *exec) pendingBind() *preq {
	for _, p := range x.out {
		if p.method == wire.ChannelBind {
			if b := x.m.bind[p.peer]; b != nil && b.n == p.n && !b.confirmed {
				return p
			}
		}
	}

	return nil
}

func (x *exec) lowestConfirmed() (uint16, string, bool) {
	best, who, ok := uint16(0), "", false
	for a, b := range x.m.bind {
		if b.confirmed && (!ok || b.n < best) {
			best, who, ok = b.n, a, true
		}
	}

	return best, who, ok
}

// key is the canonical reference-model state (no absolute times, channel
// numbers relative to 0x4000).
func (x *exec) key(now time.Time) string {
	var sb strings.Builder
	ips := map[string]bool{}
	for _, a := range peerAddrs {
		ips[a.IP.String()] = true
	}
	var ipl []string
	for ip := range ips {
		ipl = append(ipl, ip)
	}
	sort.Strings(ipl)
	for _, ip := range ipl {
		sb.WriteString(x.permState(ip)[:1])
	}
	sb.WriteByte('|')
	var names []string
	for n := range peerAddrs {
		names = append(names, n)
	}
	sort.Strings(names)
	for _, n := range names {
		a := peerAddrs[n].String()
		if b := x.m.bind[a]; b != nil {
			fmt.Fprintf(&sb, "%s=%d%s,", n, int(b.n)-0x4000, x.bindState(a)[:1])
		}
	}
	dl := "none"
	if !x.m.deadline.IsZero() {
		dl = "future"
		if x.m.expired(now) {
			dl = "expired"
		}
	}
	fmt.Fprintf(&sb, "|app=%v,dealloc=%v|dl=%s|q=%d|rd=%v|w=%d|", x.m.appClosed, x.m.dealloc, dl, len(x.m.queue), x.reader != nil, x.pendingWriters())
	for _, p := range x.out {
		if p.method == wire.ChannelBind {
			fmt.Fprintf(&sb, "B%d", int(p.n)-0x4000)
		} else {
			fmt.Fprintf(&sb, "P%d", len(p.ips))
		}
		if p.dropped {
			sb.WriteByte('x')
		}
	}
	fmt.Fprintf(&sb, "|s438=%d|re=%v,%v", len(x.m.consec438), x.old != nil, x.oldAgain)

	return sb.String()
}

// ---------------------------------------------------------------- wire oracle

func peerIPs(m *wire.Msg) (ips []string, addrs []string) {
	for _, a := range m.Attrs {
		if a.Type == wire.AttrXORPeerAddress {
			if u, ok := wire.DecodeXorAddr(a.Value, m.TxID); ok {
				ips = append(ips, u.IP.String())
				addrs = append(addrs, u.String())
			}
		}
	}
	sort.Strings(ips)

	return ips, addrs
}

// process consumes the new part of the ordered wire log.
func (x *exec) process() {
	x.mu.Lock()
	recs := append([]rec(nil), x.log[x.cur:]...)
	x.cur = len(x.log)
	x.mu.Unlock()
	life := txLife()
	for _, r := range recs {
		rx := r.rx
		switch {
		case rx.Bad != "":
			x.fail("emit:undecodable-datagram", "client sent %x (%s)", rx.Raw, rx.Bad)
		case rx.Msg == nil:
			x.tok("tx:ChannelData")
			x.emitted("ChannelData", rx.Chan, "", string(rx.Data))
		case rx.Msg.Class == wire.Indication && rx.Msg.Method == wire.Send:
			x.tok("tx:Send")
			pa, ok := rx.Msg.XorAddr(wire.AttrXORPeerAddress)
			d, ok2 := rx.Msg.Get(wire.AttrData)
			if !ok || !ok2 {
				x.fail("emit:send-indication-malformed", "XOR-PEER-ADDRESS present=%v DATA present=%v", ok, ok2)

				continue
			}
			x.emitted("Send", 0, pa.String(), string(d))
		case rx.Msg.Class == wire.Request:
			x.request(r, life)
		default:
			x.tok("tx:other")
		}
	}
	sort.SliceStable(x.out, func(i, j int) bool { return x.out[i].sortKey() < x.out[j].sortKey() })
}

func (x *exec) request(r rec, life time.Duration) {
	m := r.rx.Msg
	if p, ok := x.seenTx[m.TxID]; ok {
		p.sends++
		x.tok("tx:rtx")
		if !r.at.Before(p.at.Add(life)) {
			x.fail("harness:retransmission-after-computed-expiry", "%s first seen %v, retransmitted %v later", p.label(), p.at, r.at.Sub(p.at))
		}

		return
	}
	switch m.Method {
	case wire.CreatePermission:
		ips, _ := peerIPs(m)
		p := &preq{tx: m.TxID, method: m.Method, ips: ips, at: r.at, sends: 1}
		x.seenTx[m.TxID] = p
		x.out = append(x.out, p)
		x.tok("tx:CreatePermission")
		x.checkNonce(m, p)
	case wire.ChannelBind:
		pa, ok := m.XorAddr(wire.AttrXORPeerAddress)
		cn, ok2 := m.U32(wire.AttrChannelNumber)
		if !ok || !ok2 {
			x.fail("emit:channelbind-malformed", "XOR-PEER-ADDRESS present=%v CHANNEL-NUMBER present=%v", ok, ok2)

			return
		}
		n := uint16(cn >> 16)
		peer := pa.String()
		p := &preq{tx: m.TxID, method: m.Method, peer: peer, n: n, at: r.at, sends: 1}
		x.seenTx[m.TxID] = p
		x.out = append(x.out, p)
		x.tok("tx:ChannelBind")
		x.checkNonce(m, p)
		// (3) numbers in range and one number per peer address
		if n < 0x4000 || n > 0x7FFF {
			x.fail("channel-number:out-of-range", "ChannelBind(%#x, %s)", n, peer)

			return
		}
		if o, ok := x.m.owner[n]; ok && o != peer {
			x.fail("channel-number:shared-by-two-peers", "ChannelBind(%#x, %s) but %#x was already requested for %s", n, peer, n, o)

			return
		}
		if b := x.m.bind[peer]; b != nil && b.n != n {
			x.fail("channel-number:peer-got-second-number", "ChannelBind(%#x, %s) but the peer already has %#x", n, peer, b.n)

			return
		}
		x.m.owner[n] = peer
		if x.m.bind[peer] == nil {
			x.m.bind[peer] = &mbind{n: n}
		}
	case wire.Refresh:
		if lt, ok := m.U32(wire.AttrLifetime); ok && lt == 0 {
			x.tok("tx:Refresh0")
			if !x.m.appClosed {
				x.selfCloseSeen = true
			}
			x.m.dealloc = true
		} else {
			x.tok("tx:Refresh")
		}
	default:
		x.tok("tx:request-" + wire.MethodName(m.Method))
	}
}

// checkNonce: (7) a request built after a 438 carries the fresh nonce.
func (x *exec) checkNonce(m *wire.Msg, p *preq) {
	if n, ok := m.Get(wire.AttrNonce); !ok || string(n) != x.m.nonce {
		x.fail("stale-nonce:request-does-not-carry-latest-nonce", "%s carries nonce %q, server's latest is %q", p.label(), n, x.m.nonce)
	}
}

// emitted judges one application datagram on the wire: (1) permission, (2)
// encapsulation, payload identity and multiplicity.
func (x *exec) emitted(kind string, ch uint16, peer, payload string) {
	w := x.writes[payload]
	if kind == "ChannelData" {
		o, ok := x.m.owner[ch]
		if !ok {
			x.fail("chandata-on-unrequested-channel", "ChannelData(%#x, %q) but no ChannelBind for that number was ever seen", ch, payload)

			return
		}
		peer = o
		if b := x.m.bind[o]; b == nil || !b.confirmed || b.n != ch {
			x.fail("chandata-before-bind-confirmed", "ChannelData(%#x, %q) toward %s before ChannelBind(%#x,%s) success was delivered", ch, payload, o, ch, o)

			return
		}
	}
	ua, err := net.ResolveUDPAddr("udp4", peer)
	if err != nil {
		x.fail("harness:bad-peer", "%s", peer)

		return
	}
	if !x.m.granted[ua.IP.String()] {
		x.fail("write-before-permission:"+strings.ToLower(kind), "%s carrying %q toward %s but no CreatePermission success for %s was delivered (state %s)",
			kind, payload, peer, ua.IP, x.permState(ua.IP.String()))

		return
	}
	if w == nil {
		x.fail("emit:payload-never-written", "%s toward %s carries %q which the application never wrote", kind, peer, payload)

		return
	}
	if w.addr.String() != peer {
		x.fail("emit:wrong-peer", "%q was written to %s but emitted toward %s (%s)", payload, w.addr, peer, kind)

		return
	}
	w.emitted++
	if w.emitted > 1 {
		x.fail("emit:datagram-duplicated", "%q toward %s emitted %d times", payload, peer, w.emitted)
	}
}

// expire drops transactions the client has given up on.
func (x *exec) expire(now time.Time) {
	life := txLife()
	keep := x.out[:0]
	for _, p := range x.out {
		if now.Before(p.at.Add(life)) {
			keep = append(keep, p)
		} else {
			x.tok("tx-timeout:" + wire.MethodName(p.method))
		}
	}
	x.out = keep
}

// ---------------------------------------------------------------- app-side oracle

func (x *exec) checkApp() {
	now := time.Now()
	x.mu.Lock()
	defer x.mu.Unlock()
	for _, w := range x.writers {
		if w.checked {
			continue
		}
		ip := w.addr.IP.String()
		if !w.done {
			// a WriteTo may wait only for an outstanding CreatePermission covering its peer
			if !x.outstandingPerm(ip) {
				x.fail("writeto:blocked-without-outstanding-transaction", "WriteTo(%s,%q) still blocked; permission %s, no CreatePermission outstanding", w.peer, w.payload, x.permState(ip))
			}
			x.tok("w-blocked")

			continue
		}
		w.checked = true
		switch {
		case w.err == nil:
			x.tok("w-ok")
			if w.n != len(w.payload) {
				x.fail("writeto:wrong-count", "WriteTo(%q) returned n=%d", w.payload, w.n)
			}
			if w.startedClosed {
				x.fail("close:writeto-after-close-succeeded", "WriteTo(%s) called after Close returned nil error (emitted %d)", w.peer, w.emitted)
			}
			if !x.m.granted[ip] {
				x.fail("writeto-ok-without-permission", "WriteTo(%s,%q) returned nil but no CreatePermission success for %s was delivered", w.peer, w.payload, ip)
			}
			if w.emitted == 0 {
				x.tok("w-ok-not-emitted")
			}
		default:
			x.tok("w-err")
			if w.emitted > 0 {
				x.tok("w-err-but-emitted")
			}
		}
	}
	rd := x.reader
	if rd == nil {
		return
	}
	if !rd.done {
		x.tok("r-blocked")
		switch {
		case x.m.closed():
			x.fail("close:pending-readfrom-not-unblocked", "ReadFrom still blocked after Close")
		case len(x.m.queue) > 0:
			x.fail("read:blocked-with-payload-relayed", "ReadFrom blocked although %d relayed payload(s) are undelivered, first %q from %s", len(x.m.queue), x.m.queue[0].data, x.m.queue[0].from)
		case x.m.expired(now) && rd.startedExpired:
			x.fail("deadline:readfrom-after-expired-deadline-blocks", "deadline %v passed (since %v), ReadFrom called at %v blocks instead of timing out", x.m.deadline, x.m.dlFrom, rd.startedAt)
		case x.m.expired(now):
			x.fail("deadline:pending-readfrom-not-timed-out", "deadline %v reached at %v, ReadFrom pending since %v still blocked at %v", x.m.deadline, x.m.dlFrom, rd.startedAt, now)
		}

		return
	}
	x.reader = nil
	for _, res := range rd.res {
		x.judgeRead(rd, res)
	}
}

func (x *exec) judgeRead(rd *rcall, res rres) {
	if res.err == nil {
		x.tok("r-data")
		if rd.startedClosed && len(x.m.queue) == 0 {
			// Handing out a payload that was already queued when Close was called is compatible with
			// "honours Close" (the call returns, nothing blocks); inventing data is not.
			x.fail("close:readfrom-after-close-returned-data", "ReadFrom called after Close returned %q from %s with nil error and nothing was queued", res.data, res.from)

			return
		}
		if len(x.m.queue) == 0 {
			x.fail("read:payload-never-relayed", "ReadFrom returned %q from %s but nothing is undelivered", res.data, res.from)

			return
		}
		h := x.m.queue[0]
		if h.data != res.data {
			for _, q := range x.m.queue[1:] {
				if q.data == res.data {
					x.fail("read:reordered-or-lost", "ReadFrom returned %q, expected %q first", res.data, h.data)

					return
				}
			}
			x.fail("read:payload-altered", "ReadFrom returned %q, expected %q", res.data, h.data)

			return
		}
		if h.from != res.from {
			x.fail("read:wrong-peer-address", "payload %q relayed from %s, ReadFrom says %s", res.data, h.from, res.from)

			return
		}
		x.m.queue = x.m.queue[1:]

		return
	}
	var ne net.Error
	isTimeout := errors.As(res.err, &ne) && ne.Timeout()
	switch {
	case x.m.closed():
		x.tok("r-closed")
	case x.m.expired(res.at):
		x.tok("r-timeout")
		if !isTimeout {
			x.fail("deadline:error-is-not-a-timeout", "deadline passed, ReadFrom returned %T %v (Timeout()=false)", res.err, res.err)

			return
		}
		want := x.m.dlFrom
		if rd.startedAt.After(want) {
			want = rd.startedAt
		}
		if !res.at.Equal(want) {
			x.fail("deadline:timeout-at-wrong-time", "ReadFrom timed out at %v, deadline condition holds from %v", res.at, want)
		}
	default:
		x.fail("read:spurious-error", "ReadFrom returned %T %v (timeout=%v) with no deadline reached and the socket open", res.err, res.err, isTimeout)
	}
}

// ---------------------------------------------------------------- events

// peer resolves a peer name.
func (x *exec) peer(name string) *net.UDPAddr {
	if a, ok := peerAddrs[name]; ok {
		return a
	}

	return x.extra[name]
}

func (x *exec) startWrite(peer string) {
	x.nw++
	w := &wcall{id: x.nw, peer: peer, addr: x.peer(peer), payload: fmt.Sprintf("w%03d>%s", x.nw, peer), startedClosed: x.m.closed()}
	idle := x.pendingWriters() == 0
	x.writes[w.payload] = w
	x.writers = append(x.writers, w)
	// The application owns the address it passes: like many callers this one keeps a single net.UDPAddr and
	// overwrites it before every WriteTo - whenever no earlier WriteTo is still using it (changing an argument
	// under a call in progress would be the application's own data race).
	// ... and it names an IPv4 peer now in the 4-byte, now in the 16-byte form of net.IP (what net.ParseIP and
	// ResolveUDPAddr return, and what ReadFrom returns, differ): the same peer either way.
	ip := w.addr.IP
	if v4 := ip.To4(); v4 != nil {
		ip = v4
		if x.nw%2 == 0 {
			ip = v4.To16()
		}
	}
	arg := &net.UDPAddr{IP: append(net.IP(nil), ip...), Port: w.addr.Port}
	if idle {
		if x.scratch == nil {
			x.scratch = &net.UDPAddr{}
		}
		x.scratch.IP, x.scratch.Port = append(x.scratch.IP[:0], ip...), w.addr.Port
		arg = x.scratch
	}
	go func() {
		n, err := x.conn.WriteTo([]byte(w.payload), arg)
		x.mu.Lock()
		w.n, w.err, w.done = n, err, true
		x.mu.Unlock()
	}()
}

// scribble: the address ReadFrom returns is the caller's, as with net.UDPConn.ReadFrom; this application
// re-uses it as scratch space.
func scribble(from net.Addr) {
	if ua, ok := from.(*net.UDPAddr); ok {
		ua.Port = 9
		for i := range ua.IP {
			ua.IP[i] = 0xEE
		}
	}
}

func (x *exec) startRead(many int) {
	now := time.Now()
	rd := &rcall{startedAt: now, startedExpired: x.m.expired(now), startedClosed: x.m.closed(), many: many}
	x.reader = rd
	go func() {
		buf := make([]byte, 2048)
		var out []rres
		for range many {
			n, from, err := x.conn.ReadFrom(buf)
			r := rres{err: err, at: time.Now()}
			if err == nil {
				r.data = string(buf[:n])
				if from != nil {
					r.from = from.String()
				}
				scribble(from)
			}
			out = append(out, r)
		}
		x.mu.Lock()
		rd.res, rd.done = out, true
		x.mu.Unlock()
	}()
}

func (x *exec) nextTx() [12]byte {
	x.txc++
	var tx [12]byte
	copy(tx[:], fmt.Sprintf("srv%09d", x.txc))

	return tx
}

// probe is a harmless datagram queued behind an inbound event: a Binding
// success response with an unknown transaction id. The client's read loop must
// consume it, i.e. be back in ReadFrom on its socket: oracle (6).
func (x *exec) probe() []byte {
	return wire.New(wire.Binding, wire.Success, x.nextTx()).XorAddr(wire.AttrXORMappedAddress, cliAddr.IP, cliAddr.Port).Bytes()
}

// inbound injects b followed by a probe and checks that the read loop came back.
func (x *exec) inbound(what string, b []byte) {
	x.send(b)
	x.send(x.probe())
	synctest.Wait()
	if n := x.csock.Pending(); n > 0 {
		// classify: loop gone (Listen can be started again) or stuck inside HandleInbound
		state := "blocked"
		if err := x.cl.Listen(); err == nil {
			state = "loop-exited"
			synctest.Wait()
		}
		x.fail("inbound-"+state+":"+what, "after %s the client's read loop did not return to its socket: %d datagram(s) left unread, loop %s", what, n, state)
	}
}

func dataInd(tx [12]byte, from *net.UDPAddr, payload []byte) []byte {
	return wire.New(wire.Data, wire.Indication, tx).XorAddr(wire.AttrXORPeerAddress, from.IP, from.Port).Attr(wire.AttrData, payload).Bytes()
}

// apply executes one event, waits for quiescence and runs the oracles.
func (x *exec) apply(ev string) { //nolint:gocognit,cyclop
	x.tokens = map[string]bool{}
	ctx := ""
	now := time.Now()
	k, a, _ := strings.Cut(ev, ":")
	switch k {
	case "w":
		addr := x.peer(a)
		ctx = fmt.Sprintf("perm=%s,bind=%s,closed=%v", x.permState(addr.IP.String()), x.bindState(addr.String()), x.m.closed())
		x.startWrite(a)
		synctest.Wait()
	case "read":
		ctx = fmt.Sprintf("q=%v,dl=%v,closed=%v", len(x.m.queue) > 0, x.dlClass(now), x.m.closed())
		many := 1
		if x.m.closed() && len(x.m.queue) > 0 {
			many = readsAfterClose
		}
		x.startRead(many)
		synctest.Wait()
	case "dl":
		ctx = fmt.Sprintf("reader=%v,q=%v", x.reader != nil, len(x.m.queue) > 0)
		switch a {
		case "+1s":
			x.m.deadline, x.m.dlFrom = now.Add(time.Second), now.Add(time.Second)
		case "past":
			x.m.deadline, x.m.dlFrom = now.Add(-time.Second), now
		case "zero":
			x.m.deadline, x.m.dlFrom = time.Time{}, time.Time{}
		}
		if err := x.conn.SetReadDeadline(x.m.deadline); err != nil {
			x.tok("dl-err")
		}
		synctest.Wait()
	case "close":
		ctx = fmt.Sprintf("reader=%v,writers=%d,q=%v", x.reader != nil, x.pendingWriters(), len(x.m.queue) > 0)
		done := false
		go func() {
			_ = x.conn.Close()
			x.mu.Lock()
			done = true
			x.mu.Unlock()
		}()
		x.m.appClosed = true
		synctest.Wait()
		x.mu.Lock()
		d := done
		x.mu.Unlock()
		if !d {
			x.fail("close:close-blocked", "Close did not return")
		}
	case "realloc":
		// the application allocates again on the same client: a new relayed socket, nothing carried over
		ctx = "after-close"
		x.old = x.conn
		done := false
		go func() {
			x.conn, x.allocErr = x.cl.Allocate()
			x.mu.Lock()
			done = true
			x.mu.Unlock()
		}()
		synctest.Wait()
		x.mu.Lock()
		d := done
		x.mu.Unlock()
		if !d || x.allocErr != nil {
			x.fail("realloc:second-allocate-failed", "returned=%v err=%v", d, x.allocErr)

			return
		}
		if n, _, ok := x.lowestConfirmed(); ok {
			x.oldNum = n // a channel the FIRST socket had bound: means nothing to the second one until it binds it itself
		}
		x.m = &model{granted: map[string]bool{}, bind: map[string]*mbind{}, owner: map[uint16]string{}, nonce: "nonce-0", consec438: map[string]int{}}
		x.writes, x.writers, x.reader, x.out = map[string]*wcall{}, nil, nil, nil
	case "close-old":
		// closing a socket that is already closed changes nothing - in particular nothing about the client's new socket
		ctx = "already-closed"
		done := false
		go func() {
			_ = x.old.Close()
			x.mu.Lock()
			done = true
			x.mu.Unlock()
		}()
		x.oldAgain = true
		synctest.Wait()
		x.mu.Lock()
		d := done
		x.mu.Unlock()
		if !d {
			x.fail("close:second-close-of-the-old-socket-blocked", "Close did not return")
		}
	case "r":
		pend := x.pending()
		if len(pend) == 0 {
			x.fail("harness:no-pending-request", "")

			return
		}
		p := pend[0]
		ctx = wire.MethodName(p.method)
		x.react(p, a)
	case "in":
		ctx = fmt.Sprintf("reader=%v,closed=%v", x.reader != nil, x.m.closed())
		x.ni++
		payload := fmt.Sprintf("d%03d<%s", x.ni, a)
		switch a {
		case "data:P1", "data:P9":
			from := peerAddrs[strings.TrimPrefix(a, "data:")]
			if !x.m.closed() {
				x.m.queue = append(x.m.queue, qent{payload, from.String()})
			}
			x.inbound("data-indication", dataInd(x.nextTx(), from, []byte(payload)))
		case "chan:bound":
			n, who, ok := x.lowestConfirmed()
			if !ok {
				x.fail("harness:no-confirmed-binding", "")

				return
			}
			if !x.m.closed() {
				x.m.queue = append(x.m.queue, qent{payload, who})
			}
			x.inbound("chandata-bound-channel", wire.ChannelData(n, []byte(payload), true))
		case "chan:requested":
			// The server binds when it processes the ChannelBind and relays on the number from then on - which is
			// before the client has seen (or will ever see, if it is lost) the success response. The client knows
			// which peer it asked the number for: the payload is that peer's.
			p := x.pendingBind()
			if p == nil {
				x.fail("harness:no-outstanding-channelbind", "")

				return
			}
			if !x.m.closed() {
				x.m.queue = append(x.m.queue, qent{payload, p.peer})
			}
			x.inbound("chandata-requested-channel", wire.ChannelData(p.n, []byte(payload), true))
		case "chan:stale":
			// ChannelData on a number only the closed first socket had bound: the second socket has asked for nothing on it,
			// the payload belongs to nobody and is discarded (the model queue is unchanged)
			x.inbound("chandata-channel-of-the-closed-socket", wire.ChannelData(x.oldNum, []byte(payload), true))
			if x.reader == nil && len(x.m.queue) == 0 && !x.m.closed() {
				// nothing is queued for the application: a read that gives up at once must find nothing
				_ = x.conn.SetReadDeadline(time.Now())
				buf := make([]byte, 2048)
				if n, from, err := x.conn.ReadFrom(buf); err == nil {
					x.fail("read:payload-on-a-channel-this-socket-never-bound", "ReadFrom returned %q from %v: ChannelData on %#x, which only the closed first socket had bound", buf[:n], from, x.oldNum)
				}
				_ = x.conn.SetReadDeadline(x.m.deadline)
			}
		case "chan:unbound":
			// not delivered: the model queue is unchanged
			x.inbound("chandata-unbound-channel", wire.ChannelData(unboundChan, []byte(payload), true))
		}
	case "adv":
		if a == "txfail" {
			// to one millisecond after the oldest unanswered transaction has failed (7 transmissions, nothing answered)
			if len(x.out) == 0 {
				x.fail("harness:no-outstanding-transaction", "")

				return
			}
			d := x.out[0].at.Add(txLife() + time.Millisecond).Sub(now)
			if d < time.Millisecond {
				d = time.Millisecond
			}
			a = d.String()
		}
		d, err := time.ParseDuration(a)
		if err != nil {
			x.fail("harness:bad-duration", "%s", a)

			return
		}
		ctx = fmt.Sprintf("outstanding=%v,dl=%s,reader=%v", len(x.out) > 0, x.dlClass(now), x.reader != nil)
		time.Sleep(d)
		synctest.Wait()
	default:
		x.fail("harness:unknown-event", "%s", ev)

		return
	}
	x.process()
	x.expire(time.Now())
	x.checkApp()
	if x.selfCloseSeen {
		x.tok("self-close")
	}
	var toks []string
	for t := range x.tokens {
		toks = append(toks, t)
	}
	sort.Strings(toks)
	outcome := strings.Join(toks, "+")
	if outcome == "" {
		outcome = "-"
	}
	x.steps++
	if x.light {
		return
	}
	x.events = append(x.events, ev)
	x.trace = append(x.trace, fmt.Sprintf("%s [%s] => %s", ev, ctx, outcome))
	x.classes[fmt.Sprintf("%s [%s] => %s", ev, ctx, outcome)]++
	x.states = append(x.states, x.key(time.Now()))
}

func (x *exec) dlClass(now time.Time) string {
	switch {
	case x.m.deadline.IsZero():
		return "none"
	case x.m.expired(now):
		return "expired"
	}

	return "future"
}

// react delivers the chosen server reaction for transaction p.
func (x *exec) react(p *preq, kind string) {
	remove := func() {
		for i, q := range x.out {
			if q == p {
				x.out = append(x.out[:i:i], x.out[i+1:]...)

				break
			}
		}
	}
	retryWanted := false
	switch kind {
	case "drop":
		p.dropped = true
		synctest.Wait()

		return
	case "success":
		remove()
		if p.method == wire.CreatePermission {
			for _, ip := range p.ips {
				x.m.granted[ip] = true
				delete(x.m.consec438, ip)
			}
		} else if b := x.m.bind[p.peer]; b != nil && b.n == p.n && x.m.owner[p.n] == p.peer {
			b.confirmed = true
		}
		x.inbound("success-response", wire.New(p.method, wire.Success, p.tx).Bytes())
	case "400", "403":
		remove()
		for _, ip := range p.ips {
			delete(x.m.consec438, ip)
		}
		code := 400
		if kind == "403" {
			code = 403
		}
		x.inbound("error-response", wire.New(p.method, wire.Error, p.tx).Attr(wire.AttrErrorCode, errCode(code, "no")).Bytes())
	case "438":
		remove()
		x.nonceSeq++
		x.m.nonce = fmt.Sprintf("nonce-%d", x.nonceSeq)
		if p.method == wire.CreatePermission {
			retryWanted = true
			for _, ip := range p.ips {
				if x.m.consec438[ip] > 0 {
					retryWanted = false // only the first stale-nonce answer in a row must be retried
				}
				x.m.consec438[ip]++
			}
		}
		x.inbound("error-response", wire.New(p.method, wire.Error, p.tx).Attr(wire.AttrErrorCode, errCode(438, "Stale Nonce")).
			Str(wire.AttrRealm, realm).Str(wire.AttrNonce, x.m.nonce).Bytes())
	}
	if retryWanted {
		// (7) 438 is retried transparently: a new CreatePermission for the same peers must be on the wire now
		x.mu.Lock()
		recs := x.log[x.cur:]
		found := false
		for _, r := range recs {
			if m := r.rx.Msg; m != nil && m.Class == wire.Request && m.Method == wire.CreatePermission && m.TxID != p.tx {
				// the retry may cover more peers (a permission refresh lists every known peer)
				ips, _ := peerIPs(m)
				have := map[string]bool{}
				for _, ip := range ips {
					have[ip] = true
				}
				all := true
				for _, ip := range p.ips {
					all = all && have[ip]
				}
				if all {
					found = true
				}
			}
		}
		x.mu.Unlock()
		if !found {
			x.fail("438:createpermission-not-retried", "%s answered 438 with a fresh nonce, no new CreatePermission followed", p.label())
		}
	}
}

