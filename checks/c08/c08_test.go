package c08

import (
	"testing"

	"github.com/pion/turn/v5/verif/checks/prof"
	"github.com/pion/turn/v5/verif/rep"
	"github.com/pion/turn/v5/verif/vtx"
)

func TestC08(t *testing.T) {
	r := rep.New("C08")
	defer r.Write()
	vtx.Explore(t, prof.Channels("c08", map[string]bool{"chan-range": true, "chan-bijection": true, "leak-c2p": true, "leak-p2c": true, "resp": true, "miss-c2p": true, "miss-p2c": true}), r)
}

// TestC08AllNumbers binds every one of the 65536 channel numbers on a fresh
// allocation (one virtual-time bubble each) and sweeps.
func TestC08AllNumbers(t *testing.T) {
	r := rep.New("C08")
	defer r.Write()
	i, n := rep.Shard()
	p := &vtx.Profile{
		Name: "c08-all-numbers", Configs: []vtx.Config{{}}, Clients: []string{"c1"}, Peers: []string{"A", "B"},
		Tags: map[string]bool{"chan-range": true, "chan-bijection": true, "leak-c2p": true, "leak-p2c": true, "resp": true, "miss-c2p": true, "miss-p2c": true},
	}
	for num := i; num < 65536; num += n {
		if r.OverBudget("all numbers") {
			break
		}
		p.Chans = []uint16{uint16(num)}
		vtx.RunEvents(t, p, vtx.Config{}, []vtx.Event{prof.E("alloc", "c1", 0), prof.E("chan", "c1", uint16(num), "A")}, r)
	}
}

// TestC08BFS: merged breadth-first search to depth 6 (thorough tier only).
func TestC08BFS(t *testing.T) {
	r := rep.New("C08")
	defer r.Write()
	vtx.ExploreBFS(t, prof.Channels("c08-bfs", map[string]bool{"chan-range": true, "chan-bijection": true, "leak-c2p": true, "leak-p2c": true, "resp": true, "miss-c2p": true, "miss-p2c": true}), r, 6)
}
