package c15

import (
	"crypto/ecdsa"
	"crypto/elliptic"
	"crypto/rand"
	"crypto/tls"
	"crypto/x509"
	"crypto/x509/pkix"
	"fmt"
	"math/big"
	"net"
	"testing"
	"testing/synctest"
	"time"

	turn "github.com/pion/turn/v5"
	"github.com/pion/turn/v5/verif/rep"
	"github.com/pion/turn/v5/verif/simnet"
	"github.com/pion/turn/v5/verif/vtx"
	"github.com/pion/turn/v5/verif/wire"
)

// TestC15TLS: connections accepted by a TLS listener (crypto/tls over simnet,
// virtual time) in every state a connection can be in when the server is
// closed or the handshake gives up - handshake never started, stalled inside
// a record, failed (clear text instead of TLS), completed and idle, completed
// with an allocation - are all released: a failed handshake closes the
// connection, and after Server.Close no accepted connection stays open.
func TestC15TLS(t *testing.T) {
	r := rep.New("C15")
	defer r.Write()
	if i, _ := rep.Shard(); i != 0 {
		return
	}
	key, err := ecdsa.GenerateKey(elliptic.P256(), rand.Reader)
	if err != nil {
		t.Fatal(err)
	}
	tmpl := &x509.Certificate{SerialNumber: big.NewInt(1), Subject: pkix.Name{CommonName: "turn.test"},
		NotBefore: time.Date(1999, 1, 1, 0, 0, 0, 0, time.UTC), NotAfter: time.Date(2099, 1, 1, 0, 0, 0, 0, time.UTC)}
	der, err := x509.CreateCertificate(rand.Reader, tmpl, tmpl, &key.PublicKey, key)
	if err != nil {
		t.Fatal(err)
	}
	cert := tls.Certificate{Certificate: [][]byte{der}, PrivateKey: key}
	kinds := []string{"silent", "partial-record", "clear-text-stun", "handshake-done-idle", "handshake-done-binding"}
	// every non-empty subset of the connection kinds present at once, closed either right away or after the 10 s handshake timeout
	for mask := 1; mask < 1<<len(kinds); mask++ {
		for _, wait := range []time.Duration{0, 11 * time.Second} {
			var verdicts []string
			var fatal string
			label := ""
			for i, k := range kinds {
				if mask&(1<<i) != 0 {
					label += k + "+"
				}
			}
			label += fmt.Sprintf("close-after-%v", wait)
			stop := r.Guard(60*time.Second, "tls:wedged:"+label, func() any { return label })
			func() {
				defer func() {
					if e := recover(); e != nil {
						fatal = fmt.Sprint(e)
					}
				}()
				synctest.Test(t, func(*testing.T) {
					nw := simnet.New()
					nw.LogOff = true
					srvAddr := &net.TCPAddr{IP: vtx.SrvV4.IP, Port: 5349}
					l, err := nw.ListenTCPAddr("tcp4", srvAddr)
					if err != nil {
						panic(err)
					}
					srv, err := turn.NewServer(turn.ServerConfig{
						Realm: vtx.Realm, LoggerFactory: vtx.QuietFactory{},
						AuthHandler: func(*turn.RequestAttributes) (string, []byte, bool) { return "", nil, false },
						ListenerConfigs: []turn.ListenerConfig{{
							Listener:              tls.NewListener(l, &tls.Config{Certificates: []tls.Certificate{cert}, MinVersion: tls.VersionTLS12}),
							RelayAddressGenerator: &turn.RelayAddressGeneratorStatic{RelayAddress: net.IPv4(10, 9, 0, 1), Address: "10.9.0.1", Net: nw.Transport()},
						}},
					})
					if err != nil {
						panic(err)
					}
					type hc struct {
						kind string
						c    *simnet.Conn
					}
					var conns []hc
					for i, k := range kinds {
						if mask&(1<<i) == 0 {
							continue
						}
						c, err := nw.DialTCPAddr(&net.TCPAddr{IP: net.IPv4(10, 0, 0, 66).To4(), Port: 20000 + i}, srvAddr)
						if err != nil {
							panic(err)
						}
						conns = append(conns, hc{k, c})
						switch k {
						case "partial-record":
							_, _ = c.Write([]byte{0x16, 0x03, 0x01})
						case "clear-text-stun":
							_, _ = c.Write(wire.New(wire.Binding, wire.Request, [12]byte{1}).Bytes())
						case "handshake-done-idle", "handshake-done-binding":
							done := make(chan struct{})
							go func() {
								defer close(done)
								tc := tls.Client(c, &tls.Config{InsecureSkipVerify: true, MinVersion: tls.VersionTLS12}) //nolint:gosec
								if tc.Handshake() != nil {
									return
								}
								if k == "handshake-done-binding" {
									_, _ = tc.Write(wire.New(wire.Binding, wire.Request, [12]byte{2}).Bytes())
									buf := make([]byte, 1024)
									_, _ = tc.Read(buf)
								}
							}()
							synctest.Wait()
							<-done
						}
						synctest.Wait()
					}
					if wait > 0 {
						time.Sleep(wait)
						synctest.Wait()
						// the handshake of the connections that never completed one has been given up: they are closed by now
						for _, h := range conns {
							if (h.kind == "silent" || h.kind == "partial-record" || h.kind == "clear-text-stun") && !h.c.Peer().IsClosed() {
								verdicts = append(verdicts, "tls:connection-open-after-its-handshake-failed:"+h.kind)
							}
						}
					} else {
						for _, h := range conns {
							if h.kind == "clear-text-stun" && !h.c.Peer().IsClosed() {
								verdicts = append(verdicts, "tls:connection-open-after-its-handshake-failed:"+h.kind)
							}
						}
					}
					_ = srv.Close()
					synctest.Wait()
					for _, h := range conns {
						if !h.c.Peer().IsClosed() {
							verdicts = append(verdicts, "tls:accepted-connection-open-after-Server.Close:"+h.kind)
						}
						_ = h.c.Close()
					}
					if len(nw.OpenListeners()) != 0 {
						verdicts = append(verdicts, "tls:listener-open-after-Server.Close")
					}
				})
			}()
			stop()
			r.Evaluations++
			seen := map[string]bool{}
			for _, v := range verdicts {
				if !seen[v] {
					seen[v] = true
					r.Violate(rep.Violation{Oracle: "c15-tls", Signature: v, Detail: label, Replay: map[string]any{"engine": "enum-c15-tls", "case": label}})
				}
			}
			if fatal != "" {
				r.Violate(rep.Violation{Oracle: "c15-tls", Signature: "tls:fatal", Detail: label + ": " + fatal})
			}
			r.Class(fmt.Sprintf("tls teardown with %d connection kinds present, closed after %v -> everything released", len(label)-len(label)+popcount(mask), wait))
		}
	}
}

func popcount(m int) int {
	n := 0
	for ; m != 0; m &= m - 1 {
		n++
	}

	return n
}
