package c15

import (
	"testing"
	"time"

	"github.com/pion/turn/v5/verif/checks/prof"
	"github.com/pion/turn/v5/verif/rep"
	"github.com/pion/turn/v5/verif/vtx"
)

// profile: every history over allocate / permission / channel operations of two
// clients, and after every prefix each way an allocation can end (expiry,
// Refresh 0, control connection closed, relay socket failure, Server.Close),
// with resource and lifecycle-event accounting after every event.
func profile(name string, cfgs []vtx.Config) *vtx.Profile {
	depth := 4
	if rep.Thorough() {
		depth = 5
	}

	return &vtx.Profile{
		Name: name, Configs: cfgs, Clients: []string{"c1", "c2"}, Peers: []string{"A", "B"}, Chans: []uint16{prof.N1},
		Depth: depth, Drain: true, Resources: true, Lifecycle: true, Quiet2h: true,
		Tags: map[string]bool{"resources": true, "lifecycle": true, "count": true},
		Menu: func(m *vtx.Model, now time.Time, _ int) []vtx.Event {
			if m.Closed {
				return vtx.AdvanceMenu(m, now, nil, []time.Duration{time.Hour})
			}
			var e []vtx.Event
			for _, c := range []string{"c1", "c2"} {
				if m.Gone[c] {
					continue
				}
				if m.Allocs[c] == nil {
					e = append(e, prof.E("alloc", c, 0))
					if c == "c2" && !m.Cfg.Stream {
						// EVEN-PORT: the manager probes relay sockets until it draws an even port (odd draws after c1's allocation)
						e = append(e, vtx.Event{K: "alloc", C: c, L: -1, Even: true})
					}
					if c == "c1" {
						e = append(e, prof.E("perm", c, 0, "A")) // request without allocation
						// an Allocate that asks for LIFETIME 0 is refused: whatever was set up for it is released again
						e = append(e, vtx.Event{K: "alloc", C: c, L: 0})
					}

					continue
				}
				e = append(e, vtx.Event{K: "refresh", C: c, L: 0}, vtx.Event{K: "fail-relay", C: c, L: -1})
				if m.Cfg.Stream {
					e = append(e, vtx.Event{K: "close-control", C: c, L: -1})
				}
				if c == "c1" {
					e = append(e, prof.E("perm", c, 0, "A"), prof.E("perm", c, 0, "A", "B"), prof.E("chan", c, prof.N1, "A"), prof.E("chan", c, prof.N1, "B"))
				}
			}
			e = append(e, vtx.Event{K: "close-server", L: -1})
			if len(m.Allocs) > 0 {
				e = append(e, vtx.Event{K: "close-server", L: -1, Fail: "closeerr"})
			}

			return append(e, vtx.AdvanceMenu(m, now, []time.Duration{time.Nanosecond}, nil)...)
		},
	}
}

func TestC15(t *testing.T) {
	r := rep.New("C15")
	defer r.Write()
	sec := time.Second
	cfgs := []vtx.Config{
		{},
		{Stream: true},
		// permission / channel timeouts that coincide with the allocation's expiry are Engine B's; here: staggered
		{Lifetime: 100 * sec, Perm: 40 * sec, Chan: 70 * sec},
		// listener bound to the unspecified address: accepted connections have a concrete local address
		{Stream: true, Wild: true, Lifetime: 100 * sec, Perm: 40 * sec, Chan: 70 * sec},
	}
	vtx.Explore(t, profile("c15-teardown", cfgs), r)
}

// TestC15Rich: allocations that own several permissions and three channel
// bindings (and, over a stream listener, a TCP allocation with pending and
// bound peer connections) are ended in every way; teardown must release every
// one of the owned entries exactly once.
func TestC15Rich(t *testing.T) {
	r := rep.New("C15")
	defer r.Write()
	depth := 2
	if rep.Thorough() {
		depth = 3
	}
	sec := time.Second
	udp := &vtx.Profile{
		Name: "c15-rich-udp", Configs: []vtx.Config{{}, {Stream: true}, {Lifetime: 100 * sec, Perm: 40 * sec, Chan: 70 * sec}},
		Clients: []string{"c1", "c2"}, Peers: []string{"A", "A2", "B"}, Chans: []uint16{prof.N1, prof.N2, prof.N3},
		Depth: depth, Drain: true, Resources: true, Lifecycle: true, Quiet2h: true,
		Tags: map[string]bool{"resources": true, "lifecycle": true, "count": true},
		Setup: func(vtx.Config) []vtx.Event {
			return []vtx.Event{prof.E("alloc", "c1", 0), prof.E("alloc", "c2", 0), prof.E("chan", "c1", prof.N1, "A"), prof.E("chan", "c1", prof.N2, "B"),
				prof.E("chan", "c1", prof.N3, "A2"), prof.E("perm", "c2", 0, "A", "B")}
		},
		Menu: func(m *vtx.Model, now time.Time, _ int) []vtx.Event {
			if m.Closed {
				return nil
			}
			var e []vtx.Event
			for _, c := range []string{"c1", "c2"} {
				if m.Gone[c] || m.Allocs[c] == nil {
					continue
				}
				e = append(e, vtx.Event{K: "refresh", C: c, L: 0}, vtx.Event{K: "fail-relay", C: c, L: -1})
				if m.Cfg.Stream {
					e = append(e, vtx.Event{K: "close-control", C: c, L: -1})
				}
			}
			e = append(e, vtx.Event{K: "close-server", L: -1})

			return append(e, vtx.AdvanceMenu(m, now, []time.Duration{time.Nanosecond}, nil)...)
		},
	}
	vtx.Explore(t, udp, r)
	tcp := prof.IsolationTCP("c15-rich-tcp", map[string]bool{"resources": true, "lifecycle": true, "count": true, "tcp": true})
	tcp.Depth = depth + 1
	tcp.Lifecycle, tcp.Quiet2h = true, true
	base := tcp.Menu
	tcp.Menu = func(m *vtx.Model, now time.Time, i int) []vtx.Event {
		if m.Closed {
			return nil
		}
		e := base(m, now, i)
		for _, c := range []string{"c1", "c2"} {
			if !m.Gone[c] && m.Allocs[c] != nil {
				e = append(e, vtx.Event{K: "fail-relay", C: c, L: -1}, vtx.Event{K: "close-control", C: c, L: -1})
			}
		}
		// a ConnectionBind whose data connection is reset behind the request: the success response cannot be
		// written, and the peer connection the bind had claimed is released like any other that ends
		for i := range m.ConnView["c1"] {
			e = append(e, vtx.Event{K: "cbind", C: "c1", N: uint16(i), Peers: []string{"c1"}, Rule: "reset", L: -1}) //nolint:gosec
		}

		return append(e, vtx.Event{K: "close-server", L: -1})
	}
	vtx.Explore(t, tcp, r)
}

// TestC15Dual: a server with a UDP socket and a stream listener (one relay
// address generator); c1 arrives over UDP, c2t over the stream (the lifecycle
// callbacks name the client address only, so the two do not share one).
// Server.Close releases everything of both listeners - also when one of the
// configured sockets cannot be closed cleanly because the application has
// closed it already (second configuration): the error is reported, the accepted
// stream connections and their allocations are released all the same.
func TestC15Dual(t *testing.T) {
	r := rep.New("C15")
	defer r.Write()
	depth := 4
	if rep.Thorough() {
		depth = 5
	}
	cl := []string{"c1", "c2t"}
	p := &vtx.Profile{
		Name: "c15-udp-and-stream-listener", Configs: []vtx.Config{{Dual: true}, {Dual: true, AppClosedUDP: true}},
		Clients: cl, Peers: []string{"A", "B"}, Chans: []uint16{prof.N1}, Depth: depth, Drain: true,
		Resources: true, Lifecycle: true, Quiet2h: true,
		Tags: map[string]bool{"resources": true, "lifecycle": true, "count": true},
		Menu: func(m *vtx.Model, now time.Time, _ int) []vtx.Event {
			if m.Closed {
				return vtx.AdvanceMenu(m, now, nil, []time.Duration{time.Hour})
			}
			var e []vtx.Event
			for _, c := range cl {
				if m.Gone[c] {
					continue
				}
				if m.Allocs[c] == nil {
					e = append(e, prof.E("alloc", c, 0))
				} else {
					e = append(e, vtx.Event{K: "refresh", C: c, L: 0}, prof.E("perm", c, 0, "A"), prof.E("chan", c, prof.N1, "B"))
				}
				if c != "c1" {
					e = append(e, vtx.Event{K: "close-control", C: c, L: -1})
				}
			}
			e = append(e, vtx.Event{K: "close-server", L: -1})

			return append(e, vtx.AdvanceMenu(m, now, []time.Duration{time.Nanosecond}, nil)...)
		},
	}
	vtx.Explore(t, p, r)
}
