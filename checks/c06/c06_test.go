package c06

import (
	"testing"
	"time"

	"github.com/pion/turn/v5/verif/rep"
	"github.com/pion/turn/v5/verif/vtx"
)

const tenH = 10 * time.Hour

func profile() *vtx.Profile {
	depth := 4
	allocL := []int64{-1, 0, 1, 600, 3599, 3600, 4294967295}
	refreshL := []int64{-1, 0, 2, 3599, 3601}
	if rep.Thorough() {
		depth = 5
		allocL = []int64{-1, 0, 1, 2, 599, 600, 601, 3599, 3600, 3601, 4294967295}
		refreshL = []int64{-1, 0, 1, 2, 599, 600, 601, 3599, 3600, 3601, 4294967295}
	}

	return &vtx.Profile{
		Name: "c06-lifetime",
		Configs: []vtx.Config{
			{Perm: tenH, Chan: tenH},
			{Lifetime: 60 * time.Second, Perm: tenH, Chan: tenH},
			{Lifetime: 7200 * time.Second, Perm: tenH, Chan: tenH},
		},
		Clients: []string{"c1"},
		Peers:   []string{"A", "B"},
		Chans:   []uint16{0x4000},
		Depth:   depth,
		Drain:   true,
		PostClose: true,
		Menu: func(m *vtx.Model, now time.Time, _ int) []vtx.Event {
			var ev []vtx.Event
			for _, l := range allocL {
				ev = append(ev, vtx.Event{K: "alloc", C: "c1", L: l})
			}
			for _, l := range refreshL {
				ev = append(ev, vtx.Event{K: "refresh", C: "c1", L: l})
			}
			// Allocate refused by the operator's relay address generator / quota handler: nothing may exist or linger afterwards
			ev = append(ev, vtx.Event{K: "alloc", C: "c1", L: 1, Fail: "gen"}, vtx.Event{K: "alloc", C: "c1", L: 2, Fail: "quota"})
			// refused Refresh requests (address family mismatch): must change nothing
			ev = append(ev, vtx.Event{K: "refresh", C: "c1", L: 0, Fam: 6}, vtx.Event{K: "refresh", C: "c1", L: 3000, Fam: 6})
			if m.Allocs["c1"] != nil {
				// Refresh 0 whose relay socket cannot be closed (its Close fails once): the allocation is gone all the same
				ev = append(ev, vtx.Event{K: "refresh", C: "c1", L: 0, Fail: "closeerr"})
			}
			ev = append(ev, vtx.Event{K: "perm", C: "c1", Peers: []string{"A"}, L: -1},
				vtx.Event{K: "chan", C: "c1", N: 0x4000, Peers: []string{"A"}, L: -1})
			ev = append(ev, vtx.AdvanceMenu(m, now, []time.Duration{time.Nanosecond, time.Second}, []time.Duration{31 * time.Second})...)

			return ev
		},
	}
}

func TestC06(t *testing.T) {
	r := rep.New("C06")
	defer r.Write()
	vtx.Explore(t, profile(), r)
}

// TestC06BFS: merged breadth-first search to depth 7 (thorough tier only).
func TestC06BFS(t *testing.T) {
	r := rep.New("C06")
	defer r.Write()
	p := profile()
	p.Name = "c06-bfs"
	vtx.ExploreBFS(t, p, r, 7)
}
