package c02

import (
	"testing"

	"github.com/pion/turn/v5/verif/checks/prof"
	"github.com/pion/turn/v5/verif/rep"
	"github.com/pion/turn/v5/verif/vtx"
)

func TestC02(t *testing.T) {
	r := rep.New("C02")
	defer r.Write()
	vtx.Explore(t, prof.Relay("c02", map[string]bool{"leak-p2c": true}), r)
}
