package c02

import (
	"testing"
	"time"

	"github.com/pion/turn/v5/verif/checks/prof"
	"github.com/pion/turn/v5/verif/rep"
	"github.com/pion/turn/v5/verif/vtx"
)

func TestC02(t *testing.T) {
	r := rep.New("C02")
	defer r.Write()
	vtx.Explore(t, prof.Relay("c02", map[string]bool{"leak-p2c": true}), r)
}

// TestC02BFS: merged breadth-first search to depth 7 (thorough tier only).
func TestC02BFS(t *testing.T) {
	r := rep.New("C02")
	defer r.Write()
	vtx.ExploreBFS(t, prof.Relay("c02-bfs", map[string]bool{"leak-p2c": true}), r, 7)
}

// TestC02Lookalikes: "a channel binding for the sender's exact transport address": peers whose addresses are
// easily confused when an implementation keys on text - X25 = 10.1.0.2:25000 and Y22 = 10.1.0.22:5000 (their IP
// and port run together to the same string), B = 10.1.0.2:5000 (X25's host, Y22's port). Permissions and channels
// for any of them, datagrams from all of them after every step.
func TestC02Lookalikes(t *testing.T) {
	r := rep.New("C02")
	defer r.Write()
	depth := 3
	if rep.Thorough() {
		depth = 4
	}
	peers := []string{"X25", "Y22", "B"}
	p := &vtx.Profile{
		Name: "c02-lookalike-addresses", Configs: []vtx.Config{{}}, Clients: []string{"c1"}, Peers: peers, Chans: []uint16{prof.N1, prof.N2},
		Depth: depth, Drain: true, Tags: map[string]bool{"leak-p2c": true, "miss-p2c": true},
		Setup: func(vtx.Config) []vtx.Event { return []vtx.Event{prof.E("alloc", "c1", 0)} },
		Menu: func(m *vtx.Model, now time.Time, _ int) []vtx.Event {
			var e []vtx.Event
			for _, pn := range peers {
				e = append(e, prof.E("perm", "c1", 0, pn), prof.E("chan", "c1", prof.N1, pn), prof.E("chan", "c1", prof.N2, pn))
			}

			return append(e, vtx.AdvanceMenu(m, now, []time.Duration{time.Nanosecond}, nil)...)
		},
	}
	vtx.Explore(t, p, r)
}
