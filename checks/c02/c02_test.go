package c02

import (
	"testing"

	"github.com/pion/turn/v5/verif/checks/prof"
	"github.com/pion/turn/v5/verif/rep"
	"github.com/pion/turn/v5/verif/vtx"
)

func TestC02(t *testing.T) {
	r := rep.New("C02")
	defer r.Write()
	vtx.Explore(t, prof.Relay("c02", map[string]bool{"leak-p2c": true}), r)
}

// TestC02BFS: merged breadth-first search to depth 7 (thorough tier only).
func TestC02BFS(t *testing.T) {
	r := rep.New("C02")
	defer r.Write()
	vtx.ExploreBFS(t, prof.Relay("c02-bfs", map[string]bool{"leak-p2c": true}), r, 7)
}
