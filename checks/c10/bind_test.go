package c10

import (
	"bytes"
	"encoding/json"
	"errors"
	"fmt"
	"net"
	"os"
	"strings"
	"testing"
	"time"

	"github.com/pion/logging"
	"github.com/pion/stun/v3"
	"github.com/pion/turn/v5/internal/client"
	"github.com/pion/turn/v5/internal/proto"
	"github.com/pion/turn/v5/verif/rep"
	"github.com/pion/turn/v5/verif/wire"
)

// stubClient satisfies client.Client; BindConnection never uses it.
type stubClient struct{}

var errStub = errors.New("c10: stub client")

func (stubClient) WriteTo(b []byte, _ net.Addr) (int, error) { return len(b), nil }
func (stubClient) PerformTransaction(*stun.Message, net.Addr, bool) (client.TransactionResult, error) {
	return client.TransactionResult{}, errStub
}
func (stubClient) OnDeallocated(net.Addr) {}

const bindCID = 0x01020304

type replySpec struct {
	name    string
	success bool
	build   func(tx [12]byte) []byte
}

func replySpecs() []replySpec {
	return []replySpec{
		{"success:connection-id", true, func(tx [12]byte) []byte { // what pion's server sends
			return wire.New(wire.ConnectionBind, wire.Success, tx).U32(wire.AttrConnectionID, bindCID).Bytes()
		}},
		{"success:empty-body", true, func(tx [12]byte) []byte {
			return wire.New(wire.ConnectionBind, wire.Success, tx).Bytes()
		}},
		{"success:connection-id+software", true, func(tx [12]byte) []byte {
			return wire.New(wire.ConnectionBind, wire.Success, tx).U32(wire.AttrConnectionID, bindCID).
				Str(wire.AttrSoftware, "turnd").Bytes()
		}},
		{"error:400-no-reason", false, func(tx [12]byte) []byte { // what pion's server sends
			return wire.New(wire.ConnectionBind, wire.Error, tx).Attr(wire.AttrErrorCode, []byte{0, 0, 4, 0}).Bytes()
		}},
		{"error:400-reason", false, func(tx [12]byte) []byte {
			return wire.New(wire.ConnectionBind, wire.Error, tx).
				Attr(wire.AttrErrorCode, append([]byte{0, 0, 4, 0}, "Bad Request"...)).Bytes()
		}},
		{"error:438-nonce-realm", false, func(tx [12]byte) []byte {
			return wire.New(wire.ConnectionBind, wire.Error, tx).
				Attr(wire.AttrErrorCode, append([]byte{0, 0, 4, 38}, "Stale Nonce"...)).
				Str(wire.AttrNonce, "0123456789abcdef").Str(wire.AttrRealm, "pion.ly").Bytes()
		}},
	}
}

type trailSpec struct {
	name string
	b    []byte
}

func trailSpecs() []trailSpec {
	return []trailSpec{
		{"no-trailing-bytes", nil},
		{"1-application-byte", []byte{0x16}},
		{"16-application-bytes", []byte("GET / HTTP/1.1\r\n")},
	}
}

type bindReplay struct {
	Test     string `json:"test"`
	Reply    string `json:"reply"`
	Trailing string `json:"trailing"`
	Cuts     []int  `json:"cuts"`
	ReplyHex string `json:"reply_hex"`
	TrailHex string `json:"trailing_hex"`
	SegKind  string `json:"segmentation"`
}

type bindH struct {
	t       *testing.T
	r       *rep.Report
	alloc   *client.TCPAllocation
	evals   int64
	classes map[string]int64
	seen    map[string]int
	trace   bool
}

func newBindH(t *testing.T, r *rep.Report) *bindH {
	lf := logging.NewDefaultLoggerFactory()
	lf.DefaultLogLevel = logging.LogLevelDisabled
	alloc := client.NewTCPAllocation(&client.AllocationConfig{
		Client:                    stubClient{},
		RelayedAddr:               addrLocal,
		ServerAddr:                addrRemote,
		Integrity:                 stun.NewLongTermIntegrity("user", "pion.ly", "pass"),
		Nonce:                     stun.NewNonce("nonce"),
		Username:                  stun.NewUsername("user"),
		Realm:                     stun.NewRealm("pion.ly"),
		Lifetime:                  10 * time.Hour,
		PermissionRefreshInterval: 10 * time.Hour,
		Log:                       lf.NewLogger("c10"),
	})

	return &bindH{t: t, r: r, alloc: alloc, classes: map[string]int64{}, seen: map[string]int{}}
}

func errClass(err error) string {
	switch s := err.Error(); {
	case errors.Is(err, errWouldBlock):
		return "waits-for-bytes-that-were-already-consumed-or-never-come"
	case strings.Contains(s, "incomplete"):
		return "incomplete-frame"
	case strings.Contains(s, "decode"):
		return "decode-failed"
	case strings.Contains(s, "not a valid TURN frame"):
		return "invalid-frame"
	}

	return "other"
}

// runOne: BindConnection over a conn on which the reply (+ trailing
// application bytes) becomes readable as the segments given by cuts.
func (h *bindH) runOne(rs replySpec, tr trailSpec, cuts []int) (sig, detail string) {
	defer func() {
		if p := recover(); p != nil {
			sig, detail = "panic:TCPAllocation.BindConnection", fmt.Sprint(p)
		}
	}()
	conn := &sconn{}
	var req, reply []byte
	conn.onWrite = func(p []byte) {
		req = append(req, p...)
		m, err := wire.Parse(req)
		if err != nil || reply != nil {
			return
		}
		// the server answers once the complete request has been written
		reply = rs.build(m.TxID)
		all := append(append([]byte{}, reply...), tr.b...)
		prev := 0
		for _, c := range cuts {
			conn.queue = append(conn.queue, all[prev:c])
			prev = c
		}
		conn.queue = append(conn.queue, all[prev:])
	}
	err := h.alloc.BindConnection(&client.TCPConn{TCPConn: conn, ConnectionID: proto.ConnectionID(bindCID)}, proto.ConnectionID(bindCID))
	rest := conn.rest()
	if h.trace {
		fmt.Printf("request written: %s\nreply: %s\nBindConnection -> %v after %d Read calls; still readable: %s\n",
			hexShort(req), hexShort(reply), err, conn.reads, hexShort(rest))
	}
	m, perr := wire.Parse(req)
	if perr != nil || m.Method != wire.ConnectionBind || m.Class != wire.Request {
		h.t.Fatalf("harness: BindConnection did not write a ConnectionBind request (%v): %x", perr, req)
	}
	if id, ok := m.U32(wire.AttrConnectionID); !ok || id != bindCID {
		h.t.Fatalf("harness: request without the CONNECTION-ID: %x", req)
	}
	ctx := fmt.Sprintf("reply %s (%d bytes) + %s, segments cut at %v: ", rs.name, len(reply), tr.name, shortCuts(cuts))
	switch {
	case rs.success && err != nil:
		return "bind-verdict:success-reply-rejected:" + errClass(err),
			ctx + fmt.Sprintf("BindConnection returned %q; delivered in one piece the same reply is accepted", err)
	case !rs.success && err == nil:
		return "bind-verdict:error-reply-accepted", ctx + "BindConnection returned nil for an error response"
	case rs.success && !bytes.Equal(rest, tr.b):
		if len(rest) > len(tr.b) {
			return "bind-stream:reply-bytes-left-in-stream",
				ctx + fmt.Sprintf("BindConnection returned nil but %d bytes of the STUN reply are still unread on the data connection "+
					"(readable: %s, application bytes: %s)", len(rest)-len(tr.b), hexShort(rest), hexShort(tr.b))
		}

		return "bind-stream:application-bytes-consumed",
			ctx + fmt.Sprintf("readable afterwards: %s, application bytes: %s", hexShort(rest), hexShort(tr.b))
	}

	return "", ""
}

func (h *bindH) eval(rs replySpec, tr trailSpec, cuts []int, kind string) {
	h.evals++
	sig, detail := h.runOne(rs, tr, cuts)
	if sig == "" {
		return
	}
	h.seen[sig]++
	if h.seen[sig] > 2 {
		h.r.Violate(rep.Violation{Signature: sig})

		return
	}
	h.r.Violate(rep.Violation{
		Oracle: "same-verdict-and-stream-position-for-every-segmentation", Signature: sig, Detail: detail,
		Replay: bindReplay{
			Test: "bindreply", Reply: rs.name, Trailing: tr.name, Cuts: append([]int{}, cuts...),
			ReplyHex: hexShort(rs.build([12]byte{})), TrailHex: hexShort(tr.b), SegKind: kind,
		},
	})
}

func TestC10BindReply(t *testing.T) {
	r := rep.New("C10")
	defer r.Write()
	h := newBindH(t, r)
	defer h.alloc.Close() //nolint:errcheck

	replies, trails := replySpecs(), trailSpecs()
	if p := rep.ReplayPath(); p != "" {
		raw, err := os.ReadFile(p)
		if err != nil {
			t.Fatal(err)
		}
		var rp bindReplay
		if err := json.Unmarshal(raw, &rp); err != nil {
			t.Fatal(err)
		}
		if rp.Test != "bindreply" {
			t.Skip("replay is for another test")
		}
		h.trace = true
		for _, rs := range replies {
			for _, tr := range trails {
				if rs.name == rp.Reply && tr.name == rp.Trailing {
					sig, detail := h.runOne(rs, tr, rp.Cuts)
					fmt.Printf("replay: %s %s\n", sig, detail)
					if sig != "" {
						r.Violate(rep.Violation{Signature: sig, Detail: detail, Replay: rp})
					}
				}
			}
		}

		return
	}

	shard, nshards := rep.Shard()
	type combo struct {
		rs replySpec
		tr trailSpec
	}
	var combos []combo
	for _, rs := range replies {
		for _, tr := range trails {
			combos = append(combos, combo{rs, tr})
		}
	}
	for x := shard; x < len(combos); x += nshards {
		rs, tr := combos[x].rs, combos[x].tr
		if r.OverBudget("bind reply combination " + rs.name + "/" + tr.name) {
			break
		}
		n := len(rs.build([12]byte{})) + len(tr.b)
		key := rs.name + "|" + tr.name + "|"
		count := func(kind string, e0 int64) { h.classes[key+kind] += h.evals - e0 }

		e0 := h.evals
		h.eval(rs, tr, nil, "whole")
		count("whole", e0)
		cuts := make([]int, 0, n)
		for c := 1; c < n; c++ {
			cuts = append(cuts, c)
		}
		e0 = h.evals
		h.eval(rs, tr, cuts, "byte-at-a-time")
		count("byte-at-a-time", e0)
		e0 = h.evals
		for c := 1; c < n; c++ {
			h.eval(rs, tr, append(cuts[:0], c), "single-cut")
		}
		count("single-cut", e0)
		e0 = h.evals
		for c1 := 1; c1 < n; c1++ {
			for c2 := c1 + 1; c2 < n; c2++ {
				h.eval(rs, tr, append(cuts[:0], c1, c2), "double-cut")
			}
		}
		count("double-cut", e0)
		if rep.Thorough() {
			e0 = h.evals
			for c1 := 1; c1 < n; c1++ {
				for c2 := c1 + 1; c2 < n; c2++ {
					for c3 := c2 + 1; c3 < n; c3++ {
						h.eval(rs, tr, append(cuts[:0], c1, c2, c3), "triple-cut")
					}
				}
			}
			count("triple-cut", e0)
		}
	}
	r.Evaluations = h.evals
	for k, v := range h.classes {
		r.Classes[k] += v
	}
	if shard == 0 {
		for _, rs := range replies[:2] {
			r.Sample(map[string]any{"reply": rs.name, "hex": hexShort(rs.build(txid(1)))})
		}
	}
}
