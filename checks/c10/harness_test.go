// Package c10 checks property C10: stream framing (proto.STUNConn.ReadFrom and
// the ConnectionBind reply parsing of client.TCPAllocation.BindConnection) is
// independent of TCP segmentation and always makes progress.
//
// Everything is bounded-exhaustive enumeration; the oracle is the reference
// framer wire.FrameLen (written from RFC 5389 §6 / RFC 5766 §11.4-11.5).
package c10

import (
	"encoding/binary"
	"encoding/hex"
	"errors"
	"fmt"
	"io"
	"net"
	"runtime"
	"time"

	"github.com/pion/turn/v5/verif/wire"
)

// errWouldBlock is what the scripted conn answers when every delivered byte
// has been read: "a real socket would block here". It makes "the code under
// test is waiting for more input" observable synchronously.
var errWouldBlock = errors.New("c10: no more delivered bytes (a real socket would block)")

var (
	addrLocal  = &net.TCPAddr{IP: net.IPv4(10, 0, 0, 1), Port: 3478}
	addrRemote = &net.TCPAddr{IP: net.IPv4(10, 0, 0, 2), Port: 50000}
)

// sconn is a scripted stream socket. pend is the rest of the segment that is
// currently readable, queue are segments that become readable after it. A
// Read returns bytes of exactly one segment (at most len(p) of them; the rest
// of the segment stays readable, like a TCP socket), never blocks, and
// returns errWouldBlock when nothing is left.
type sconn struct {
	pend    []byte
	queue   [][]byte
	reads   int
	onWrite func(p []byte)
	// Legal io.Reader behaviours other than "data, then the error on the next call":
	eofWithLast bool // the bytes that end the stream are returned together with io.EOF (as crypto/tls does with a close_notify)
	lastSeg     bool // set by the driver while the final segment is pending
	empties     int  // every data read is preceded by this many (0, nil) results (as pion/dtls does for empty records)
	emptyLeft   int
	baseDepth   int // call-stack depth of the first Read
	maxDepth    int // call-stack depth after the first run of empty reads (recursion per empty read shows here)
	sawEOF      bool
	wbHits      int // Reads answered "would block" since the driver last reset the counter
}

func (c *sconn) Read(p []byte) (int, error) {
	c.reads++
	if len(p) == 0 {
		return 0, nil
	}
	if c.empties > 0 && c.baseDepth == 0 {
		// the call-stack depth of the very first Read ...
		var pcs [96]uintptr
		c.baseDepth = runtime.Callers(0, pcs[:])
	}
	if c.empties > 0 && c.emptyLeft == 0 && c.maxDepth == 0 {
		// ... and, once per run, at the end of the first run of empty reads
		var pcs [96]uintptr
		c.maxDepth = runtime.Callers(0, pcs[:])
	}
	for len(c.pend) == 0 {
		if len(c.queue) == 0 {
			if c.sawEOF {
				return 0, io.EOF
			}

			c.wbHits++

			return 0, errWouldBlock
		}
		c.pend, c.queue = c.queue[0], c.queue[1:]
	}
	if c.empties > 0 {
		if c.emptyLeft > 0 {
			c.emptyLeft--

			return 0, nil
		}
		c.emptyLeft = c.empties
	}
	n := copy(p, c.pend)
	c.pend = c.pend[n:]
	if c.eofWithLast && c.lastSeg && len(c.pend) == 0 && len(c.queue) == 0 {
		c.sawEOF = true

		return n, io.EOF
	}

	return n, nil
}

// rest returns every byte that is still readable.
func (c *sconn) rest() []byte {
	out := append([]byte{}, c.pend...)
	for _, q := range c.queue {
		out = append(out, q...)
	}

	return out
}

func (c *sconn) Write(p []byte) (int, error) {
	if c.onWrite != nil {
		c.onWrite(p)
	}

	return len(p), nil
}
func (c *sconn) Close() error                           { return nil }
func (c *sconn) LocalAddr() net.Addr                    { return addrLocal }
func (c *sconn) RemoteAddr() net.Addr                   { return addrRemote }
func (c *sconn) SetDeadline(time.Time) error            { return nil }
func (c *sconn) SetReadDeadline(time.Time) error        { return nil }
func (c *sconn) SetWriteDeadline(time.Time) error       { return nil }
func (c *sconn) CloseRead() error                       { return nil }
func (c *sconn) CloseWrite() error                      { return nil }
func (c *sconn) ReadFrom(io.Reader) (int64, error)      { return 0, errors.New("c10: not scripted") }
func (c *sconn) SetLinger(int) error                    { return nil }
func (c *sconn) SetKeepAlive(bool) error                { return nil }
func (c *sconn) SetKeepAlivePeriod(time.Duration) error { return nil }
func (c *sconn) SetNoDelay(bool) error                  { return nil }
func (c *sconn) SetWriteBuffer(int) error               { return nil }
func (c *sconn) SetReadBuffer(int) error                { return nil }

// ---------------------------------------------------------------------------
// Frame alphabet.

// letter is one element of the frame alphabet.
type letter struct {
	Name  string // unique, used in replays
	Kind  string // stun | chandata | invalid
	Class string // reference class of the frame (size / content class)
	Wire  []byte // the frame as it travels over a stream (ChannelData padded to 4)
}

var cookie = []byte{0x21, 0x12, 0xA4, 0x42}

// pattern returns n deterministic bytes none of which starts a magic cookie.
func pattern(n int, seed byte) []byte {
	b := make([]byte, n)
	for i := range b {
		b[i] = byte(0xA0 + (i*7+int(seed)*3)%0x5B) // 0xA0..0xFA: never 0x21
	}

	return b
}

func txid(seed byte) (tx [12]byte) {
	for i := range tx {
		tx[i] = 0xE0 | (seed+byte(i))&0x0F
	}

	return
}

func stunLetter(body int) *letter {
	method, class := uint16(wire.Binding), uint8(wire.Request)
	if body%8 == 4 {
		method, class = wire.Send, wire.Indication
	}
	b := wire.New(method, class, txid(byte(body)))
	if body > 0 {
		// one DATA attribute: 4-byte header + value; choose an unpadded value
		// length where that is possible so that attribute padding occurs too.
		v := body - 4
		if v >= 4 && body <= 12 {
			v -= 3
		}
		b.Attr(wire.AttrData, pattern(v, byte(body)))
	}
	w := b.Bytes()
	if len(w) != 20+body {
		panic(fmt.Sprintf("c10 harness: stun letter body %d built %d bytes", body, len(w)))
	}
	cl := "body<=12"
	switch {
	case len(w) > 65535:
		cl = "size>65535"
	case body > 12:
		cl = "body=65512"
	}

	return &letter{Name: fmt.Sprintf("stun:%d", body), Kind: "stun", Class: cl, Wire: w}
}

func cdLetter(num uint16, plen int) *letter {
	w := wire.ChannelData(num, pattern(plen, byte(num>>8)^byte(plen)), true)
	cl := "payload5-8"
	switch {
	case len(w) > 65535:
		cl = "size>65535"
	case plen <= 4:
		cl = "payload<=4"
	}

	return &letter{Name: fmt.Sprintf("cd:%04x:%d", num, plen), Kind: "chandata", Class: cl, Wire: w}
}

func cdCookieLetter(num uint16, plen int) *letter {
	p := pattern(plen, byte(plen))
	copy(p, cookie)
	cl := "cookie-payload"
	if plen <= 4 {
		cl = "cookie-payload,payload<=4"
	}

	return &letter{
		Name: fmt.Sprintf("cdcookie:%04x:%d", num, plen), Kind: "chandata", Class: cl,
		Wire: wire.ChannelData(num, p, true),
	}
}

// invalid tails: 24 bytes that cannot begin a frame.
func badLetter(name, class string, first byte, withCookie bool) *letter {
	w := pattern(24, first)
	w[0] = first
	w[1] = 0x01
	binary.BigEndian.PutUint16(w[2:], 4)
	if withCookie {
		copy(w[4:], cookie)
	} else {
		copy(w[4:], []byte{0xDE, 0xAD, 0xBE, 0xEF})
	}

	return &letter{Name: "bad:" + name, Kind: "invalid", Class: class, Wire: w}
}

type alphabet struct {
	small, reduced, large, tails []*letter
	byName                       map[string]*letter
}

func buildAlphabet() *alphabet {
	a := &alphabet{byName: map[string]*letter{}}
	for _, body := range []int{0, 4, 8, 12} {
		a.small = append(a.small, stunLetter(body))
	}
	for _, num := range []uint16{0x4000, 0x4ABC, 0x7FFF} {
		for _, l := range []int{0, 1, 2, 3, 4, 5, 7, 8} {
			a.small = append(a.small, cdLetter(num, l))
		}
	}
	for _, l := range []int{4, 16, 17, 20} {
		a.small = append(a.small, cdCookieLetter(0x4000, l))
	}
	a.small = append(a.small, cdCookieLetter(0x7FFF, 16))

	for _, body := range []int{65512, 65516, 65532} {
		a.large = append(a.large, stunLetter(body))
	}
	for _, num := range []uint16{0x4000, 0x4ABC, 0x7FFF} {
		for _, l := range []int{65531, 65532, 65533, 65534, 65535} {
			a.large = append(a.large, cdLetter(num, l))
		}
	}
	a.tails = []*letter{
		badLetter("topbits10", "topbits1x", 0x80, false),
		badLetter("topbits11", "topbits1x", 0xC0, false),
		badLetter("stun-without-cookie", "stun-without-cookie", 0x00, false),
		badLetter("topbits10+cookie", "topbits1x+cookie", 0x80, true),
		badLetter("topbits11+cookie", "topbits1x+cookie", 0xC0, true),
	}
	for _, set := range [][]*letter{a.small, a.large, a.tails} {
		for _, l := range set {
			if _, dup := a.byName[l.Name]; dup {
				panic("c10 harness: duplicate letter " + l.Name)
			}
			a.byName[l.Name] = l
		}
	}
	for _, n := range []string{
		"stun:0", "stun:8", "cd:4000:0", "cd:4abc:3", "cd:7fff:5", "cd:4000:8", "cdcookie:4000:16", "cdcookie:4000:4",
	} {
		a.reduced = append(a.reduced, a.byName[n])
	}

	return a
}

// ---------------------------------------------------------------------------
// Streams.

// stream is the concatenation of a sequence of letters together with what
// the reference framer says about it.
type stream struct {
	letters  []*letter
	b        []byte
	ends     []int // end offset of every valid frame, in order
	bad      int   // offset at which the invalid tail starts, -1 when there is none
	key      string
	maxFrame int
}

func mkStream(ls []*letter) (*stream, error) {
	st := &stream{letters: ls, bad: -1}
	n := 0
	for _, l := range ls {
		n += len(l.Wire)
	}
	st.b = make([]byte, 0, n)
	for i, l := range ls {
		if i > 0 {
			st.key += ","
		}
		st.key += l.Kind + ":" + l.Class
		if l.Kind == "invalid" {
			if i != len(ls)-1 {
				return nil, errors.New("invalid tail must be last")
			}
			st.bad = len(st.b)
		} else {
			st.ends = append(st.ends, len(st.b)+len(l.Wire))
			st.maxFrame = max(st.maxFrame, len(l.Wire))
		}
		st.b = append(st.b, l.Wire...)
	}
	// The reference framer must agree with the construction (self-check of
	// the harness, not of the code under test).
	off := 0
	for i, e := range st.ends {
		fl, err := wire.FrameLen(st.b[off:])
		if err != nil || off+fl != e {
			return nil, fmt.Errorf("reference framer disagrees at frame %d of %s: len %d err %v, want end %d", i, st.names(), fl, err, e)
		}
		// ... and must not see the frame one byte earlier.
		if fl2, err2 := wire.FrameLen(st.b[off : e-1]); fl2 != 0 || err2 != nil {
			return nil, fmt.Errorf("reference framer sees frame %d of %s before its last byte (%d, %v)", i, st.names(), fl2, err2)
		}
		off = e
	}
	if st.bad >= 0 {
		if _, err := wire.FrameLen(st.b[st.bad:]); err == nil {
			return nil, fmt.Errorf("reference framer accepts invalid tail of %s", st.names())
		}
	} else if off != len(st.b) {
		return nil, errors.New("stream has trailing bytes")
	}

	return st, nil
}

func (st *stream) names() []string {
	out := make([]string, len(st.letters))
	for i, l := range st.letters {
		out[i] = l.Name
	}

	return out
}

// at names the reference class of the frame (or tail) with index i.
func (st *stream) at(i int) string {
	if i < len(st.letters) {
		return st.letters[i].Kind + ":" + st.letters[i].Class
	}

	return "end-of-stream"
}

func hexShort(b []byte) string {
	if len(b) <= 96 {
		return hex.EncodeToString(b)
	}

	return hex.EncodeToString(b[:48]) + fmt.Sprintf("...(%d bytes)...", len(b)-64) + hex.EncodeToString(b[len(b)-16:])
}
