package c10

import (
	"fmt"
	"testing"

	"github.com/pion/turn/v5/internal/client"
	"github.com/pion/turn/v5/internal/proto"
	"github.com/pion/turn/v5/verif/rep"
	"github.com/pion/turn/v5/verif/wire"
)

// gconn is a data connection whose reply arrives in two segments; the Read
// for the second one parks until the test releases it (fully sequenced: no
// timing is involved).
type gconn struct {
	sconn
	second  []byte
	waiting chan struct{}
	release chan struct{}
	parked  bool
}

func (c *gconn) Read(p []byte) (int, error) {
	if len(c.pend) == 0 && len(c.queue) == 0 && c.second != nil && !c.parked {
		c.parked = true
		c.waiting <- struct{}{}
		<-c.release
		c.pend, c.second = c.second, nil
	}

	return c.sconn.Read(p)
}

// TestC10TwoBinds: two ConnectionBind transactions of ONE TCP allocation in
// flight at once (Dial + Accept, or two Dials): the reply of the first arrives
// cut at every offset, the second bind - another data connection, another
// reply - runs completely between the two segments. Each BindConnection must
// come to the verdict of its own reply and leave no byte of it behind.
func TestC10TwoBinds(t *testing.T) {
	r := rep.New("C10")
	defer r.Write()
	if i, _ := rep.Shard(); i != 0 {
		return
	}
	h := newBindH(t, r)
	specs := replySpecs()
	for ai, ra := range specs {
		for bi, rb := range specs {
			if ai == bi {
				continue
			}
			replyLen := len(ra.build([12]byte{}))
			for cut := 1; cut < replyLen; cut++ {
				r.Evaluations++
				ca := &gconn{waiting: make(chan struct{}), release: make(chan struct{})}
				var reqA []byte
				ca.onWrite = func(p []byte) {
					reqA = append(reqA, p...)
					if m, err := wire.Parse(reqA); err == nil && ca.second == nil && len(ca.queue) == 0 && !ca.parked {
						reply := ra.build(m.TxID)
						ca.queue = append(ca.queue, reply[:cut])
						ca.second = reply[cut:]
					}
				}
				cb := &sconn{}
				var reqB []byte
				cb.onWrite = func(p []byte) {
					reqB = append(reqB, p...)
					if m, err := wire.Parse(reqB); err == nil && len(cb.queue) == 0 {
						cb.queue = append(cb.queue, rb.build(m.TxID))
					}
				}
				errA := make(chan error, 1)
				go func() {
					defer func() {
						if p := recover(); p != nil {
							errA <- fmt.Errorf("panic: %v", p)
						}
					}()
					errA <- h.alloc.BindConnection(&client.TCPConn{TCPConn: ca, ConnectionID: proto.ConnectionID(bindCID)}, proto.ConnectionID(bindCID))
				}()
				var eB error
				select {
				case <-ca.waiting: // the first bind has read its first segment and waits for the rest
					eB = h.alloc.BindConnection(&client.TCPConn{TCPConn: cb, ConnectionID: proto.ConnectionID(bindCID + 1)}, proto.ConnectionID(bindCID+1))
					ca.release <- struct{}{}
				case e := <-errA: // it gave its verdict without asking for the second segment
					errA <- e
					eB = h.alloc.BindConnection(&client.TCPConn{TCPConn: cb, ConnectionID: proto.ConnectionID(bindCID + 1)}, proto.ConnectionID(bindCID+1))
				}
				eA := <-errA
				ctx := fmt.Sprintf("first reply %s cut at %d of %d, second reply %s: ", ra.name, cut, replyLen, rb.name)
				fail := func(sig, detail string) {
					r.Violate(rep.Violation{Oracle: "two-binds-in-flight", Signature: sig, Detail: ctx + detail,
						Replay: map[string]any{"test": "twobinds", "first": ra.name, "second": rb.name, "cut": cut}})
				}
				switch {
				case ra.success != (eA == nil):
					fail("two-binds:first-bind-verdict-differs-from-its-reply", fmt.Sprintf("BindConnection -> %v", eA))
				case rb.success != (eB == nil):
					fail("two-binds:second-bind-verdict-differs-from-its-reply", fmt.Sprintf("BindConnection -> %v", eB))
				case ra.success && (len(ca.rest()) != 0 || ca.second != nil):
					fail("two-binds:reply-bytes-left-in-stream", fmt.Sprintf("%d bytes of the first reply unread", len(ca.rest())+len(ca.second)))
				case rb.success && len(cb.rest()) != 0:
					fail("two-binds:reply-bytes-left-in-stream", fmt.Sprintf("%d bytes of the second reply unread", len(cb.rest())))
				}
			}
			r.Class(fmt.Sprintf("two binds in flight: %s cut everywhere, %s between the segments -> own verdicts", ra.name, rb.name))
		}
	}
}
