package c10

import (
	"bytes"
	"encoding/json"
	"errors"
	"fmt"
	"io"
	"os"
	"runtime"
	"runtime/debug"
	"sort"
	"testing"
	"time"

	"github.com/pion/turn/v5/internal/proto"
	"github.com/pion/turn/v5/verif/rep"
)

// Work item modes.
const (
	mBasic       = iota // whole, byte-at-a-time, every single cut, every pair of cuts (n <= 200)
	mAllSeg             // a chunk of all 2^(n-1) segmentations
	mLargeBasic         // whole, byte-at-a-time
	mLargeSingle        // a chunk of every single cut
	mLargeWindow        // single cuts (and pairs of cuts when pairs is set) inside the boundary windows
)

var modeNames = []string{"small-basic", "small-all-segmentations", "large-basic", "large-single-cut", "large-boundary-cuts"}

type item struct {
	ls             []*letter
	mode           int
	chunk, nchunks int
	pairs          bool
}

const (
	pairCutLimit = 200 // every pair of cuts for streams up to this many bytes
	windowBefore = 8   // mLargeWindow: cut offsets from this many bytes before ...
	windowAfter  = 24  // ... to this many bytes after the start, every frame boundary and the end
)

// sequences appends every sequence of exactly k letters over set.
func sequences(set []*letter, k int, emit func([]*letter)) {
	idx := make([]int, k)
	for {
		ls := make([]*letter, k)
		for i, x := range idx {
			ls[i] = set[x]
		}
		emit(ls)
		i := k - 1
		for i >= 0 && idx[i] == len(set)-1 {
			idx[i] = 0
			i--
		}
		if i < 0 {
			return
		}
		idx[i]++
	}
}

func streamLen(ls []*letter) int {
	n := 0
	for _, l := range ls {
		n += len(l.Wire)
	}

	return n
}

// buildItems lists the whole domain of the tier as work items, in a fixed
// order. Shards take every n-th item.
func buildItems(a *alphabet, thorough bool) []item {
	var items []item
	// every one of the 2^(n-1) segmentations is run for streams of at most
	// this many bytes (frames are 4-aligned, so the limits are multiples of 4)
	allSegLimit := func(frames int) int {
		switch {
		case frames == 1 && thorough:
			return 24
		case frames == 1, frames == 2 && thorough:
			return 20
		}

		return 16
	}
	addSmall := func(ls []*letter) {
		items = append(items, item{ls: ls, mode: mBasic})
		n := streamLen(ls)
		if n <= allSegLimit(len(ls)) {
			nch := 1
			if n > 16 {
				nch = 1 << (n - 17) // <= 2^16 segmentations per chunk
			}
			for c := range nch {
				items = append(items, item{ls: ls, mode: mAllSeg, chunk: c, nchunks: nch})
			}
		}
	}
	addLarge := func(ls []*letter, allCuts, pairs bool) {
		items = append(items, item{ls: ls, mode: mLargeBasic})
		if allCuts {
			for c := range 16 {
				items = append(items, item{ls: ls, mode: mLargeSingle, chunk: c, nchunks: 16})
			}
		}
		if !allCuts || pairs {
			items = append(items, item{ls: ls, mode: mLargeWindow, pairs: pairs})
		}
	}

	// 1. single frames and single invalid tails
	for _, l := range a.small {
		addSmall([]*letter{l})
	}
	for _, l := range a.tails {
		addSmall([]*letter{l})
	}
	// 2. large single frames: every single cut
	for _, l := range a.large {
		addLarge([]*letter{l}, true, thorough)
	}
	// 3. pairs of small frames; one small frame followed by an invalid tail
	sequences(a.small, 2, addSmall)
	for _, l := range a.small {
		for _, t := range a.tails {
			addSmall([]*letter{l, t})
		}
	}
	// 4. pairs with large frames
	for _, l := range a.large {
		for _, s := range a.reduced {
			addLarge([]*letter{l, s}, thorough, thorough)
			addLarge([]*letter{s, l}, thorough, thorough)
		}
	}
	if thorough {
		for _, l := range a.large {
			for _, s := range a.small {
				if !containsLetter(a.reduced, s) {
					addLarge([]*letter{l, s}, false, true)
					addLarge([]*letter{s, l}, false, true)
				}
			}
		}
		sequences(a.large, 2, func(ls []*letter) { addLarge(ls, false, true) })
	}
	// 5. triples
	if thorough {
		sequences(a.small, 3, addSmall)
		sequences(a.small, 2, func(ls []*letter) {
			for _, t := range a.tails {
				addSmall([]*letter{ls[0], ls[1], t})
			}
		})
	} else {
		sequences(a.reduced, 3, addSmall)
	}

	return items
}

func letterNames(ls []*letter) []string {
	out := make([]string, len(ls))
	for i, l := range ls {
		out[i] = l.Name
	}

	return out
}

func containsLetter(set []*letter, l *letter) bool {
	for _, x := range set {
		if x == l {
			return true
		}
	}

	return false
}

// ---------------------------------------------------------------------------

type framerH struct {
	r       *rep.Report
	conn    sconn
	bufs    map[int][]byte
	evals   int64
	reads   int64 // socket Read calls made by the code under test
	classes map[string]int64
	seen    map[string]int
	trace   func(string, ...any)
}

func newFramerH(r *rep.Report) *framerH {
	return &framerH{
		r: r, classes: map[string]int64{}, seen: map[string]int{},
		bufs: map[int][]byte{1600: make([]byte, 1600), 65536: make([]byte, 65536), 65600: make([]byte, 65600)},
	}
}

// bufSizes: the read buffer sizes a stream is run with: buffers that can hold
// every frame of the stream and, for streams with a frame above 1600 bytes,
// the 1600-byte buffer of the server's and the client's read loops as well
// (the oversized frame is reported with its full length, truncated to the
// buffer, and consumed whole: "a successful read consumes the bytes it returns").
func bufSizes(st *stream) []int {
	switch {
	case st.maxFrame <= 1600:
		return []int{1600, 65536}
	case st.maxFrame <= 65536:
		return []int{65536, 1600}
	}

	return []int{65600, 1600}
}

// runOne drives a fresh STUNConn over the stream delivered as the segments
// given by cuts (ascending offsets in 1..n-1) and returns the signature of
// the first deviation from the reference framer ("" when there is none).
func (h *framerH) runOne(st *stream, cuts []int, buf []byte) (sig, detail string) {
	return h.runMode(st, cuts, buf, "")
}

// runMode is runOne with a reader behaviour: "" (data, then errors separately), "eof-with-last" (the final
// bytes come together with io.EOF), "empty-reads" (8 (0, nil) results before every data read).
func (h *framerH) runMode(st *stream, cuts []int, buf []byte, mode string) (sig, detail string) {
	defer func() {
		if p := recover(); p != nil {
			sig, detail = "panic:STUNConn.ReadFrom", fmt.Sprint(p)
		}
	}()
	c := &h.conn
	*c = sconn{eofWithLast: mode == "eof-with-last"}
	if mode == "empty-reads" {
		c.empties, c.emptyLeft = 8, 8
	}
	sc := proto.NewSTUNConn(c)
	n, nf := len(st.b), len(st.ends)
	maxResults := 10*nf + 10 // cap on ReadFrom results that are not "would block"
	next, pos, prev, results, zeros := 0, 0, 0, 0, 0
	for j := 0; j <= len(cuts); j++ {
		end := n
		if j < len(cuts) {
			end = cuts[j]
		}
		c.pend = st.b[prev:end] // deliver bytes [prev,end)
		c.lastSeg = j == len(cuts)
		prev = end
		if h.trace != nil {
			h.trace("deliver bytes [%d,%d) (%d delivered)", end-len(c.pend), end, end)
		}
		for {
			c.wbHits = 0
			got, _, err := sc.ReadFrom(buf)
			if h.trace != nil {
				h.trace("  ReadFrom -> n=%d err=%v %s", got, err, hexShort(buf[:min(max(got, 0), len(buf))]))
			}
			if err != nil {
				if errors.Is(err, errWouldBlock) {
					break
				}
				if errors.Is(err, io.EOF) && c.sawEOF {
					if next < nf && st.ends[next] <= end {
						return "frame-lost:bytes-returned-together-with-EOF-were-discarded:" + st.at(next),
							fmt.Sprintf("frame %d (offsets %d..%d) was completed by a Read that returned (n>0, io.EOF); ReadFrom answered %q and the frame is gone", next, pos, st.ends[next], err)
					}

					break // every completed frame was handed out before the EOF: fine
				}
				if next == nf && st.bad >= 0 {
					return "", "" // the invalid tail was answered with an error
				}

				return "error-on-valid-stream:" + st.at(next),
					fmt.Sprintf("ReadFrom returned error %q although the bytes at offset %d begin a valid frame", err, pos)
			}
			if got > 0 && c.wbHits > 0 {
				// the frame was complete with the bytes delivered, yet the packetiser asked the transport for more
				// before handing it out: on a connection that stays open and idle that Read does not return
				return "frame-withheld:waits-for-bytes-it-does-not-need:" + st.at(min(next, nf-1)),
					fmt.Sprintf("ReadFrom returned %d bytes only after a Read that found nothing more to read (%d delivered bytes, next frame %d at offset %d): a blocking transport would still be waiting",
						got, end, next, pos)
			}
			results++
			if results > maxResults {
				if zeros > 0 {
					return "zero-length-frame-loop:" + st.at(next),
						fmt.Sprintf("%d successful ReadFrom results, %d of them with n=0 and no further socket read, while %d bytes were delivered "+
							"and frame %d (offset %d..%d) is next: the reader never makes progress", results, zeros, end, next, pos, frameEnd(st, next))
				}

				return "result-cap:" + st.at(next), fmt.Sprintf("%d results for %d frames", results, nf)
			}
			if got == 0 {
				zeros++

				continue
			}
			if next == nf {
				if st.bad >= 0 {
					return "data-from-invalid-start:" + st.at(next),
						fmt.Sprintf("ReadFrom returned %d bytes of data (%s) for bytes at offset %d that cannot begin a frame", got, hexShort(buf[:min(got, len(buf))]), pos)
				}

				return "phantom-frame:" + st.at(next), fmt.Sprintf("ReadFrom returned %d bytes after the last frame", got)
			}
			fe := st.ends[next]
			m := min(got, len(buf))
			// a frame larger than the caller's buffer is reported with its full length and as many of its bytes as fit;
			// all of it is consumed: the frames behind it must come out whole and in step
			if got == fe-pos && fe <= end && bytes.Equal(buf[:m], st.b[pos:pos+m]) {
				pos, next = fe, next+1

				continue
			}
			what := fmt.Sprintf("frame %d (%s) occupies offsets %d..%d (%d bytes); after %d delivered bytes ReadFrom returned n=%d: %s",
				next, st.letters[next].Name, pos, fe, fe-pos, end, got, hexShort(buf[:m]))
			switch {
			case pos+got <= n && bytes.Equal(buf[:m], st.b[pos:pos+m]) && got < fe-pos:
				return "frame-truncated:" + st.at(next), what + " - a proper prefix of the frame"
			case pos+got <= n && bytes.Equal(buf[:m], st.b[pos:pos+m]) && got > fe-pos:
				return "frames-merged:" + st.at(next), what + " - the frame together with bytes that follow it"
			default:
				return "frame-corrupt:" + st.at(next), what
			}
		}
		if next < nf && st.ends[next] <= end {
			return "frame-withheld:" + st.at(next),
				fmt.Sprintf("frame %d (%s, offsets %d..%d) is completely delivered (%d bytes delivered) but ReadFrom waits for more input",
					next, st.letters[next].Name, pos, st.ends[next], end)
		}
		if next == nf && st.bad >= 0 && end-st.bad >= 20 {
			return "no-error-for-invalid-start:" + st.at(next),
				fmt.Sprintf("%d bytes that cannot begin a frame are delivered at offset %d but ReadFrom waits for more input", end-st.bad, st.bad)
		}
	}
	if zeros > 0 {
		return "zero-length-read:" + st.at(min(next, nf)), fmt.Sprintf("%d successful ReadFrom results with n=0", zeros)
	}
	if c.empties > 0 && c.maxDepth-c.baseDepth >= c.empties {
		return "stack-grows-with-every-empty-read", fmt.Sprintf("the call stack inside Read is %d frames deeper after a run of %d empty (0, nil) reads than at the first Read: one nested ReadFrom per empty read, without bound", c.maxDepth-c.baseDepth, c.empties)
	}

	return "", ""
}

func frameEnd(st *stream, i int) int {
	if i < len(st.ends) {
		return st.ends[i]
	}

	return len(st.b)
}

type framerReplay struct {
	Test      string   `json:"test"`
	Frames    []string `json:"frames"`
	Cuts      []int    `json:"cuts"`
	Buf       int      `json:"buf"`
	StreamLen int      `json:"stream_len"`
	StreamHex string   `json:"stream_hex"`
	SegKind   string   `json:"segmentation"`
}

// eval runs one (stream, segmentation, buffer) case and records the outcome.
func (h *framerH) eval(st *stream, cuts []int, bufSize int, kind string) {
	h.evals++
	sig, detail := h.runOne(st, cuts, h.bufs[bufSize])
	h.reads += int64(h.conn.reads)
	if sig == "" && st.bad < 0 {
		// the same stream and segmentation through the two other legal reader behaviours
		for _, mode := range []string{"eof-with-last", "empty-reads"} {
			if mode == "empty-reads" && (len(st.b) > 512 || (len(cuts) > 8 && kind != "byte-at-a-time")) {
				// 8 extra reads per data read: kept to the short streams and few segments - and to the byte-at-a-time
				// delivery of streams up to 512 bytes, where one frame sees hundreds of empty reads in total
				continue
			}
			h.evals++
			if sig, detail = h.runMode(st, cuts, h.bufs[bufSize], mode); sig != "" {
				kind += ", reader=" + mode

				break
			}
		}
	}
	if sig == "" {
		return
	}
	h.seen[sig]++
	if h.seen[sig] > 2 {
		h.r.Violate(rep.Violation{Signature: sig}) // counted only

		return
	}
	h.r.Violate(rep.Violation{
		Oracle:    "reference-framer(wire.FrameLen)",
		Signature: sig,
		Detail:    fmt.Sprintf("frames %v, %s, cuts %v, read buffer %d: %s", st.names(), kind, shortCuts(cuts), bufSize, detail),
		Replay: framerReplay{
			Test: "framer", Frames: st.names(), Cuts: append([]int{}, cuts...), Buf: bufSize,
			StreamLen: len(st.b), StreamHex: hexShort(st.b), SegKind: kind,
		},
	})
}

func shortCuts(c []int) string {
	if len(c) <= 24 {
		return fmt.Sprint(c)
	}

	return fmt.Sprintf("%v...(%d cuts)", c[:24], len(c))
}

func (h *framerH) class(st *stream, kind string, bufSize int, n int64) {
	h.classes[fmt.Sprintf("%s|%s|buf%d", st.key, kind, bufSize)] += n
}

func (h *framerH) runItem(it item) error {
	st, err := mkStream(it.ls)
	if err != nil {
		return err
	}
	n := len(st.b)
	cuts := make([]int, 0, n)
	for _, bs := range bufSizes(st) {
		e0 := h.evals
		switch it.mode {
		case mBasic, mLargeBasic:
			h.eval(st, nil, bs, "whole")
			h.class(st, "whole", bs, 1)
			cuts = cuts[:0]
			for c := 1; c < n; c++ {
				cuts = append(cuts, c)
			}
			h.eval(st, cuts, bs, "byte-at-a-time")
			h.class(st, "byte-at-a-time", bs, 1)
			if it.mode == mLargeBasic {
				break
			}
			e0 = h.evals
			for c := 1; c < n; c++ {
				cuts = append(cuts[:0], c)
				h.eval(st, cuts, bs, "single-cut")
			}
			h.class(st, "single-cut", bs, h.evals-e0)
			if n <= pairCutLimit {
				e0 = h.evals
				for c1 := 1; c1 < n; c1++ {
					for c2 := c1 + 1; c2 < n; c2++ {
						cuts = append(cuts[:0], c1, c2)
						h.eval(st, cuts, bs, "double-cut")
					}
				}
				h.class(st, "double-cut", bs, h.evals-e0)
			}
		case mAllSeg:
			total := uint64(1) << (n - 1)
			lo := total / uint64(it.nchunks) * uint64(it.chunk)
			hi := lo + total/uint64(it.nchunks)
			for mask := lo; mask < hi; mask++ {
				cuts = cuts[:0]
				for k := 0; k < n-1; k++ {
					if mask>>k&1 == 1 {
						cuts = append(cuts, k+1)
					}
				}
				h.eval(st, cuts, bs, "all-segmentations")
			}
			h.class(st, "all-segmentations", bs, h.evals-e0)
		case mLargeSingle:
			lo := 1 + (n-1)*it.chunk/it.nchunks
			hi := 1 + (n-1)*(it.chunk+1)/it.nchunks
			for c := lo; c < hi; c++ {
				cuts = append(cuts[:0], c)
				h.eval(st, cuts, bs, "single-cut")
			}
			h.class(st, "single-cut", bs, h.evals-e0)
		case mLargeWindow:
			w := windowCuts(st)
			for _, c := range w {
				cuts = append(cuts[:0], c)
				h.eval(st, cuts, bs, "single-cut@frame-boundaries")
			}
			h.class(st, "single-cut@frame-boundaries", bs, h.evals-e0)
			if it.pairs {
				e0 = h.evals
				for i, c1 := range w {
					for _, c2 := range w[i+1:] {
						cuts = append(cuts[:0], c1, c2)
						h.eval(st, cuts, bs, "double-cut@frame-boundaries")
					}
				}
				h.class(st, "double-cut@frame-boundaries", bs, h.evals-e0)
			}
		}
	}

	return nil
}

// windowCuts: every cut offset from windowBefore bytes before to windowAfter
// bytes after the start, every frame boundary and the end of the stream.
func windowCuts(st *stream) []int {
	n := len(st.b)
	set := map[int]bool{}
	marks := append([]int{0, n}, st.ends...)
	for _, m := range marks {
		for c := m - windowBefore; c <= m+windowAfter; c++ {
			if c >= 1 && c <= n-1 {
				set[c] = true
			}
		}
	}
	out := make([]int, 0, len(set))
	for c := range set {
		out = append(out, c)
	}
	sort.Ints(out)

	return out
}

func TestC10Framer(t *testing.T) {
	r := rep.New("C10")
	defer r.Write()
	// The code under test allocates ~3 bytes per stream byte and run; with
	// 64 KiB frames that is ~200 KB of garbage per run and a tiny live heap,
	// i.e. a GC cycle every few runs. Collect by heap size instead, and do
	// not let 16 shard processes start 16 GC workers each.
	defer debug.SetGCPercent(debug.SetGCPercent(-1))
	defer debug.SetMemoryLimit(debug.SetMemoryLimit(384 << 20))
	defer runtime.GOMAXPROCS(runtime.GOMAXPROCS(2))
	a := buildAlphabet()
	h := newFramerH(r)

	if p := rep.ReplayPath(); p != "" {
		replayFramer(t, a, h, p)

		return
	}

	items := buildItems(a, rep.Thorough())
	modeWall, modeEvals := map[string]float64{}, map[string]int64{}
	shard, nshards := rep.Shard()
	done := 0
	for x := shard; x < len(items); x += nshards {
		if r.OverBudget(fmt.Sprintf("framer work item %d of %d", x, len(items))) {
			break
		}
		t0, e0 := time.Now(), h.evals
		rep.Current(map[string]any{"test": "framer", "work_item": x, "frames": letterNames(items[x].ls), "mode": modeNames[items[x].mode]})
		if err := h.runItem(items[x]); err != nil {
			t.Fatalf("harness self-check failed: %v", err)
		}
		done++
		mk := modeNames[items[x].mode]
		if streamLen(items[x].ls) > 1600 {
			mk += fmt.Sprintf(",%d-frames", len(items[x].ls))
		}
		modeWall[mk] += time.Since(t0).Seconds()
		modeEvals[mk] += h.evals - e0
	}
	r.Evaluations = h.evals
	for k, v := range h.classes {
		r.Classes[k] += v
	}
	for k, v := range modeWall {
		r.Extra["framer_wall_s_summed_over_shards:"+k] = v
		r.Extra["framer_evaluations:"+k] = modeEvals[k]
	}
	r.Extra["framer_socket_reads"] = h.reads
	if shard == 0 { // numeric extras are summed over the shards by the runner
		r.Extra["framer_work_items_total"] = len(items)
	}
	r.Extra["framer_work_items_done"] = done
	if shard == 0 {
		r.Note("framer alphabet: %d small letters, %d large letters, %d invalid tails; %d work items", len(a.small), len(a.large), len(a.tails), len(items))
		for _, l := range []*letter{a.byName["stun:8"], a.byName["cd:4abc:3"], a.byName["cdcookie:4000:16"], a.byName["bad:topbits10+cookie"]} {
			r.Sample(map[string]any{"letter": l.Name, "kind": l.Kind, "class": l.Class, "wire_hex": hexShort(l.Wire)})
		}
	}
}

func replayFramer(t *testing.T, a *alphabet, h *framerH, path string) {
	raw, err := os.ReadFile(path)
	if err != nil {
		t.Fatal(err)
	}
	var rp framerReplay
	if err := json.Unmarshal(raw, &rp); err != nil {
		t.Fatal(err)
	}
	if rp.Test != "framer" {
		t.Skip("replay is for another test")
	}
	var ls []*letter
	for _, n := range rp.Frames {
		l := a.byName[n]
		if l == nil {
			t.Fatalf("unknown frame %q", n)
		}
		ls = append(ls, l)
	}
	st, err := mkStream(ls)
	if err != nil {
		t.Fatal(err)
	}
	if h.bufs[rp.Buf] == nil {
		h.bufs[rp.Buf] = make([]byte, rp.Buf)
	}
	fmt.Printf("replay: frames %v (%d bytes) stream %s\n  reference frame ends %v, invalid tail at %d\n  cuts %v, read buffer %d\n",
		rp.Frames, len(st.b), hexShort(st.b), st.ends, st.bad, shortCuts(rp.Cuts), rp.Buf)
	h.trace = func(f string, a ...any) { fmt.Printf(f+"\n", a...) }
	sig, detail := h.runOne(st, rp.Cuts, h.bufs[rp.Buf])
	if sig == "" {
		fmt.Println("replay: no violation")

		return
	}
	fmt.Printf("replay: VIOLATION %s\n  %s\n", sig, detail)
	h.r.Violate(rep.Violation{Oracle: "reference-framer(wire.FrameLen)", Signature: sig, Detail: detail, Replay: rp})
}
