package c04

import (
	"encoding/json"
	"fmt"
	"os"
	"testing"
	"time"

	"github.com/pion/turn/v5/verif/realnet"
	"github.com/pion/turn/v5/verif/rep"
)

// TestC04RealUDP: the C04 state space on kernel loopback sockets (see package
// realnet for why and for the asymmetric verdict rules): every request
// sequence up to the depth over clients that share an IP address (c1, c2) or a
// user (c1, c3), each on its own 5-tuple, followed by a probe sweep through
// every (client, peer) pair in both directions and both encapsulations.
func TestC04RealUDP(t *testing.T) {
	r := rep.New("C04")
	defer r.Write()
	clients := []string{"c1", "c2", "c3"}
	depth := 3
	if rep.Thorough() {
		depth = 4
	}
	peers := []string{"A", "B"}
	menu := func(w *realnet.World) []realnet.Event {
		var e []realnet.Event
		for _, c := range clients {
			if w.C[c].Relay == nil {
				e = append(e, realnet.Event{K: "alloc", C: c}, realnet.Event{K: "perm", C: c, P: "A"})
			} else {
				e = append(e, realnet.Event{K: "alloc", C: c}, realnet.Event{K: "refresh0", C: c}, realnet.Event{K: "perm", C: c, P: "A"},
					realnet.Event{K: "chan", C: c, N: 0x4000, P: "B"})
			}
		}

		return e
	}
	// run executes a history in a fresh world; sweep only after the last event (prefixes were judged as histories of their own)
	run := func(evs []realnet.Event) (sig, detail string, next []realnet.Event, key string, trace []string) {
		w, err := realnet.NewWorld(clients, peers)
		if err != nil {
			return "harness:newworld", err.Error(), nil, "", nil
		}
		defer w.Close()
		for _, ev := range evs {
			if sig, detail = w.Apply(ev); sig != "" || w.Inconclusive != "" {
				break
			}
		}
		after := "start"
		if len(evs) > 0 {
			after = evs[len(evs)-1].String()
		}
		if sig == "" && w.Inconclusive == "" {
			sig, detail = w.Sweep(after)
		}
		if w.Inconclusive != "" {
			return "inconclusive", w.Inconclusive, nil, "", w.Trace
		}

		return sig, detail, menu(w), w.Key(), w.Trace
	}
	if p := rep.ReplayPath(); p != "" {
		var doc struct {
			Events []realnet.Event `json:"events"`
		}
		b, err := os.ReadFile(p)
		if err != nil {
			t.Fatal(err)
		}
		if err := json.Unmarshal(b, &doc); err != nil {
			t.Fatal(err)
		}
		sig, detail, _, key, trace := run(doc.Events)
		fmt.Printf("history: %v\ntrace: %v\nmodel state: %s\nverdict: %q %s\n", doc.Events, trace, key, sig, detail)

		return
	}
	shard, n := rep.Shard()
	idx := 0
	var rec func(prefix []realnet.Event, m []realnet.Event)
	rec = func(prefix []realnet.Event, m []realnet.Event) {
		for _, ev := range m {
			evs := append(append([]realnet.Event{}, prefix...), ev)
			if len(evs) == 2 { // shard on the first two events
				idx++
				if idx%n != shard {
					continue
				}
			}
			if r.OverBudget("c04 real-socket histories") {
				return
			}
			own := len(evs) >= 2 || shard == 0
			var next []realnet.Event
			if own {
				rep.Current(map[string]any{"part": "realudp", "events": evs, "sig_hint": "realudp-history"})
				stop := r.Guard(120*time.Second, "realudp:history-does-not-finish", func() any { return evs })
				sig, detail, nx, key, trace := run(evs)
				stop()
				next = nx
				switch {
				case sig == "inconclusive":
					r.Note("inconclusive (no verdict): %v: %s", evs, detail)
					r.Exhaustive = false

					continue
				case sig != "":
					r.Violate(rep.Violation{Oracle: "realudp", Signature: sig, Detail: fmt.Sprintf("%v: %s", trace, detail),
						Replay: map[string]any{"engine": "realudp-c04", "events": evs}})

					continue
				}
				r.Evaluations++
				r.Transitions += int64(len(evs))
				r.State(key)
				r.Class("real-udp " + ev.K + " -> agrees with the model, sweep clean")
			} else {
				// a depth-1 history owned by shard 0: only its menu is needed here
				_, _, nx, _, _ := run(evs)
				next = nx
			}
			if len(evs) < depth && next != nil {
				rec(evs, next)
			}
		}
	}
	w0, err := realnet.NewWorld(clients, peers)
	if err != nil {
		r.Violate(rep.Violation{Oracle: "harness", Signature: "harness:newworld", Detail: err.Error()})

		return
	}
	m0 := menu(w0)
	w0.Close()
	rec(nil, m0)
	r.Depth = depth
}
