package c04

import (
	"testing"

	"github.com/pion/turn/v5/verif/checks/prof"
	"github.com/pion/turn/v5/verif/rep"
	"github.com/pion/turn/v5/verif/vtx"
)

func TestC04(t *testing.T) {
	r := rep.New("C04")
	defer r.Write()
	vtx.Explore(t, prof.Isolation("c04", nil), r)
}

func TestC04Family(t *testing.T) {
	r := rep.New("C04")
	defer r.Write()
	vtx.Explore(t, prof.IsolationFamily("c04-family", nil), r)
}

// TestC04Dual: UDP socket and stream listener on one ip:port with one relay
// address generator; the transport is part of the 5-tuple.
func TestC04Dual(t *testing.T) {
	r := rep.New("C04")
	defer r.Write()
	vtx.Explore(t, prof.IsolationDual("c04-dual", nil), r)
}

// TestC04Multihomed: the server address is part of the 5-tuple: one client address connected to two addresses of
// a listener bound to 0.0.0.0 holds two independent allocations.
func TestC04Multihomed(t *testing.T) {
	r := rep.New("C04")
	defer r.Write()
	vtx.Explore(t, prof.IsolationMultihomed("c04-multihomed", nil), r)
}

func TestC04TCP(t *testing.T) {
	r := rep.New("C04")
	defer r.Write()
	vtx.Explore(t, prof.IsolationTCP("c04-tcp", nil), r)
}
