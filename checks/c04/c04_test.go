package c04

import (
	"testing"

	"github.com/pion/turn/v5/verif/checks/prof"
	"github.com/pion/turn/v5/verif/rep"
	"github.com/pion/turn/v5/verif/vtx"
)

func TestC04(t *testing.T) {
	r := rep.New("C04")
	defer r.Write()
	vtx.Explore(t, prof.Isolation("c04", nil), r)
}

func TestC04Family(t *testing.T) {
	r := rep.New("C04")
	defer r.Write()
	vtx.Explore(t, prof.IsolationFamily("c04-family", nil), r)
}

// TestC04Dual: UDP socket and stream listener on one ip:port with one relay
// address generator; the transport is part of the 5-tuple.
func TestC04Dual(t *testing.T) {
	r := rep.New("C04")
	defer r.Write()
	vtx.Explore(t, prof.IsolationDual("c04-dual", nil), r)
}

func TestC04TCP(t *testing.T) {
	r := rep.New("C04")
	defer r.Write()
	vtx.Explore(t, prof.IsolationTCP("c04-tcp", nil), r)
}
