package c20

import (
	"encoding/json"
	"fmt"
	"net"
	"os"
	"strings"
	"testing"

	turn "github.com/pion/turn/v5"
	"github.com/pion/turn/v5/internal/allocation"
	"github.com/pion/turn/v5/verif/rep"
	"github.com/pion/turn/v5/verif/simnet"
	"github.com/pion/turn/v5/verif/vtx"
)

// Part (v): histories over ONE generator instance. The other parts judge one
// allocation (or, for the port-range generator, random allocations only); this
// one enumerates every sequence of
//
//	allocate (any port) | allocate requested P1 | allocate requested P2 | close the i-th live socket
//
// up to a depth, for every bundled generator x transport x family x listening
// address, so that whatever a generator remembers from an earlier allocation
// (a cached address, a counter, the last port) meets every later request.
// After every action: a success is a freshly bound socket on a port no live
// allocation of the history holds, the requested port when one was requested,
// advertised port = bound port, advertised IP = relay address; a requested
// port that a live allocation holds fails cleanly (UDP; the TCP counterpart is
// the recorded SO_REUSEPORT finding and is not generated here); Close frees.

type histCase struct {
	Gen     string   `json:"generator"`
	Network string   `json:"network"`
	Address string   `json:"address"`
	Actions []int    `json:"actions"` // 0 any, 1 requested P1, 2 requested P2, 3+i close i-th live (i<3), 6 Manager.GetRandomEvenPort
	Trace   []string `json:"trace,omitempty"`
}

const (
	histP1 = 50003
	histP2 = 50007
)

func histDepth() int {
	if rep.Thorough() {
		return 7
	}

	return 5
}

// runHistory executes the actions; it returns a violation signature/detail or "".
// ok=false: the sequence names a socket that does not exist (not a history).
func runHistory(c *histCase, lc localClasses) (sig, detail string, ok bool) {
	proto := c.Network[:3]
	bindIP := simnet.Resolve(c.Address)
	nw := simnet.New()
	nw.ModelReusePort = true
	nw.LogOff = true
	calls := 0
	sr := &scriptRand{next: func(_, n int) int { calls++; return (histP1 - reqMin + calls - 1) % n }}
	rc := reqCase{Gen: c.Gen, Network: c.Network, Address: c.Address, MaxRetries: 10}
	g, relay := rc.build(nw, sr)
	if err := g.Validate(); err != nil {
		return "harness:validate", err.Error(), true
	}
	type live struct {
		conn interface{ Close() error }
		port int
		key  string
		adv  net.Addr // the address object the generator handed out, and what it said then
		advS string
	}
	var lives []live
	held := func(p int) bool {
		for _, l := range lives {
			if l.port == p {
				return true
			}
		}

		return false
	}
	for i, a := range c.Actions {
		pre := open(nw, proto)
		if a == 6 {
			// the allocation manager's even-port search (EVEN-PORT requests) probes through the generator:
			// it returns an even port that was bindable, and leaves nothing bound behind
			if c.Network != "udp4" {
				return "", "", false
			}
			m, err := allocation.NewManager(allocation.ManagerConfig{LeveledLogger: vtx.Quiet{}, AllocatePacketConn: g.AllocatePacketConn,
				AllocateListener: g.AllocateListener, AllocateConn: g.AllocateConn})
			if err != nil {
				return "harness:newmanager", err.Error(), true
			}
			calls = 0
			var port int
			ps := guarded(func() { port, err = m.GetRandomEvenPort() })
			c.Trace = append(c.Trace, fmt.Sprintf("even-port probe -> %d %v", port, err))
			switch {
			case ps != "":
				return "panic:even-port-probe", ps, true
			case !sameSet(open(nw, proto), pre):
				return "history:even-port-probe-leaves-sockets-bound", fmt.Sprintf("step %d: open %v, before %v", i, open(nw, proto), pre), true
			case err == nil && (port%2 != 0 || port == 0 || held(port)):
				return "history:even-port-probe-result", fmt.Sprintf("step %d: port %d (held=%v)", i, port, held(port)), true
			}
			lc[fmt.Sprintf("history:%s|%s|even-port-probe|live-before=%d|draws=%d -> err=%v", c.Gen, proto, len(lives), calls, err != nil)]++

			continue
		}
		if a >= 3 {
			idx := a - 3
			if idx >= len(lives) {
				return "", "", false
			}
			l := lives[idx]
			_ = l.conn.Close()
			lives = append(lives[:idx], lives[idx+1:]...)
			c.Trace = append(c.Trace, fmt.Sprintf("close %d", l.port))
			want := []string{}
			for _, k := range pre {
				if k != l.key {
					want = append(want, k)
				}
			}
			if !sameSet(open(nw, proto), want) {
				return "history:not-freed-on-close", fmt.Sprintf("step %d: open %v, expected %v", i, open(nw, proto), want), true
			}
			lc[fmt.Sprintf("history:%s|%s|close|live-before=%d", c.Gen, proto, len(lives)+1)]++

			continue
		}
		port := []int{0, histP1, histP2}[a]
		if port != 0 && held(port) && proto == "tcp" {
			return "", "", false // the recorded SO_REUSEPORT finding (requested part, mode "twice")
		}
		calls = 0
		res := allocate(g, proto, turn.AllocateListenerConfig{Network: c.Network, RequestedPort: port, UserID: "u", Realm: "r"})
		c.Trace = append(c.Trace, fmt.Sprintf("allocate requested=%d -> %s", port, describe(res)))
		if port != 0 && held(port) {
			if s, d := checkFailure(nw, proto, pre, res); s != "" {
				return strings.Replace(s, "requested:", "history:", 1) + ":requested-port-held-by-live-allocation", fmt.Sprintf("step %d: %s", i, d), true
			}
			lc[fmt.Sprintf("history:%s|%s|requested-held-port|live-before=%d -> error", c.Gen, proto, len(lives))]++

			continue
		}
		if res.panicS != "" {
			return "panic:allocate", res.panicS, true
		}
		if res.err != nil || res.isNil {
			return "history:failed-although-bindable", fmt.Sprintf("step %d: %s", i, describe(res)), true
		}
		lip, lport, _ := addrParts(res.local)
		aip, aport, _ := addrParts(res.adv)
		key := net.JoinHostPort(bindIP.String(), fmt.Sprint(lport))
		switch {
		case held(lport):
			sig = "history:two-live-sockets-on-one-port"
		case !sameSet(open(nw, proto), append(append([]string(nil), pre...), key)):
			sig = "history:open-sockets"
		case !lip.Equal(bindIP) || lport == 0:
			sig = "history:bound-address"
		case port != 0 && lport != port:
			sig = "history:bound-port!=requested"
		case aport != lport:
			sig = "history:advertised-port!=bound"
		case relay != nil && !aip.Equal(relay):
			sig = "history:advertised-ip!=relay-address"
		case relay == nil && !aip.Equal(lip):
			sig = "history:none-advertised!=local-addr"
		case c.Gen == "range" && port == 0 && (lport < reqMin || lport > reqMax):
			sig = "history:port-outside-range"
		}
		if sig != "" {
			return sig, fmt.Sprintf("step %d: %s; open before %v, after %v", i, describe(res), pre, open(nw, proto)), true
		}
		lives = append(lives, live{res.conn, lport, key, res.adv, res.adv.String()})
		// the relayed address handed out for an allocation is that allocation's for good: the manager
		// keeps the object (Allocation.RelayAddr), so a later allocation must not re-write it
		for _, l := range lives {
			if now := l.adv.String(); now != l.advS {
				return "history:advertised-address-of-a-live-allocation-changed-by-a-later-allocation",
					fmt.Sprintf("step %d: the address handed out for the live socket on port %d read %s then and reads %s now", i, l.port, l.advS, now), true
			}
		}
		kind := "any"
		if port != 0 {
			kind = "requested"
		}
		lc[fmt.Sprintf("history:%s|%s|allocate-%s|live-before=%d|intn-calls=%d -> bound", c.Gen, proto, kind, len(lives)-1, calls)]++
	}

	return "", "", true
}

func TestC20Histories(t *testing.T) {
	r := rep.New("C20")
	defer r.Write()
	lc := localClasses{}
	defer lc.flush(r)
	if rep.ReplayPath() != "" {
		var c histCase
		loadHist(&c)
		c.Trace = nil
		sig, detail, _ := runHistory(&c, lc)
		for _, s := range c.Trace {
			fmt.Println(s)
		}
		fmt.Printf("verdict: %q %s\n", sig, detail)

		return
	}
	si, sn := rep.Shard()
	depth := histDepth()
	idx := 0
	for _, gen := range []string{"static", "none", "range"} {
		for _, network := range []string{"udp4", "tcp4", "udp6", "tcp6"} {
			if gen == "range" && network[:3] == "tcp" {
				continue // random TCP ports of the range generator: fill/drain part (and its recorded finding)
			}
			addrs := []string{"0.0.0.0", "10.9.0.1", "relay.test"} // the last one: a host name (legal wherever the generator takes an address)
			if network[3] == '6' {
				addrs = []string{"::", "fd00:9::1", "relay6.test"}
			}
			for _, addr := range addrs {
				idx++
				if idx%sn != si {
					continue
				}
				// all action sequences up to depth (6 symbols; sequences naming a missing socket are skipped with their extensions)
				var rec func(prefix []int)
				rec = func(prefix []int) {
					if len(prefix) > 0 {
						c := histCase{Gen: gen, Network: network, Address: addr, Actions: append([]int(nil), prefix...)}
						rep.Current(c)
						sig, detail, ok := runHistory(&c, localClasses{})
						if !ok {
							return
						}
						r.Evaluations++
						r.Transitions += int64(len(prefix))
						if sig != "" {
							r.Violate(rep.Violation{Oracle: "history over one generator", Signature: sig + ":" + gen + ":" + network[:3], Detail: detail, Replay: map[string]any{"engine": "enum-c20-history", "case": c}})

							return
						}
						if len(prefix) == depth {
							_, _, _ = runHistory(&c, lc) // classes of complete histories only (prefixes would count twice)

							return
						}
					}
					for a := 0; a < 7; a++ {
						rec(append(prefix, a))
					}
				}
				rec(nil)
			}
		}
	}
}

func loadHist(c *histCase) {
	doc := struct {
		Case *histCase `json:"case"`
	}{Case: c}
	b, err := os.ReadFile(rep.ReplayPath())
	if err != nil {
		panic(err)
	}
	if err := json.Unmarshal(b, &doc); err != nil {
		panic(err)
	}
}
