package c20

import (
	"context"
	"fmt"
	"net"
	"strconv"
	"testing"

	"github.com/pion/transport/v4"
	turn "github.com/pion/turn/v5"
	"github.com/pion/turn/v5/verif/rep"
	"github.com/pion/turn/v5/verif/simnet"
)

const (
	reqMin = 50000
	reqMax = 50010
)

type reqCase struct {
	Gen        string `json:"generator"`
	Network    string `json:"network"`
	Address    string `json:"address"`
	MaxRetries int    `json:"max_retries,omitempty"`
	Mode       string `json:"mode"` // none-requested | free | in-use | bind-fail | twice
	Port       int    `json:"requested_port"`
	Answer     int    `json:"intn_answer,omitempty"`
	Got        string `json:"got,omitempty"`
}

func (c reqCase) build(nw *simnet.Net, sr *scriptRand) (turn.RelayAddressGenerator, net.IP) {
	relay := relay4
	if c.Network[len(c.Network)-1] == '6' {
		relay = relay6
	}
	switch c.Gen {
	case "range":
		return &turn.RelayAddressGeneratorPortRange{RelayAddress: relay, Address: c.Address, MinPort: reqMin, MaxPort: reqMax,
			MaxRetries: c.MaxRetries, Rand: sr, Net: nw.Transport()}, relay
	case "static":
		return &turn.RelayAddressGeneratorStatic{RelayAddress: relay, Address: c.Address, Net: nw.Transport()}, relay
	}

	return &turn.RelayAddressGeneratorNone{Address: c.Address, Net: nw.Transport()}, nil
}

func describe(res allocResult) string {
	return fmt.Sprintf("err=%v conn-nil=%v local=%v advertised=%v panic=%q", res.err, res.isNil, res.local, res.adv, res.panicS)
}

// preBind occupies (ip, port) with a harness socket of the right transport.
func preBind(nw *simnet.Net, proto, network string, ip net.IP, port int) error {
	if proto == "udp" {
		_, err := nw.ListenUDP(network, &net.UDPAddr{IP: ip, Port: port})

		return err
	}
	_, err := nw.ListenTCPAddr(network, &net.TCPAddr{IP: ip, Port: port})

	return err
}

// checkSuccess verifies a successful allocation against the statement:
// freshly bound socket, advertised IP = relay address (real local address for
// None), advertised port = bound port (= requested port when one is requested;
// inside [Min,Max] for the range generator otherwise).
func checkSuccess(c reqCase, nw *simnet.Net, proto string, pre []string, bindIP, relay net.IP, res allocResult) (sig, detail string) {
	if res.panicS != "" {
		return "panic:allocate", res.panicS
	}
	if res.err != nil || res.isNil {
		return "requested:failed-although-bindable", describe(res)
	}
	lip, lport, _ := addrParts(res.local)
	aip, aport, _ := addrParts(res.adv)
	key := net.JoinHostPort(bindIP.String(), strconv.Itoa(lport))
	switch {
	case !sameSet(open(nw, proto), append(append([]string(nil), pre...), key)):
		return "requested:open-sockets", fmt.Sprintf("open %v; before %v; expected new %s", open(nw, proto), pre, key)
	case !lip.Equal(bindIP) || lport == 0:
		return "requested:bound-address", describe(res)
	case c.Port != 0 && lport != c.Port:
		return "requested:bound-port!=requested", describe(res)
	case aport != lport:
		return "requested:advertised-port!=bound", describe(res)
	case relay != nil && !aip.Equal(relay):
		return "requested:advertised-ip!=relay-address", describe(res)
	case relay == nil && !aip.Equal(lip):
		return "requested:none-advertised!=local-addr", describe(res)
	case c.Gen == "range" && c.Port == 0 && (lport < reqMin || lport > reqMax):
		return "requested:port-outside-range", describe(res)
	}

	return "", ""
}

// checkFailure: an error, no socket returned, nothing left open.
func checkFailure(nw *simnet.Net, proto string, pre []string, res allocResult) (sig, detail string) {
	switch {
	case res.panicS != "":
		return "panic:allocate", res.panicS
	case res.err == nil:
		return "requested:no-error-for-unbindable-port", describe(res)
	case !res.isNil:
		return "requested:socket-returned-with-error", describe(res)
	case !sameSet(open(nw, proto), pre):
		return "requested:socket-leaked-on-failure", fmt.Sprintf("open %v; before %v", open(nw, proto), pre)
	}

	return "", ""
}

// TestC20Requested is part (ii).
func TestC20Requested(t *testing.T) {
	r := rep.New("C20")
	defer r.Write()
	si, sn := rep.Shard()
	lc := localClasses{}
	defer lc.flush(r)
	ports := []int{1, 1023, 1024, 49152, 50000, 50005, 50010, 50011, 65535}
	var cases []reqCase
	for _, gen := range []string{"range", "static", "none"} {
		for _, network := range []string{"udp4", "udp6", "tcp4", "tcp6"} {
			addrs := []string{"0.0.0.0", "10.9.0.1", "relay.test"} // the last one: a host name (legal wherever the generator takes an address)
			if network[3] == '6' {
				addrs = []string{"::", "fd00:9::1", "relay6.test"}
			}
			for _, addr := range addrs {
				retries := []int{0}
				if gen == "range" {
					retries = []int{0, 1, 2, 10}
				}
				for _, mr := range retries {
					base := reqCase{Gen: gen, Network: network, Address: addr, MaxRetries: mr}
					if gen == "range" {
						for a := 0; a <= reqMax-reqMin; a++ {
							c := base
							c.Mode, c.Answer = "none-requested", a
							cases = append(cases, c)
						}
					} else {
						c := base
						c.Mode = "none-requested"
						cases = append(cases, c)
					}
					for _, p := range ports {
						for _, mode := range []string{"free", "in-use", "bind-fail", "twice"} {
							c := base
							c.Mode, c.Port = mode, p
							cases = append(cases, c)
						}
					}
				}
			}
		}
	}
	r.Bound = len(cases)
	done := true
	for ci := si; ci < len(cases); ci += sn {
		if r.OverBudget("requested") {
			done = false

			break
		}
		c := cases[ci]
		rep.Current(c)
		proto := c.Network[:3]
		bindIP := simnet.Resolve(c.Address)
		nw := simnet.New()
		nw.ModelReusePort = true
		nw.LogOff = true
		sr := &scriptRand{next: fixedAnswer(c.Answer)}
		g, relay := c.build(nw, sr)
		if err := g.Validate(); err != nil {
			r.Violate(rep.Violation{Oracle: "harness", Signature: "harness:validate", Detail: err.Error(), Replay: c})

			continue
		}
		// an unrelated socket that must stay untouched
		if err := preBind(nw, proto, c.Network, bindIP, 40000); err != nil {
			t.Fatalf("harness: %v", err)
		}
		switch c.Mode {
		case "in-use":
			if err := preBind(nw, proto, c.Network, bindIP, c.Port); err != nil {
				t.Fatalf("harness: %v", err)
			}
		case "bind-fail":
			nw.BindFail[":"+strconv.Itoa(c.Port)] = true
		}
		pre := open(nw, proto)
		conf := turn.AllocateListenerConfig{Network: c.Network, RequestedPort: c.Port, UserID: "u", Realm: "r"}
		res := allocate(g, proto, conf)
		r.Evaluations++
		var sig, detail string
		switch c.Mode {
		case "none-requested", "free", "twice":
			sig, detail = checkSuccess(c, nw, proto, pre, bindIP, relay, res)
			if sig == "" && c.Gen == "range" && c.Mode == "none-requested" {
				if len(sr.Ns) != 1 || sr.Ns[0] != reqMax-reqMin+1 {
					sig, detail = "requested:intn-arg!=range-size", fmt.Sprint(sr.Ns)
				}
			}
			if sig == "" && c.Mode == "twice" {
				// a second allocation asking for the same port while the first is
				// live must fail cleanly and leave the first one untouched
				pre2 := open(nw, proto)
				res2 := allocate(g, proto, conf)
				r.Evaluations++
				sig, detail = checkFailure(nw, proto, pre2, res2)
				if sig != "" {
					sig += ":second-allocation-same-port"
				}
				if res2.conn != nil {
					_ = res2.conn.Close()
				}
			}
		default:
			sig, detail = checkFailure(nw, proto, pre, res)
		}
		c.Got = describe(res)
		if sig != "" {
			r.Violate(rep.Violation{Oracle: "requested port honoured or clean failure", Signature: sig + ":" + c.Gen + ":" + proto,
				Detail: detail, Replay: c})
		}
		if res.conn != nil {
			_ = res.conn.Close()
			if sig == "" && !sameSet(open(nw, proto), pre) {
				r.Violate(rep.Violation{Oracle: "closing the relay socket frees the port", Signature: "requested:not-freed-on-close:" + c.Gen + ":" + proto,
					Detail: fmt.Sprint(open(nw, proto)), Replay: c})
			}
		}
		wild := "specific-addr"
		if bindIP.IsUnspecified() {
			wild = "wildcard-addr"
		}
		outcome := "bound"
		if res.err != nil {
			outcome = "error"
		}
		pclass := "port=0"
		switch {
		case c.Port >= reqMin && c.Port <= reqMax:
			pclass = "port-in-range"
		case c.Port != 0:
			pclass = "port-outside-range"
		}
		lc[fmt.Sprintf("requested:%s|%s|%s|%s|%s|%s|intn-calls=%d", c.Gen, c.Network, wild, c.Mode, pclass, outcome, len(sr.Ns))]++
		if ci%97 == 0 {
			r.Sample(c)
		}
	}
	r.Exhaustive = r.Exhaustive && done
	if si == 0 {
		observeOddAddr(r, lc)
	}
}

// ---------------------------------------------------------------- observation: local address of a foreign type

// oddNet wraps simnet so that sockets report a local address that is neither
// *net.UDPAddr nor *net.TCPAddr. The generators then fail with errNilConn.
// The property statement does not cover this situation (a port *was* bound),
// so the outcome is only counted as a class and noted: does the failing
// generator leave the socket it bound open?
type oddNet struct {
	transport.Net
}

type oddAddr struct{ s string }

func (a oddAddr) Network() string { return "odd" }
func (a oddAddr) String() string  { return a.s }

type oddPC struct{ net.PacketConn }

func (c oddPC) LocalAddr() net.Addr { return oddAddr{c.PacketConn.LocalAddr().String()} }

type oddLn struct{ net.Listener }

func (l oddLn) Addr() net.Addr { return oddAddr{l.Listener.Addr().String()} }

func (o oddNet) ListenPacket(network, address string) (net.PacketConn, error) {
	c, err := o.Net.ListenPacket(network, address)
	if err != nil {
		return nil, err
	}

	return oddPC{c}, nil
}

func (o oddNet) CreateListenConfig(c *net.ListenConfig) transport.ListenConfig {
	return oddLC{o.Net.CreateListenConfig(c)}
}

type oddLC struct{ transport.ListenConfig }

func (l oddLC) Listen(ctx context.Context, network, address string) (net.Listener, error) {
	ln, err := l.ListenConfig.Listen(ctx, network, address)
	if err != nil {
		return nil, err
	}

	return oddLn{ln}, nil
}

func observeOddAddr(r *rep.Report, lc localClasses) {
	for _, gen := range []string{"range", "static"} {
		for _, proto := range []string{"udp", "tcp"} {
			for _, port := range []int{0, 50001} {
				nw := simnet.New()
				nw.ModelReusePort = true
				nw.LogOff = true
				sr := &scriptRand{next: fixedAnswer(0)}
				var g turn.RelayAddressGenerator
				if gen == "range" {
					g = &turn.RelayAddressGeneratorPortRange{RelayAddress: relay4, Address: "0.0.0.0", MinPort: reqMin, MaxPort: reqMax,
						MaxRetries: 1, Rand: sr, Net: oddNet{nw.Transport()}}
				} else {
					g = &turn.RelayAddressGeneratorStatic{RelayAddress: relay4, Address: "0.0.0.0", Net: oddNet{nw.Transport()}}
				}
				_ = g.Validate()
				res := allocate(g, proto, turn.AllocateListenerConfig{Network: proto + "4", RequestedPort: port})
				left := open(nw, proto)
				out := "error,nothing-left-open"
				switch {
				case res.panicS != "":
					out = "panic"
				case res.err == nil:
					out = "no-error"
				case len(left) > 0:
					out = "error,bound-socket-left-open"
					r.Note("observation (outside the statement): %s generator, %s, requested port %d, local address of a foreign type: returns %q and leaves %v bound",
						gen, proto, port, res.err.Error(), left)
				}
				lc[fmt.Sprintf("observe-foreign-addr-type:%s|%s|requested=%v|%s", gen, proto, port != 0, out)]++
			}
		}
	}
}
