package c20

import (
	"fmt"
	"net"
	"strconv"
	"strings"
	"testing"

	turn "github.com/pion/turn/v5"
	"github.com/pion/turn/v5/verif/rep"
	"github.com/pion/turn/v5/verif/simnet"
)

const (
	fdN = 3
	// fdShardDepth: a history belongs to the shard selected by a hash of its
	// first fdShardDepth choices (rep.Enumerate shards on the first two only,
	// which here are config and first answer: 18 very unequal groups).
	fdShardDepth = 9
)

type fdConfig struct {
	MaxRetries int    `json:"max_retries"`
	Proto      string `json:"proto"`
}

type fdReplay struct {
	Config  fdConfig `json:"config"`
	Choices []int    `json:"choices"`
	Trace   []string `json:"trace"`
}

// fdStep is one executed action, kept raw (formatted only for a violation).
type fdStep struct {
	close   int   // port closed, or 0 for an allocate
	answers []int // Intn answers consumed by the allocate
	port    int   // bound port, 0 = allocate failed
	err     string
}

func (s fdStep) String() string {
	switch {
	case s.close != 0:
		return fmt.Sprintf("close %d", s.close)
	case s.port != 0:
		return fmt.Sprintf("allocate answers=%v -> bound %d", s.answers, s.port)
	}

	return fmt.Sprintf("allocate answers=%v -> error %q", s.answers, s.err)
}

// fdClass is a class key without formatting.
type fdClass struct {
	cfg        int
	kind       uint8 // 0 close, 1 bound, 2 error range full, 3 error retries exhausted on busy ports
	liveBefore uint8
	intnCalls  uint8
	notLast    bool // bound port != min + last answer
	otherErr   bool // error text is not "turn: max retries exceeded"
}

type fdRun struct {
	viol    *rep.Violation
	classes []fdClass
	steps   int64
	states  []uint16 // cfg<<3 | live bitmask
	foreign bool
}

type fdPicker struct {
	c        *rep.Chooser
	shard, n int
	foreign  bool
	decided  bool
}

func fdHash(ch []int) int {
	h := uint32(2166136261) // FNV-1a over the choices, then fold the high bits down
	for _, v := range ch {
		h ^= uint32(v) + 1 //nolint:gosec
		h *= 16777619
	}
	h ^= h >> 15
	h *= 0x2c1b3c6d
	h ^= h >> 12

	return int(h >> 4)
}

func (p *fdPicker) pick(n int) int {
	v := p.c.Pick(n)
	if !p.decided && len(p.c.Taken) == fdShardDepth {
		p.decided = true
		p.foreign = fdHash(p.c.Taken)%p.n != p.shard
	}

	return v
}

// finish decides ownership of a history shorter than fdShardDepth choices.
func (p *fdPicker) finish() {
	if !p.decided {
		p.decided = true
		p.foreign = fdHash(p.c.Taken)%p.n != p.shard
	}
}

// fdBody executes one history chosen by pk: config, then depth actions
// {allocate (its Intn answers chosen lazily: one pick(3) per Intn call for the
// first three calls, the third answer repeated afterwards), close live socket
// i}. Lazy choice enumerates exactly the answer sequences that can be told
// apart: answers the generator never asks for are not multiplied out.
func fdBody(pk *fdPicker, configs []fdConfig) (run fdRun) {
	c := pk.c
	ci := pk.pick(len(configs))
	cfg := configs[ci]
	depth := fdDepth(cfg.MaxRetries)
	nw := simnet.New()
	nw.ModelReusePort = true // sockets opened with reuseport.Control may share a port, as on Linux
	nw.LogOff = true
	sr := &scriptRand{}
	last := 0
	sr.next = func(call, n int) int {
		if call < 3 {
			last = pk.pick(n)
		}
		if last >= n {
			return n - 1
		}

		return last
	}
	g := &turn.RelayAddressGeneratorPortRange{RelayAddress: relay4, Address: "0.0.0.0", MinPort: uint16(fdMin), MaxPort: uint16(fdMax), //nolint:gosec
		MaxRetries: cfg.MaxRetries, Rand: sr, Net: nw.Transport()}
	if err := g.Validate(); err != nil {
		panic("harness: " + err.Error())
	}
	conf := turn.AllocateListenerConfig{Network: cfg.Proto + "4"}
	var live [fdN]interface{ Close() error } // by port-fdMin
	var steps []fdStep
	nLive := func() (n int) {
		for _, s := range live {
			if s != nil {
				n++
			}
		}

		return n
	}
	mask := func() (m uint16) {
		for i, s := range live {
			if s != nil {
				m |= 1 << i
			}
		}

		return m
	}
	modelOpen := func() []string {
		var out []string
		for i, s := range live {
			if s != nil {
				out = append(out, net.JoinHostPort("0.0.0.0", strconv.Itoa(fdMin+i)))
			}
		}

		return out
	}
	netMatchesModel := func() bool {
		o := open(nw, cfg.Proto)
		if len(o) != nLive() {
			return false
		}

		return sameSet(o, modelOpen())
	}
	fail := func(sig, detail string) {
		var trace []string
		for _, s := range steps {
			trace = append(trace, s.String())
		}
		run.viol = &rep.Violation{Oracle: "fill/drain model of a 3-port range", Signature: sig + ":" + cfg.Proto,
			Detail: detail + " | trace: " + strings.Join(trace, "; "),
			Replay: fdReplay{Config: cfg, Choices: append([]int(nil), c.Taken...), Trace: trace}}
	}
	defer func() {
		for _, s := range live {
			if s != nil {
				_ = s.Close()
			}
		}
		pk.finish()
		run.foreign = pk.foreign
	}()
	for step := 0; step < depth; step++ {
		act := 0
		nl := nLive()
		if nl > 0 {
			act = pk.pick(1 + nl)
		}
		if pk.foreign {
			return run
		}
		run.steps++
		if act > 0 {
			idx := -1
			for i, s := range live {
				if s != nil {
					act--
					if act == 0 {
						idx = i

						break
					}
				}
			}
			err := live[idx].Close()
			live[idx] = nil
			steps = append(steps, fdStep{close: fdMin + idx})
			if err != nil {
				fail("filldrain:close-error", err.Error())

				return run
			}
			if !netMatchesModel() {
				fail("filldrain:open-sockets-after-close", fmt.Sprintf("open %v, model %v", open(nw, cfg.Proto), modelOpen()))

				return run
			}
			run.classes = append(run.classes, fdClass{cfg: ci, kind: 0, liveBefore: uint8(nl)}) //nolint:gosec
			run.states = append(run.states, uint16(ci)<<3|mask())                               //nolint:gosec

			continue
		}
		sr.Ns, sr.Ans, sr.bad = nil, nil, ""
		res := allocate(g, cfg.Proto, conf)
		if pk.foreign {
			if res.conn != nil {
				_ = res.conn.Close()
			}

			return run
		}
		st := fdStep{answers: sr.Ans}
		if res.err != nil {
			st.err = res.err.Error()
		}
		if res.local != nil {
			_, st.port, _ = addrParts(res.local)
		}
		steps = append(steps, st)
		if res.panicS != "" {
			fail("panic:filldrain-allocate", res.panicS)

			return run
		}
		badN := false
		for _, n := range sr.Ns {
			badN = badN || n != fdN
		}
		// did some answer the generator asked for point at a free port?
		freeHit := false
		for _, a := range sr.Ans {
			if a < fdN && live[a] == nil {
				freeHit = true
			}
		}
		if res.err != nil || res.isNil {
			// must be a clean failure
			switch {
			case res.err == nil:
				fail("filldrain:nil-socket-without-error", describe(res))
			case !res.isNil:
				fail("filldrain:socket-returned-with-error", describe(res))
			case !netMatchesModel():
				fail("filldrain:socket-leaked-on-failure", fmt.Sprintf("open %v, model %v", open(nw, cfg.Proto), modelOpen()))
			case freeHit:
				fail("filldrain:failed-although-answered-port-free", fmt.Sprintf("answers %v live-mask %03b", sr.Ans, mask()))
			case badN:
				fail("filldrain:intn-arg!=range-size", fmt.Sprint(sr.Ns))
			}
			if run.viol != nil {
				if res.conn != nil {
					_ = res.conn.Close()
				}

				return run
			}
			kind := uint8(2)
			if nl < fdN {
				kind = 3
			}
			run.classes = append(run.classes, fdClass{cfg: ci, kind: kind, liveBefore: uint8(nl), intnCalls: uint8(len(sr.Ns)), //nolint:gosec
				otherErr: res.err.Error() != "turn: max retries exceeded"})
			run.states = append(run.states, uint16(ci)<<3|mask()) //nolint:gosec

			continue
		}
		_, lport, _ := addrParts(res.local)
		aip, aport, _ := addrParts(res.adv)
		switch {
		case lport < fdMin || lport > fdMax:
			fail("filldrain:port-outside-range", describe(res))
		case live[lport-fdMin] != nil:
			fail("filldrain:two-live-sockets-on-one-port", describe(res))
		case aport != lport:
			fail("filldrain:advertised-port!=bound", describe(res))
		case !aip.Equal(relay4):
			fail("filldrain:advertised-ip!=relay-address", describe(res))
		case badN:
			fail("filldrain:intn-arg!=range-size", fmt.Sprint(sr.Ns))
		}
		if run.viol != nil {
			_ = res.conn.Close()

			return run
		}
		live[lport-fdMin] = res.conn
		if !netMatchesModel() {
			fail("filldrain:open-sockets-after-allocate", fmt.Sprintf("open %v, model %v", open(nw, cfg.Proto), modelOpen()))

			return run
		}
		notLast := len(sr.Ans) > 0 && lport != fdMin+sr.Ans[len(sr.Ans)-1]
		run.classes = append(run.classes, fdClass{cfg: ci, kind: 1, liveBefore: uint8(nl), intnCalls: uint8(len(sr.Ns)), notLast: notLast}) //nolint:gosec
		run.states = append(run.states, uint16(ci)<<3|mask())                                                                               //nolint:gosec
	}

	return run
}

func (k fdClass) text(configs []fdConfig) string {
	cfg := configs[k.cfg]
	switch k.kind {
	case 0:
		return fmt.Sprintf("filldrain:%s|r%d|close|live-before=%d", cfg.Proto, cfg.MaxRetries, k.liveBefore)
	case 1:
		s := fmt.Sprintf("filldrain:%s|r%d|allocate|live-before=%d|bound|intn-calls=%d", cfg.Proto, cfg.MaxRetries, k.liveBefore, k.intnCalls)
		if k.notLast {
			s += "|port!=min+last-answer"
		}

		return s
	}
	e := "max-retries-exceeded"
	if k.otherErr {
		e = "other-error"
	}
	why := "range-full"
	if k.kind == 3 {
		why = "retries-exhausted-on-busy-ports"
	}

	return fmt.Sprintf("filldrain:%s|r%d|allocate|live-before=%d|clean-error(%s)|%s|intn-calls=%d",
		cfg.Proto, cfg.MaxRetries, k.liveBefore, e, why, k.intnCalls)
}

// fdDepth is the history length per MaxRetries. The number of histories per
// transport is (depth 5/6/7): MaxRetries 1: 1074 / 5097 / 24423; 2: 11574 /
// 117441 / 1218915; 10 (three varied answers): 172626 / 4659945 / 129220827.
// At ~35 us per history MaxRetries=10 at depth 7 alone would need ~2.5 core
// hours, so it stays one level below the others.
func fdDepth(maxRetries int) int {
	d := 6
	if rep.Thorough() {
		d = 7
	}
	if maxRetries >= 3 {
		d--
	}

	return d
}

// TestC20FillDrain is part (iii): stateless DFS by prefix replay (every history
// starts from a fresh network and generator), odometer over the recorded
// arities as in rep.Enumerate.
// fdMin..fdMax is the 3-port range under test; TestC20FillDrainTop moves it to the top of the port space.
var fdMin, fdMax = 50000, 50002

func TestC20FillDrain(t *testing.T) { fillDrain(t) }

// TestC20FillDrainTop: the same search on [65533,65535], where port arithmetic can wrap.
func TestC20FillDrainTop(t *testing.T) {
	fdMin, fdMax = 65533, 65535
	fillDrain(t)
}

func fillDrain(t *testing.T) {
	r := rep.New("C20")
	defer r.Write()
	si, sn := rep.Shard()
	r.Depth = fdDepth(1)
	var configs []fdConfig
	for _, mr := range []int{1, 2, 10} {
		for _, proto := range []string{"udp", "tcp"} {
			configs = append(configs, fdConfig{mr, proto})
		}
	}
	if p := rep.ReplayPath(); p != "" {
		t.Skip("replay file not supported here: Replay.choices of a violation replays with rep.FixedChooser")
	}
	classes := map[fdClass]int64{}
	states := map[uint16]bool{}
	prefix := []int{}
	var execs int64
	for {
		pk := &fdPicker{c: rep.FixedChooser(prefix), shard: si, n: sn}
		run := fdBody(pk, configs)
		taken, arity := pk.c.Taken, pk.c.Arity
		if run.foreign {
			if len(taken) > fdShardDepth {
				taken, arity = taken[:fdShardDepth], arity[:fdShardDepth]
			}
		} else {
			r.Schedules++
			r.Transitions += run.steps
			r.Evaluations += run.steps
			for _, k := range run.classes {
				classes[k]++
			}
			for _, s := range run.states {
				states[s] = true
			}
			if run.viol != nil {
				r.Violate(*run.viol)
			} else if r.Schedules%100000 == 1 {
				r.Sample(fdReplay{Config: configs[taken[0]], Choices: append([]int(nil), taken...)})
			}
		}
		i := len(taken) - 1
		for i >= 0 && taken[i]+1 >= arity[i] {
			i--
		}
		if i < 0 {
			break
		}
		prefix = append(append([]int{}, taken[:i]...), taken[i]+1)
		execs++
		if execs%1024 == 0 && r.OverBudget("filldrain") {
			break
		}
	}
	for k, v := range classes {
		r.Classes[k.text(configs)] += v
	}
	for s := range states {
		r.State(fmt.Sprintf("%s/r%d/live=%03b", configs[s>>3].Proto, configs[s>>3].MaxRetries, s&7))
	}
	if r.Capped != "" {
		r.Exhaustive = false
	}
}
