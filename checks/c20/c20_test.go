// Package c20 checks property C20: "Relay address generators honour their
// configuration" for turn.RelayAddressGeneratorPortRange / Static / None with
// an injected transport.Net (simnet, or a recording stub for the 2^31-pair
// sweep) and a scripted random source that records the n of every Intn(n).
package c20

import (
	"context"
	"fmt"
	"net"
	"sort"
	"strings"

	"github.com/pion/transport/v4"
	turn "github.com/pion/turn/v5"
	"github.com/pion/turn/v5/verif/rep"
	"github.com/pion/turn/v5/verif/simnet"
)

// ---------------------------------------------------------------- scripted random source

// scriptRand answers Intn from a script and records every n it was asked for.
type scriptRand struct {
	next func(call, n int) int // answer for the call-th Intn(n)
	Ns   []int
	Ans  []int
	bad  string // first out-of-contract use
}

func (s *scriptRand) Intn(n int) int {
	call := len(s.Ns)
	s.Ns = append(s.Ns, n)
	if n <= 0 {
		// math/rand.Intn panics here; remember and keep going
		if s.bad == "" {
			s.bad = fmt.Sprintf("Intn(%d)", n)
		}
		s.Ans = append(s.Ans, 0)

		return 0
	}
	a := s.next(call, n)
	if a < 0 || a >= n {
		panic(fmt.Sprintf("harness: scripted answer %d outside [0,%d)", a, n))
	}
	s.Ans = append(s.Ans, a)

	return a
}
func (s *scriptRand) Uint32() uint32                    { s.bad = "Uint32"; return 0 }
func (s *scriptRand) Uint64() uint64                    { s.bad = "Uint64"; return 0 }
func (s *scriptRand) GenerateString(int, string) string { s.bad = "GenerateString"; return "" }

// fixedAnswer always answers a (clamped is never needed: callers know n).
func fixedAnswer(a int) func(int, int) int { return func(int, int) int { return a } }

// ---------------------------------------------------------------- recording stub network

// stubNet is a transport.Net whose ListenPacket / Listen only record the
// address they were asked to bind and return a stub socket whose local address
// is exactly that address. No socket layer: used for the all-pairs sweep.
// Every other method of the embedded nil interface would panic (none is used
// by the generators on these paths).
type stubNet struct {
	transport.Net
	lastNetwork string
	lastAddr    string
	binds       int
	cachedHost  string
	cachedIP    net.IP
	pc          stubPacketConn // reused: the generators only call LocalAddr/Close
	ln          stubListener
}

// parseHostPort splits "host:port" / "[host]:port"; the host is parsed once
// and cached (the sweep binds the same host 8.6e9 times).
func (s *stubNet) parseHostPort(address string) (net.IP, int) {
	i := strings.LastIndexByte(address, ':')
	if i < 0 {
		panic("harness: stub: address without port: " + address)
	}
	port := 0
	if i+1 == len(address) {
		panic("harness: stub: empty port in " + address)
	}
	for _, ch := range []byte(address[i+1:]) {
		if ch < '0' || ch > '9' || port > 99999 {
			panic("harness: stub: bad port in " + address)
		}
		port = port*10 + int(ch-'0')
	}
	host := address[:i]
	if host != s.cachedHost || s.cachedIP == nil {
		s.cachedHost = host
		s.cachedIP = net.ParseIP(strings.Trim(host, "[]"))
	}

	return s.cachedIP, port
}

type stubPacketConn struct {
	net.PacketConn
	ip     net.IP
	port   int
	closed bool
}

func (c *stubPacketConn) LocalAddr() net.Addr { return &net.UDPAddr{IP: c.ip, Port: c.port} }
func (c *stubPacketConn) Close() error        { c.closed = true; return nil }

type stubListener struct {
	net.Listener
	ip     net.IP
	port   int
	closed bool
}

func (l *stubListener) Addr() net.Addr { return &net.TCPAddr{IP: l.ip, Port: l.port} }
func (l *stubListener) Close() error   { l.closed = true; return nil }

func (s *stubNet) ListenPacket(network, address string) (net.PacketConn, error) {
	s.lastNetwork, s.lastAddr = network, address
	s.binds++
	s.pc.ip, s.pc.port = s.parseHostPort(address)
	s.pc.closed = false

	return &s.pc, nil
}

func (s *stubNet) ResolveTCPAddr(_, address string) (*net.TCPAddr, error) {
	ip, port := s.parseHostPort(address)

	return &net.TCPAddr{IP: ip, Port: port}, nil
}

func (s *stubNet) CreateListenConfig(*net.ListenConfig) transport.ListenConfig { return stubLC{s} }

type stubLC struct{ s *stubNet }

func (l stubLC) Listen(_ context.Context, network, address string) (net.Listener, error) {
	l.s.lastNetwork, l.s.lastAddr = network, address
	l.s.binds++
	l.s.ln.ip, l.s.ln.port = l.s.parseHostPort(address)
	l.s.ln.closed = false

	return &l.s.ln, nil
}

func (l stubLC) ListenPacket(context.Context, string, string) (net.PacketConn, error) {
	panic("harness: stub ListenConfig.ListenPacket not expected")
}

// ---------------------------------------------------------------- helpers

var (
	relay4 = net.IPv4(203, 0, 113, 7).To4()
	relay6 = net.ParseIP("2001:db8::7")
)

// addrParts splits a net.Addr as advertised by a generator.
func addrParts(a net.Addr) (ip net.IP, port int, typ string) {
	switch v := a.(type) {
	case *net.UDPAddr:
		if v == nil {
			return nil, 0, "nil-udp"
		}

		return v.IP, v.Port, "udp"
	case *net.TCPAddr:
		if v == nil {
			return nil, 0, "nil-tcp"
		}

		return v.IP, v.Port, "tcp"
	case nil:
		return nil, 0, "nil"
	}

	return nil, 0, fmt.Sprintf("%T", a)
}

// open lists every socket of the given transport open on the simnet.
func open(nw *simnet.Net, proto string) []string {
	if proto == "udp" {
		return nw.OpenUDP()
	}

	return nw.OpenListeners()
}

func sameSet(a, b []string) bool {
	if len(a) != len(b) {
		return false
	}
	a, b = append([]string(nil), a...), append([]string(nil), b...)
	sort.Strings(a)
	sort.Strings(b)
	for i := range a {
		if a[i] != b[i] {
			return false
		}
	}

	return true
}

type localClasses map[string]int64

func (l localClasses) flush(r *rep.Report) {
	for k, v := range l {
		r.Classes[k] += v
	}
}

// guarded runs f and turns a panic into text.
func guarded(f func()) (panicked string) {
	defer func() {
		if e := recover(); e != nil {
			panicked = fmt.Sprint(e)
		}
	}()
	f()

	return ""
}

// result of one allocation through a generator.
type allocResult struct {
	conn   interface{ Close() error }
	local  net.Addr // really bound local address (conn.LocalAddr / ln.Addr)
	adv    net.Addr // advertised relay address
	err    error
	isNil  bool // conn == nil
	panicS string
}

func allocate(g turn.RelayAddressGenerator, proto string, conf turn.AllocateListenerConfig) (res allocResult) {
	res.panicS = guarded(func() {
		if proto == "udp" {
			c, a, err := g.AllocatePacketConn(conf)
			res.adv, res.err, res.isNil = a, err, c == nil
			if c != nil {
				res.conn, res.local = c, c.LocalAddr()
			}

			return
		}
		l, a, err := g.AllocateListener(conf)
		res.adv, res.err, res.isNil = a, err, l == nil
		if l != nil {
			res.conn, res.local = l, l.Addr()
		}
	})

	return res
}
