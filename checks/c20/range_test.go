package c20

import (
	"fmt"
	"net"
	"sort"
	"strconv"
	"testing"

	turn "github.com/pion/turn/v5"
	"github.com/pion/turn/v5/verif/rep"
	"github.com/pion/turn/v5/verif/simnet"
)

// rangeEnv is one reusable (generator, network, random source) triple.
type rangeEnv struct {
	g       *turn.RelayAddressGeneratorPortRange
	sr      *scriptRand
	nw      *simnet.Net // nil when the recording stub is used
	stub    *stubNet
	proto   string // udp|tcp
	fam     string // 4|6
	bindIP  net.IP
	relayIP net.IP
	answer  int
	clamped bool
	conf    turn.AllocateListenerConfig
}

func newRangeEnv(proto, fam string, useStub bool) *rangeEnv {
	e := &rangeEnv{proto: proto, fam: fam, sr: &scriptRand{}}
	e.sr.next = func(_, n int) int {
		if e.answer >= n {
			e.clamped = true

			return n - 1
		}

		return e.answer
	}
	addr := "0.0.0.0"
	e.relayIP, e.bindIP = relay4, net.IPv4zero
	if fam == "6" {
		addr = "::"
		e.relayIP, e.bindIP = relay6, net.IPv6unspecified
	}
	e.g = &turn.RelayAddressGeneratorPortRange{RelayAddress: e.relayIP, Address: addr, Rand: e.sr, MaxRetries: 1, MinPort: 1, MaxPort: 1}
	if useStub {
		e.stub = &stubNet{}
		e.g.Net = e.stub
	} else {
		e.nw = simnet.New()
		e.nw.ModelReusePort = true
		e.nw.LogOff = true
		e.g.Net = e.nw.Transport()
	}
	e.conf = turn.AllocateListenerConfig{Network: proto + fam}

	return e
}

func (e *rangeEnv) netName() string {
	if e.stub != nil {
		return "stub"
	}

	return "simnet"
}

type rangeCase struct {
	Min     int    `json:"min_port"`
	Max     int    `json:"max_port"`
	Answer  int    `json:"intn_answer"`
	Network string `json:"network"`
	Net     string `json:"net"`
	IntnN   []int  `json:"intn_n_observed,omitempty"`
	Bound   string `json:"bound,omitempty"`
	Adv     string `json:"advertised,omitempty"`
}

// eval performs one allocation with MinPort/MaxPort = min/max on an empty
// network with the scripted answer and checks it. sig == "" means conforming.
// No formatting happens on the conforming path (hot loop of the full sweep).
func (e *rangeEnv) eval(min, max, answer int) (sig, detail string, port int) {
	e.g.MinPort, e.g.MaxPort = uint16(min), uint16(max) //nolint:gosec
	e.answer, e.clamped = answer, false
	e.sr.Ns, e.sr.Ans, e.sr.bad = e.sr.Ns[:0], e.sr.Ans[:0], ""
	var res allocResult
	if e.proto == "udp" {
		c, a, err := e.g.AllocatePacketConn(e.conf)
		res.adv, res.err, res.isNil = a, err, c == nil
		if c != nil {
			res.conn, res.local = c, c.LocalAddr()
		}
	} else {
		l, a, err := e.g.AllocateListener(e.conf)
		res.adv, res.err, res.isNil = a, err, l == nil
		if l != nil {
			res.conn, res.local = l, l.Addr()
		}
	}
	want := max - min + 1
	if e.sr.bad != "" {
		sig, detail = "range:rand-misuse", e.sr.bad
	}
	if res.err != nil || res.isNil {
		if res.conn != nil {
			_ = res.conn.Close()
		}
		if sig == "" {
			sig, detail = "range:failed-on-empty-network", fmt.Sprintf("err=%v conn-nil=%v", res.err, res.isNil)
		}

		return sig, detail, 0
	}
	_, lport, _ := addrParts(res.local)
	aip, aport, atyp := addrParts(res.adv)
	port = lport
	switch {
	case sig != "":
	case lport < min || lport > max:
		sig, detail = "range:port-outside-range", fmt.Sprintf("bound port %d", lport)
	case atyp != e.proto:
		sig, detail = "range:advertised-type", atyp
	case aport != lport:
		sig, detail = "range:advertised-port!=bound", fmt.Sprintf("advertised %d bound %d", aport, lport)
	case !aip.Equal(e.relayIP):
		sig, detail = "range:advertised-ip!=relay-address", fmt.Sprintf("advertised %v", aip)
	case len(e.sr.Ns) != 1 || e.sr.Ns[0] != want:
		// secondary: the port was fine for this answer, but the generator does not
		// draw from exactly Max-Min+1 values (more: some answer leaves the range;
		// fewer: some port of the range is never handed out)
		sig, detail = "range:intn-arg!=range-size", fmt.Sprintf("Intn called with %v, range size %d", e.sr.Ns, want)
	}
	if e.stub != nil {
		// the port handed to ListenPacket / Listen is what the stub reports as bound
		if sig == "" && e.stub.binds != 1 {
			sig, detail = "range:bind-count", strconv.Itoa(e.stub.binds)
		}
		e.stub.binds = 0
		_ = res.conn.Close()

		return sig, detail, port
	}
	// simnet: exactly this one socket is open, and closing it frees the port
	key := net.JoinHostPort(e.bindIP.String(), strconv.Itoa(lport))
	if o := open(e.nw, e.proto); sig == "" && (len(o) != 1 || o[0] != key) {
		sig, detail = "range:open-sockets", fmt.Sprintf("open %v, expected [%s]", o, key)
	}
	_ = res.conn.Close()
	if o := open(e.nw, e.proto); len(o) != 0 {
		// harness must start every case on an empty network
		panic(fmt.Sprintf("harness: sockets left after close: %v", o))
	}

	return sig, detail, port
}

// answersFor: every answer when n <= 64, else {0,1,n/2,n-2,n-1}.
func answersFor(n int) []int {
	if n <= 64 {
		out := make([]int, n)
		for i := range out {
			out[i] = i
		}

		return out
	}

	return []int{0, 1, n / 2, n - 2, n - 1}
}

func quickPairs() [][2]int {
	set := map[[2]int]bool{}
	b := []int{1, 2, 3, 1023, 1024, 32767, 32768, 49151, 49152, 65533, 65534, 65535}
	for _, lo := range b {
		for _, hi := range b {
			if lo <= hi {
				set[[2]int{lo, hi}] = true
			}
		}
	}
	for _, w := range [][2]int{{1, 40}, {65496, 65535}} {
		for lo := w[0]; lo <= w[1]; lo++ {
			for hi := lo; hi <= w[1]; hi++ {
				set[[2]int{lo, hi}] = true
			}
		}
	}
	out := make([][2]int, 0, len(set))
	for p := range set {
		out = append(out, p)
	}
	sort.Slice(out, func(i, j int) bool {
		if out[i][0] != out[j][0] {
			return out[i][0] < out[j][0]
		}

		return out[i][1] < out[j][1]
	})

	return out
}

func sizeClass(n int) string {
	switch {
	case n == 1:
		return "single-port"
	case n <= 64:
		return "n<=64"
	case n == 65535:
		return "full-range"
	}

	return "n>64"
}

func report(r *rep.Report, e *rangeEnv, min, max, a int, sig, detail string, port int) {
	rc := rangeCase{Min: min, Max: max, Answer: a, Network: e.conf.Network, Net: e.netName(),
		IntnN: append([]int(nil), e.sr.Ns...), Bound: strconv.Itoa(port)}
	r.Violate(rep.Violation{Oracle: "port-range generator: Intn(Max-Min+1), bound port in [Min,Max], advertised = relay IP : bound port",
		Signature: sig + ":" + e.proto, Detail: fmt.Sprintf("Min=%d Max=%d answer=%d: %s", min, max, a, detail), Replay: rc})
}

// TestC20Range is part (i).
func TestC20Range(t *testing.T) {
	r := rep.New("C20")
	defer r.Write()
	si, sn := rep.Shard()
	lc := localClasses{}
	defer lc.flush(r)
	var envs []*rangeEnv
	for _, proto := range []string{"udp", "tcp"} {
		for _, fam := range []string{"4", "6"} {
			for _, stub := range []bool{false, true} {
				e := newRangeEnv(proto, fam, stub)
				if err := e.g.Validate(); err != nil {
					t.Fatalf("harness: Validate: %v", err)
				}
				envs = append(envs, e)
			}
		}
	}
	pairs := quickPairs()
	r.Bound = len(pairs)
	done := true
	// ---- boundary / small-window pairs, every answer, simnet and stub, udp/tcp x v4/v6
	for pi := si; pi < len(pairs) && done; pi += sn {
		min, max := pairs[pi][0], pairs[pi][1]
		n := max - min + 1
		rep.Current(rangeCase{Min: min, Max: max})
		for _, e := range envs {
			if r.OverBudget("range/quick-pairs") {
				done = false

				break
			}
			ans := answersFor(n)
			for _, a := range ans {
				var sig, detail string
				var port int
				if p := guarded(func() { sig, detail, port = e.eval(min, max, a) }); p != "" {
					sig, detail = "panic:range-allocate", p
				}
				r.Evaluations++
				if sig != "" {
					report(r, e, min, max, a, sig, detail, port)
					// when the library asks Intn for more than the range holds, show the
					// concrete out-of-range port its largest answer produces
					if len(e.sr.Ns) == 1 && e.sr.Ns[0] > n {
						if p := guarded(func() { sig, detail, port = e.eval(min, max, e.sr.Ns[0]-1) }); p == "" && sig != "" {
							report(r, e, min, max, e.sr.Ns[0]-1, sig, detail, port)
						}
					}

					continue
				}
				where := "interior"
				switch port {
				case min:
					where = "port=min"
				case max:
					where = "port=max"
				}
				if min == max {
					where = "port=min=max"
				}
				mapping := "port=min+answer"
				if port != min+a {
					mapping = "port!=min+answer"
				}
				lc[fmt.Sprintf("range:%s|%s|%s|%s|%s", e.conf.Network, e.netName(), sizeClass(n), where, mapping)]++
			}
		}
		if pi < 6*sn {
			r.Sample(rangeCase{Min: min, Max: max, Answer: n - 1, Network: "all 4", Net: "simnet+stub"})
		}
	}
	// ---- thorough: ALL pairs 1 <= Min <= Max <= 65535 (2^31 - 2^15 pairs), answers {0, n-1},
	// udp4 and tcp4 = 8.59e9 allocations. They go through the recording stub, not a socket
	// layer: measured 0.4 us per allocation with the stub (about 1 core hour in total) against
	// 1.5-2 us through simnet. The quick pairs above run through both and agree.
	if rep.Thorough() && done {
		eu, et := newRangeEnv("udp", "4", true), newRangeEnv("tcp", "4", true)
		_ = eu.g.Validate()
		_ = et.g.Validate()
		var nOK [2][4]int64 // [proto][single,min,max,other]
		var vio int
		for min := 1 + si; min <= 65535 && done; min += sn {
			if r.OverBudget("range/all-pairs") {
				done = false

				break
			}
			rep.Current(rangeCase{Min: min, Max: -1, Net: "stub"})
			cur := min
			p := guarded(func() {
				for max := min; max <= 65535; max++ {
					cur = max
					n := max - min + 1
					for k := 0; k < 2; k++ {
						a := 0
						if k == 1 {
							if n == 1 {
								break
							}
							a = n - 1
						}
						for pi, e := range [2]*rangeEnv{eu, et} {
							sig, detail, port := e.eval(min, max, a)
							if sig == "" && port != min+a {
								// in range but not min+answer: allowed by the statement, counted
								nOK[pi][3]++

								continue
							}
							if sig != "" {
								vio++
								if vio < 50 {
									report(r, e, min, max, a, sig, detail, port)
								} else {
									r.Violate(rep.Violation{Signature: sig + ":" + e.proto})
								}

								continue
							}
							switch {
							case n == 1:
								nOK[pi][0]++
							case k == 0:
								nOK[pi][1]++
							default:
								nOK[pi][2]++
							}
						}
					}
				}
			})
			if p != "" {
				r.Violate(rep.Violation{Oracle: "no-panic", Signature: "panic:range-allocate", Detail: p,
					Replay: rangeCase{Min: min, Max: cur, Net: "stub"}})
			}
		}
		for pi, proto := range []string{"udp4", "tcp4"} {
			for ci, c := range []string{"single-port|port=min=max", "answer=0|port=min", "answer=n-1|port=max", "in-range|port!=min+answer"} {
				if nOK[pi][ci] > 0 {
					lc["range-all-pairs:"+proto+"|stub|"+c] += nOK[pi][ci]
				}
				r.Evaluations += nOK[pi][ci]
			}
		}
		r.Evaluations += int64(vio)
	}
	r.Exhaustive = r.Exhaustive && done
}
