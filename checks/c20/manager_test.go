package c20

import (
	"encoding/json"
	"fmt"
	"net"
	"os"
	"testing"
	"time"

	"github.com/pion/turn/v5/internal/allocation"
	"github.com/pion/turn/v5/internal/proto"
	"github.com/pion/turn/v5/verif/rep"
	"github.com/pion/turn/v5/verif/simnet"
	"github.com/pion/turn/v5/verif/vtx"
)

// Part (vi): the path from an Allocate to the generators. The server hands a
// requested port (EVEN-PORT probe result, RESERVATION-TOKEN) to
// Manager.CreateAllocation, which passes it on to the generator; the relayed
// address it stores in the allocation is the one the server advertises. For
// every bundled generator x transport x family x listening address x requested
// port {none, P}: the allocation's RelayAddr names the port that is bound (P
// when one was requested), its IP is the relay address, exactly one socket is
// bound for it; a second allocation requesting the port the first one holds
// fails cleanly (UDP; TCP is the recorded SO_REUSEPORT finding); deleting the
// allocation frees the port.
type mgrCase struct {
	Gen       string `json:"generator"`
	Network   string `json:"network"`
	Address   string `json:"address"`
	Requested int    `json:"requested_port"`
}

type dummyTurnSocket struct{ net.PacketConn }

func (dummyTurnSocket) WriteTo(p []byte, _ net.Addr) (int, error) { return len(p), nil }
func (dummyTurnSocket) LocalAddr() net.Addr {
	return &net.UDPAddr{IP: net.IPv4(10, 0, 0, 1), Port: 3478}
}
func (dummyTurnSocket) Close() error { return nil }

func runManager(c mgrCase, lc localClasses) (sig, detail string) {
	protoName := c.Network[:3]
	bindIP := simnet.Resolve(c.Address)
	nw := simnet.New()
	nw.ModelReusePort = true
	nw.LogOff = true
	calls := 0
	sr := &scriptRand{next: func(_, n int) int { calls++; return (histP2 - reqMin + calls - 1) % n }}
	g, relay := reqCase{Gen: c.Gen, Network: c.Network, Address: c.Address, MaxRetries: 10}.build(nw, sr)
	if err := g.Validate(); err != nil {
		return "harness:validate", err.Error()
	}
	m, err := allocation.NewManager(allocation.ManagerConfig{LeveledLogger: vtx.Quiet{}, AllocatePacketConn: g.AllocatePacketConn,
		AllocateListener: g.AllocateListener, AllocateConn: g.AllocateConn})
	if err != nil {
		return "harness:newmanager", err.Error()
	}
	defer m.Close() //nolint:errcheck
	pr := proto.ProtoUDP
	if protoName == "tcp" {
		pr = proto.ProtoTCP
	}
	fam := proto.RequestedFamilyIPv4
	if c.Network[3] == '6' {
		fam = proto.RequestedFamilyIPv6
	}
	ft := func(port int) *allocation.FiveTuple {
		return &allocation.FiveTuple{Protocol: allocation.UDP, SrcAddr: &net.UDPAddr{IP: net.IPv4(10, 0, 0, 2), Port: port}, DstAddr: &net.UDPAddr{IP: net.IPv4(10, 0, 0, 1), Port: 3478}}
	}
	pre := open(nw, protoName)
	var a *allocation.Allocation
	ps := guarded(func() {
		a, err = m.CreateAllocation(ft(4000), dummyTurnSocket{}, pr, c.Requested, time.Hour, "u", "r", fam)
	})
	switch {
	case ps != "":
		return "panic:manager-create-allocation", ps
	case err != nil || a == nil:
		return "manager:failed-although-bindable", fmt.Sprint(err)
	}
	aip, aport, _ := addrParts(a.RelayAddr)
	now := open(nw, protoName)
	var fresh []string
	for _, k := range now {
		found := false
		for _, p := range pre {
			if p == k {
				found = true
			}
		}
		if !found {
			fresh = append(fresh, k)
		}
	}
	wantKey := net.JoinHostPort(bindIP.String(), fmt.Sprint(aport))
	switch {
	case len(fresh) != 1:
		return "manager:sockets-bound-for-one-allocation", fmt.Sprintf("%v", fresh)
	case fresh[0] != wantKey:
		return "manager:relayed-address-names-another-port-than-the-bound-one", fmt.Sprintf("RelayAddr %v, bound %v", a.RelayAddr, fresh)
	case c.Requested != 0 && aport != c.Requested:
		return "manager:requested-port-not-honoured:" + protoName, fmt.Sprintf("requested %d, RelayAddr %v, bound %v", c.Requested, a.RelayAddr, fresh)
	case relay != nil && !aip.Equal(relay):
		return "manager:relayed-ip!=relay-address", fmt.Sprint(a.RelayAddr)
	case c.Gen == "range" && c.Requested == 0 && (aport < reqMin || aport > reqMax):
		return "manager:port-outside-range", fmt.Sprint(a.RelayAddr)
	}
	kind := "any"
	if c.Requested != 0 {
		kind = "requested"
		if protoName == "udp" {
			// the same port for a second client: clean failure, nothing bound, nothing registered
			var b *allocation.Allocation
			ps = guarded(func() {
				b, err = m.CreateAllocation(ft(4001), dummyTurnSocket{}, pr, c.Requested, time.Hour, "u", "r", fam)
			})
			switch {
			case ps != "":
				return "panic:manager-create-allocation", ps
			case err == nil || b != nil:
				return "manager:no-error-for-port-held-by-live-allocation", fmt.Sprintf("second allocation %v", b.RelayAddr)
			case !sameSet(open(nw, protoName), now):
				return "manager:failed-allocation-left-socket-bound", fmt.Sprint(open(nw, protoName))
			case m.GetAllocation(ft(4001)) != nil:
				return "manager:failed-allocation-registered", ""
			}
		}
	}
	m.DeleteAllocation(ft(4000))
	if !sameSet(open(nw, protoName), pre) {
		return "manager:not-freed-on-delete", fmt.Sprint(open(nw, protoName))
	}
	lc[fmt.Sprintf("manager:%s|%s|%s -> relayed address = bound socket", c.Gen, protoName, kind)]++

	return "", ""
}

func TestC20Manager(t *testing.T) {
	r := rep.New("C20")
	defer r.Write()
	lc := localClasses{}
	defer lc.flush(r)
	if p := rep.ReplayPath(); p != "" {
		var doc struct {
			Case mgrCase `json:"case"`
		}
		b, err := os.ReadFile(p)
		if err != nil {
			t.Fatal(err)
		}
		if err := json.Unmarshal(b, &doc); err != nil {
			t.Fatal(err)
		}
		sig, detail := runManager(doc.Case, lc)
		fmt.Printf("verdict: %q %s\n", sig, detail)

		return
	}
	if i, _ := rep.Shard(); i != 0 {
		return
	}
	for _, gen := range []string{"static", "none", "range"} {
		for _, network := range []string{"udp4", "tcp4", "udp6", "tcp6"} {
			addrs := []string{"0.0.0.0", "10.9.0.1", "relay.test"} // the last one: a host name (legal wherever the generator takes an address)
			if network[3] == '6' {
				addrs = []string{"::", "fd00:9::1", "relay6.test"}
			}
			for _, addr := range addrs {
				for _, req := range []int{0, histP1, reqMin, reqMax, 1024, 65535} {
					c := mgrCase{Gen: gen, Network: network, Address: addr, Requested: req}
					rep.Current(c)
					sig, detail := runManager(c, lc)
					r.Evaluations++
					if sig != "" {
						r.Violate(rep.Violation{Oracle: "manager -> generator", Signature: sig + ":" + gen, Detail: fmt.Sprintf("%+v: %s", c, detail),
							Replay: map[string]any{"engine": "enum-c20-manager", "case": c}})
					}
				}
			}
		}
	}
}
