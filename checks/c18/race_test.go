package c18

import (
	"testing"
	"time"

	"github.com/pion/turn/v5/verif/checks/prof"
	"github.com/pion/turn/v5/verif/rep"
	"github.com/pion/turn/v5/verif/vtx"
)

// TestC18Race is the free-running complement of the controlled scheduler: the
// cooperative scheduler's hand-offs are happens-before edges, so it cannot see
// data races. The same kind of harness bodies (Engine A histories with
// teardown, TCP relay, two-client isolation) are therefore also run
// un-instrumented under the Go race detector. The histories are enumerated
// exhaustively to a small depth, but the interleavings inside each step are
// whatever the runtime produces: with respect to schedules this part is
// SAMPLING and is labelled so in the evidence; it is a side condition of the
// exhaustive result, not the deciding step.
func TestC18Race(t *testing.T) {
	r := rep.New("C18")
	defer r.Write()
	r.Extra["race_pass_is_sampling"] = "free-running goroutines under -race; a side condition of the exhaustive schedule search, not model checking"
	depth := 2
	if rep.Thorough() {
		depth = 3
	}
	sec := time.Second
	teardown := &vtx.Profile{
		Name: "race-teardown", Configs: []vtx.Config{{}, {Stream: true, Lifetime: 100 * sec, Perm: 40 * sec, Chan: 70 * sec}},
		Clients: []string{"c1", "c2"}, Peers: []string{"A", "B"}, Chans: []uint16{prof.N1}, Depth: depth + 1, Drain: true,
		Menu: func(m *vtx.Model, now time.Time, _ int) []vtx.Event {
			if m.Closed {
				return nil
			}
			var e []vtx.Event
			for _, c := range []string{"c1", "c2"} {
				if m.Gone[c] {
					continue
				}
				if m.Allocs[c] == nil {
					e = append(e, prof.E("alloc", c, 0))

					continue
				}
				e = append(e, vtx.Event{K: "refresh", C: c, L: 0}, vtx.Event{K: "fail-relay", C: c, L: -1},
					prof.E("perm", c, 0, "A"), prof.E("chan", c, prof.N1, "B"))
				if m.Cfg.Stream {
					e = append(e, vtx.Event{K: "close-control", C: c, L: -1})
				}
			}
			e = append(e, vtx.Event{K: "close-server", L: -1})

			return append(e, vtx.AdvanceMenu(m, now, []time.Duration{time.Nanosecond}, nil)...)
		},
	}
	tcp := prof.IsolationTCP("race-tcp", nil)
	tcp.Depth = depth + 1
	// allocation lifetime == ConnectionBind timeout: expiry and bind timers fire at the same instant,
	// so teardown really runs concurrently with the per-connection timers
	tcp.Configs = []vtx.Config{{Stream: true}, {Stream: true, Lifetime: 30 * sec}}
	for _, p := range []*vtx.Profile{teardown, tcp} {
		p.Tags = map[string]bool{} // only the race detector (and fatal errors) speak here
		vtx.Explore(t, p, r)
	}
}
