package c18

import (
	"os"
	"sort"
	"testing"

	"github.com/pion/turn/v5/verif/lockpaths"
	"github.com/pion/turn/v5/verif/rep"
)

// TestC18LockPaths: all control-flow paths of every lock-taking function.
func TestC18LockPaths(t *testing.T) {
	r := rep.New("C18")
	defer r.Write()
	if i, _ := rep.Shard(); i != 0 {
		return
	}
	repo := "/repo"
	if v := os.Getenv("VERIF_REPO"); v != "" {
		repo = v
	}
	findings, st, err := lockpaths.Analyze(repo)
	if err != nil {
		r.Violate(rep.Violation{Oracle: "harness", Signature: "harness:lockpaths", Detail: err.Error()})

		return
	}
	r.Evaluations = int64(st.Exits)
	r.States = int64(st.States)
	r.Transitions = int64(st.Branches)
	r.Extra["lockpaths_functions_taking_a_lock"] = int64(st.Functions)
	r.Extra["lockpaths_functions_scanned"] = int64(st.AllFunctions)
	r.Extra["lockpaths_exits_checked"] = int64(st.Exits)
	r.Extra["lockpaths_lock_sites"] = int64(st.LockSites)
	var names []string
	for fn, n := range st.PerFunction {
		names = append(names, fn)
		_ = n
		r.Class("lockpaths " + fn + " => balanced-on-all-paths")
	}
	sort.Strings(names)
	if len(names) > 12 {
		names = names[:12]
	}
	r.Sample(map[string]any{"lockpaths_functions": names})
	for _, f := range findings {
		r.Violate(rep.Violation{Oracle: "lockpaths", Signature: f.Sig, Detail: f.Detail,
			Replay: map[string]any{"engine": "lockpaths", "finding": f.Detail}})
	}
}
