package c18

import (
	"testing"
	"time"

	"github.com/pion/turn/v5/verif/rep"
	"github.com/pion/turn/v5/verif/sched"
	"github.com/pion/turn/v5/verif/shim/vsched"
	"github.com/pion/turn/v5/verif/vtx"
	"github.com/pion/turn/v5/verif/wire"
)

func udp(b *wire.B) { b.U32(wire.AttrRequestedTransport, 17<<24) }

func peer(name string) func(b *wire.B) {
	return func(b *wire.B) { b.XorAddr(wire.AttrXORPeerAddress, vtx.PeerSpec[name].IP, vtx.PeerSpec[name].Port) }
}

func yieldCB(kind string) { vsched.Point("callback", kind) }

func bound() int {
	if rep.Thorough() {
		return 3
	}

	return 2
}

// S1: CreatePermission for a new peer while the allocation's lifetime timer fires.
func s1() *sched.Scenario {
	return &sched.Scenario{Name: "S1-perm-vs-lifetime", Bound: bound(), Opt: vsched.Options{FireSlack: time.Millisecond, WritePref: true},
		Body: func(*vsched.Sched) (func() []string, func()) {
			w := sched.NewBW(sched.BCfg{CB: yieldCB})
			c := w.NewClient("c1")
			vsched.Go("client", func() {
				c.Do(wire.Allocate, func(b *wire.B) { udp(b); b.U32(wire.AttrLifetime, 1) })
				vsched.IdleSleep(time.Second - time.Nanosecond)
				c.Do(wire.CreatePermission, peer("A"))
			})

			return nil, func() { _ = w.Srv.Close() }
		}}
}

func scenarios() []*sched.Scenario { return []*sched.Scenario{s1()} }

func TestC18Sched(t *testing.T) {
	r := rep.New("C18")
	defer r.Write()
	for _, sc := range scenarios() {
		for _, desc := range []bool{false, true} {
			sc.MapDesc = desc
			sched.Explore(t, sc, r)
		}
	}
}
