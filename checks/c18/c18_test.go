package c18

import (
	"fmt"
	"net"
	"os"
	"sort"
	"strings"
	"sync"
	"testing"
	"time"

	"github.com/pion/turn/v5/verif/rep"
	"github.com/pion/turn/v5/verif/sched"
	"github.com/pion/turn/v5/verif/shim/vsched"
	"github.com/pion/turn/v5/verif/vtx"
	"github.com/pion/turn/v5/verif/wire"
)

func udp(b *wire.B) { b.U32(wire.AttrRequestedTransport, 17<<24) }

func peer(name string) func(b *wire.B) {
	return func(b *wire.B) { b.XorAddr(wire.AttrXORPeerAddress, vtx.PeerSpec[name].IP, vtx.PeerSpec[name].Port) }
}

func yieldCB(kind string) { vsched.Point("callback", kind) }

func bound() int {
	if rep.Thorough() {
		return 3
	}

	return 2
}

// S1: CreatePermission for a new peer while the allocation's lifetime timer fires.
func s1() *sched.Scenario {
	return &sched.Scenario{Name: "S1-perm-vs-lifetime", Bound: bound(), FreeBound: -1, Opt: vsched.Options{FireSlack: time.Millisecond, WritePref: true},
		Body: func(*vsched.Sched) (func() []string, func()) {
			w := sched.NewBW(sched.BCfg{CB: yieldCB})
			c := w.NewClient("c1")
			vsched.Go("client", func() {
				c.Do(wire.Allocate, func(b *wire.B) { udp(b); b.U32(wire.AttrLifetime, 1) })
				vsched.IdleSleep(time.Second - time.Nanosecond)
				vsched.Mark()
				c.Do(wire.CreatePermission, peer("A"))
			})

			return nil, func() { _ = w.Srv.Close() }
		}}
}

type flags struct {
	mu   sync.Mutex
	done map[string]bool
}

func (f *flags) set(k string) {
	f.mu.Lock()
	if f.done == nil {
		f.done = map[string]bool{}
	}
	f.done[k] = true
	f.mu.Unlock()
}

func (f *flags) need(keys ...string) func() []string {
	return func() []string {
		f.mu.Lock()
		defer f.mu.Unlock()
		var out []string
		for _, k := range keys {
			if !f.done[k] {
				out = append(out, "stuck:"+k+"-never-completed")
			}
		}

		return out
	}
}

var opt = vsched.Options{FireSlack: time.Millisecond, WritePref: true}

func chanAttrs(n uint16, p string) func(b *wire.B) {
	return func(b *wire.B) { b.U32(wire.AttrChannelNumber, uint32(n)<<16); peer(p)(b) }
}

func lifetime(l uint32) func(b *wire.B) { return func(b *wire.B) { b.U32(wire.AttrLifetime, l) } }

// S2: ChannelBind for a new peer while the allocation's lifetime timer fires.
func s2() *sched.Scenario {
	return &sched.Scenario{Name: "S2-chan-vs-lifetime", Bound: bound(), FreeBound: -1, Opt: opt,
		Body: func(*vsched.Sched) (func() []string, func()) {
			w := sched.NewBW(sched.BCfg{CB: yieldCB})
			c := w.NewClient("c1")
			vsched.Go("client", func() {
				c.Do(wire.Allocate, func(b *wire.B) { udp(b); b.U32(wire.AttrLifetime, 1) })
				vsched.IdleSleep(time.Second - time.Nanosecond)
				vsched.Mark()
				c.Do(wire.ChannelBind, chanAttrs(0x4000, "A"))
			})

			return nil, func() { _ = w.Srv.Close() }
		}}
}

// S3: Refresh racing the lifetime timer, then a new Allocate and its own expiry.
func s3() *sched.Scenario {
	return &sched.Scenario{Name: "S3-refresh-vs-lifetime-realloc", Bound: bound(), FreeBound: -1, Opt: opt,
		Body: func(*vsched.Sched) (func() []string, func()) {
			w := sched.NewBW(sched.BCfg{})
			c := w.NewClient("c1")
			var f flags
			vsched.Go("client", func() {
				c.Do(wire.Allocate, func(b *wire.B) { udp(b); b.U32(wire.AttrLifetime, 1) })
				vsched.IdleSleep(time.Second - time.Nanosecond)
				vsched.Mark()
				c.Fire(wire.Refresh, lifetime(3))
				vsched.IdleSleep(10 * time.Millisecond)
				c.Inbox = nil
				c.Do(wire.Allocate, func(b *wire.B) { udp(b); b.U32(wire.AttrLifetime, 2) })
				vsched.IdleSleep(5 * time.Second)
				f.set("client")
			})

			return f.need("client"), func() { _ = w.Srv.Close() }
		}}
}

// S4: a peer datagram arrives while the client deletes the allocation.
func s4() *sched.Scenario {
	return &sched.Scenario{Name: "S4-peer-data-vs-refresh0", Bound: bound(), FreeBound: -1, Opt: opt,
		Body: func(*vsched.Sched) (func() []string, func()) {
			w := sched.NewBW(sched.BCfg{CB: yieldCB})
			c := w.NewClient("c1")
			pa := w.NewPeer("A")
			var f flags
			vsched.Go("client", func() {
				r := c.Do(wire.Allocate, udp)
				relay, _ := r.XorAddr(wire.AttrXORRelayedAddress)
				c.Do(wire.CreatePermission, peer("A"))
				vsched.Mark()
				vsched.Go("peer", func() {
					_, _ = pa.WriteTo([]byte("hello"), relay)
					f.set("peer")
				})
				c.Do(wire.Refresh, lifetime(0))
				f.set("client")
			})

			return f.need("client", "peer"), func() { _ = w.Srv.Close() }
		}}
}

// S5: CreatePermission refresh racing the permission timer, then a later install.
func s5() *sched.Scenario {
	return &sched.Scenario{Name: "S5-perm-refresh-vs-timer", Bound: bound(), FreeBound: -1, Opt: opt,
		Body: func(*vsched.Sched) (func() []string, func()) {
			w := sched.NewBW(sched.BCfg{Perm: time.Second, CB: yieldCB})
			c := w.NewClient("c1")
			var f flags
			vsched.Go("client", func() {
				c.Do(wire.Allocate, udp)
				c.Do(wire.CreatePermission, peer("A"))
				vsched.IdleSleep(time.Second - time.Nanosecond)
				vsched.Mark()
				c.Do(wire.CreatePermission, peer("A"))
				vsched.IdleSleep(2 * time.Second)
				c.Do(wire.CreatePermission, peer("A"))
				f.set("client")
			})

			return f.need("client"), func() { _ = w.Srv.Close() }
		}}
}

// S6: ChannelBind refresh racing the channel timer.
func s6() *sched.Scenario {
	return &sched.Scenario{Name: "S6-chan-refresh-vs-timer", Bound: bound(), FreeBound: -1, Opt: opt,
		Body: func(*vsched.Sched) (func() []string, func()) {
			w := sched.NewBW(sched.BCfg{Chan: time.Second, CB: yieldCB})
			c := w.NewClient("c1")
			var f flags
			vsched.Go("client", func() {
				c.Do(wire.Allocate, udp)
				c.Do(wire.ChannelBind, chanAttrs(0x4000, "A"))
				vsched.IdleSleep(time.Second - time.Nanosecond)
				vsched.Mark()
				c.Do(wire.ChannelBind, chanAttrs(0x4000, "A"))
				vsched.IdleSleep(2 * time.Second)
				c.Do(wire.ChannelBind, chanAttrs(0x4000, "A"))
				f.set("client")
			})

			return f.need("client"), func() { _ = w.Srv.Close() }
		}}
}

// S7: TCP allocation: Connect, duplicate Connect (446), then the manager must still serve a Refresh.
func s7() *sched.Scenario {
	return &sched.Scenario{Name: "S7-connect-dup-then-refresh", Bound: bound(), FreeBound: -1, Opt: opt,
		Body: func(*vsched.Sched) (func() []string, func()) {
			w := sched.NewBW(sched.BCfg{Stream: true})
			c := w.NewClient("c1")
			if _, err := w.Net.ListenTCPAddr("tcp4", &net.TCPAddr{IP: vtx.PeerSpec["B"].IP, Port: 5000}); err != nil {
				panic(err)
			}
			var f flags
			vsched.Go("client", func() {
				c.Do(wire.Allocate, func(b *wire.B) { b.U32(wire.AttrRequestedTransport, 6<<24) })
				c.Do(wire.Connect, peer("B"))
				r := c.Do(wire.Connect, peer("B"))
				if r.Class != wire.Error || r.ErrorCode() != 446 {
					vsched.Fail(fmt.Sprintf("second-connect-not-446:%d/%d", r.Class, r.ErrorCode()))
				}
				c.Do(wire.Refresh, lifetime(600))
				f.set("client")
			})

			return f.need("client"), func() { _ = w.Srv.Close() }
		}}
}

// S8: Server.Close racing a request and a peer datagram.
func s8() *sched.Scenario {
	return &sched.Scenario{Name: "S8-server-close-vs-traffic", Bound: bound(), FreeBound: -1, Opt: opt,
		Body: func(*vsched.Sched) (func() []string, func()) {
			w := sched.NewBW(sched.BCfg{CB: yieldCB})
			c := w.NewClient("c1")
			pa := w.NewPeer("A")
			var f flags
			vsched.Go("client", func() {
				r := c.Do(wire.Allocate, udp)
				relay, _ := r.XorAddr(wire.AttrXORRelayedAddress)
				c.Do(wire.CreatePermission, peer("A"))
				vsched.Mark()
				vsched.Go("peer", func() {
					_, _ = pa.WriteTo([]byte("hello"), relay)
					f.set("peer")
				})
				vsched.Go("closer", func() {
					_ = w.Srv.Close()
					f.set("closer")
				})
				c.Fire(wire.CreatePermission, peer("B"))
				f.set("client")
			})

			return f.need("client", "peer", "closer"), nil
		}}
}

// S10: two stream clients of one listener share a manager.
func s10() *sched.Scenario {
	return &sched.Scenario{Name: "S10-two-stream-clients", Bound: bound() - 1, FreeBound: 2, Opt: opt,
		Body: func(*vsched.Sched) (func() []string, func()) {
			w := sched.NewBW(sched.BCfg{Stream: true})
			var f flags
			c1, c2 := w.NewClient("c1"), w.NewClient("c2")
			vsched.Go("driver", func() {
				c1.Do(wire.Allocate, udp)
				c2.Do(wire.Allocate, udp)
				vsched.Mark()
				for _, c := range []*sched.BClient{c1, c2} {
					vsched.Go(c.Name, func() {
						c.Do(wire.ChannelBind, chanAttrs(0x4000, "A"))
						c.Do(wire.Refresh, lifetime(0))
						f.set(c.Name)
					})
				}
			})

			return f.need("c1", "c2"), func() { _ = w.Srv.Close() }
		}}
}

// S11: a permitted peer connects to the relayed listener of a TCP allocation (accept loop: permission
// check, then registration under the manager lock) while the allocation is torn down by Refresh 0
// (manager lock, then every permission removed); callbacks yield.
func s11() *sched.Scenario {
	return &sched.Scenario{Name: "S11-inbound-peer-connection-vs-teardown", Bound: bound(), FreeBound: -1, Opt: opt,
		Body: func(*vsched.Sched) (func() []string, func()) {
			w := sched.NewBW(sched.BCfg{Stream: true, CB: yieldCB})
			c := w.NewClient("c1")
			var f flags
			vsched.Go("client", func() {
				r := c.Do(wire.Allocate, func(b *wire.B) { b.U32(wire.AttrRequestedTransport, 6<<24) })
				relay, ok := r.XorAddr(wire.AttrXORRelayedAddress)
				if !ok {
					vsched.Fail("tcp-allocate-failed")

					return
				}
				c.Do(wire.CreatePermission, func(b *wire.B) { peer("A")(b); peer("B")(b) })
				vsched.Mark()
				vsched.Go("peer", func() {
					pa := vtx.PeerSpec["A"]
					_, _ = w.Net.DialTCPAddr(&net.TCPAddr{IP: pa.IP, Port: pa.Port}, &net.TCPAddr{IP: relay.IP, Port: relay.Port})
					f.set("peer")
				})
				c.Do(wire.Refresh, lifetime(0))
				f.set("client")
			})

			return f.need("client", "peer"), func() { _ = w.Srv.Close() }
		}}
}

// S12: Server.Close racing an Allocate of a stream client whose lifecycle
// callbacks yield (on a stream listener Close runs on the caller's goroutine while the
// per-connection goroutine may still be inside a callback).
func s12() *sched.Scenario {
	return &sched.Scenario{Name: "S12-server-close-vs-stream-allocate", Bound: bound(), FreeBound: -1, Opt: opt,
		Body: func(*vsched.Sched) (func() []string, func()) {
			w := sched.NewBW(sched.BCfg{Stream: true, CB: yieldCB})
			c := w.NewClient("c1")
			var f flags
			vsched.Go("client", func() {
				c.Do(wire.Allocate, udp)        // obtains a nonce ...
				c.Do(wire.Refresh, lifetime(0)) // ... and leaves no allocation behind
				vsched.Mark()
				vsched.Go("closer", func() {
					_ = w.Srv.Close()
					f.set("closer")
				})
				c.Fire(wire.Allocate, udp)
				f.set("client")
			})

			return f.need("client", "closer"), nil
		}}
}

// S13: a stream client with a bound channel stops reading (its TCP window is full: the server's writes to it
// block) while its peer keeps sending; then its allocation ends (Refresh 0). The relay goroutine is stuck in a
// write, which is nobody's fault - but nothing else may depend on it: the teardown completes far enough for the
// server to go on serving the other clients of the listener. At the end the stalled client goes away.
func s13() *sched.Scenario {
	return &sched.Scenario{Name: "S13-client-stops-reading-then-its-allocation-ends", Bound: bound(), FreeBound: -1, Opt: opt,
		Body: func(*vsched.Sched) (func() []string, func()) {
			w := sched.NewBW(sched.BCfg{Stream: true, CB: yieldCB})
			c1, c2 := w.NewClient("c1"), w.NewClient("c2")
			pa := w.NewPeer("A")
			var f flags
			vsched.Go("clients", func() {
				r := c1.Do(wire.Allocate, udp)
				relay, _ := r.XorAddr(wire.AttrXORRelayedAddress)
				c1.Do(wire.ChannelBind, chanAttrs(0x4000, "A"))
				c2.Do(wire.Allocate, udp)
				c1.Conn.Peer().StallWrites(true) // the server's end of c1's connection
				vsched.Mark()
				_, _ = pa.WriteTo([]byte("to-a-client-that-does-not-read"), relay)
				vsched.IdleSleep(time.Second)
				c1.Fire(wire.Refresh, lifetime(0)) // the answer cannot be written either: do not wait for it
				vsched.IdleSleep(time.Second)
				if r2 := c2.Do(wire.Refresh, lifetime(600)); r2.Class == wire.Success {
					f.set("c2-served")
				}
				_ = c1.Conn.Close() // the stalled client gives up: the blocked writes fail
				f.set("clients")
			})

			return f.need("clients", "c2-served"), func() { _ = w.Srv.Close() }
		}}
}

// S14: a permission's timer fires (its expiry runs under the permissions lock, callback included) while a
// ChannelBind for a NEW channel to another port of that host is handled (binding table, then the permission of the
// peer): the two take the allocation's two locks, each from its own side; callbacks yield.
func s14() *sched.Scenario {
	return &sched.Scenario{Name: "S14-permission-expiry-vs-new-channelbind", Bound: bound(), FreeBound: -1, Opt: opt,
		Body: func(*vsched.Sched) (func() []string, func()) {
			w := sched.NewBW(sched.BCfg{Perm: time.Second, Chan: 10 * time.Second, CB: yieldCB})
			c := w.NewClient("c1")
			var f flags
			vsched.Go("client", func() {
				c.Do(wire.Allocate, udp)
				c.Do(wire.CreatePermission, peer("A"))
				vsched.IdleSleep(time.Second - time.Nanosecond)
				vsched.Mark()
				c.Do(wire.ChannelBind, chanAttrs(0x4000, "A2"))
				c.Do(wire.ChannelBind, chanAttrs(0x4001, "B"))
				vsched.IdleSleep(2 * time.Second)
				c.Do(wire.Refresh, lifetime(0))
				f.set("client")
			})

			return f.need("client"), func() { _ = w.Srv.Close() }
		}}
}

// S15: the server is closed while a Connect of a TCP allocation is still dialling its peer (the dial takes 2 s);
// the dial then succeeds and the handler goes on with an allocation that has been closed under it.
func s15() *sched.Scenario {
	return s15dial("S15-server-close-during-a-slow-connect-dial", 2*time.Second)
}

// S16: the same, but the dial completes at the very instant the server is closed, so that the handler's
// registration of the new connection interleaves with every step of the teardown (the manager closing the
// allocation, the relay listener's accept loop noticing it and deleting the allocation).
func s16() *sched.Scenario {
	return s15dial("S16-connect-dial-completes-while-the-server-closes", time.Second)
}

func s15dial(name string, dial time.Duration) *sched.Scenario {
	o := opt
	o.IdleTies = true

	return &sched.Scenario{Name: name, Bound: bound(), FreeBound: -1, Opt: o,
		Body: func(*vsched.Sched) (func() []string, func()) {
			w := sched.NewBW(sched.BCfg{Stream: true, SlowDial: dial, CB: yieldCB})
			c := w.NewClient("c1")
			if _, err := w.Net.ListenTCPAddr("tcp4", &net.TCPAddr{IP: vtx.PeerSpec["B"].IP, Port: 5000}); err != nil {
				panic(err)
			}
			var f flags
			vsched.Go("client", func() {
				c.Do(wire.Allocate, func(b *wire.B) { b.U32(wire.AttrRequestedTransport, 6<<24) })
				c.Fire(wire.Connect, peer("B"))
				vsched.IdleSleep(time.Second)
				vsched.Mark()
				_ = w.Srv.Close()
				f.set("closer")
				vsched.IdleSleep(3 * time.Second)
				f.set("client")
			})

			return f.need("client", "closer"), nil
		}}
}

// S17: the operator's lifecycle handlers call back into the server's own API (Server.AllocationCount, what a
// metrics handler does) on every path that ends an allocation: lifetime expiry (c1) racing a Refresh 0 (c2), then
// Server.Close. A handler invoked under the allocation manager's lock would lock up there.
func s17() *sched.Scenario {
	return &sched.Scenario{Name: "S17-lifecycle-handlers-call-back-into-the-server", Bound: bound(), FreeBound: -1, Opt: opt,
		Body: func(*vsched.Sched) (func() []string, func()) {
			var w *sched.BW
			w = sched.NewBW(sched.BCfg{CB: func(kind string) {
				// (the allocation handlers: the library calls them outside its locks on every path. The permission and
				// channel handlers run under the allocation's locks and, in a teardown, under the manager's: DESIGN section 6, observation)
				if w != nil && strings.HasPrefix(kind, "alloc") {
					_ = w.Srv.AllocationCount()
				}
				vsched.Point("callback", "count")
			}})
			c1, c2 := w.NewClient("c1"), w.NewClient("c2")
			var f flags
			vsched.Go("client", func() {
				c1.Do(wire.Allocate, func(b *wire.B) { udp(b); b.U32(wire.AttrLifetime, 1) })
				c2.Do(wire.Allocate, udp)
				vsched.IdleSleep(time.Second - time.Nanosecond)
				vsched.Mark()
				c2.Do(wire.Refresh, lifetime(0))
				vsched.IdleSleep(2 * time.Second)
				f.set("client")
			})

			return f.need("client"), func() { _ = w.Srv.Close() }
		}}
}

func scenarios() []*sched.Scenario {
	return []*sched.Scenario{s1(), s2(), s3(), s4(), s5(), s6(), s7(), s8(), s10(), s11(), s12(), s13(), s14(), s15(), s16(), s17()}
}

func TestC18Sched(t *testing.T) {
	r := rep.New("C18")
	defer r.Write()
	scs := scenarios()
	// the two scenarios with most schedules run last: an exceeded budget cuts into them, not into the small ones
	sort.SliceStable(scs, func(i, j int) bool {
		hv := func(n string) bool {
			return n == "S12-server-close-vs-stream-allocate" || n == "S10-two-stream-clients"
		}

		return !hv(scs[i].Name) && hv(scs[j].Name)
	})
	for _, sc := range scs {
		if only := os.Getenv("VERIF_SCENARIO"); only != "" && only != sc.Name {
			continue
		}
		orders := []bool{false}
		if sc.BothMapOrders {
			orders = append(orders, true)
		}
		for _, desc := range orders {
			sc.MapDesc = desc
			sched.Explore(t, sc, r)
		}
	}
}
