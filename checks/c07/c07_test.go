package c07

import (
	"testing"
	"time"

	"github.com/pion/turn/v5/verif/rep"
	"github.com/pion/turn/v5/verif/vtx"
)

const tenH = 10 * time.Hour

func ev(k, c string, n uint16, peers ...string) vtx.Event {
	return vtx.Event{K: k, C: c, N: n, Peers: peers, L: -1}
}

func profile() *vtx.Profile {
	depth := 4
	if rep.Thorough() {
		depth = 5
	}

	return &vtx.Profile{
		Name: "c07-perm-chan-timeouts",
		Configs: []vtx.Config{
			{Lifetime: tenH},
			{Lifetime: tenH, Perm: 40 * time.Second, Chan: 100 * time.Second},
			{Lifetime: tenH, Perm: 100 * time.Second, Chan: 40 * time.Second},
			// a configured default allocation lifetime BELOW both timeouts: the allocation of this configuration is made
			// with LIFETIME 3599 (granted as requested), so it outlives the default and its entries keep their own timeouts
			{Name: "short-default-lifetime", Lifetime: 30 * time.Second, Perm: 40 * time.Second, Chan: 100 * time.Second},
		},
		Clients: []string{"c1"},
		Peers:   []string{"A", "A2", "B"},
		Chans:   []uint16{0x4000, 0x4001},
		Depth:   depth,
		Drain:   true,
		Setup: func(c vtx.Config) []vtx.Event {
			if c.Name == "short-default-lifetime" {
				return []vtx.Event{{K: "alloc", C: "c1", L: 3599}}
			}

			return []vtx.Event{{K: "alloc", C: "c1", L: -1}}
		},
		Tags: map[string]bool{"miss-c2p": true, "miss-p2c": true, "leak-c2p": true, "leak-p2c": true, "resp": true,
			"chan-bijection": true},
		Menu: func(m *vtx.Model, now time.Time, _ int) []vtx.Event {
			e := []vtx.Event{
				ev("perm", "c1", 0, "A"), ev("perm", "c1", 0, "B"), ev("perm", "c1", 0, "A", "B"),
				ev("perm", "c1", 0, "A", "V6"),
				// another port of an already permitted host: permissions are per IP, so these refresh A's
				ev("perm", "c1", 0, "A2"), ev("chan", "c1", 0x4001, "A2"),
				// refreshing the allocation refreshes neither permissions nor channels
				{K: "refresh", C: "c1", L: -1},
				ev("chan", "c1", 0x4000, "A"), ev("chan", "c1", 0x4001, "B"),
				ev("chan", "c1", 0x4000, "B"), ev("chan", "c1", 0x4001, "A"),
			}
			half := m.Cfg.PermOrDefault() / 2
			if c := m.Cfg.ChanOrDefault() / 2; c < half {
				half = c
			}

			return append(e, vtx.AdvanceMenu(m, now, []time.Duration{time.Nanosecond, time.Second}, []time.Duration{500 * time.Millisecond, half})...)
		},
	}
}

func TestC07(t *testing.T) {
	r := rep.New("C07")
	defer r.Write()
	vtx.Explore(t, profile(), r)
}

// TestC07BFS: merged breadth-first search to depth 8 (thorough tier only).
func TestC07BFS(t *testing.T) {
	r := rep.New("C07")
	defer r.Write()
	p := profile()
	p.Name = "c07-bfs"
	vtx.ExploreBFS(t, p, r, 8)
}
