package c05

import (
	"bytes"
	"encoding/json"
	"fmt"
	"os"
	"testing"
	"testing/synctest"
	"time"

	"github.com/pion/turn/v5/verif/rep"
	"github.com/pion/turn/v5/verif/vtx"
	"github.com/pion/turn/v5/verif/wire"
)

// Part stalled: a stream client stops reading in the middle of a relayed
// message (its window takes `room` more bytes, then the server's write blocks),
// stays silent for `stall`, then reads on, while the peer goes on sending.
// A stream write is not all-or-nothing: whatever the server does about the
// blocked write, the client's stream must still parse into frames each of which
// is one of the payloads the peer sent, byte for byte, in order (a payload may
// be missing; none may be cut, merged with another one or altered).
func TestC05Stalled(t *testing.T) {
	r := rep.New("C05")
	defer r.Write()
	if i, _ := rep.Shard(); i != 0 {
		return
	}
	type cas struct {
		Kind  string `json:"kind"` // chandata | data-indication
		Room  int    `json:"room"`
		Stall string `json:"stall"`
		Len   int    `json:"len"`
	}
	var cases []cas
	for _, kind := range []string{"chandata", "data-indication"} {
		for _, room := range []int{0, 1, 3, 4, 5, 10, 36, 500} {
			for _, stall := range []string{"10ms", "999ms", "1s", "1.7s", "31s", "3m"} {
				for _, l := range []int{1, 1000} {
					cases = append(cases, cas{kind, room, stall, l})
				}
			}
		}
	}
	if rep.ReplayPath() != "" {
		// replay: only the recorded case; the verdict is printed
		var doc struct {
			Case cas `json:"case"`
		}
		if b, err := os.ReadFile(rep.ReplayPath()); err == nil && json.Unmarshal(b, &doc) == nil && doc.Case.Kind != "" {
			cases = []cas{doc.Case}
		}
		defer func() { fmt.Printf("replayed %+v: %d violation(s) %v\n", cases, len(r.Violations), r.Violations) }()
	}
	for _, c := range cases {
		var fatal string
		func() {
			defer func() {
				if e := recover(); e != nil {
					fatal = fmt.Sprint(e)
				}
			}()
			synctest.Test(t, func(*testing.T) {
				fail := func(sig, detail string) {
					r.Violate(rep.Violation{Oracle: "c05-stalled", Signature: "stalled:" + sig + ":" + c.Kind, Detail: fmt.Sprintf("%+v: %s", c, detail),
						Replay: map[string]any{"engine": "c05-stalled", "case": c}})
				}
				w, err := vtx.NewWorld(vtx.Config{Stream: true}, []string{"c1"}, []string{"A"})
				if err != nil {
					fail("harness:newworld", err.Error())

					return
				}
				defer w.Close()
				cl, pa := w.C["c1"], w.P["A"]
				res := cl.Request(wire.Allocate, nil, func(b *wire.B) { b.U32(wire.AttrRequestedTransport, 17<<24) })
				if res.Resp == nil || res.Resp.Class != wire.Success {
					fail("harness:allocate", fmt.Sprint(res.Resp))

					return
				}
				relay, _ := res.Resp.XorAddr(wire.AttrXORRelayedAddress)
				peerAttr := func(b *wire.B) { b.XorAddr(wire.AttrXORPeerAddress, pa.Addr.IP, pa.Addr.Port) }
				if c.Kind == "chandata" {
					res = cl.Request(wire.ChannelBind, nil, func(b *wire.B) { b.U32(wire.AttrChannelNumber, 0x4007<<16); peerAttr(b) })
				} else {
					res = cl.Request(wire.CreatePermission, nil, peerAttr)
				}
				if res.Resp == nil || res.Resp.Class != wire.Success {
					fail("harness:authorise", fmt.Sprint(res.Resp))

					return
				}
				cl.Recv()
				payload := func(k int) []byte {
					p := make([]byte, c.Len)
					for i := range p {
						p[i] = byte(0x10*k + i%13)
					}

					return p
				}
				stall, _ := time.ParseDuration(c.Stall)
				cl.Conn.Peer().StallAfter(c.Room) // the server's end of the control connection
				sent := [][]byte{payload(1)}
				_, _ = pa.Sock.WriteTo(sent[0], relay)
				synctest.Wait()
				time.Sleep(stall / 2)
				synctest.Wait()
				sent = append(sent, payload(2))
				_, _ = pa.Sock.WriteTo(sent[1], relay)
				time.Sleep(stall - stall/2)
				synctest.Wait()
				cl.Conn.Peer().StallWrites(false)
				synctest.Wait()
				sent = append(sent, payload(3))
				_, _ = pa.Sock.WriteTo(sent[2], relay)
				synctest.Wait()
				r.Evaluations++
				next, got := 0, 0
				for _, rx := range cl.Recv() {
					var data []byte
					switch {
					case rx.Bad != "":
						fail("stream-does-not-parse", rx.String())

						return
					case rx.Msg == nil:
						data = rx.Data
					case rx.Msg.Method == wire.Data:
						data, _ = rx.Msg.Get(wire.AttrData)
					default:
						fail("unexpected-message", rx.String())

						return
					}
					for next < len(sent) && !bytes.Equal(sent[next], data) {
						next++
					}
					if next == len(sent) {
						fail("frame-that-the-peer-never-sent", fmt.Sprintf("frame %d: %d bytes % x...", got, len(data), data[:min(12, len(data))]))

						return
					}
					next++
					got++
				}
				if got == 0 || next != len(sent) {
					fail("nothing-after-the-stall", fmt.Sprintf("%d frames, the payload sent after the stall is not among them", got))
				}
				r.Class(fmt.Sprintf("stalled:%s room=%d stall=%s len=%d -> %d of 3 delivered", c.Kind, c.Room, c.Stall, c.Len, got))
			})
		}()
		if fatal != "" {
			r.Violate(rep.Violation{Oracle: "fatal", Signature: "stalled:panic:" + c.Kind, Detail: fmt.Sprintf("%+v: %s", c, fatal)})
		}
	}
}
