package c05

import (
	"bytes"
	"fmt"
	"syscall"
	"testing"
	"testing/synctest"

	"github.com/pion/turn/v5/verif/rep"
	"github.com/pion/turn/v5/verif/vtx"
	"github.com/pion/turn/v5/verif/wire"
)

var contents = []string{"zeros", "ff", "counter", "cookie", "chandata-header", "stun-header"}

func payload(kind string, l int) []byte {
	p := make([]byte, l)
	switch kind {
	case "zeros":
	case "ff":
		for i := range p {
			p[i] = 0xFF
		}
	case "counter":
		for i := range p {
			p[i] = byte(i*7 + 1)
		}
	case "cookie":
		copy(p, []byte{0x21, 0x12, 0xA4, 0x42, 1, 2, 3, 4, 5, 6, 7, 8, 9, 10, 11, 12, 0, 0, 0, 0})
		for i := 20; i < l; i++ {
			p[i] = byte(i)
		}
	case "chandata-header":
		copy(p, []byte{0x40, 0x00, 0x00, 0x04, 0xde, 0xad, 0xbe, 0xef})
		for i := 8; i < l; i++ {
			p[i] = byte(i)
		}
	case "stun-header":
		copy(p, []byte{0x00, 0x01, 0x00, 0x00, 0x21, 0x12, 0xA4, 0x42, 1, 2, 3, 4, 5, 6, 7, 8, 9, 10, 11, 12})
		for i := 20; i < l; i++ {
			p[i] = byte(i)
		}
	}

	return p
}

func lengths() []int {
	var out []int
	if rep.Thorough() {
		for l := 0; l <= 65507; l++ {
			out = append(out, l)
		}

		return out
	}
	add := func(a, b int) {
		for l := a; l <= b; l++ {
			out = append(out, l)
		}
	}
	add(0, 1800) // every length up to beyond the 1600-byte buffers
	add(8960, 9010)
	add(32760, 32776)
	add(65480, 65507)

	return out
}

func lenClass(l, mtu int) string {
	switch {
	case l <= 4:
		return "len<=4"
	case l < mtu-100:
		return "len<mtu-100"
	case l <= mtu:
		return "len~mtu"
	case l <= 1600:
		return "mtu<len<=1600"
	}

	return "len>1600"
}

type cfg struct {
	stream  bool
	mtu     int
	content string
	v6      bool // IPv6 listener, client, allocation and peers
}

func (c cfg) String() string {
	s := fmt.Sprintf("stream=%v mtu=%d content=%s", c.stream, c.mtu, c.content)
	if c.v6 {
		s += " ipv6"
	}

	return s
}

func effMTU(m int) int {
	if m == 0 {
		return 1600
	}

	return m
}

// run relays every length of lens on all four paths in one world.
func run(t *testing.T, r *rep.Report, c cfg, lens []int) {
	var fatal string
	func() {
		defer func() {
			if e := recover(); e != nil {
				fatal = fmt.Sprint(e)
			}
		}()
		synctest.Test(t, func(*testing.T) {
			// the bound channel: the lowest number for datagram clients, the highest one for stream clients
			chanN := uint16(0x4000)
			if c.stream {
				chanN = 0x7FFF
			}
			cn, nA, nA2, nB := "c1", "A", "A2", "B"
			if c.v6 {
				cn, nA, nA2, nB = "c6", "V6", "V62", "V6b"
			}
			w, err := vtx.NewWorld(vtx.Config{Stream: c.stream, MTU: c.mtu, V6: c.v6}, []string{cn}, []string{nA, nA2, nB})
			if err != nil {
				r.Violate(rep.Violation{Oracle: "harness", Signature: "harness:newworld", Detail: err.Error()})

				return
			}
			defer w.Close()
			x := &vtx.Exec{W: w, M: vtx.NewModel(w.Cfg)}
			for _, ev := range []vtx.Event{{K: "alloc", C: cn, L: -1}, {K: "perm", C: cn, Peers: []string{nA}, L: -1},
				{K: "chan", C: cn, N: chanN, Peers: []string{nB}, L: -1}} {
				if v := x.Apply(ev); v != nil {
					r.Violate(rep.Violation{Oracle: "harness", Signature: "harness:setup:" + v.Sig, Detail: v.Detail})

					return
				}
			}
			c1 := w.C[cn]
			relay := x.M.Allocs[cn].Relay
			pa, pb, pa2 := w.P[nA], w.P[nB], w.P[nA2]
			// the permission was installed naming A's port; A2 shares the IP and is therefore permitted too,
			// and must be attributed with its own port
			lens = append(append([]int{}, lens...), -2, -1) // -2: one transient write error in each direction; -1: final small probe, delivery mandatory
			for _, l := range lens {
				if l == -2 {
					// A single failed write (ENOBUFS: the kernel's queue was full for a moment) loses that one
					// datagram and nothing else: one write of the server's socket toward the client fails (UDP
					// transport; a failed stream write means a broken connection) and one write of the relay
					// socket toward a peer. The datagrams concerned are excused; the final probe that follows is not.
					if rs := w.Net.UDPAt(relay.String()); rs != nil {
						rs.WriteErr, rs.WriteErrOnce = syscall.ENOBUFS, true
						c1.Send(wire.ChannelData(chanN, []byte("lost-to-a-transient-write-error"), c.stream))
						synctest.Wait()
					}
					if !c.stream && w.SrvSock != nil {
						for _, p := range []*vtx.Peer{pa, pb} {
							w.SrvSock.WriteErr, w.SrvSock.WriteErrOnce = syscall.ENOBUFS, true
							_, _ = p.Sock.WriteTo([]byte("lost-to-a-transient-write-error"), relay)
							synctest.Wait()
						}
						w.SrvSock.WriteErr = nil
					}
					w.Collect()
					r.Class(fmt.Sprintf("stream=%v transient-write-error-injected", c.stream))

					continue
				}
				final := l < 0
				if final {
					l = 10
				}
				pl := payload(c.content, l)
				copies := 1
				if l <= 5 {
					copies = 2 // back-to-back datagrams must never be merged
				}
				for range copies {
					// 1 Send -> A, 2 ChannelData -> B, 3 A -> Data indication, 4 B -> ChannelData
					// (a Send indication for an IPv6 peer has room for 65504 payload bytes: longer ones cannot be expressed)
					if xl := map[bool]int{false: 12, true: 24}[c.v6]; xl+4+(l+3)/4*4 <= 0xFFFF {
						c1.Send(wire.New(wire.Send, wire.Indication, w.NextTx()).XorAddr(wire.AttrXORPeerAddress, pa.Addr.IP, pa.Addr.Port).Attr(wire.AttrData, pl).Bytes())
					}
					c1.Send(wire.ChannelData(chanN, pl, c.stream))
					_, _ = pa.Sock.WriteTo(pl, relay)
					_, _ = pb.Sock.WriteTo(pl, relay)
					_, _ = pa2.Sock.WriteTo(pl, relay)
				}
				synctest.Wait()
				r.Evaluations += int64(5 * copies)
				got := w.Collect()
				seen := map[string]int{}
				for _, d := range got {
					path := ""
					switch {
					case d.At == nA && d.Kind == "udp":
						path = "send->peer"
					case d.At == nB && d.Kind == "udp":
						path = "chandata->peer"
					case d.At == cn && d.Kind == "data" && d.Peer == pa2.Addr.String():
						path = "peer(same-ip-other-port)->data-indication"
					case d.At == cn && d.Kind == "data":
						path = "peer->data-indication"
					case d.At == cn && d.Kind == "chan":
						path = "peer->chandata"
					}
					fail := func(sig, detail string) {
						r.Violate(rep.Violation{Oracle: "c05", Signature: sig, Detail: fmt.Sprintf("%s len=%d: %s", c, l, detail),
							Replay: map[string]any{"engine": "enum-c05", "stream": c.stream, "mtu": c.mtu, "content": c.content, "len": l}})
					}
					if path == "" {
						fail(fmt.Sprintf("unexpected-delivery:%s:%s:stream=%v", d.Kind, c.content, c.stream), d.String()[:min(200, len(d.String()))])

						continue
					}
					seen[path]++
					body := []byte(d.Body)
					if !bytes.Equal(body, pl) {
						how := "altered"
						switch {
						case len(body) < len(pl) && bytes.Equal(body, pl[:len(body)]):
							how = "truncated"
						case len(body) > len(pl) && bytes.Equal(body[:len(pl)], pl):
							how = "padded"
						}
						fail(fmt.Sprintf("payload-%s:%s", how, path),
							fmt.Sprintf("delivered %d bytes for %d sent", len(body), len(pl)))

						continue
					}
					switch path {
					case "send->peer", "chandata->peer":
						if d.From != relay.String() {
							fail("wrong-source-toward-peer:"+path, d.From)
						}
					case "peer->data-indication":
						if d.Peer != pa.Addr.String() {
							fail("wrong-peer-attribution:data-indication", d.Peer)
						}
					case "peer->chandata":
						if d.Chan != chanN {
							fail("wrong-peer-attribution:channel", fmt.Sprint(d.Chan))
						}
					}
				}
				for _, path := range []string{"send->peer", "chandata->peer", "peer->data-indication", "peer->chandata", "peer(same-ip-other-port)->data-indication"} {
					n := seen[path]
					if final && n != copies {
						// a 10-byte datagram is never "too large to be relayed whole": after whatever came before,
						// relaying must still work on every path
						r.Violate(rep.Violation{Oracle: "c05", Signature: "small-datagram-not-relayed:" + path,
							Detail: fmt.Sprintf("%s: after lengths %d..%d a 10-byte datagram was delivered %d times on %s", c, lens[0], lens[len(lens)-3], n, path)})
					}
					if n < copies && l < min(effMTU(c.mtu), 1600)-100 {
						// "too large to be relayed whole" is the only licence to drop: nothing this far below every buffer is
						r.Violate(rep.Violation{Oracle: "c05", Signature: "datagram-not-too-large-dropped:" + path + ":" + lenClass(l, effMTU(c.mtu)),
							Detail: fmt.Sprintf("%s len=%d: %d deliveries for %d sent", c, l, n, copies),
							Replay: map[string]any{"engine": "enum-c05", "stream": c.stream, "mtu": c.mtu, "content": c.content, "len": l, "v6": c.v6}})
					}
					if n > copies {
						r.Violate(rep.Violation{Oracle: "c05", Signature: "duplicated:" + path, Detail: fmt.Sprintf("%s len=%d: %d deliveries for %d sent", c, l, n, copies)})
					}
					st := "relayed"
					if n == 0 {
						st = "dropped"
					} else if n < copies {
						st = "partly-dropped"
					}
					fam := ""
					if c.v6 {
						fam = "ipv6 "
					}
					r.Class(fmt.Sprintf("%sstream=%v mtu=%d %s %s %s -> %s", fam, c.stream, effMTU(c.mtu), c.content, path, lenClass(l, effMTU(c.mtu)), st))
				}
			}
		})
	}()
	if fatal != "" {
		r.Violate(rep.Violation{Oracle: "fatal", Signature: "fatal:" + fatal, Detail: c.String()})
	}
}

func TestC05(t *testing.T) {
	r := rep.New("C05")
	defer r.Write()
	shard, n := rep.Shard()
	lens := lengths()
	idx := 0
	var cfgs []cfg
	for _, stream := range []bool{false, true} {
		for _, mtu := range []int{0, 600, 9000} {
			for _, ct := range contents {
				cfgs = append(cfgs, cfg{stream: stream, mtu: mtu, content: ct})
			}
		}
		// IPv6 end to end (the XOR of a 16-byte address involves the transaction id)
		for _, ct := range contents {
			cfgs = append(cfgs, cfg{stream: stream, content: ct, v6: true})
		}
	}
	// shard over (config, length block)
	const block = 512
	for _, c := range cfgs {
		for off := 0; off < len(lens); off += block {
			idx++
			if idx%n != shard {
				continue
			}
			if r.OverBudget("c05") {
				return
			}
			end := min(off+block, len(lens))
			run(t, r, c, lens[off:end])
		}
	}
	r.Sample(map[string]any{"configs": len(cfgs), "lengths": len(lens), "paths": 4, "first_lengths": lens[:8]})
}
