package c11

import (
	"encoding/binary"
	"fmt"
	"testing"
	"time"

	"github.com/pion/stun/v3"
	"github.com/pion/turn/v5/internal/proto"
	"github.com/pion/turn/v5/verif/rep"
	"github.com/pion/turn/v5/verif/wire"
)

// boundary16 is the boundary set of 16-bit halves used by the quick tier:
// the quick domain of a 32-bit value x = hi<<16|lo is {x : hi in B or lo in B}.
func boundary16() []int {
	return []int{
		0, 1, 2, 3, 0x00FF, 0x0100, 0x0101, 0x0200, 0x0600, 0x1100, 0x2112, 0x3FFF, 0x4000, 0x4001,
		0x7FFE, 0x7FFF, 0x8000, 0x8001, 0xA442, 0xFF00, 0xFFFE, 0xFFFF,
	}
}

type u32Case struct {
	Attr string `json:"attr"`
	Raw  string `json:"raw_value_hex,omitempty"`
	Val  uint32 `json:"value,omitempty"`
}

// rawMsg is a message holding exactly one 4-byte attribute whose value is
// rewritten in place for every case.
type rawMsg struct {
	m   *stun.Message
	val []byte
}

func newRawMsg(typ uint16) rawMsg {
	m := stun.New()
	m.Type = stun.NewType(stun.MethodAllocate, stun.ClassRequest)
	m.TransactionID = txIDs[2]
	m.WriteHeader()
	m.Add(stun.AttrType(typ), []byte{0, 0, 0, 0})

	return rawMsg{m, m.Attributes[0].Value}
}

type attrs32 struct {
	r     *rep.Report
	cur   u32Case
	eval  int64
	chann rawMsg
	life  rawMsg
	trans rawMsg
	fam   rawMsg
	conn  rawMsg
	enc   *stun.Message
	dec   *stun.Message

	// class counters
	cChann [3][2][2]int64 // number class, rffu!=0, rejected
	cLife  [2][2]int64    // nonzero, rejected
	cTrans [3][2][2]int64 // udp/tcp/other, rffu!=0, rejected
	cFam   [3][2][2]int64 // ipv4/ipv6/reserved code, rffu!=0, rejected
	cConn  [2][2]int64    // nonzero, rejected
	cRT    [2]int64       // typed round trips lifetime, connection-id
	g      gate
}

func b2i(b bool) int {
	if b {
		return 1
	}

	return 0
}

func (a *attrs32) violate(attr, kind string, x uint32, detail string) {
	if a.g.full(attr + ":raw:" + kind) {
		a.r.Violate(rep.Violation{Signature: attr + ":raw:" + kind})

		return
	}
	a.r.Violate(rep.Violation{
		Oracle:    "RFC layout of the 4-byte attribute: right size => denoted value or error; canonical encodings must decode",
		Signature: attr + ":raw:" + kind,
		Detail:    fmt.Sprintf("raw value %08x: %s", x, detail),
		Replay:    u32Case{Attr: attr, Raw: fmt.Sprintf("%08x", x)},
	})
}

// raw decodes the 4-byte raw value x as each of the five attributes.
func (a *attrs32) raw(x uint32) {
	hi, lo := uint16(x>>16), uint16(x)
	b0 := byte(x >> 24)
	rffu3 := x&0x00FFFFFF != 0
	a.eval += 5

	// CHANNEL-NUMBER: number = first 16 bits, RFFU ignored.
	a.cur = u32Case{Attr: "channel-number", Raw: "", Val: x}
	binary.BigEndian.PutUint32(a.chann.val, x)
	n := proto.ChannelNumber(^hi)
	err := n.GetFrom(a.chann.m)
	nc := 1
	if hi < 0x4000 {
		nc = 0
	} else if hi > 0x7FFF {
		nc = 2
	}
	a.cChann[nc][b2i(lo != 0)][b2i(err != nil)]++
	if err == nil && uint16(n) != hi {
		a.violate("channel-number", "different-value", x, fmt.Sprintf("decoded %d, bytes denote %d", uint16(n), hi))
	} else if err != nil && lo == 0 {
		a.violate("channel-number", "canonical-rejected", x, err.Error())
	}

	// LIFETIME: 32-bit seconds.
	a.cur.Attr = "lifetime"
	binary.BigEndian.PutUint32(a.life.val, x)
	l := proto.Lifetime{Duration: -1}
	err = l.GetFrom(a.life.m)
	a.cLife[b2i(x != 0)][b2i(err != nil)]++
	if err != nil {
		a.violate("lifetime", "canonical-rejected", x, err.Error())
	} else if l.Duration != time.Duration(x)*time.Second {
		a.violate("lifetime", "different-value", x, fmt.Sprintf("decoded %v, bytes denote %d s", l.Duration, x))
	}

	// REQUESTED-TRANSPORT: protocol = first byte, RFFU ignored.
	a.cur.Attr = "requested-transport"
	binary.BigEndian.PutUint32(a.trans.val, x)
	tr := proto.RequestedTransport{Protocol: proto.Protocol(^b0)}
	err = tr.GetFrom(a.trans.m)
	pc := 2
	if b0 == 17 {
		pc = 0
	} else if b0 == 6 {
		pc = 1
	}
	a.cTrans[pc][b2i(rffu3)][b2i(err != nil)]++
	if err == nil && byte(tr.Protocol) != b0 {
		a.violate("requested-transport", "different-value", x, fmt.Sprintf("decoded %d, bytes denote %d", tr.Protocol, b0))
	} else if err != nil && !rffu3 {
		a.violate("requested-transport", "canonical-rejected", x, err.Error())
	}

	// REQUESTED-ADDRESS-FAMILY: family = first byte (0x01 / 0x02 defined, every other code refused), RFFU ignored.
	a.cur.Attr = "requested-address-family"
	binary.BigEndian.PutUint32(a.fam.val, x)
	f := proto.RequestedAddressFamily(^b0)
	err = f.GetFrom(a.fam.m)
	fc := 2
	if b0 == 1 {
		fc = 0
	} else if b0 == 2 {
		fc = 1
	}
	a.cFam[fc][b2i(rffu3)][b2i(err != nil)]++
	if err == nil && byte(f) != b0 {
		a.violate("requested-address-family", "different-value", x, fmt.Sprintf("decoded %d, bytes denote %d", f, b0))
	} else if err != nil && fc < 2 && !rffu3 {
		a.violate("requested-address-family", "canonical-rejected", x, err.Error())
	} else if err == nil && fc == 2 {
		a.violate("requested-address-family", "reserved-code-accepted", x, fmt.Sprintf("family code %#x is no value of the attribute", b0))
	}

	// CONNECTION-ID: 32-bit id.
	a.cur.Attr = "connection-id"
	binary.BigEndian.PutUint32(a.conn.val, x)
	c := proto.ConnectionID(^x)
	err = c.GetFrom(a.conn.m)
	a.cConn[b2i(x != 0)][b2i(err != nil)]++
	if err != nil {
		a.violate("connection-id", "canonical-rejected", x, err.Error())
	} else if uint32(c) != x {
		a.violate("connection-id", "different-value", x, fmt.Sprintf("decoded %d", uint32(c)))
	}
}

func (a *attrs32) rtViolate(attr, kind string, x uint32, detail string) {
	if a.g.full(attr + ":roundtrip:" + kind) {
		a.r.Violate(rep.Violation{Signature: attr + ":roundtrip:" + kind})

		return
	}
	a.r.Violate(rep.Violation{
		Oracle:    "decode(encode(v)) == v, and the encoded bytes denote v per the RFC layout",
		Signature: attr + ":roundtrip:" + kind,
		Detail:    fmt.Sprintf("value %d: %s", x, detail),
		Replay:    u32Case{Attr: attr, Val: x},
	})
}

// checkWire verifies that m.Raw is header + one 4-byte attribute of type typ carrying x.
func (a *attrs32) checkWire(attr string, typ uint16, x uint32, raw []byte) bool {
	if len(raw) != 28 || binary.BigEndian.Uint16(raw[2:4]) != 8 || binary.BigEndian.Uint32(raw[4:8]) != wire.MagicCookie ||
		binary.BigEndian.Uint16(raw[20:22]) != typ || binary.BigEndian.Uint16(raw[22:24]) != 4 {
		a.rtViolate(attr, "wire-form", x, "encoded message is not header + one 4-byte attribute: "+hexs(raw))

		return false
	}
	if got := binary.BigEndian.Uint32(raw[24:28]); got != x {
		a.rtViolate(attr, "encoded-bytes-denote-other-value", x, fmt.Sprintf("attribute value denotes %d", got))
	}

	return true
}

// typed round-trips LIFETIME (x seconds) and CONNECTION-ID (x).
func (a *attrs32) typed(x uint32) {
	a.eval += 2
	a.cRT[0]++
	a.cRT[1]++

	// LIFETIME
	a.cur = u32Case{Attr: "lifetime", Val: x}
	want := time.Duration(x) * time.Second
	m := a.enc
	m.Reset()
	m.WriteHeader()
	if err := (proto.Lifetime{Duration: want}).AddTo(m); err != nil {
		a.rtViolate("lifetime", "encoder-refused", x, err.Error())
	} else {
		got := proto.Lifetime{Duration: -1}
		if err := got.GetFrom(m); err != nil {
			a.rtViolate("lifetime", "decode-error", x, err.Error())
		} else if got.Duration != want {
			a.rtViolate("lifetime", "different-value", x, fmt.Sprintf("decoded %v", got.Duration))
		}
		if a.checkWire("lifetime", wire.AttrLifetime, x, m.Raw) {
			a.dec.Raw = append(a.dec.Raw[:0], m.Raw...)
			got = proto.Lifetime{Duration: -1}
			if err := a.dec.Decode(); err != nil {
				a.r.Note("pion/stun could not re-parse its own message: %v", err)
			} else if err := got.GetFrom(a.dec); err != nil {
				a.rtViolate("lifetime", "decode-error", x, "re-parsed: "+err.Error())
			} else if got.Duration != want {
				a.rtViolate("lifetime", "different-value", x, fmt.Sprintf("re-parsed: decoded %v", got.Duration))
			}
		}
	}

	// CONNECTION-ID
	a.cur.Attr = "connection-id"
	m.Reset()
	m.WriteHeader()
	if err := proto.ConnectionID(x).AddTo(m); err != nil {
		a.rtViolate("connection-id", "encoder-refused", x, err.Error())

		return
	}
	got := proto.ConnectionID(^x)
	if err := got.GetFrom(m); err != nil {
		a.rtViolate("connection-id", "decode-error", x, err.Error())
	} else if uint32(got) != x {
		a.rtViolate("connection-id", "different-value", x, fmt.Sprintf("decoded %d", uint32(got)))
	}
	if a.checkWire("connection-id", wire.AttrConnectionID, x, m.Raw) {
		a.dec.Raw = append(a.dec.Raw[:0], m.Raw...)
		got = proto.ConnectionID(^x)
		if err := a.dec.Decode(); err != nil {
			a.r.Note("pion/stun could not re-parse its own message: %v", err)
		} else if err := got.GetFrom(a.dec); err != nil {
			a.rtViolate("connection-id", "decode-error", x, "re-parsed: "+err.Error())
		} else if uint32(got) != x {
			a.rtViolate("connection-id", "different-value", x, fmt.Sprintf("re-parsed: decoded %d", uint32(got)))
		}
	}
}

func (a *attrs32) flush() {
	r := a.r
	r.Evaluations += a.eval
	rffu := [2]string{"rffu=0", "rffu!=0"}
	out := [2]string{"accepted", "rejected"}
	for i, nc := range [3]string{"number<0x4000", "number-valid", "number>0x7FFF"} {
		for j := range 2 {
			for k := range 2 {
				addClass(r, "raw4:channel-number:"+nc+","+rffu[j]+":"+out[k], a.cChann[i][j][k])
			}
		}
	}
	for i, pc := range [3]string{"udp", "tcp", "other-protocol"} {
		for j := range 2 {
			for k := range 2 {
				addClass(r, "raw4:requested-transport:"+pc+","+rffu[j]+":"+out[k], a.cTrans[i][j][k])
			}
		}
	}
	for i, fc := range [3]string{"ipv4", "ipv6", "reserved-code"} {
		for j := range 2 {
			for k := range 2 {
				addClass(r, "raw4:requested-address-family:"+fc+","+rffu[j]+":"+out[k], a.cFam[i][j][k])
			}
		}
	}
	for i, z := range [2]string{"zero", "nonzero"} {
		for k := range 2 {
			addClass(r, "raw4:lifetime:"+z+":"+out[k], a.cLife[i][k])
			addClass(r, "raw4:connection-id:"+z+":"+out[k], a.cConn[i][k])
		}
	}
	addClass(r, "roundtrip32:lifetime", a.cRT[0])
	addClass(r, "roundtrip32:connection-id", a.cRT[1])
}

// TestC11Attrs32: the five 4-byte attributes. Thorough: GetFrom on all 2^32
// raw values for each of the five, and AddTo->GetFrom (same message and
// re-parsed bytes) for all 2^32 lifetimes (seconds) and all 2^32 connection
// ids. Quick: the quotient {hi<<16|lo : hi in B or lo in B} for a 22-element
// boundary set B of 16-bit halves.
func TestC11Attrs32(t *testing.T) {
	r := rep.New("C11")
	defer r.Write()
	shard, nshards := rep.Shard()
	a := &attrs32{
		r: r, g: gate{},
		chann: newRawMsg(wire.AttrChannelNumber), life: newRawMsg(wire.AttrLifetime), trans: newRawMsg(wire.AttrRequestedTransport),
		fam: newRawMsg(wire.AttrRequestedFamily), conn: newRawMsg(wire.AttrConnectionID),
		enc: stun.New(), dec: new(stun.Message),
	}
	a.enc.Type = stun.NewType(stun.MethodRefresh, stun.ClassRequest)
	a.enc.TransactionID = txIDs[2]
	defer a.flush()
	describe := func() any { return a.cur }

	b16 := boundary16()
	isB := make([]bool, 65536)
	for _, b := range b16 {
		isB[b] = true
	}
	thorough := rep.Thorough()
	sweep(r, "GetFrom(4-byte raw value)", shard, 65536, nshards, describe, func(hi int) bool {
		if r.OverBudget("raw 4-byte values") {
			return false
		}
		if thorough || isB[hi] {
			for lo := range 65536 {
				a.raw(uint32(hi)<<16 | uint32(lo)) //nolint:gosec
			}
		} else {
			for _, lo := range b16 {
				a.raw(uint32(hi)<<16 | uint32(lo)) //nolint:gosec
			}
		}

		return true
	})
	sweep(r, "Lifetime/ConnectionID.AddTo/GetFrom", shard, 65536, nshards, describe, func(hi int) bool {
		if r.OverBudget("typed 32-bit round trips") {
			return false
		}
		if thorough || isB[hi] {
			for lo := range 65536 {
				a.typed(uint32(hi)<<16 | uint32(lo)) //nolint:gosec
			}
		} else {
			for _, lo := range b16 {
				a.typed(uint32(hi)<<16 | uint32(lo)) //nolint:gosec
			}
		}

		return true
	})
	if thorough {
		r.Bound = 1 << 32
	} else {
		r.Bound = 2 * len(b16) * 65536
	}
}
