package c11

import (
	"encoding/binary"
	"encoding/hex"
	"fmt"
	"net"
	"strconv"
	"testing"
	"time"

	"github.com/pion/stun/v3"
	"github.com/pion/turn/v5/internal/proto"
	"github.com/pion/turn/v5/verif/rep"
	"github.com/pion/turn/v5/verif/wire"
)

// ---------------------------------------------------------------------------
// Reference decoders (RFC text -> value). Each returns
//   val       canonical text of the value the raw bytes denote,
//   valid     the raw value has the size/shape the RFC defines (otherwise a decoder MUST fail),
//   canonical the raw value is exactly what a conforming encoder emits for val
//             (reserved bits zero); a decoder MUST accept it (round trip).
// For valid-but-not-canonical values (reserved bits set) a decoder may fail
// or return val - never anything else.

type refFn func(v []byte, tx [12]byte) (val string, valid, canonical bool)

func refChannelNumber(v []byte, _ [12]byte) (string, bool, bool) { // RFC 5766 §14.1
	if len(v) != 4 {
		return "", false, false
	}

	return strconv.Itoa(int(binary.BigEndian.Uint16(v[0:2]))), true, v[2] == 0 && v[3] == 0
}

func refLifetime(v []byte, _ [12]byte) (string, bool, bool) { // RFC 5766 §14.2
	if len(v) != 4 {
		return "", false, false
	}

	return canonSeconds(binary.BigEndian.Uint32(v)), true, true
}

func canonSeconds(s uint32) string { return strconv.FormatInt(int64(s)*1e9, 10) + "ns" }

func refU32(v []byte, _ [12]byte) (string, bool, bool) { // RFC 6062 §6.2.1
	if len(v) != 4 {
		return "", false, false
	}

	return strconv.FormatUint(uint64(binary.BigEndian.Uint32(v)), 10), true, true
}

func refRequestedTransport(v []byte, _ [12]byte) (string, bool, bool) { // RFC 5766 §14.7
	if len(v) != 4 {
		return "", false, false
	}

	return strconv.Itoa(int(v[0])), true, v[1] == 0 && v[2] == 0 && v[3] == 0
}

func refRequestedFamily(v []byte, _ [12]byte) (string, bool, bool) { // RFC 6156 §4.1.1
	if len(v) != 4 {
		return "", false, false
	}

	// the value domain is {0x01 IPv4, 0x02 IPv6}; every other code is reserved and no value of the
	// attribute (0x00 in particular coincides with "no family requested"): such bytes must be refused
	return strconv.Itoa(int(v[0])), v[0] == 1 || v[0] == 2, (v[0] == 1 || v[0] == 2) && v[1] == 0 && v[2] == 0 && v[3] == 0
}

func refEvenPort(v []byte, _ [12]byte) (string, bool, bool) { // RFC 5766 §14.6: R is the most significant bit
	if len(v) != 1 {
		return "", false, false
	}

	return strconv.FormatBool(v[0]&0x80 != 0), true, v[0]&0x7F == 0
}

func refReservationToken(v []byte, _ [12]byte) (string, bool, bool) { // RFC 5766 §14.9
	if len(v) != 8 {
		return "", false, false
	}

	return hex.EncodeToString(v), true, true
}

func refData(v []byte, _ [12]byte) (string, bool, bool) { // RFC 5766 §14.4
	return hex.EncodeToString(v), true, true
}

func refDontFragment(v []byte, _ [12]byte) (string, bool, bool) { // RFC 5766 §14.8
	return "set", len(v) == 0, len(v) == 0
}

func canonAddr(ip net.IP, port int) string { return ip.String() + "|" + strconv.Itoa(port) }

func refXorAddr(v []byte, tx [12]byte) (string, bool, bool) { // RFC 5389 §15.2, RFC 5766 §14.3/14.5
	a, ok := wire.DecodeXorAddr(v, tx)
	if !ok {
		return "", false, false
	}

	return canonAddr(a.IP, a.Port), true, v[0] == 0
}

// ---------------------------------------------------------------------------
// pion/turn decoders behind a common signature. stale=true decodes into a
// target that already holds another value (pion's reuse idiom).

type getFn func(m *stun.Message, stale bool) (string, error)

func getChannelNumber(m *stun.Message, stale bool) (string, error) {
	var n proto.ChannelNumber
	if stale {
		n = 0xAAAA
	}
	err := n.GetFrom(m)

	return strconv.Itoa(int(n)), err
}

func getLifetime(m *stun.Message, stale bool) (string, error) {
	var l proto.Lifetime
	if stale {
		l.Duration = 12345*time.Hour + 1
	}
	err := l.GetFrom(m)

	return strconv.FormatInt(int64(l.Duration), 10) + "ns", err
}

func getConnectionID(m *stun.Message, stale bool) (string, error) {
	var c proto.ConnectionID
	if stale {
		c = 0xAAAAAAAA
	}
	err := c.GetFrom(m)

	return strconv.FormatUint(uint64(c), 10), err
}

func getRequestedTransport(m *stun.Message, stale bool) (string, error) {
	var t proto.RequestedTransport
	if stale {
		t.Protocol = 0xAA
	}
	err := t.GetFrom(m)

	return strconv.Itoa(int(t.Protocol)), err
}

func getRequestedFamily(m *stun.Message, stale bool) (string, error) {
	var f proto.RequestedAddressFamily
	if stale {
		f = 0xAA
	}
	err := f.GetFrom(m)

	return strconv.Itoa(int(f)), err
}

func getEvenPort(m *stun.Message, stale bool) (string, error) {
	var p proto.EvenPort
	if stale {
		p.ReservePort = true
	}
	err := p.GetFrom(m)

	return strconv.FormatBool(p.ReservePort), err
}

func getReservationToken(m *stun.Message, stale bool) (string, error) {
	var t proto.ReservationToken
	if stale {
		t = proto.ReservationToken{9, 9, 9, 9, 9, 9, 9, 9}
	}
	err := t.GetFrom(m)

	return hex.EncodeToString(t), err
}

func getData(m *stun.Message, stale bool) (string, error) {
	var d proto.Data
	if stale {
		d = proto.Data{9, 9, 9}
	}
	err := d.GetFrom(m)

	return hex.EncodeToString(d), err
}

func getDontFragment(m *stun.Message, _ bool) (string, error) {
	var d proto.DontFragment
	err := d.GetFrom(m)

	return "set", err
}

func staleIP() net.IP {
	ip := make(net.IP, 16)
	for i := range ip {
		ip[i] = 0xFF
	}

	return ip
}

func getPeerAddress(m *stun.Message, stale bool) (string, error) {
	var a proto.PeerAddress
	if stale {
		a = proto.PeerAddress{IP: staleIP(), Port: 1}
	}
	err := a.GetFrom(m)

	return canonAddr(a.IP, a.Port), err
}

func getRelayedAddress(m *stun.Message, stale bool) (string, error) {
	var a proto.RelayedAddress
	if stale {
		a = proto.RelayedAddress{IP: staleIP(), Port: 1}
	}
	err := a.GetFrom(m)

	return canonAddr(a.IP, a.Port), err
}

type attrSpec struct {
	name string
	typ  uint16
	size string // human description of the RFC size
	ref  refFn
	get  getFn
	xor  bool
}

func attrSpecs() []attrSpec {
	return []attrSpec{
		{"channel-number", wire.AttrChannelNumber, "4", refChannelNumber, getChannelNumber, false},
		{"lifetime", wire.AttrLifetime, "4", refLifetime, getLifetime, false},
		{"xor-peer-address", wire.AttrXORPeerAddress, "8|20", refXorAddr, getPeerAddress, true},
		{"xor-relayed-address", wire.AttrXORRelayedAddress, "8|20", refXorAddr, getRelayedAddress, true},
		{"data", wire.AttrData, "any", refData, getData, false},
		{"requested-transport", wire.AttrRequestedTransport, "4", refRequestedTransport, getRequestedTransport, false},
		{"requested-address-family", wire.AttrRequestedFamily, "4", refRequestedFamily, getRequestedFamily, false},
		{"even-port", wire.AttrEvenPort, "1", refEvenPort, getEvenPort, false},
		{"reservation-token", wire.AttrReservationToken, "8", refReservationToken, getReservationToken, false},
		{"connection-id", wire.AttrConnectionID, "4", refU32, getConnectionID, false},
		{"dont-fragment", wire.AttrDontFragment, "0", refDontFragment, getDontFragment, false},
	}
}

var txIDs = [][12]byte{
	{},
	{0xFF, 0xFF, 0xFF, 0xFF, 0xFF, 0xFF, 0xFF, 0xFF, 0xFF, 0xFF, 0xFF, 0xFF},
	{0x01, 0x23, 0x45, 0x67, 0x89, 0xAB, 0xCD, 0xEF, 0x10, 0x32, 0x54, 0x76},
}

// ---------------------------------------------------------------------------

type rawCase struct {
	Attr  string `json:"attr"`
	Value string `json:"raw_value_hex"`
	TxID  string `json:"transaction_id_hex"`
	Build string `json:"message_built_by"`
	Stale bool   `json:"decode_into_used_target"`
}

type attrChecker struct {
	r    *rep.Report
	cls  classes
	eval int64
	cur  any
	msg  *stun.Message
	msg2 *stun.Message
}

func newAttrChecker(r *rep.Report) *attrChecker {
	return &attrChecker{r: r, cls: classes{}, msg: stun.New(), msg2: new(stun.Message)}
}

func (a *attrChecker) flush() {
	a.r.Evaluations += a.eval
	a.cls.flush(a.r)
}

// buildAdd puts the raw attribute into a message with pion/stun's Message.Add.
func (a *attrChecker) buildAdd(typ uint16, v []byte, tx [12]byte) *stun.Message {
	m := a.msg
	m.Reset()
	m.Type = stun.NewType(stun.MethodAllocate, stun.ClassRequest)
	m.TransactionID = tx
	m.WriteHeader()
	m.Add(stun.AttrType(typ), v)

	return m
}

// buildWire serialises the message with the harness codec and lets pion/stun parse it.
func (a *attrChecker) buildWire(typ uint16, v []byte, tx [12]byte) (*stun.Message, error) {
	raw := wire.New(wire.Allocate, wire.Request, tx).Attr(typ, v).Bytes()
	m := a.msg2
	_, err := m.Write(raw)

	return m, err
}

// judge compares one decode with the reference. Returns the violation kind ("" = fine).
func judge(got string, err error, val string, valid, canonical bool) (kind, detail string) {
	switch {
	case !valid && err == nil:
		return "malformed-accepted", fmt.Sprintf("decoder returned %s for a raw value the RFC layout does not allow", got)
	case valid && err == nil && got != val:
		return "different-value", fmt.Sprintf("decoder returned %s, the bytes denote %s", got, val)
	case valid && canonical && err != nil:
		return "canonical-rejected", fmt.Sprintf("decoder failed (%v) for the canonical encoding of %s", err, val)
	}

	return "", ""
}

// malformedKind names why the reference rejects a raw XOR address / sized value.
func malformedKind(s *attrSpec, v []byte) string {
	if !s.xor {
		if s.name == "requested-address-family" && len(v) == 4 {
			return "reserved-family-code"
		}

		return "wrong-size"
	}
	switch {
	case len(v) < 4:
		return "shorter-than-header"
	case v[1] != 1 && v[1] != 2:
		return "unknown-family"
	case v[1] == 1 && len(v) < 8, v[1] == 2 && len(v) < 20:
		return "address-truncated"
	}

	return "address-too-long"
}

// raw evaluates one raw value for one attribute with both builders and both targets.
func (a *attrChecker) raw(s *attrSpec, v []byte, tx [12]byte) {
	val, valid, canonical := s.ref(v, tx)
	for _, build := range [...]string{"stun.Message.Add", "wire bytes -> stun.Message.Write"} {
		var m *stun.Message
		if build == "stun.Message.Add" {
			m = a.buildAdd(s.typ, v, tx)
		} else {
			var err error
			if m, err = a.buildWire(s.typ, v, tx); err != nil {
				a.cls["harness:stun.Message.Write rejected a well-formed message"]++
				a.r.Note("pion/stun rejected harness message with attr %s value %x: %v", s.name, v, err)

				continue
			}
		}
		for _, stale := range [...]bool{false, true} {
			c := rawCase{s.name, hex.EncodeToString(v), hex.EncodeToString(tx[:]), build, stale}
			a.cur = c
			a.eval++
			got, err := s.get(m, stale)
			shape := "malformed(" + malformedKind(s, v) + ")"
			switch {
			case valid && canonical:
				shape = "canonical"
			case valid:
				shape = "valid,reserved-bits-or-code"
			}
			outcome := "rejected"
			if err == nil {
				outcome = "accepted"
			}
			a.cls["raw:"+s.name+":"+shape+":"+outcome]++
			if a.cls["raw:"+s.name+":"+shape+":"+outcome] == 1 && shape != "malformed(wrong-size)" {
				a.r.Sample(map[string]any{"case": c, "reference": shape, "denotes": val, "decoder": outcome, "returned": got})
			}
			kind, detail := judge(got, err, val, valid, canonical)
			if kind == "" {
				continue
			}
			sig := s.name + ":raw:" + kind
			if kind == "malformed-accepted" {
				sig += ":" + malformedKind(s, v)
			}
			if stale {
				// Only blame the used target if the fresh target was fine.
				if k2, _ := judgeFresh(s, m, val, valid, canonical); k2 == "" {
					sig = s.name + ":used-target:" + kind
				} else {
					continue // same defect already reported for the fresh target
				}
			}
			a.r.Violate(rep.Violation{
				Oracle:    "RFC layout of " + s.name + " (size " + s.size + "): wrong size => error; right size => denoted value or error",
				Signature: sig,
				Detail:    fmt.Sprintf("raw value %s (len %d) tx %x via %s, used target=%v: %s", hexs(v), len(v), tx, build, stale, detail),
				Replay:    c,
			})
		}
	}
}

func judgeFresh(s *attrSpec, m *stun.Message, val string, valid, canonical bool) (string, string) {
	got, err := s.get(m, false)

	return judge(got, err, val, valid, canonical)
}

// rawPatterns is the content alphabet for raw values: pattern p at length n.
var rawPatternNames = [...]string{
	"zeros", "ff", "counter", "00 01 counter", "00 02 counter", "01 zeros", "02 zeros", "80 zeros",
	"11 zeros", "40 00 zeros", "magic cookie repeated", "7f ff",
}

func rawPattern(p, n int) []byte {
	b := make([]byte, n)
	cnt := func(from int) {
		for i := from; i < n; i++ {
			b[i] = byte(i + 1)
		}
	}
	set := func(prefix ...byte) { copy(b, prefix) }
	switch p {
	case 0:
	case 1:
		for i := range b {
			b[i] = 0xFF
		}
	case 2:
		cnt(0)
	case 3:
		cnt(0)
		set(0, 1)
	case 4:
		cnt(0)
		set(0, 2)
	case 5:
		set(1)
	case 6:
		set(2)
	case 7:
		set(0x80)
	case 8:
		set(0x11)
	case 9:
		set(0x40, 0x00)
	case 10:
		for i := range b {
			b[i] = [...]byte{0x21, 0x12, 0xA4, 0x42}[i%4]
		}
	case 11:
		for i := range b {
			b[i] = 0xFF
		}
		set(0x7F)
	default: // thorough tier: every byte value repeated
		for i := range b {
			b[i] = byte(p - len(rawPatternNames)) //nolint:gosec
		}
	}

	return b
}

// ---------------------------------------------------------------------------
// Typed round trips.

type rtCase struct {
	Attr  string `json:"attr"`
	Value string `json:"value"`
	TxID  string `json:"transaction_id_hex"`
}

// roundTrip encodes with the pion/turn setter and checks (1) the bytes on the
// wire denote `want` per the reference, (2) GetFrom on the same message and
// (3) GetFrom on a message re-parsed from the bytes return `want`.
// inDomain=false marks values outside the attribute's RFC domain: the encoder
// may refuse them, and if it accepts them the decoder may refuse, but nobody
// may return a different value.
func (a *attrChecker) roundTrip(s *attrSpec, tx [12]byte, want string, inDomain bool, add func(m *stun.Message) error) {
	c := rtCase{s.name, want, hex.EncodeToString(tx[:])}
	a.cur = c
	a.eval++
	violate := func(kind, detail string) {
		a.r.Violate(rep.Violation{
			Oracle:    "decode(encode(v)) == v, and the encoded bytes denote v per the RFC layout",
			Signature: s.name + ":roundtrip:" + kind,
			Detail:    fmt.Sprintf("value %s tx %x: %s", want, tx, detail),
			Replay:    c,
		})
	}
	dom := "in-domain"
	if !inDomain {
		dom = "out-of-domain"
	}
	m := a.msg
	m.Reset()
	m.Type = stun.NewType(stun.MethodAllocate, stun.ClassRequest)
	m.TransactionID = tx
	m.WriteHeader()
	if err := add(m); err != nil {
		a.cls["roundtrip:"+s.name+":"+dom+":encoder-refused"]++
		if inDomain {
			violate("encoder-refused", "AddTo failed: "+err.Error())
		}

		return
	}
	// (2) same message.
	decodeOK := true
	for _, stale := range [...]bool{false, true} {
		got, err := s.get(m, stale)
		switch {
		case err != nil && inDomain:
			violate("decode-error", fmt.Sprintf("GetFrom (used target=%v) failed: %v", stale, err))
			decodeOK = false
		case err != nil:
			decodeOK = false
		case got != want && stale:
			a.r.Violate(rep.Violation{
				Oracle:    "decode(encode(v)) == v also when GetFrom writes into a variable that held another value",
				Signature: s.name + ":used-target:different-value",
				Detail:    fmt.Sprintf("value %s: GetFrom into a target that held another value returned %s", want, got),
				Replay:    c,
			})
		case got != want:
			violate("different-value", "GetFrom returned "+got)
		}
	}
	if decodeOK {
		a.cls["roundtrip:"+s.name+":"+dom+":encoded,decoded"]++
	} else {
		a.cls["roundtrip:"+s.name+":"+dom+":encoded,decoder-refused"]++
	}
	// (1) bytes on the wire, read by the harness codec.
	if len(m.Raw)-20 > 65535 {
		a.cls["roundtrip:"+s.name+":exceeds-16-bit-stun-length(no wire form)"]++

		return
	}
	pm, err := wire.Parse(m.Raw)
	if err != nil || len(pm.Attrs) != 1 || pm.Attrs[0].Type != s.typ {
		violate("wire-form", fmt.Sprintf("encoded message is not one %s attribute: err=%v raw=%s", s.name, err, hexs(m.Raw)))

		return
	}
	val, valid, _ := s.ref(pm.Attrs[0].Value, tx)
	if (inDomain && !valid) || val != want { // an encoder that does not refuse a value outside the domain still writes the bytes that denote it
		violate("encoded-bytes-denote-other-value",
			fmt.Sprintf("attribute value %s denotes %q (valid=%v) per the RFC layout", hexs(pm.Attrs[0].Value), val, valid))
	}
	// (3) re-parsed message.
	m2 := a.msg2
	if _, err := m2.Write(m.Raw); err != nil {
		a.r.Note("pion/stun could not re-parse its own message for %s=%s: %v", s.name, want, err)
		a.cls["harness:stun.Message.Write rejected pion's own message"]++

		return
	}
	got, err := s.get(m2, false)
	switch {
	case err != nil && inDomain:
		violate("decode-error", "GetFrom on the re-parsed message failed: "+err.Error())
	case err == nil && got != want:
		violate("different-value", "GetFrom on the re-parsed message returned "+got)
	}
}

func specByName(specs []attrSpec, name string) *attrSpec {
	for i := range specs {
		if specs[i].name == name {
			return &specs[i]
		}
	}
	panic("no spec " + name)
}

// TestC11Attrs: for each of the 11 attributes (1) every raw value of length
// 0..64 over a 12-pattern content alphabet (thorough: plus each of the 256
// byte values repeated; EVEN-PORT always: all 256 first bytes),
// built both with stun.Message.Add and from harness-encoded bytes, decoded
// into a fresh and into a used target; (2) typed round trips over the whole
// value domain where it is small (all 65536 channel numbers, 256 protocols,
// 256 family codes, both EVEN-PORT values, tokens/data of every length 0..64,
// DATA of every length 0..65535) and over boundary sets for the 32-bit ones
// (their full domains are TestC11Attrs32).
func TestC11Attrs(t *testing.T) {
	r := rep.New("C11")
	defer r.Write()
	shard, nshards := rep.Shard()
	a := newAttrChecker(r)
	defer a.flush()
	specs := attrSpecs()
	describe := func() any { return a.cur }
	tx0 := txIDs[2]
	nPatterns := len(rawPatternNames)
	if rep.Thorough() {
		nPatterns += 256 // plus every single byte value repeated
	}

	// (1) raw values, sharded by length.
	sweep(r, "GetFrom(raw value)", shard, 65, nshards, describe, func(n int) bool {
		for si := range specs {
			s := &specs[si]
			txs := txIDs[2:]
			if s.xor {
				txs = txIDs
			}
			for _, tx := range txs {
				for p := range nPatterns {
					a.raw(s, rawPattern(p, n), tx)
				}
			}
		}
		// EVEN-PORT: every first byte, rest zeros / ff.
		ep := specByName(specs, "even-port")
		for b0 := range 256 {
			for _, fill := range [...]byte{0x00, 0xFF} {
				v := make([]byte, n)
				for i := range v {
					v[i] = fill
				}
				if n > 0 {
					v[0] = byte(b0)
				} else if b0 > 0 || fill > 0 {
					continue
				}
				if n == 1 && fill > 0 {
					continue
				}
				a.raw(ep, v, tx0)
			}
		}

		return true
	})

	// (2) typed round trips, sharded by value.
	sChan := specByName(specs, "channel-number")
	sweep(r, "ChannelNumber.AddTo/GetFrom", shard, 65536, nshards, describe, func(n int) bool {
		a.roundTrip(sChan, tx0, strconv.Itoa(n), true, proto.ChannelNumber(n).AddTo) //nolint:gosec

		return true
	})
	sTrans := specByName(specs, "requested-transport")
	sFam := specByName(specs, "requested-address-family")
	sweep(r, "RequestedTransport/RequestedAddressFamily.AddTo/GetFrom", shard, 256, nshards, describe, func(b int) bool {
		a.roundTrip(sTrans, tx0, strconv.Itoa(b), true, proto.RequestedTransport{Protocol: proto.Protocol(b)}.AddTo) //nolint:gosec
		a.roundTrip(sFam, tx0, strconv.Itoa(b), b == 1 || b == 2, proto.RequestedAddressFamily(b).AddTo)             //nolint:gosec

		return true
	})
	sEven := specByName(specs, "even-port")
	sDF := specByName(specs, "dont-fragment")
	if shard == 0 {
		sweep(r, "EvenPort/DontFragment.AddTo/GetFrom", 0, 2, 1, describe, func(b int) bool {
			a.roundTrip(sEven, tx0, strconv.FormatBool(b == 1), true, proto.EvenPort{ReservePort: b == 1}.AddTo)
			a.roundTrip(sDF, tx0, "set", true, proto.DontFragment{}.AddTo)

			return true
		})
	}
	// 32-bit attributes: boundary values here, everything in TestC11Attrs32.
	sLife := specByName(specs, "lifetime")
	sConn := specByName(specs, "connection-id")
	b32 := boundary32()
	sweep(r, "Lifetime/ConnectionID.AddTo/GetFrom", shard, len(b32), nshards, describe, func(i int) bool {
		x := b32[i]
		a.roundTrip(sLife, tx0, canonSeconds(x), true, proto.Lifetime{Duration: time.Duration(x) * time.Second}.AddTo)
		a.roundTrip(sConn, tx0, strconv.FormatUint(uint64(x), 10), true, proto.ConnectionID(x).AddTo)

		return true
	})
	// RESERVATION-TOKEN and DATA: every length 0..64 x alphabet.
	sTok := specByName(specs, "reservation-token")
	sData := specByName(specs, "data")
	sweep(r, "ReservationToken/Data.AddTo/GetFrom", shard, 65, nshards, describe, func(n int) bool {
		for p := range nPatterns {
			v := rawPattern(p, n)
			a.roundTrip(sTok, tx0, hex.EncodeToString(v), n == 8, proto.ReservationToken(v).AddTo)
			a.roundTrip(sData, tx0, hex.EncodeToString(v), true, proto.Data(v).AddTo)
		}

		return true
	})
	// DATA: every length up to 65535 (two contents).
	big := [2][]byte{rawPattern(2, 65535), rawPattern(1, 65535)}
	sweep(r, "Data.AddTo/GetFrom", 65+shard, 65536, nshards, describe, func(n int) bool {
		if r.OverBudget("DATA lengths") {
			return false
		}
		for _, b := range big {
			a.dataRoundTrip(sData, tx0, b[:n])
		}

		return true
	})
	r.Bound = 64
}

// dataRoundTrip is roundTrip for long DATA values without hex strings.
func (a *attrChecker) dataRoundTrip(s *attrSpec, tx [12]byte, v []byte) {
	c := rtCase{s.name, fmt.Sprintf("%d bytes starting %s", len(v), hexs(v[:min(8, len(v))])), hex.EncodeToString(tx[:])}
	a.cur = c
	a.eval++
	violate := func(kind, detail string) {
		a.r.Violate(rep.Violation{
			Oracle:    "decode(encode(v)) == v, and the encoded bytes denote v per the RFC layout",
			Signature: s.name + ":roundtrip:" + kind,
			Detail:    fmt.Sprintf("DATA of %d bytes: %s", len(v), detail),
			Replay:    c,
		})
	}
	m := a.msg
	m.Reset()
	m.Type = stun.NewType(stun.MethodSend, stun.ClassIndication)
	m.TransactionID = tx
	m.WriteHeader()
	if err := proto.Data(v).AddTo(m); err != nil {
		violate("encoder-refused", err.Error())

		return
	}
	same := func(got proto.Data) bool { return len(got) == len(v) && string(got) == string(v) }
	var d proto.Data
	if err := d.GetFrom(m); err != nil {
		violate("decode-error", err.Error())
	} else if !same(d) {
		violate("different-value", fmt.Sprintf("GetFrom returned %d bytes", len(d)))
	}
	if 4+pad4(len(v)) > 65535 {
		// Such a value cannot be carried by a STUN message (16-bit message
		// length); only "no silently different value" can be demanded.
		a.cls["roundtrip:data:len>65528(exceeds-16-bit-stun-length)"]++
		m2 := a.msg2
		if _, err := m2.Write(m.Raw); err == nil {
			var d2 proto.Data
			if err := d2.GetFrom(m2); err == nil && !same(d2) {
				violate("different-value:oversize", fmt.Sprintf("re-parsed message yields DATA of %d bytes", len(d2)))
			}
		}

		return
	}
	a.cls["roundtrip:data:len<=65528,len%4="+strconv.Itoa(len(v)%4)]++
	pm, err := wire.Parse(m.Raw)
	if err != nil || len(pm.Attrs) != 1 || pm.Attrs[0].Type != s.typ {
		violate("wire-form", fmt.Sprintf("encoded message is not one DATA attribute: err=%v", err))

		return
	}
	if !same(pm.Attrs[0].Value) {
		violate("encoded-bytes-denote-other-value", "attribute value differs from the data")
	}
	m2 := a.msg2
	if _, err := m2.Write(m.Raw); err != nil {
		a.cls["harness:stun.Message.Write rejected pion's own message"]++

		return
	}
	var d2 proto.Data
	if err := d2.GetFrom(m2); err != nil {
		violate("decode-error", "re-parsed: "+err.Error())
	} else if !same(d2) {
		violate("different-value", fmt.Sprintf("re-parsed GetFrom returned %d bytes", len(d2)))
	}
}

// boundary32 is the boundary set of 32-bit values.
func boundary32() []uint32 {
	seen := map[uint32]bool{}
	var out []uint32
	add := func(x uint32) {
		if !seen[x] {
			seen[x] = true
			out = append(out, x)
		}
	}
	for sh := 0; sh <= 32; sh++ {
		p := uint64(1) << sh
		add(uint32(p - 1)) //nolint:gosec
		add(uint32(p))     //nolint:gosec
		add(uint32(p + 1)) //nolint:gosec
	}
	for _, x := range []uint32{0, 1, 59, 60, 599, 600, 601, 3599, 3600, 3601, 86400, 0x2112A442, 0x7FFFFFFF, 0x80000000, 0xFFFFFFFE, 0xFFFFFFFF} {
		add(x)
	}

	return out
}
