// Package c11 is the bounded-exhaustive check of property C11: "TURN wire
// codecs round-trip and reject malformed input safely".
//
// Parts (one Test function each):
//
//	TestC11ChannelData  ChannelData Encode -> layout -> Decode round trip
//	TestC11Headers      Decode / IsChannelData on raw buffers vs the RFC reference
//	TestC11Attrs        every attribute codec: typed round trips, raw values of length 0..64
//	TestC11Attrs32      the five 4-byte attributes over their 2^32 raw / typed domains
//	TestC11XorAddrs     XOR-PEER-ADDRESS / XOR-RELAYED-ADDRESS encode/decode vs an independent XOR codec
//
// The references in this package are written from RFC 5766 §11.4-11.6, §14,
// RFC 6156 §4.1.1, RFC 6062 §6.2.1 and RFC 5389 §15.2 with encoding/binary
// only (plus the harness' own /verif/wire codec); none of pion/turn's or
// pion/stun's decoding code is used to decide what is right.
package c11

import (
	"fmt"
	"runtime/debug"
	"sort"
	"strings"

	"github.com/pion/turn/v5/verif/rep"
)

// The live heap of every part is a few MB while the codecs under test allocate
// on every call; with the default GC pacing the collector would run
// continuously (and 16 shard processes would fight over the cores).
func init() { debug.SetGCPercent(2000) }

// pad4 rounds n up to a multiple of four.
func pad4(n int) int { return (n + 3) &^ 3 }

// classes is a local (lock-free) class counter flushed into the report once.
type classes map[string]int64

func (c classes) flush(r *rep.Report) {
	keys := make([]string, 0, len(c))
	for k := range c {
		keys = append(keys, k)
	}
	sort.Strings(keys)
	for _, k := range keys {
		addClass(r, k, c[k])
	}
}

// addClass adds n occurrences of class k.
func addClass(r *rep.Report, k string, n int64) {
	if n <= 0 {
		return
	}
	r.Class(k) // takes the report's lock and creates the key
	if n > 1 {
		// Report.Classes is exported; Class() above is the only concurrent
		// writer and every part of this check is single-goroutine.
		r.Classes[k] += n - 1
	}
}

// gate limits the cost of a defect that fires for millions of inputs: after
// the first few occurrences of a signature only the count is kept.
type gate map[string]int

// full counts one occurrence of sig; it reports true once enough detailed
// violations of that signature were written (the caller then records a bare
// Violation carrying only the signature, which the report merely counts).
func (g gate) full(sig string) bool {
	g[sig]++

	return g[sig] > 2
}

// hexs prints at most the first 48 bytes of b.
func hexs(b []byte) string {
	const maxShown = 48
	if len(b) <= maxShown {
		return fmt.Sprintf("%x", b)
	}

	return fmt.Sprintf("%x...(%d bytes)", b[:maxShown], len(b))
}

// sweep runs body(k) for lo <= k < hi stepping by step. A panic escaping
// body (i.e. from the code under test) is reported as a violation
// `panic:<where>`; the sweep resumes at the next k and the report is marked
// non-exhaustive because the remainder of the panicking k was not evaluated.
// describe() must return the case being evaluated when the panic happened.
func sweep(r *rep.Report, where string, lo, hi, step int, describe func() any, body func(k int) bool) {
	k := lo
	for k < hi {
		stop := false
		func() {
			defer func() {
				if p := recover(); p != nil {
					stack := string(debug.Stack())
					r.Violate(rep.Violation{
						Oracle:    "no codec call may panic",
						Signature: "panic:" + where,
						Detail:    fmt.Sprintf("panic %v at case %v\n%s", p, describe(), firstFrames(stack)),
						Replay:    describe(),
					})
					r.Exhaustive = false
					if r.Capped == "" {
						r.Capped = "panic in " + where + ": remainder of that outer iteration skipped"
					}
					k += step
				}
			}()
			for ; k < hi; k += step {
				if !body(k) {
					stop = true

					return
				}
			}
		}()
		if stop {
			return
		}
	}
}

// guard runs f and reports a panic as a violation; returns true if f panicked.
func guard(r *rep.Report, where string, describe func() any, f func()) (panicked bool) {
	defer func() {
		if p := recover(); p != nil {
			panicked = true
			r.Violate(rep.Violation{
				Oracle:    "no codec call may panic",
				Signature: "panic:" + where,
				Detail:    fmt.Sprintf("panic %v at case %v\n%s", p, describe(), firstFrames(string(debug.Stack()))),
				Replay:    describe(),
			})
		}
	}()
	f()

	return false
}

// firstFrames keeps the frames of a stack trace that belong to the code under test.
func firstFrames(stack string) string {
	var out []string
	lines := strings.Split(stack, "\n")
	for i, ln := range lines {
		if (strings.Contains(ln, "github.com/pion/turn/v5/internal") || strings.Contains(ln, "github.com/pion/stun")) &&
			!strings.Contains(ln, "/verif/") {
			out = append(out, strings.TrimSpace(ln))
			if i+1 < len(lines) {
				out = append(out, "    "+strings.TrimSpace(lines[i+1]))
			}
		}
		if len(out) >= 8 {
			break
		}
	}

	return strings.Join(out, "\n")
}
