package c11

import (
	"fmt"
	"testing"

	"github.com/pion/turn/v5/internal/proto"
	"github.com/pion/turn/v5/verif/rep"
)

const bigLen = 65540 // 4 + pad4(65535)

type hdrCase struct {
	Number   int `json:"number"`
	Declared int `json:"declared"`
	Actual   int `json:"buffer_len"`
}

// Classes of a raw buffer as seen by the reference.
const (
	hcShort         = iota // buffer shorter than a header
	hcLowShort             // number < 0x4000 (STUN-looking), declared > available
	hcLowFits              // number < 0x4000, declared <= available
	hcHighShort            // number > 0x7FFF, declared > available
	hcHighFits             // number > 0x7FFF, declared <= available
	hcValidShort           // valid number, declared > available            -> invalid
	hcValidExact           // valid number, declared == available           -> valid
	hcValidPadded          // valid number, available == pad4(declared) > declared -> valid
	hcValidTrailing        // valid number, other declared < available      -> valid
	hcN
)

var hcNames = [hcN]string{
	"buffer<4",
	"number<0x4000(stun-looking),declared>available",
	"number<0x4000(stun-looking),declared<=available",
	"number>0x7FFF,declared>available",
	"number>0x7FFF,declared<=available",
	"number-valid,declared>available",
	"number-valid,declared==available",
	"number-valid,available==pad4(declared)",
	"number-valid,declared<available(trailing)",
}

var sigDecAccepts, sigDecRejects, sigIsTrue, sigIsFalse [hcN]string

func init() {
	for i, n := range hcNames {
		sigDecAccepts[i] = "chandata-decode:accepts-invalid:" + n
		sigDecRejects[i] = "chandata-decode:rejects-valid:" + n
		sigIsTrue[i] = "ischanneldata:true-for-invalid:" + n
		sigIsFalse[i] = "ischanneldata:false-for-valid:" + n
	}
}

func hdrClass(num, declared, actual int) int {
	if actual < 4 {
		return hcShort
	}
	avail := actual - 4
	switch {
	case num < 0x4000:
		if declared > avail {
			return hcLowShort
		}

		return hcLowFits
	case num > 0x7FFF:
		if declared > avail {
			return hcHighShort
		}

		return hcHighFits
	case declared > avail:
		return hcValidShort
	case declared == avail:
		return hcValidExact
	case avail == pad4(declared):
		return hcValidPadded
	}

	return hcValidTrailing
}

// actualLens returns the deduplicated buffer lengths tried for a declared length.
func actualLens(d int, out []int32) []int32 {
	out = out[:0]
	cand := [...]int{0, 1, 2, 3, 4, 4 + d - 1, 4 + d, 4 + d + 1, 4 + pad4(d), 65539}
outer:
	for _, l := range cand {
		if l < 0 || l > bigLen {
			continue
		}
		for _, o := range out {
			if int(o) == l {
				continue outer
			}
		}
		out = append(out, int32(l)) //nolint:gosec
	}

	return out
}

type hdrChecker struct {
	r    *rep.Report
	big  []byte
	cd   proto.ChannelData
	cur  hdrCase
	cls  [hcN]int64
	eval int64
	lens [65536][]int32
	g    gate
}

func newHdrChecker(r *rep.Report) *hdrChecker {
	h := &hdrChecker{r: r, big: make([]byte, bigLen), g: gate{}}
	backing := make([]int32, 0, 65536*10)
	var tmp [10]int32
	for d := range h.lens {
		start := len(backing)
		backing = append(backing, actualLens(d, tmp[:0])...)
		h.lens[d] = backing[start:len(backing):len(backing)]
	}

	return h
}

func (h *hdrChecker) violate(sig, format string, args ...any) {
	if h.g.full(sig) {
		h.r.Violate(rep.Violation{Signature: sig})

		return
	}
	detail := fmt.Sprintf(format, args...)
	h.r.Violate(rep.Violation{
		Oracle:    "RFC 5766 §11.4-11.6: valid <=> len>=4, 0x4000<=number<=0x7FFF, declared <= len-4; data == buf[4:4+declared]",
		Signature: sig,
		Detail: fmt.Sprintf("header %02x %02x %02x %02x buffer_len=%d: %s",
			h.cur.Number>>8, h.cur.Number&0xFF, h.cur.Declared>>8, h.cur.Declared&0xFF, h.cur.Actual, detail),
		Replay: h.cur,
	})
}

// header evaluates every buffer length for one 4-byte header.
func (h *hdrChecker) header(num, d int) {
	big := h.big
	big[0], big[1], big[2], big[3] = byte(num>>8), byte(num), byte(d>>8), byte(d)
	for _, l32 := range h.lens[d] {
		l := int(l32)
		buf := big[:l]
		h.cur = hdrCase{num, d, l}
		h.eval++
		refNum, refData, refOK := refChannelData(buf)
		h.cls[hdrClass(num, d, l)]++
		if h.cls[hdrClass(num, d, l)] == 1 && l >= 4 {
			h.r.Sample(map[string]any{"case": h.cur, "class": hcNames[hdrClass(num, d, l)], "reference_valid": refOK})
		}

		h.cd.Raw = buf
		h.cd.Data = nil
		h.cd.Number = 0
		h.cd.Length = -1
		err := h.cd.Decode()
		is := proto.IsChannelData(buf)

		if (err == nil) != refOK {
			if err == nil {
				h.violate(sigDecAccepts[hdrClass(num, d, l)], "Decode returned nil, the reference rejects")
			} else {
				h.violate(sigDecRejects[hdrClass(num, d, l)], "Decode returned %v, the reference accepts", err)
			}
		} else if refOK {
			if uint16(h.cd.Number) != refNum {
				h.violate("chandata-decode:number-mismatch", "Number=0x%04x", uint16(h.cd.Number))
			}
			if len(h.cd.Data) != len(refData) || (len(refData) > 0 && &h.cd.Data[0] != &refData[0]) {
				h.violate("chandata-decode:data-mismatch", "Data has %d bytes, want exactly buf[4:%d]", len(h.cd.Data), 4+d)
			}
			if h.cd.Length != d {
				h.violate("chandata-decode:length-mismatch", "Length=%d", h.cd.Length)
			}
		}
		if is != refOK {
			if is {
				h.violate(sigIsTrue[hdrClass(num, d, l)], "IsChannelData=true, the reference rejects")
			} else {
				h.violate(sigIsFalse[hdrClass(num, d, l)], "IsChannelData=false, the reference accepts")
			}
		}
	}
}

func (h *hdrChecker) flush() {
	h.r.Evaluations += h.eval
	for i, v := range h.cls {
		addClass(h.r, "buffer:"+hcNames[i], v)
	}
}

// TestC11Headers: thorough = all 2^32 four-byte headers; quick = all 65536
// numbers x a boundary set of declared lengths plus all 65536 declared
// lengths x a boundary set of numbers. Every header is tried with buffer
// lengths {0,1,2,3,4, 4+declared-1, 4+declared, 4+declared+1,
// 4+pad4(declared), 65539} (deduplicated), as prefixes of one zeroed buffer.
func TestC11Headers(t *testing.T) {
	r := rep.New("C11")
	defer r.Write()
	shard, nshards := rep.Shard()
	h := newHdrChecker(r)
	defer h.flush()
	describe := func() any { return h.cur }

	if rep.Thorough() {
		sweep(r, "ChannelData.Decode/IsChannelData", shard, 65536, nshards, describe, func(num int) bool {
			if r.OverBudget("headers: number loop") {
				return false
			}
			for d := range 65536 {
				h.header(num, d)
			}

			return true
		})
		r.Bound = 1 << 32

		return
	}

	declared := []int{0, 1, 2, 3, 4, 5, 7, 8, 1599, 1600, 1601, 0x7FFF, 0x8000, 0xFFFB, 0xFFFC, 0xFFFD, 0xFFFE, 0xFFFF}
	numbers := []int{0, 1, 0x0101, 0x3FFF, 0x4000, 0x4001, 0x4FFF, 0x5000, 0x7FFE, 0x7FFF, 0x8000, 0xC000, 0xFFFF}
	inDeclared := map[int]bool{}
	for _, d := range declared {
		inDeclared[d] = true
	}
	sweep(r, "ChannelData.Decode/IsChannelData", shard, 65536, nshards, describe, func(num int) bool {
		for _, d := range declared {
			h.header(num, d)
		}

		return true
	})
	sweep(r, "ChannelData.Decode/IsChannelData", shard, 65536, nshards, describe, func(d int) bool {
		if inDeclared[d] {
			return true // covered for every number above
		}
		for _, num := range numbers {
			h.header(num, d)
		}

		return true
	})
	r.Bound = 65536
}
