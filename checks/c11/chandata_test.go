package c11

import (
	"bytes"
	"encoding/binary"
	"fmt"
	"testing"

	"github.com/pion/turn/v5/internal/proto"
	"github.com/pion/turn/v5/verif/rep"
)

// refChannelData is the reference ChannelData parser, RFC 5766 §11.4-11.6:
// 4-byte header (channel number, length), the channel number must lie in
// 0x4000..0x7FFF, at least `length` bytes must follow the header; the
// application data are exactly those `length` bytes (anything after them is
// padding / not part of the message).
func refChannelData(b []byte) (num uint16, data []byte, ok bool) {
	if len(b) < 4 {
		return 0, nil, false
	}
	num = binary.BigEndian.Uint16(b[0:2])
	l := int(binary.BigEndian.Uint16(b[2:4]))
	if num < 0x4000 || num > 0x7FFF {
		return num, nil, false
	}
	if l > len(b)-4 {
		return num, nil, false
	}

	return num, b[4 : 4+l], true
}

const maxPayload = 65535

var patternNames = [...]string{"zeros", "ff", "counter", "magic-cookie-prefixed", "chandata-header-prefixed", "stun-header-prefixed"}

// payloadPatterns returns one maxPayload-byte buffer per content pattern; the
// payload of length n is the n-byte prefix.
func payloadPatterns() [][]byte {
	mk := func(prefix []byte, fill func(i int) byte) []byte {
		b := make([]byte, maxPayload)
		for i := range b {
			b[i] = fill(i)
		}
		copy(b, prefix)

		return b
	}
	counter := func(i int) byte { return byte(i*7 + 1) } // never 0 at i=0, period 256

	return [][]byte{
		mk(nil, func(int) byte { return 0 }),
		mk(nil, func(int) byte { return 0xFF }),
		mk(nil, counter),
		mk([]byte{0x21, 0x12, 0xA4, 0x42}, counter),
		// looks like a ChannelData header: channel 0x4001, length 8
		mk([]byte{0x40, 0x01, 0x00, 0x08}, counter),
		// looks like a STUN header: Binding request, length 0, cookie, transaction id
		mk([]byte{0x00, 0x01, 0x00, 0x00, 0x21, 0x12, 0xA4, 0x42, 1, 2, 3, 4, 5, 6, 7, 8, 9, 10, 11, 12}, counter),
	}
}

type cdCase struct {
	Number  int    `json:"number"`
	Len     int    `json:"payload_len"`
	Pattern string `json:"pattern"`
}

// chanDataChecker evaluates one (number, payload) case with reused buffers.
type chanDataChecker struct {
	r    *rep.Report
	enc  proto.ChannelData // reused for every Encode, like pion/turn's callers do
	dec  proto.ChannelData
	cur  cdCase
	cls  map[[3]int]int64 // numClass, lenClass (as n%4 / special), pattern
	eval int64
	g    gate
}

func (c *chanDataChecker) violate(sig, format string, args ...any) {
	if c.g.full(sig) {
		c.r.Violate(rep.Violation{Signature: sig})

		return
	}
	c.r.Violate(rep.Violation{
		Oracle:    "RFC 5766 §11.4/11.5 layout and Encode->Decode identity",
		Signature: sig,
		Detail: fmt.Sprintf("number=0x%04x len=%d pattern=%s: ", c.cur.Number, c.cur.Len, c.cur.Pattern) +
			fmt.Sprintf(format, args...),
		Replay: c.cur,
	})
}

func (c *chanDataChecker) check(num int, payload []byte, pat int) {
	n := len(payload)
	c.cur = cdCase{num, n, patternNames[pat]}
	c.eval++
	nc := 1
	if num < 0x4000 {
		nc = 0
	} else if num > 0x7FFF {
		nc = 2
	}
	lc := n % 4
	if n == 0 {
		lc = 4
	} else if n > 65532 {
		lc = 5 + (n - 65533)
	}
	c.cls[[3]int{nc, lc, pat}]++

	// Poison the bytes that will become padding so that a codec that merely
	// extends the slice (instead of writing zeros) is noticed.
	if full := c.enc.Raw[:cap(c.enc.Raw)]; len(full) > 4+n {
		end := min(len(full), 4+n+3)
		for i := 4 + n; i < end; i++ {
			full[i] = 0xAA
		}
	}
	c.enc.Number = proto.ChannelNumber(num) //nolint:gosec
	c.enc.Data = payload
	c.enc.Length = -1 // documented as ignored while encoding
	c.enc.Encode()
	raw := c.enc.Raw

	wantLen := 4 + pad4(n)
	if len(raw) != wantLen {
		c.violate("chandata-encode:raw-length", "len(Raw)=%d want 4+pad4(len)=%d", len(raw), wantLen)

		return
	}
	if got := int(binary.BigEndian.Uint16(raw[0:2])); got != num {
		c.violate("chandata-encode:number-field", "Raw[0:2]=0x%04x", got)
	}
	if got := int(binary.BigEndian.Uint16(raw[2:4])); got != n {
		c.violate("chandata-encode:length-field", "Raw[2:4]=%d", got)
	}
	if !bytes.Equal(raw[4:4+n], payload) {
		c.violate("chandata-encode:payload-bytes", "Raw[4:4+len] differs from the payload")
	}
	for i := 4 + n; i < len(raw); i++ {
		if raw[i] != 0 {
			c.violate("chandata-encode:padding-nonzero", "Raw[%d]=0x%02x after the payload", i, raw[i])

			break
		}
	}

	if c.eval%1000003 == 1 {
		c.r.Sample(map[string]any{"case": c.cur, "raw": hexs(raw), "raw_len": len(raw)})
	}

	// Decode what was encoded (fresh view of the same bytes).
	c.dec.Raw = raw
	c.dec.Data = nil
	c.dec.Number = proto.ChannelNumber(^uint16(num)) //nolint:gosec
	c.dec.Length = -1
	err := c.dec.Decode()
	is := proto.IsChannelData(raw)
	valid := num >= 0x4000 && num <= 0x7FFF
	switch {
	case valid && err != nil:
		c.violate("chandata-roundtrip:decode-error", "Decode(Encode(x)) failed: %v", err)
	case valid:
		if int(c.dec.Number) != num {
			c.violate("chandata-roundtrip:number", "decoded number 0x%04x", int(c.dec.Number))
		}
		if !bytes.Equal(c.dec.Data, payload) {
			c.violate("chandata-roundtrip:payload", "decoded %d bytes, differs from payload", len(c.dec.Data))
		}
		// Re-encode the decoded message in place (Data is a sub slice of Raw,
		// the documented usage): the bytes must stay the same message.
		c.dec.Encode()
		re := c.dec.Raw
		ok := len(re) == wantLen && int(binary.BigEndian.Uint16(re[0:2])) == num && int(binary.BigEndian.Uint16(re[2:4])) == n &&
			bytes.Equal(re[4:4+n], payload)
		for i := 4 + n; ok && i < len(re); i++ {
			ok = re[i] == 0
		}
		if !ok {
			c.violate("chandata-reencode:differs", "Encode() of the decoded message (Data aliasing Raw) produced %s", hexs(re))
		}
		// The same object used for the next message: Reset, append the new payload to Data, Encode (what the type's
		// Reset / grow helpers are for). The result is the new message, whatever the object held before.
		if n <= 64 || n%251 == 0 {
			c.dec.Reset()
			c.dec.Number = proto.ChannelNumber(num) //nolint:gosec
			c.dec.Data = append(c.dec.Data, payload...)
			c.dec.Encode()
			re = c.dec.Raw
			ok = len(re) == wantLen && int(binary.BigEndian.Uint16(re[0:2])) == num && int(binary.BigEndian.Uint16(re[2:4])) == n &&
				bytes.Equal(re[4:4+n], payload)
			for i := 4 + n; ok && i < len(re); i++ {
				ok = re[i] == 0
			}
			if !ok {
				c.violate("chandata-reuse:reset-append-encode-differs", "Reset(); Data = append(Data, payload...); Encode() on a used message produced %s", hexs(re))
			}
		}
	case err == nil:
		c.violate("chandata-roundtrip:invalid-number-accepted", "Decode succeeded for a channel number outside 0x4000..0x7FFF")
	}
	if is != valid {
		c.violate("chandata-roundtrip:ischanneldata", "IsChannelData(Encode(x))=%v want %v", is, valid)
	}
}

func (c *chanDataChecker) flush() {
	c.r.Evaluations += c.eval
	for k, v := range c.cls {
		nc := [...]string{"number<0x4000", "number-valid", "number>0x7FFF"}[k[0]]
		var lc string
		switch {
		case k[1] < 4:
			lc = fmt.Sprintf("len%%4=%d", k[1])
		case k[1] == 4:
			lc = "len=0"
		default:
			lc = fmt.Sprintf("len=%d(padded-past-65535)", 65533+k[1]-5)
		}
		addClass(c.r, "encode:"+nc+","+lc+","+patternNames[k[2]], v)
	}
}

// TestC11ChannelData: (a) all 65536 channel numbers x payload lengths
// {0..64, 1596..1604, 65528..65535} (thorough: {0..256, 1490..1604,
// 65500..65535}) x 6 content patterns; (b) all payload lengths 0..65535 x 8
// (thorough 16) boundary numbers x 6 patterns.
func TestC11ChannelData(t *testing.T) {
	r := rep.New("C11")
	defer r.Write()
	shard, nshards := rep.Shard()
	pats := payloadPatterns()

	var lens []int
	span := func(lo, hi int) {
		for n := lo; n <= hi; n++ {
			lens = append(lens, n)
		}
	}
	numbers := []int{0, 0x3FFF, 0x4000, 0x4001, 0x7FFE, 0x7FFF, 0x8000, 0xFFFF}
	if rep.Thorough() {
		span(0, 256)
		span(1490, 1604)
		span(65500, 65535)
		numbers = []int{0, 1, 0x0101, 0x3FFE, 0x3FFF, 0x4000, 0x4001, 0x4FFF, 0x5000, 0x7FFE, 0x7FFF, 0x8000, 0x8001, 0xC000, 0xFFFE, 0xFFFF}
	} else {
		span(0, 64)
		span(1596, 1604)
		span(65528, 65535)
	}
	isListed := make([]bool, 65536)
	for _, n := range lens {
		isListed[n] = true
	}
	c := &chanDataChecker{r: r, cls: map[[3]int]int64{}, g: gate{}}
	defer c.flush()
	describe := func() any { return c.cur }

	// (a) every channel number.
	sweep(r, "ChannelData.Encode/Decode", shard, 65536, nshards, describe, func(num int) bool {
		if r.OverBudget("chandata numbers loop") {
			return false
		}
		for _, n := range lens {
			for p := range pats {
				c.check(num, pats[p][:n], p)
			}
		}

		return true
	})
	// (b) every payload length (lengths already covered for these numbers in (a) are skipped).
	sweep(r, "ChannelData.Encode/Decode", shard, 65536, nshards, describe, func(n int) bool {
		if r.OverBudget("chandata lengths loop") {
			return false
		}
		if isListed[n] {
			return true
		}
		for _, num := range numbers {
			for p := range pats {
				c.check(num, pats[p][:n], p)
			}
		}

		return true
	})
	r.Bound = maxPayload
}
