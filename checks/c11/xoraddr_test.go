package c11

import (
	"encoding/hex"
	"fmt"
	"net"
	"testing"

	"github.com/pion/stun/v3"
	"github.com/pion/turn/v5/internal/proto"
	"github.com/pion/turn/v5/verif/rep"
	"github.com/pion/turn/v5/verif/wire"
)

func ipPatterns() []net.IP {
	var out []net.IP
	for _, s := range []string{
		"0.0.0.0", "255.255.255.255", "10.1.0.1", "33.18.164.66", // the last one is the magic cookie: XORs to 0.0.0.0
		"::", "::1", "fd00::1", "::ffff:10.1.0.1",
	} {
		out = append(out, net.ParseIP(s))
	}

	return out
}

func portBoundary() []int {
	return []int{0, 1, 0x00FF, 0x0100, 1023, 1024, 3478, 0x2111, 0x2112, 0x2113, 0x7FFF, 0x8000, 49152, 0xDEED, 0xFFFE, 0xFFFF}
}

type xorCase struct {
	Attr string `json:"attr"`
	Raw  string `json:"raw_value_hex"`
	TxID string `json:"transaction_id_hex"`
}

// Shapes of a raw XOR address value as seen by the reference.
const (
	xsShort = iota
	xsUnknownFamily
	xsTruncated
	xsTooLong
	xsCanonical
	xsReservedByte
	xsN
)

var xsNames = [xsN]string{
	"shorter-than-header", "unknown-family", "address-truncated", "address-too-long",
	"canonical", "valid,first-byte!=0",
}

var xsMalformedKind [xsN]string

func init() {
	for i, n := range xsNames {
		xsMalformedKind[i] = "malformed-accepted:" + n
	}
}

func xorShape(v []byte) int {
	switch {
	case len(v) < 4:
		return xsShort
	case v[1] != 1 && v[1] != 2:
		return xsUnknownFamily
	case v[1] == 1 && len(v) < 8, v[1] == 2 && len(v) < 20:
		return xsTruncated
	case v[1] == 1 && len(v) > 8, v[1] == 2 && len(v) > 20:
		return xsTooLong
	case v[0] != 0:
		return xsReservedByte
	}

	return xsCanonical
}

// refXorDecode is the reference XOR-*-ADDRESS decoder (RFC 5389 §15.2): byte 0
// reserved (ignored), byte 1 family (0x01 IPv4 -> 4 address bytes, 0x02 IPv6
// -> 16), X-Port = port ^ most significant 16 bits of the magic cookie,
// X-Address = address ^ (magic cookie || transaction id). The value must be
// exactly 8 or 20 bytes. It allocates nothing; wire.DecodeXorAddr (the
// harness codec) is checked to agree with it in TestC11XorAddrs.
func refXorDecode(v []byte, tx [12]byte, ip *[16]byte) (ipLen, port int, ok bool) {
	if len(v) < 4 {
		return 0, 0, false
	}
	switch {
	case v[1] == 0x01 && len(v) == 8:
		ipLen = 4
	case v[1] == 0x02 && len(v) == 20:
		ipLen = 16
	default:
		return 0, 0, false
	}
	port = int(v[2])<<8 | int(v[3])
	port ^= 0x2112
	key := [16]byte{0x21, 0x12, 0xA4, 0x42}
	copy(key[4:], tx[:])
	for i := range ipLen {
		ip[i] = v[4+i] ^ key[i]
	}

	return ipLen, port, true
}

type xorChecker struct {
	r     *rep.Report
	eval  int64
	curT  int
	curV  []byte
	curTx [12]byte
	cls   [2][xsN][2]int64
	g     gate
	// one message per attribute type and value length, value rewritten in place
	msgs [2][65]*stun.Message
	vals [2][65][]byte
}

var xorTypes = [2]uint16{wire.AttrXORPeerAddress, wire.AttrXORRelayedAddress}
var xorNames = [2]string{"xor-peer-address", "xor-relayed-address"}

func newXorChecker(r *rep.Report) *xorChecker {
	x := &xorChecker{r: r, g: gate{}}
	for t := range 2 {
		for n := range 65 {
			m := stun.New()
			m.Type = stun.NewType(stun.MethodCreatePermission, stun.ClassRequest)
			m.WriteHeader()
			m.Add(stun.AttrType(xorTypes[t]), make([]byte, n))
			x.msgs[t][n] = m
			x.vals[t][n] = m.Attributes[0].Value
		}
	}

	return x
}

func (x *xorChecker) flush() {
	x.r.Evaluations += x.eval
	out := [2]string{"accepted", "rejected"}
	for t := range 2 {
		for s := range xsN {
			for k := range 2 {
				addClass(x.r, "raw:"+xorNames[t]+":"+xsNames[s]+":"+out[k], x.cls[t][s][k])
			}
		}
	}
}

// raw decodes raw value v (len <= 64) as attribute type t under transaction id tx.
func (x *xorChecker) raw(t int, v []byte, tx [12]byte) {
	x.eval++
	if x.eval&0x3FF == 0 { // cross-check the two independent references on a 1/1024 subsequence
		var ip [16]byte
		n, p, ok := refXorDecode(v, tx, &ip)
		w, wok := wire.DecodeXorAddr(v, tx)
		if ok != wok || (ok && (!w.IP.Equal(ip[:n]) || w.Port != p)) {
			panic(fmt.Sprintf("harness bug: refXorDecode and wire.DecodeXorAddr disagree on %x", v))
		}
	}
	x.curT, x.curV, x.curTx = t, v, tx
	n := len(v)
	m := x.msgs[t][n]
	copy(x.vals[t][n], v)
	m.TransactionID = tx

	var (
		ip   net.IP
		port int
		err  error
	)
	if t == 0 {
		var a proto.PeerAddress
		err = a.GetFrom(m)
		ip, port = a.IP, a.Port
	} else {
		var a proto.RelayedAddress
		err = a.GetFrom(m)
		ip, port = a.IP, a.Port
	}
	var refIP [16]byte
	refLen, refPort, ok := refXorDecode(v, tx, &refIP)
	ref := struct {
		IP   net.IP
		Port int
	}{refIP[:refLen], refPort}
	shape := xorShape(v)
	x.cls[t][shape][b2i(err != nil)]++
	if x.cls[t][shape][b2i(err != nil)] == 1 && t == 0 {
		x.r.Sample(map[string]any{
			"case": xorCase{xorNames[t], hex.EncodeToString(v), hex.EncodeToString(tx[:])}, "reference": xsNames[shape],
			"decoder_error": fmt.Sprint(err), "returned": canonAddr(ip, port),
		})
	}

	var kind string
	switch {
	case !ok && err == nil:
		kind = xsMalformedKind[shape]
	case ok && err == nil && (!ip.Equal(ref.IP) || port != ref.Port):
		kind = "different-value"
	case ok && err != nil && shape == xsCanonical:
		kind = "canonical-rejected"
	default:
		return
	}
	if x.g.full(xorNames[t] + ":raw:" + kind) {
		x.r.Violate(rep.Violation{Signature: xorNames[t] + ":raw:" + kind})

		return
	}
	var detail string
	switch kind {
	case "different-value":
		detail = fmt.Sprintf("decoder returned %s, the bytes denote %s", canonAddr(ip, port), canonAddr(ref.IP, ref.Port))
	case "canonical-rejected":
		detail = fmt.Sprintf("decoder failed (%v) for the canonical encoding of %s", err, canonAddr(ref.IP, ref.Port))
	default:
		detail = fmt.Sprintf("decoder returned %s for a raw value the RFC layout does not allow", canonAddr(ip, port))
	}
	c := xorCase{xorNames[t], hex.EncodeToString(v), hex.EncodeToString(tx[:])}
	x.r.Violate(rep.Violation{
		Oracle:    "RFC 5389 §15.2 layout: family 0x01 with 8 bytes or 0x02 with 20 bytes => denoted address; anything else => error",
		Signature: xorNames[t] + ":raw:" + kind,
		Detail:    fmt.Sprintf("raw value %s (len %d) tx %x: %s", hexs(v), n, tx, detail),
		Replay:    c,
	})
}

// template builds the 64-byte raw template: first byte, family, XOR-ed port,
// XOR-ed address bytes (4 or 16, by the IP pattern's own family), filler.
func template(dst *[64]byte, v0, fam byte, port int, ip net.IP, tx [12]byte, filler byte) {
	enc := wire.EncodeXorAddr(ip, port, tx) // independent encoder
	for i := range dst {
		dst[i] = filler
	}
	copy(dst[:], enc)
	dst[0], dst[1] = v0, fam
}

// TestC11XorAddrs: XOR-PEER-ADDRESS and XOR-RELAYED-ADDRESS.
//
//	(a) AddTo->GetFrom for all 65536 ports x 8 IP patterns (IPv4 ones in 4- and 16-byte form) x 3 transaction ids,
//	    plus IPs of wrong length;
//	(b) GetFrom on raw values [first byte, family, xport, xaddr..., filler][:L] compared with the harness' XOR decoder:
//	    S1 all 256 family bytes x 16 boundary ports x first byte {00,01,80,ff} x 8 IP patterns x L 0..64 x 2 fillers x 3 tx;
//	    S2 families {1,2} x all 65536 ports x 8 IP patterns x L 0..64;
//	    S3 (thorough) all 256 family bytes x all 65536 ports x L 0..64 x IP patterns (8 for families 1 and 2, {10.1.0.1, fd00::1} for the 254 unknown ones).
func TestC11XorAddrs(t *testing.T) {
	r := rep.New("C11")
	defer r.Write()
	shard, nshards := rep.Shard()
	specs := attrSpecs()
	a := newAttrChecker(r)
	defer a.flush()
	x := newXorChecker(r)
	defer x.flush()
	ips := ipPatterns()
	ports := portBoundary()
	sPeer := specByName(specs, "xor-peer-address")
	sRel := specByName(specs, "xor-relayed-address")

	// (a) typed round trips, sharded by port.
	var forms []net.IP
	for _, ip := range ips {
		forms = append(forms, ip)
		if ip4 := ip.To4(); ip4 != nil {
			forms = append(forms, ip4)
		}
	}
	sweep(r, "PeerAddress/RelayedAddress.AddTo/GetFrom", shard, 65536, nshards, func() any { return a.cur }, func(port int) bool {
		if r.OverBudget("xor address round trips") {
			return false
		}
		for _, ip := range forms {
			for _, tx := range txIDs {
				want := canonAddr(ip, port)
				a.roundTrip(sPeer, tx, want, true, proto.PeerAddress{IP: ip, Port: port}.AddTo)
				a.roundTrip(sRel, tx, want, true, proto.RelayedAddress{IP: ip, Port: port}.AddTo)
			}
		}

		return true
	})
	// IPs whose length is neither 4 nor 16 are outside the domain: the encoder
	// may refuse; nobody may hand back a different address.
	badLens := []int{0, 1, 3, 5, 8, 12, 15, 17, 20, 32}
	sweep(r, "PeerAddress/RelayedAddress.AddTo(bad IP length)", shard, len(badLens), nshards, func() any { return a.cur }, func(i int) bool {
		ip := make(net.IP, badLens[i])
		for j := range ip {
			ip[j] = byte(0x11 * (j + 1))
		}
		for _, port := range ports {
			want := canonAddr(ip, port)
			a.roundTrip(sPeer, txIDs[2], want, false, proto.PeerAddress{IP: ip, Port: port}.AddTo)
			a.roundTrip(sRel, txIDs[2], want, false, proto.RelayedAddress{IP: ip, Port: port}.AddTo)
		}

		return true
	})

	describe := func() any {
		return xorCase{xorNames[x.curT], hex.EncodeToString(x.curV), hex.EncodeToString(x.curTx[:])}
	}
	var tpl [64]byte
	// S1: every family byte, boundary ports, every length, reserved first byte, fillers, transaction ids.
	sweep(r, "PeerAddress/RelayedAddress.GetFrom(raw)", shard, 256, nshards, describe, func(fam int) bool {
		if r.OverBudget("xor raw S1") {
			return false
		}
		for _, port := range ports {
			for _, v0 := range [...]byte{0x00, 0x01, 0x80, 0xFF} {
				for _, ip := range ips {
					for _, tx := range txIDs {
						for _, filler := range [...]byte{0x00, 0xA5} {
							template(&tpl, v0, byte(fam), port, ip, tx, filler)
							for n := 0; n <= 64; n++ {
								x.raw(0, tpl[:n], tx)
								x.raw(1, tpl[:n], tx)
							}
						}
					}
				}
			}
		}

		return true
	})
	// S2 / S3: every port.
	fams := []int{1, 2}
	if rep.Thorough() {
		fams = fams[:0]
		for f := range 256 {
			fams = append(fams, f)
		}
	}
	tx := txIDs[2]
	sweep(r, "PeerAddress/RelayedAddress.GetFrom(raw)", shard, 65536, nshards, describe, func(port int) bool {
		if r.OverBudget("xor raw all ports") {
			return false
		}
		for ipi, ip := range ips {
			template(&tpl, 0, 0, port, ip, tx, 0x5A)
			for _, fam := range fams {
				// A decoder cannot reach the address bytes of an unknown
				// family through any RFC-defined path; two address patterns
				// (one 4-byte, one 16-byte template) are kept for those.
				if fam != 1 && fam != 2 && ipi != 2 && ipi != 6 {
					continue
				}
				tpl[1] = byte(fam) //nolint:gosec
				for n := 0; n <= 64; n++ {
					x.raw(0, tpl[:n], tx)
					x.raw(1, tpl[:n], tx)
				}
			}
		}

		return true
	})
	r.Bound = 64
}
