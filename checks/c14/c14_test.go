// Package c14 decides property C14 ("a live client keeps its relay alive
// indefinitely and Close releases it") by bounded-exhaustive fault
// enumeration on the real turn.Client talking to the real turn.Server over
// simnet, in virtual time.
//
// One run = one testing/synctest bubble: server, client (its Conn is a filter
// in front of a simnet socket), scripted peers, an application goroutine and a
// peer goroutine executing a fixed traffic schedule, a reader goroutine on the
// relayed socket. The filter identifies every STUN transaction of the client
// with the harness codec (/verif/wire), labels it with a schedule independent
// identity ("Refresh#7", "ChannelBind[10.1.0.1:5000]#3", ...) and applies the
// loss schedule of the run to it. Application probes (ChannelData, Send and
// Data indications) are never touched.
package c14

import (
	"encoding/json"
	"fmt"
	"hash/fnv"
	"net"
	"os"
	"runtime"
	"sort"
	"strings"
	"sync"
	"testing"
	"testing/synctest"
	"time"

	"github.com/pion/logging"
	turn "github.com/pion/turn/v5"
	"github.com/pion/turn/v5/verif/rep"
	"github.com/pion/turn/v5/verif/simnet"
	"github.com/pion/turn/v5/verif/vtx"
	"github.com/pion/turn/v5/verif/wire"
)

// ---------------------------------------------------------------- domain

type srvCfg struct {
	Name             string
	Life, Perm, Chan time.Duration
}

// All three are compatible with the client's cadence (allocation refresh at
// granted lifetime/2, permission refresh every 120 s, binding refresh at the
// first 30 s check tick or write later than 300 s after the last success,
// i.e. at most 330 s; every transaction completes within 6.2 s as long as one
// of its 7 transmissions gets through).
func configs() []srvCfg {
	return []srvCfg{
		{"default(600,300,600)", 600 * time.Second, 300 * time.Second, 600 * time.Second},
		{"life120(120,300,600)", 120 * time.Second, 300 * time.Second, 600 * time.Second},
		{"tight(600,150,360)", 600 * time.Second, 150 * time.Second, 360 * time.Second},
	}
}

// event of a traffic schedule.
type tev struct {
	At   time.Duration
	Peer int
}

type traffic struct {
	Name  string
	Peers []*net.UDPAddr
	App   []tev // relayConn.WriteTo(probe, peer)
	Peer  []tev // peer socket WriteTo(probe, relayed address); skipped until the app's first write to that peer has returned
}

const (
	appPhase  = 13*time.Second + 350*time.Millisecond // never coincides with the client's timer grid (multiples of 30 s plus k*200 ms)
	peerPhase = 31*time.Second + 650*time.Millisecond
)

func peerAddr(i int) *net.UDPAddr {
	// peers 0,1 have distinct IPs, peer 2 shares the IP of peer 0 (other port), the rest have distinct IPs.
	switch i {
	case 0:
		return &net.UDPAddr{IP: net.IPv4(10, 1, 0, 1).To4(), Port: 5000}
	case 1:
		return &net.UDPAddr{IP: net.IPv4(10, 1, 0, 2).To4(), Port: 5000}
	case 2:
		return &net.UDPAddr{IP: net.IPv4(10, 1, 0, 1).To4(), Port: 5001}
	}

	return &net.UDPAddr{IP: net.IPv4(10, 1, 0, byte(i)).To4(), Port: 5000}
}

func patternNames() []string {
	return []string{"idle", "both60", "both10", "burst", "newpeer", "sameip", "newpeer-at-nonce-expiry", "manypeers"}
}

// makeTraffic builds the (deterministic) schedule of a pattern up to horizon.
func makeTraffic(name string, horizon time.Duration) traffic {
	tr := traffic{Name: name}
	skew := func(p int) time.Duration { return time.Duration(p) * 10 * time.Millisecond }
	every := func(dst *[]tev, first, period time.Duration, peer int) {
		for t := first; t <= horizon; t += period {
			*dst = append(*dst, tev{t + skew(peer), peer})
		}
	}
	npeers := 0
	switch name {
	case "idle": // one write per peer, then the app is silent for ever; peers keep probing
		npeers = 2
		for p := range npeers {
			tr.App = append(tr.App, tev{appPhase + skew(p), p})
			every(&tr.Peer, peerPhase, time.Minute, p)
		}
	case "both60", "second-socket", "second-socket-after-tcp":
		npeers = 2
		for p := range npeers {
			every(&tr.App, appPhase, time.Minute, p)
			every(&tr.Peer, peerPhase, time.Minute, p)
		}
	case "both10":
		npeers = 1
		every(&tr.App, appPhase, 10*time.Second, 0)
		every(&tr.Peer, peerPhase-20*time.Second, 10*time.Second, 0)
	case "burst": // 30 writes at 1 s spacing to each of 3 peers, then 40 min of silence, again and again
		npeers = 3
		for b := appPhase; b <= horizon; b += 30*time.Second + 40*time.Minute {
			for p := range npeers {
				for i := range 30 {
					if t := b + time.Duration(i)*time.Second; t <= horizon {
						tr.App = append(tr.App, tev{t + skew(p), p})
					}
				}
			}
		}
		for p := range npeers {
			every(&tr.Peer, peerPhase, time.Minute, p)
		}
	case "sameip": // the app talks to peer 0 only; peer 2 (peer 0's IP, another port) is covered by the same permission and sends too
		npeers = 3
		every(&tr.App, appPhase, time.Minute, 0)
		every(&tr.Peer, peerPhase-20*time.Second, 10*time.Second, 0)
		every(&tr.Peer, peerPhase-15*time.Second, 10*time.Second, 2)
	case "manypeers":
		// "any number of peers": one write to each of 140 peers on 140 IP addresses (a conference), then the app is
		// silent; every peer has a never-written sibling on its IP address (covered by the permission only); the
		// siblings of the first ten send every 20 s, the others every 5 min.
		for p := 0; p < 140; p++ {
			ip := net.IPv4(10, 2, byte(p/200), byte(1+p%200)).To4()
			tr.Peers = append(tr.Peers, &net.UDPAddr{IP: ip, Port: 5000}, &net.UDPAddr{IP: ip, Port: 5001})
			tr.App = append(tr.App, tev{appPhase + time.Duration(p)*50*time.Millisecond, 2 * p})
			period := 5 * time.Minute
			if p < 10 {
				period = 20 * time.Second
			}
			every(&tr.Peer, peerPhase+time.Duration(p)*70*time.Millisecond, period, 2*p+1)
			// ... and 25 minutes later (two and a half channel lifetimes of idling) the app speaks once more to the
			// first 40: their bindings, which all fell due in the same refresh rounds, must have been kept alive
			if t := appPhase + 25*time.Minute + time.Duration(p)*50*time.Millisecond; p < 40 && t <= horizon {
				tr.App = append(tr.App, tev{t, 2 * p})
			}
		}
	case "newpeer-at-nonce-expiry":
		// one write to peer 0 at the start; then, while the hourly nonce goes stale, a first write to a new peer
		// every 20 s. Every new peer 2k+1 has a sibling 2k+2 on the same IP address (other port) that is never
		// written to and sends every 10 s: it lives on the permission the first write installed.
		tr.App = append(tr.App, tev{appPhase, 0})
		every(&tr.Peer, peerPhase, time.Minute, 0)
		tr.Peers = append(tr.Peers, peerAddr(0))
		for j, t := 0, 59*time.Minute+appPhase; t <= 64*time.Minute && t <= horizon; j, t = j+1, t+20*time.Second {
			ip := net.IPv4(10, 1, 1, byte(j+1)).To4()
			tr.Peers = append(tr.Peers, &net.UDPAddr{IP: ip, Port: 5000}, &net.UDPAddr{IP: ip, Port: 5001})
			tr.App = append(tr.App, tev{t, 2*j + 1})
			every(&tr.Peer, t+peerPhase-appPhase, time.Minute, 2*j+1)
			every(&tr.Peer, t+peerPhase-appPhase+5*time.Second, 10*time.Second, 2*j+2)
		}
	case "newpeer": // a single write to a peer never used before every 7 minutes
		for j, t := 0, appPhase; t <= horizon; j, t = j+1, t+7*time.Minute {
			p := j
			if j >= 2 {
				p = j + 1 // skip the same-IP peer: every new peer needs a new permission
			}
			npeers = p + 1
			tr.App = append(tr.App, tev{t, p})
			every(&tr.Peer, t-appPhase+peerPhase, time.Minute, p)
		}
	default:
		panic("unknown pattern " + name)
	}
	for p := range npeers {
		tr.Peers = append(tr.Peers, peerAddr(p))
	}
	_ = npeers
	sort.SliceStable(tr.App, func(i, j int) bool { return tr.App[i].At < tr.App[j].At })
	sort.SliceStable(tr.Peer, func(i, j int) bool { return tr.Peer[i].At < tr.Peer[j].At })

	return tr
}

// A deviation from the fault-free default.
type deviation struct {
	Tx   string  `json:"tx"`             // transaction identity, e.g. "Refresh#3"
	Kind string  `json:"kind"`           // dropreq | dropresp | dup | delay
	K    int     `json:"k"`              // dropreq: the first K transmissions; others: the response to transmission K
	AtS  float64 `json:"at_s,omitempty"` // first transmission of Tx in the run the deviation was derived from (informational)
}

func (d deviation) String() string { return fmt.Sprintf("%s(%d)@%s", d.Kind, d.K, d.Tx) }

const maxTransmissions = 7 // client.go: maxRtxCount

type scenario struct {
	Cfg     srvCfg        `json:"cfg"`
	Pattern string        `json:"pattern"`
	Horizon time.Duration `json:"horizon_ns"`
	CloseAt time.Duration `json:"close_at_ns"` // 0: Horizon + 7.35 s
	Devs    []deviation   `json:"devs"`
}

func (s scenario) closeAt() time.Duration {
	if s.CloseAt > 0 {
		return s.CloseAt
	}

	return s.Horizon + 7*time.Second + 350*time.Millisecond
}

// ---------------------------------------------------------------- filter

type txInfo struct {
	ID      string
	Kind    string
	At      time.Duration
	Sent    int // transmissions written by the client
	Passed  int // transmissions forwarded to the server
	lastIdx int // index of the last forwarded transmission
	Resp    string
	Got     int // responses handed to the client
	held    [][]byte
	reinj   int
	fated   map[int]bool
}

type filterConn struct {
	sock    *simnet.UDPSock
	srv     *net.UDPAddr
	start   time.Time
	mu      sync.Mutex
	byTx    map[[12]byte]*txInfo
	order   []*txInfo
	ord     map[string]int
	permOK  map[string]bool
	devs    []deviation
	applied []int
	pending []simnet.Dgram
}

func newFilter(s *simnet.UDPSock, srv *net.UDPAddr, start time.Time, devs []deviation) *filterConn {
	return &filterConn{sock: s, srv: srv, start: start, byTx: map[[12]byte]*txInfo{}, ord: map[string]int{},
		permOK: map[string]bool{}, devs: devs, applied: make([]int, len(devs))}
}

func peerAttrs(m *wire.Msg) []*net.UDPAddr {
	var out []*net.UDPAddr
	for _, a := range m.Attrs {
		if a.Type == wire.AttrXORPeerAddress {
			if u, ok := wire.DecodeXorAddr(a.Value, m.TxID); ok {
				out = append(out, u)
			}
		}
	}

	return out
}

func (f *filterConn) label(m *wire.Msg) (kind, label string) {
	switch m.Method {
	case wire.Refresh:
		if l, ok := m.U32(wire.AttrLifetime); ok && l == 0 {
			return "Refresh0", "Refresh0"
		}

		return "Refresh", "Refresh"
	case wire.CreatePermission:
		var fresh []string
		for _, p := range peerAttrs(m) {
			if !f.permOK[p.IP.String()] {
				fresh = append(fresh, p.IP.String())
			}
		}
		if len(fresh) > 0 {
			sort.Strings(fresh)

			return "CreatePermission", "CreatePermission/new[" + strings.Join(fresh, ",") + "]"
		}

		return "CreatePermission", "CreatePermission/refresh"
	case wire.ChannelBind:
		l := "ChannelBind[?]"
		if p := peerAttrs(m); len(p) == 1 {
			l = "ChannelBind[" + p[0].String() + "]"
		}

		return "ChannelBind", l
	}

	return wire.MethodName(m.Method), wire.MethodName(m.Method)
}

// fate of transmission i of transaction id. The 7th (last) transmission and
// its response are never touched, so every transaction keeps at least one
// transmission and one response whatever the schedule says.
func (f *filterConn) reqFate(id string, i int) bool {
	if i >= maxTransmissions {
		return false
	}
	for n, d := range f.devs {
		if d.Tx == id && d.Kind == "dropreq" && i <= d.K {
			f.applied[n]++

			return true
		}
	}

	return false
}

func (f *filterConn) respFate(id string, i int) string {
	if i >= maxTransmissions {
		return ""
	}
	for n, d := range f.devs {
		if d.Tx == id && d.Kind != "dropreq" && d.K == i {
			f.applied[n]++

			return d.Kind
		}
	}

	return ""
}

func stunClass(p []byte) (*wire.Msg, bool) {
	if len(p) < 20 || p[0]&0xC0 != 0 {
		return nil, false
	}
	m, err := wire.Parse(p)
	if err != nil {
		return nil, false
	}

	return m, true
}

func (f *filterConn) WriteTo(p []byte, addr net.Addr) (int, error) {
	m, ok := stunClass(p)
	if !ok || m.Class != wire.Request {
		return f.sock.WriteTo(p, addr)
	}
	f.mu.Lock()
	ti := f.byTx[m.TxID]
	if ti == nil {
		kind, label := f.label(m)
		f.ord[label]++
		ti = &txInfo{ID: fmt.Sprintf("%s#%d", label, f.ord[label]), Kind: kind, At: time.Since(f.start), fated: map[int]bool{}}
		f.byTx[m.TxID] = ti
		f.order = append(f.order, ti)
	}
	ti.Sent++
	if f.reqFate(ti.ID, ti.Sent) {
		f.mu.Unlock()

		return len(p), nil
	}
	ti.Passed++
	ti.lastIdx = ti.Sent
	held := ti.held
	ti.held = nil
	ti.reinj += len(held)
	f.mu.Unlock()
	// a delayed response reaches the client together with the next retransmission
	for _, h := range held {
		f.sock.Inject(f.srv, h)
	}

	return f.sock.WriteTo(p, addr)
}

func (f *filterConn) ReadFrom(p []byte) (int, net.Addr, error) {
	for {
		f.mu.Lock()
		if len(f.pending) > 0 {
			d := f.pending[0]
			f.pending = f.pending[1:]
			f.mu.Unlock()

			return copy(p, d.Data), d.Src, nil
		}
		f.mu.Unlock()
		n, from, err := f.sock.ReadFrom(p)
		if err != nil {
			return n, from, err
		}
		m, ok := stunClass(p[:n])
		if !ok || (m.Class != wire.Success && m.Class != wire.Error) {
			return n, from, nil
		}
		// Responses travel for 1 ns of virtual time: every client goroutine that is runnable at this instant has
		// then sent its request before the client sees any answer. This fixes the one order-dependent choice of
		// the client (which of several same-instant transactions still carries the old nonce when a 438 arrives:
		// all of them) and thereby makes the set of transactions of a run reproducible.
		time.Sleep(time.Nanosecond)
		f.mu.Lock()
		ti := f.byTx[m.TxID]
		if ti == nil {
			f.mu.Unlock()

			return n, from, nil
		}
		fate := ""
		if ti.reinj > 0 {
			ti.reinj-- // a response this filter delayed earlier: deliver as is
		} else if !ti.fated[ti.lastIdx] {
			ti.fated[ti.lastIdx] = true
			fate = f.respFate(ti.ID, ti.lastIdx)
		}
		switch fate {
		case "dropresp":
			f.mu.Unlock()

			continue
		case "delay":
			ti.held = append(ti.held, append([]byte(nil), p[:n]...))
			f.mu.Unlock()

			continue
		case "dup":
			ua, _ := from.(*net.UDPAddr)
			f.pending = append(f.pending, simnet.Dgram{Src: ua, Data: append([]byte(nil), p[:n]...)})
		}
		ti.Got++
		if ti.Resp == "" {
			if m.Class == wire.Success {
				ti.Resp = "ok"
				if m.Method == wire.CreatePermission {
					// the request's peers are now permitted; remember by request
					for _, ip := range ti.permIPs() {
						f.permOK[ip] = true
					}
				}
			} else {
				ti.Resp = fmt.Sprintf("err%d", m.ErrorCode())
			}
		}
		f.mu.Unlock()

		return n, from, nil
	}
}

// permIPs extracts the peer IPs from a CreatePermission/new label (refresh labels carry none, nothing new to learn).
func (t *txInfo) permIPs() []string {
	i := strings.Index(t.ID, "new[")
	if i < 0 {
		return nil
	}
	j := strings.Index(t.ID[i:], "]")

	return strings.Split(t.ID[i+4:i+j], ",")
}

// answerOf reports the first response the client got for a transaction ("none" if it got none).
func (f *filterConn) answerOf(id string) string {
	f.mu.Lock()
	defer f.mu.Unlock()
	for _, ti := range f.order {
		if ti.ID == id && ti.Resp != "" {
			return ti.Resp
		}
	}

	return "none"
}

func (f *filterConn) Close() error                       { return f.sock.Close() }
func (f *filterConn) LocalAddr() net.Addr                { return f.sock.LocalAddr() }
func (f *filterConn) SetDeadline(t time.Time) error      { return f.sock.SetDeadline(t) }
func (f *filterConn) SetReadDeadline(t time.Time) error  { return f.sock.SetReadDeadline(t) }
func (f *filterConn) SetWriteDeadline(t time.Time) error { return f.sock.SetWriteDeadline(t) }

// ---------------------------------------------------------------- logger

type recFactory struct {
	mu    sync.Mutex
	start time.Time
	until time.Duration // lines later than this are not recorded (the relayed socket is closed by then)
	lines []string
}

type recLogger struct {
	f     *recFactory
	scope string
}

func (f *recFactory) NewLogger(scope string) logging.LeveledLogger { return &recLogger{f, scope} }

func (l *recLogger) rec(level, msg string) {
	l.f.mu.Lock()
	if len(l.f.lines) < 64 && time.Since(l.f.start) < l.f.until {
		l.f.lines = append(l.f.lines, fmt.Sprintf("%.1fs %s %s: %s", time.Since(l.f.start).Seconds(), level, l.scope, msg))
	}
	l.f.mu.Unlock()
}
func (l *recLogger) Trace(string)              {}
func (l *recLogger) Tracef(string, ...any)     {}
func (l *recLogger) Debug(string)              {}
func (l *recLogger) Debugf(string, ...any)     {}
func (l *recLogger) Info(string)               {}
func (l *recLogger) Infof(string, ...any)      {}
func (l *recLogger) Warn(m string)             { l.rec("WARN", m) }
func (l *recLogger) Warnf(f string, a ...any)  { l.rec("WARN", fmt.Sprintf(f, a...)) }
func (l *recLogger) Error(m string)            { l.rec("ERROR", m) }
func (l *recLogger) Errorf(f string, a ...any) { l.rec("ERROR", fmt.Sprintf(f, a...)) }

// ---------------------------------------------------------------- one run

type txRec struct {
	ID   string  `json:"id"`
	Kind string  `json:"kind"`
	AtS  float64 `json:"at_s"`
	Sent int     `json:"sent"`
	Resp string  `json:"resp"`
}

type finding struct{ Sig, Detail string }

type runResult struct {
	Txs                      []txRec
	Applied                  []int
	Findings                 []finding
	Outcome                  string // "delivered" | "missing@<minute>" | "error:<what>"
	SentC2P                  int
	SentP2C                  int
	Warns                    []string
	Harness                  string // non-empty: the run itself is unusable (harness problem, not a verdict)
	CountAtClose, CountLater int
}

type probe struct {
	peer int
	at   time.Duration
	dir  string
}

var (
	cliAddr = &net.UDPAddr{IP: net.IPv4(10, 0, 0, 2).To4(), Port: 4000}
)

func normalizeWarn(s string) string {
	// "12.0s WARN turnc: Failed to refresh allocation: ..." -> "Failed to refresh allocation"
	i := strings.Index(s, ": ")
	if i >= 0 {
		s = s[i+2:]
	}
	if j := strings.IndexAny(s, ":0123456789"); j > 0 {
		s = s[:j]
	}

	return strings.ReplaceAll(strings.TrimSpace(s), " ", "-")
}

func runOnce(t *testing.T, sc scenario) (res *runResult) { //nolint:gocognit,cyclop,maintidx
	res = &runResult{}
	add := func(sig, detail string) { res.Findings = append(res.Findings, finding{sig, detail}) }
	defer func() {
		if e := recover(); e != nil {
			msg := fmt.Sprint(e)
			switch {
			case strings.Contains(msg, "blocked goroutines remain"):
				add("goroutine-leak-after-close", msg)
			case strings.Contains(msg, "deadlock"):
				add("deadlock", msg)
			default:
				add("panic:run", msg)
			}
			if res.Outcome == "" {
				res.Outcome = "error:panic"
			}
		}
	}()
	tr := makeTraffic(sc.Pattern, sc.Horizon)
	closeAt := sc.closeAt()
	synctest.Test(t, func(*testing.T) {
		start := time.Now()
		w, err := vtx.NewWorld(vtx.Config{Lifetime: sc.Cfg.Life, Perm: sc.Cfg.Perm, Chan: sc.Cfg.Chan}, nil, nil)
		if err != nil {
			res.Harness = "newworld: " + err.Error()

			return
		}
		w.Net.LogOff = true
		csock, err := w.Net.ListenUDP("udp4", cliAddr)
		if err != nil {
			res.Harness = "listen: " + err.Error()
			w.Close()

			return
		}
		fc := newFilter(csock, w.SrvAddr, start, sc.Devs)
		// the property speaks about the time the relayed socket is open: a periodic transaction that is still in
		// flight when the application closes the socket loses its allocation to the Refresh(0) and may fail
		lf := &recFactory{start: start, until: closeAt}
		cl, err := turn.NewClient(&turn.ClientConfig{
			STUNServerAddr: w.SrvAddr.String(), TURNServerAddr: w.SrvAddr.String(),
			Username: "u1", Password: vtx.Users["u1"], Realm: vtx.Realm,
			Conn: fc, Net: w.Net.Transport(), LoggerFactory: lf,
		})
		if err != nil {
			res.Harness = "newclient: " + err.Error()
			_ = fc.Close()
			w.Close()

			return
		}
		_ = cl.Listen()
		relay, err := cl.Allocate()
		if err != nil {
			add("allocate-failed", err.Error())
			res.Outcome = "error:allocate"
			cl.Close()
			_ = fc.Close()
			w.Close()

			return
		}
		if sc.Pattern == "second-socket-after-tcp" {
			// the same with a TCP allocation (a net.Listener) as the first relayed socket
			_ = relay.Close()
			synctest.Wait()
			first, terr := cl.AllocateTCP()
			if terr != nil {
				add("allocate-failed", "AllocateTCP after Close: "+terr.Error())
				res.Outcome = "error:allocate"
				cl.Close()
				_ = fc.Close()
				w.Close()

				return
			}
			_ = first.Close()
			synctest.Wait()
			if relay, err = cl.Allocate(); err != nil {
				add("allocate-failed", "Allocate after the TCP allocation was closed: "+err.Error())
				res.Outcome = "error:allocate"
				cl.Close()
				_ = fc.Close()
				w.Close()

				return
			}
			_ = first.Close() // closing the closed listener again changes nothing for the open socket
			synctest.Wait()
		}
		if sc.Pattern == "second-socket" {
			first := relay
			_ = first.Close()
			synctest.Wait()
			if relay, err = cl.Allocate(); err != nil {
				add("allocate-failed", "second Allocate on the same client: "+err.Error())
				res.Outcome = "error:allocate"
				cl.Close()
				_ = fc.Close()
				w.Close()

				return
			}
			_ = first.Close() // closing the closed socket again changes nothing for the open one
			synctest.Wait()
		}
		relayAddr, _ := relay.LocalAddr().(*net.UDPAddr)
		psock := make([]*simnet.UDPSock, len(tr.Peers))
		for i, a := range tr.Peers {
			if psock[i], err = w.Net.ListenUDP("udp4", a); err != nil {
				res.Harness = "peer listen: " + err.Error()
			}
		}
		var (
			mu        sync.Mutex
			sent      = map[string]probe{}
			permitted = make([]bool, len(tr.Peers))
			atClient  []simnet.Dgram
			werrs     []string
			seq       int
		)
		sleepUntil := func(at time.Duration) {
			if d := at - time.Since(start); d > 0 {
				time.Sleep(d)
			}
		}
		payload := func(dir string, peer int) []byte {
			seq++
			s := fmt.Sprintf("%s peer=%d seq=%06d ", dir, peer, seq)

			return []byte(s + strings.Repeat("~", seq%5)) // lengths of every residue mod 4: ChannelData padding
		}
		readerDone, appDone, peersDone := make(chan struct{}), make(chan struct{}), make(chan struct{})
		go func() {
			defer close(readerDone)
			buf := make([]byte, 2048)
			for {
				n, from, err := relay.ReadFrom(buf)
				if err != nil {
					return
				}
				ua, _ := from.(*net.UDPAddr)
				mu.Lock()
				atClient = append(atClient, simnet.Dgram{Src: ua, Data: append([]byte(nil), buf[:n]...)})
				mu.Unlock()
			}
		}()
		go func() {
			defer close(appDone)
			for _, e := range tr.App {
				if e.At >= closeAt-time.Second {
					break
				}
				sleepUntil(e.At)
				mu.Lock()
				b := payload("C>P", e.Peer)
				sent[string(b)] = probe{e.Peer, time.Since(start), "c2p"}
				mu.Unlock()
				n, err := relay.WriteTo(b, tr.Peers[e.Peer])
				mu.Lock()
				if err != nil || n != len(b) {
					delete(sent, string(b)) // the socket reported the failure: not owed, but a failure of the client
					if len(werrs) < 8 {
						werrs = append(werrs, fmt.Sprintf("%.1fs WriteTo(peer %d) = %d, %v", time.Since(start).Seconds(), e.Peer, n, err))
					}
				} else {
					// permissions are per IP address: every peer on that address may send from now on
					for i, a := range tr.Peers {
						if a.IP.Equal(tr.Peers[e.Peer].IP) {
							permitted[i] = true
						}
					}
				}
				mu.Unlock()
			}
		}()
		go func() {
			defer close(peersDone)
			for _, e := range tr.Peer {
				if e.At >= closeAt-time.Second {
					break
				}
				sleepUntil(e.At)
				mu.Lock()
				if !permitted[e.Peer] {
					mu.Unlock()

					continue
				}
				b := payload("P>C", e.Peer)
				sent[string(b)] = probe{e.Peer, time.Since(start), "p2c"}
				mu.Unlock()
				_, _ = psock[e.Peer].WriteTo(b, relayAddr)
			}
		}()

		sleepUntil(closeAt)
		<-appDone
		<-peersDone
		synctest.Wait()

		// ---- delivery oracle (everything sent while the socket was open)
		mu.Lock()
		type miss struct {
			key string
			p   probe
		}
		var missing []miss
		seen := map[string]int{}
		for i, s := range psock {
			for _, d := range s.Drain() {
				k := string(d.Data)
				p, ok := sent[k]
				switch {
				case !ok || p.dir != "c2p":
					add("peer-received-unsent-datagram", fmt.Sprintf("peer %d got %q from %s", i, k, d.Src))
				case p.peer != i:
					add("probe-misrouted:c2p", fmt.Sprintf("%q for peer %d arrived at peer %d", k, p.peer, i))
				case d.Src.String() != relayAddr.String():
					add("probe-wrong-source:c2p", fmt.Sprintf("%q arrived from %s, relayed address is %s", k, d.Src, relayAddr))
				}
				seen[k]++
			}
		}
		for _, d := range atClient {
			k := string(d.Data)
			p, ok := sent[k]
			switch {
			case !ok || p.dir != "p2c":
				add("client-received-unsent-datagram", fmt.Sprintf("got %q from %s", k, d.Src))
			case d.Src == nil || d.Src.String() != tr.Peers[p.peer].String():
				add("probe-wrong-source:p2c", fmt.Sprintf("%q of peer %s attributed to %v", k, tr.Peers[p.peer], d.Src))
			}
			seen[k]++
		}
		dups := 0
		for k, p := range sent {
			if p.dir == "c2p" {
				res.SentC2P++
			} else {
				res.SentP2C++
			}
			switch n := seen[k]; {
			case n == 0:
				missing = append(missing, miss{k, p})
			case n > 1:
				dups++
				if dups == 1 {
					add("probe-duplicated:"+p.dir, fmt.Sprintf("%q delivered %d times", k, n))
				}
			}
		}
		sort.Slice(missing, func(i, j int) bool { return missing[i].p.at < missing[j].p.at })
		if len(missing) > 0 {
			m := missing[0]
			res.Outcome = fmt.Sprintf("missing@%dmin", int(m.p.at/time.Minute))
			add("probe-lost:"+m.p.dir, fmt.Sprintf("%d of %d probes never arrived; first: %q sent at %.1fs (peer %s); last: sent at %.1fs",
				len(missing), len(sent), m.key, m.p.at.Seconds(), tr.Peers[m.p.peer], missing[len(missing)-1].p.at.Seconds()))
		}
		for _, e := range werrs {
			add("relayconn-write-error", e)
		}
		mu.Unlock()

		// ---- Close releases the allocation at once
		before := w.Srv.AllocationCount()
		if before != 1 {
			add("allocation-gone-before-close", fmt.Sprintf("AllocationCount=%d at %.1fs with the relayed socket open", before, closeAt.Seconds()))
		}
		cerr := relay.Close()
		synctest.Wait()
		// "at once": the filter gives responses 1 ns of latency, so allow the handful of round trips a stale-nonce
		// retry needs (1 ms of virtual time), but no retransmission timer (>= 200 ms) and no expiry.
		time.Sleep(time.Millisecond)
		synctest.Wait()
		res.CountAtClose = w.Srv.AllocationCount()
		relayOpen := func() bool {
			for _, s := range w.Net.OpenUDP() {
				if s == relayAddr.String() {
					return true
				}
			}

			return false
		}
		openAtClose := relayOpen()
		// when the schedule withholds the Refresh(0) request itself from the server, "at once" means: as soon as
		// a transmission gets through, so look again after the retransmission window.
		closeTxHit := false
		fc.mu.Lock()
		for n, d := range sc.Devs {
			if strings.HasPrefix(d.Tx, "Refresh0#") && d.Kind == "dropreq" && fc.applied[n] > 0 {
				closeTxHit = true
			}
		}
		fc.mu.Unlock()
		time.Sleep(10 * time.Second)
		synctest.Wait()
		res.CountLater = w.Srv.AllocationCount()
		switch {
		case cerr != nil:
			add("close-returned-error", cerr.Error())
		case !closeTxHit && (res.CountAtClose != 0 || openAtClose):
			add("allocation-survives-close:refresh0-answer="+fc.answerOf("Refresh0#1"), fmt.Sprintf("after relayConn.Close() at %.2fs, 1 ms and quiescence: AllocationCount=%d relay socket open=%v; 10 s later: AllocationCount=%d",
				closeAt.Seconds(), res.CountAtClose, openAtClose, res.CountLater))
		case closeTxHit && (res.CountLater != 0 || relayOpen()):
			add("allocation-survives-close:refresh0-answer="+fc.answerOf("Refresh0#1"), fmt.Sprintf("Refresh(0) lost its first transmissions; 10 s after Close: AllocationCount=%d relay socket open=%v",
				res.CountLater, relayOpen()))
		}

		cl.Close()
		_ = fc.Close()
		for _, s := range psock {
			_ = s.Close()
		}
		w.Close()
		<-readerDone

		// ---- transaction / log oracle
		fc.mu.Lock()
		// canonical order: same-instant transactions are written by unordered goroutines
		sort.SliceStable(fc.order, func(i, j int) bool {
			a, b := fc.order[i], fc.order[j]
			if at, bt := a.At.Round(time.Millisecond), b.At.Round(time.Millisecond); at != bt {
				return at < bt
			}

			return a.ID < b.ID
		})
		for _, ti := range fc.order {
			res.Txs = append(res.Txs, txRec{ti.ID, ti.Kind, ti.At.Seconds(), ti.Sent, ti.Resp})
			if ti.Kind != "Refresh0" && ti.Got == 0 && ti.At < closeAt-8*time.Second {
				// with the filter's guarantee (7th transmission untouched) this means the server stayed silent
				add("transaction-unanswered:"+ti.Kind, fmt.Sprintf("%s first sent at %.1fs: %d transmissions, %d forwarded, no response", ti.ID, ti.At.Seconds(), ti.Sent, ti.Passed))
			}
		}
		res.Applied = append([]int(nil), fc.applied...)
		fc.mu.Unlock()
		lf.mu.Lock()
		res.Warns = append([]string(nil), lf.lines...)
		lf.mu.Unlock()
		seenW := map[string]bool{}
		for _, l := range res.Warns {
			k := normalizeWarn(l)
			if !seenW[k] {
				seenW[k] = true
				add("client-log:"+k, l)
			}
		}
		res.Findings = perFamily(res.Findings)
		if res.Outcome == "" {
			res.Outcome = "delivered"
			for _, f := range res.Findings {
				if !strings.HasPrefix(f.Sig, "allocation-survives-close") {
					res.Outcome = "error:" + f.Sig

					break
				}
			}
		}
		res.Outcome += ",released-by-close"
		for _, f := range res.Findings {
			if strings.HasPrefix(f.Sig, "allocation-survives-close") {
				res.Outcome = strings.TrimSuffix(res.Outcome, ",released-by-close") + ",survives-close"
			}
		}
	})

	return res
}

// perFamily keeps one finding per family of symptoms (a broken refresh shows up as a failed transaction, a log
// line, a write error, lost probes in both directions and a missing allocation at once): the most specific one.
func perFamily(in []finding) []finding {
	rank := func(sig string) (string, int) {
		for i, p := range []string{"panic", "deadlock", "goroutine-leak"} {
			if strings.HasPrefix(sig, p) {
				return "fatal", i
			}
		}
		for i, p := range []string{"allocate-failed", "transaction-unanswered", "client-log", "relayconn-write-error"} {
			if strings.HasPrefix(sig, p) {
				return "transaction", i
			}
		}
		for i, p := range []string{"allocation-gone-before-close", "allocation-survives-close", "close-returned-error"} {
			if strings.HasPrefix(sig, p) {
				return "close", i
			}
		}

		return "delivery", 0
	}
	best := map[string]int{}
	for i, f := range in {
		fam, r := rank(f.Sig)
		if j, ok := best[fam]; ok {
			if _, rj := rank(in[j].Sig); rj <= r {
				continue
			}
		}
		best[fam] = i
	}
	var out []finding
	for i, f := range in {
		fam, _ := rank(f.Sig)
		if best[fam] == i {
			out = append(out, f)
		}
	}

	return out
}

// ---------------------------------------------------------------- enumeration

func txKindOf(id string) string {
	if i := strings.IndexAny(id, "[/#"); i > 0 {
		return id[:i]
	}

	return id
}

// The deviation alphabet on one transaction whose fault-free course is a single transmission: drop the first
// k=1..6 transmissions, and drop / duplicate / delay the response to the transmission that gets through.
func fullAlphabet(tx txRec) []deviation {
	var out []deviation
	for k := 1; k <= 6; k++ {
		out = append(out, deviation{Tx: tx.ID, Kind: "dropreq", K: k, AtS: tx.AtS})
	}
	for _, kind := range []string{"dropresp", "dup", "delay"} {
		out = append(out, deviation{Tx: tx.ID, Kind: kind, K: 1, AtS: tx.AtS})
	}

	return out
}

// extremeAlphabet keeps the shortest and the longest request loss (0.2 s and 6.2 s of delay) and the three
// response deviations; used for pairs of deviations on two different transactions.
func extremeAlphabet(tx txRec) []deviation {
	var out []deviation
	for _, d := range fullAlphabet(tx) {
		if d.Kind != "dropreq" || d.K == 1 || d.K == 6 {
			out = append(out, d)
		}
	}

	return out
}

func allDeviations(txs []txRec, alpha func(txRec) []deviation) []deviation {
	var out []deviation
	for _, tx := range txs {
		out = append(out, alpha(tx)...)
	}

	return out
}

func position(txs []txRec, id string) int {
	for i, tx := range txs {
		if tx.ID == id {
			return i
		}
	}

	return -1
}

// sameTxSeconds: given the run with d1 alone, the second deviations on d1's own transaction: the three response
// deviations applied to the response of its last transmission (the one that got through, or the stray one).
//
// The number of transmissions of d1's transaction in the run with d1 alone follows from d1: k+1 after "drop the
// first k", 2 after a dropped or delayed response, 1 after a duplicated one (no second deviation possible then).
// Refresh(0) is the exception: once one request got through the allocation is gone and the server stays silent
// on retransmissions (handleRefreshRequest), so there is no further response to deviate.
func sameTxSeconds(d1 deviation) []deviation {
	n := 0
	switch d1.Kind {
	case "dropreq":
		n = d1.K + 1
	case "dropresp", "delay":
		n = d1.K + 1
		if strings.HasPrefix(d1.Tx, "Refresh0#") {
			return nil
		}
	default:
		return nil
	}
	if n > 6 {
		return nil
	}
	var out []deviation
	for _, kind := range []string{"dropresp", "dup", "delay"} {
		out = append(out, deviation{Tx: d1.Tx, Kind: kind, K: n, AtS: d1.AtS})
	}

	return out
}

// laterTxSeconds: every deviation of alpha on every transaction that starts after d1's transaction in the run
// with d1 alone (canonical order), so that every unordered pair of transactions is taken exactly once.
func laterTxSeconds(d1 deviation, txs []txRec, alpha func(txRec) []deviation) []deviation {
	pos := position(txs, d1.Tx)
	if pos < 0 {
		return nil
	}

	return allDeviations(txs[pos+1:], alpha)
}

type tally struct {
	classes    map[string]int64
	notReached int
}

func (r *runResult) allApplied() bool {
	for _, a := range r.Applied {
		if a == 0 {
			return false
		}
	}

	return true
}

func devKinds(devs []deviation) string {
	if len(devs) == 0 {
		return "none"
	}
	p := make([]string, len(devs))
	for i, d := range devs {
		p[i] = txKindOf(d.Tx) + "-" + d.Kind
	}

	return strings.Join(p, "+")
}

// judge files one run. Findings that the fault-free run of the same configuration x pattern shows as well are
// filed once, under the fault-free run (after=none), not again under every schedule.
func judge(r *rep.Report, tl *tally, sc scenario, res *runResult, part string, faultFree ...*runResult) {
	inherited := map[string]bool{}
	for _, b := range faultFree {
		for _, f := range b.Findings {
			inherited[f.Sig] = true
		}
	}
	r.Evaluations++
	after := devKinds(sc.Devs)
	if res.Harness != "" {
		r.Note("harness problem in %s/%s %v: %s", sc.Cfg.Name, sc.Pattern, sc.Devs, res.Harness)
		r.Exhaustive = false
		r.Capped = "harness problem: " + res.Harness

		return
	}
	if !res.allApplied() {
		tl.notReached++
		tl.classes[fmt.Sprintf("%s cfg=%s traffic=%s %s => deviation-not-reached", part, sc.Cfg.Name, sc.Pattern, after)]++
		if tl.notReached <= 3 {
			r.Note("deviation target never occurred: cfg=%s traffic=%s %v applied=%v", sc.Cfg.Name, sc.Pattern, sc.Devs, res.Applied)
		}
	}
	tl.classes[fmt.Sprintf("%s cfg=%s traffic=%s %s => %s", part, sc.Cfg.Name, sc.Pattern, after, res.Outcome)]++
	for _, f := range res.Findings {
		if inherited[f.Sig] {
			continue
		}
		sig := f.Sig
		if part != "close" {
			sig += ":after=" + after
		}
		if strings.HasPrefix(sc.Pattern, "second-socket") {
			// the history is part of the signature, and so is which of the two Refresh(0) a deviation hit
			p := make([]string, len(sc.Devs))
			for i, d := range sc.Devs {
				p[i] = d.Tx + "-" + d.Kind
			}
			sig = sc.Pattern + ":" + f.Sig + ":after=" + strings.Join(p, "+")
			if len(sc.Devs) == 0 {
				sig = sc.Pattern + ":" + f.Sig + ":after=none"
			}
		}
		r.Violate(rep.Violation{Oracle: "c14-" + part, Signature: sig,
			Detail: fmt.Sprintf("cfg=%s traffic=%s horizon=%v close=%.2fs schedule=%v: %s", sc.Cfg.Name, sc.Pattern, sc.Horizon, sc.closeAt().Seconds(), sc.Devs, f.Detail),
			Replay: map[string]any{"engine": "c14", "scenario": sc}})
	}
}

func (tl *tally) flush(r *rep.Report) {
	for k, v := range tl.classes {
		r.Classes[k] += v
	}
	if tl.notReached > 0 {
		r.Exhaustive = false
		if r.Capped == "" {
			r.Capped = fmt.Sprintf("%d schedules named a transaction that did not occur in their run (run-to-run nondeterminism)", tl.notReached)
		}
	}
}

type combo struct {
	cfg srvCfg
	pat string
}

func combos(patterns ...string) []combo {
	if len(patterns) == 0 {
		patterns = patternNames()
	}
	var out []combo
	for _, p := range patterns {
		for _, c := range configs() {
			out = append(out, combo{c, p})
		}
	}

	return out
}

// extraCombos (faults part only): a configured lifetime far above the default - the client's refresh interval is
// half the GRANTED lifetime, so whatever it proposes later must keep the allocation alive for that long - and an
// application that closes its relayed socket, allocates a second one on the same client and (a deferred Close)
// closes the first once more.
func extraCombos() []combo {
	long := srvCfg{"life2400(2400,300,600)", 2400 * time.Second, 300 * time.Second, 600 * time.Second}

	return []combo{{long, "idle"}, {long, "both60"}, {configs()[0], "second-socket"}, {configs()[0], "second-socket-after-tcp"}}
}

func replay(t *testing.T, r *rep.Report) bool {
	p := rep.ReplayPath()
	if p == "" {
		return false
	}
	b, err := os.ReadFile(p) //nolint:gosec
	if err != nil {
		t.Fatalf("replay: %v", err)
	}
	var in struct {
		Scenario scenario `json:"scenario"`
	}
	if err := json.Unmarshal(b, &in); err != nil {
		t.Fatalf("replay: %v", err)
	}
	res := runOnce(t, in.Scenario)
	tl := &tally{classes: map[string]int64{}}
	judge(r, tl, in.Scenario, res, "replay")
	tl.flush(r)
	out := map[string]any{"scenario": in.Scenario, "outcome": res.Outcome, "transactions": txStrings(res.Txs), "client_log": res.Warns,
		"count_at_close": res.CountAtClose, "count_10s_later": res.CountLater, "findings": fmt.Sprint(res.Findings)}
	r.Sample(out)
	if js, err := json.MarshalIndent(out, "", " "); err == nil {
		fmt.Println(string(js))
	}

	return true
}

func txStrings(txs []txRec) []string {
	out := make([]string, len(txs))
	for i, tx := range txs {
		out[i] = fmt.Sprintf("%.1fs %s x%d -> %s", tx.AtS, tx.ID, tx.Sent, tx.Resp)
	}

	return out
}

func owner(shard, nsh int) func(string) bool {
	return func(key string) bool {
		h := fnv.New32a()
		_, _ = h.Write([]byte(key))

		return int(h.Sum32()%uint32(nsh)) == shard //nolint:gosec
	}
}

// TestC14Faults: configurations x traffic patterns x every single deviation (D = 1) on every transaction of the
// fault-free run; 75 minutes of protocol time in the quick tier, 3 hours in the thorough tier.
func TestC14Faults(t *testing.T) {
	runtime.GOMAXPROCS(1) // one bubble at a time anyway
	r := rep.New("C14")
	defer r.Write()
	if replay(t, r) {
		return
	}
	shard, nsh := rep.Shard()
	mine := owner(shard, nsh)
	tl := &tally{classes: map[string]int64{}}
	defer tl.flush(r)
	name, horizon := "D1/75min", 75*time.Minute
	if rep.Thorough() {
		name, horizon = "D1/3h", 3*time.Hour
	}
	r.Bound = 1
	for _, cb := range append(combos(), extraCombos()...) {
		base := scenario{Cfg: cb.cfg, Pattern: cb.pat, Horizon: horizon}
		key := name + "|" + cb.cfg.Name + "|" + cb.pat + "|"
		rep.Current(base)
		b := runOnce(t, base)
		if mine(key) {
			judge(r, tl, base, b, "faults")
			r.Extra[fmt.Sprintf("transactions %s cfg=%s traffic=%s", name, cb.cfg.Name, cb.pat)] = len(b.Txs)
			if cb.cfg.Name == configs()[0].Name {
				r.Sample(map[string]any{"plan": name, "cfg": cb.cfg.Name, "traffic": cb.pat, "fault_free_outcome": b.Outcome,
					"probes_c2p": b.SentC2P, "probes_p2c": b.SentP2C, "transactions": txStrings(b.Txs)})
			}
		}
		devs := allDeviations(b.Txs, fullAlphabet)
		if cb.pat == "manypeers" {
			// 2 300 transactions: the deviations are limited to the transactions that name many peers at once
			// (the periodic permission refreshes) - the others are those of the "burst" pattern, 140 times over
			var keep []deviation
			for _, d := range devs {
				if strings.HasPrefix(d.Tx, "CreatePermission/refresh#") && (strings.HasSuffix(d.Tx, "#1") || strings.HasSuffix(d.Tx, "#2") || strings.HasSuffix(d.Tx, "#3")) {
					keep = append(keep, d)
				}
			}
			devs = keep
		}
		if cb.pat == "second-socket-after-tcp" {
			// the subject of this pattern is the history itself (a closed listener closed again); what a lost or late
			// answer to a Refresh(0) does to a successor allocation is the subject of "second-socket"
			var keep []deviation
			for _, d := range devs {
				if !strings.HasPrefix(d.Tx, "Refresh0#") {
					keep = append(keep, d)
				}
			}
			devs = keep
		}
		for _, d1 := range devs {
			if !mine(key + d1.String()) {
				continue
			}
			if r.OverBudget("c14 single deviations") {
				return
			}
			s1 := base
			s1.Devs = []deviation{d1}
			rep.Current(s1)
			r.Schedules++
			judge(r, tl, s1, runOnce(t, s1), "faults", b)
		}
	}
}

// TestC14Pairs: D = 2 over 75 minutes.
//
//	(a) both deviations on the same transaction: for every configuration x pattern x transaction x first
//	    deviation of the full alphabet (quick: drop 5 requests | drop the answer | delay the answer), each response
//	    deviation on the transmission that gets through (e.g. drop 5 requests, then the answer to the 6th: only
//	    the 7th and last transmission succeeds);
//	(b) thorough only: deviations on two different transactions, every unordered pair of transactions of the
//	    run x the extreme alphabet {drop 1, drop 6, drop/duplicate/delay response} on each, for
//	    3 configurations x {idle, both10}. The second transaction ranges over the transactions of the
//	    run WITH the first deviation, not of the fault-free run.
func TestC14Pairs(t *testing.T) { //nolint:gocognit,cyclop
	runtime.GOMAXPROCS(1)
	r := rep.New("C14")
	defer r.Write()
	if replay(t, r) {
		return
	}
	shard, nsh := rep.Shard()
	mine := owner(shard, nsh)
	tl := &tally{classes: map[string]int64{}}
	defer tl.flush(r)
	horizon := 75 * time.Minute
	r.Bound = 2
	cross := map[string]bool{}
	if rep.Thorough() {
		cross = map[string]bool{"idle": true, "both10": true}
	}
	isExtreme := func(d deviation) bool { return d.Kind != "dropreq" || d.K == 1 || d.K == 6 }
	for _, cb := range combos() {
		if cb.pat == "manypeers" {
			continue // single deviations on its many-peer requests only (faults part)
		}
		base := scenario{Cfg: cb.cfg, Pattern: cb.pat, Horizon: horizon}
		key := "D2/75min|" + cb.cfg.Name + "|" + cb.pat + "|"
		rep.Current(base)
		b := runOnce(t, base)
		for _, d1 := range allDeviations(b.Txs, fullAlphabet) {
			if !mine(key + d1.String()) {
				continue
			}
			if !rep.Thorough() && d1.Kind == "dropreq" && d1.K != 5 {
				continue // quick: of the request losses only the longest that leaves room for a second deviation
			}
			seconds := sameTxSeconds(d1)
			if cross[cb.pat] && isExtreme(d1) {
				s1 := base
				s1.Devs = []deviation{d1}
				rep.Current(s1)
				r1 := runOnce(t, s1) // judged by TestC14Faults; here it only supplies the transactions that follow d1
				if !r1.allApplied() {
					tl.notReached++

					continue
				}
				seconds = append(seconds, laterTxSeconds(d1, r1.Txs, extremeAlphabet)...)
			}
			for _, d2 := range seconds {
				if r.OverBudget("c14 pairs of deviations") {
					return
				}
				s2 := base
				s2.Devs = []deviation{d1, d2}
				rep.Current(s2)
				r.Schedules++
				judge(r, tl, s2, runOnce(t, s2), "pairs", b)
			}
		}
	}
}

// TestC14Close: fault-free runs closed at every instant of a grid ("for any duration ... Close releases it"):
// every 10 s up to 75 min (quick), every 5 s up to 3 h (thorough), for every configuration x pattern.
func TestC14Close(t *testing.T) {
	runtime.GOMAXPROCS(1)
	r := rep.New("C14")
	defer r.Write()
	if replay(t, r) {
		return
	}
	shard, nsh := rep.Shard()
	tl := &tally{classes: map[string]int64{}}
	defer tl.flush(r)
	horizon, step := 75*time.Minute, 10*time.Second
	if rep.Thorough() {
		horizon, step = 3*time.Hour, 5*time.Second
	}
	idx := 0
	for c := 2*time.Second + 350*time.Millisecond; c <= horizon+step; c += step {
		for _, cb := range combos() {
			if cb.pat == "manypeers" {
				continue
			}
			idx++
			if idx%nsh != shard {
				continue
			}
			if r.OverBudget("c14 close instants") {
				return
			}
			sc := scenario{Cfg: cb.cfg, Pattern: cb.pat, Horizon: horizon, CloseAt: c}
			rep.Current(sc)
			res := runOnce(t, sc)
			before := len(tl.classes)
			judge(r, tl, sc, res, "close")
			if len(tl.classes) > before && strings.Contains(res.Outcome, "survives") {
				r.Sample(map[string]any{"close_at_s": c.Seconds(), "cfg": cb.cfg.Name, "traffic": cb.pat, "outcome": res.Outcome,
					"count_at_close": res.CountAtClose, "count_10s_later": res.CountLater, "last_transactions": tail(txStrings(res.Txs), 6)})
			}
		}
	}
}

func tail(s []string, n int) []string {
	if len(s) > n {
		return s[len(s)-n:]
	}

	return s
}
