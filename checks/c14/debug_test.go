package c14

import (
	"fmt"
	"os"
	"runtime"
	"sort"
	"testing"
	"time"
)

// Diagnostics, not part of the check: run with C14_DEBUG=1 (or C14_DEBUG=3h for the long horizon).

func debugHorizon(t *testing.T) time.Duration {
	t.Helper()
	switch os.Getenv("C14_DEBUG") {
	case "":
		t.Skip("set C14_DEBUG=1")
	case "3h":
		return 3 * time.Hour
	}

	return 75 * time.Minute
}

// TestC14Debug prints the fault-free run of every configuration x pattern (C14_TX=1: with the transaction list)
// and its wall time.
func TestC14Debug(t *testing.T) {
	h := debugHorizon(t)
	runtime.GOMAXPROCS(1)
	for _, cb := range combos() {
		t0 := time.Now()
		res := runOnce(t, scenario{Cfg: cb.cfg, Pattern: cb.pat, Horizon: h})
		fmt.Printf("== %s %s: %d tx, outcome %s, c2p=%d p2c=%d, wall %v harness=%q\n", cb.cfg.Name, cb.pat, len(res.Txs), res.Outcome, res.SentC2P, res.SentP2C, time.Since(t0), res.Harness)
		for _, f := range res.Findings {
			fmt.Println("   FINDING", f.Sig, "|", f.Detail)
		}
		if os.Getenv("C14_TX") != "" {
			for _, s := range txStrings(res.Txs) {
				fmt.Println("   ", s)
			}
		}
	}
}

// TestC14Determinism repeats every fault-free run 40 times and compares the SET of labelled transactions
// (identity, time, transmissions, answer): the enumeration relies on it being reproducible.
func TestC14Determinism(t *testing.T) {
	h := debugHorizon(t)
	runtime.GOMAXPROCS(1)
	for _, cb := range combos() {
		var ref []string
		diff := 0
		for i := range 40 {
			res := runOnce(t, scenario{Cfg: cb.cfg, Pattern: cb.pat, Horizon: h})
			s := txStrings(res.Txs)
			sort.Strings(s)
			if i == 0 {
				ref = s

				continue
			}
			if fmt.Sprint(s) != fmt.Sprint(ref) {
				diff++
			}
		}
		fmt.Printf("%s %s: %d/39 runs differ (as sets) from the first\n", cb.cfg.Name, cb.pat, diff)
		if diff > 0 {
			t.Errorf("%s %s: transaction set not reproducible", cb.cfg.Name, cb.pat)
		}
	}
}
