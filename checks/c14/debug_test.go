package c14

import (
	"fmt"
	"os"
	"testing"
	"time"
)

// TestC14Debug prints the fault-free runs (diagnostic; only with C14_DEBUG=1).
func TestC14Debug(t *testing.T) {
	if os.Getenv("C14_DEBUG") == "" {
		t.Skip()
	}
	h := 75 * time.Minute
	if os.Getenv("C14_DEBUG") == "3h" {
		h = 3 * time.Hour
	}
	for _, cb := range combos() {
		t0 := time.Now()
		res := runOnce(t, scenario{Cfg: cb.cfg, Pattern: cb.pat, Horizon: h})
		fmt.Printf("== %s %s: %d tx, outcome %s, c2p=%d p2c=%d, wall %v harness=%q\n", cb.cfg.Name, cb.pat, len(res.Txs), res.Outcome, res.SentC2P, res.SentP2C, time.Since(t0), res.Harness)
		for _, f := range res.Findings {
			fmt.Println("   FINDING", f.Sig, "|", f.Detail)
		}
		if os.Getenv("C14_TX") != "" {
			for _, s := range txStrings(res.Txs) {
				fmt.Println("   ", s)
			}
		}
	}
}
