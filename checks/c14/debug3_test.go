package c14

import (
	"os"
	"runtime"
	"testing"
	"time"
)

func TestC14Bench(t *testing.T) {
	if os.Getenv("C14_DEBUG") == "" {
		t.Skip()
	}
	runtime.GOMAXPROCS(1)
	for _, cb := range combos() {
		t0 := time.Now()
		for range 50 {
			runOnce(t, scenario{Cfg: cb.cfg, Pattern: cb.pat, Horizon: 75 * time.Minute})
		}
		t.Logf("%s %s: %v per run", cb.cfg.Name, cb.pat, time.Since(t0)/50)
	}
}
