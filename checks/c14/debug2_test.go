package c14

import (
	"fmt"
	"os"
	"runtime"
	"sort"
	"testing"
	"time"
)

func TestC14Determinism(t *testing.T) {
	if os.Getenv("C14_DEBUG") == "" {
		t.Skip()
	}
	runtime.GOMAXPROCS(1)
	for _, cb := range combos() {
		var ref []string
		diff := 0
		for i := range 40 {
			res := runOnce(t, scenario{Cfg: cb.cfg, Pattern: cb.pat, Horizon: 75 * time.Minute})
			s := txStrings(res.Txs)
			sort.Strings(s)
			if i == 0 {
				ref = s
				continue
			}
			if fmt.Sprint(s) != fmt.Sprint(ref) {
				diff++
				if diff <= 2 {
					m := map[string]int{}
					for _, x := range s {
						m[x]++
					}
					for _, x := range ref {
						m[x]--
					}
					for k, v := range m {
						if v != 0 {
							fmt.Println("   ", v, k)
						}
					}
				}
			}
		}
		fmt.Printf("%s %s: %d/39 runs differ (as sets) from the first\n", cb.cfg.Name, cb.pat, diff)
	}
}
