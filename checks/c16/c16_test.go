package c16

import (
	"testing"
	"time"

	"github.com/pion/turn/v5/verif/checks/prof"
	"github.com/pion/turn/v5/verif/rep"
	"github.com/pion/turn/v5/verif/vtx"
)

func tcpAlloc(c string) vtx.Event { return vtx.Event{K: "alloc", C: c, L: -1, TCP: true} }

func profile() *vtx.Profile {
	depth := 4
	cfgs := []vtx.Config{{Stream: true}}
	if rep.Thorough() {
		depth = 5
		cfgs = append(cfgs, vtx.Config{Stream: true, Policy: "denyB"})
	}
	ns := time.Nanosecond

	return &vtx.Profile{
		Name: "c16-tcp-relay", Configs: cfgs, Clients: []string{"c1", "c2"}, Peers: []string{"A", "B"},
		Depth: depth, Drain: true, Resources: true,
		Tags: map[string]bool{"tcp": true, "policy": true, "leak-p2c": true, "miss-p2c": true, "resp": true, "resources": true, "count": true},
		Setup: func(vtx.Config) []vtx.Event {
			return []vtx.Event{tcpAlloc("c1"), tcpAlloc("c2"), prof.E("perm", "c1", 0, "A")}
		},
		Menu: func(m *vtx.Model, now time.Time, _ int) []vtx.Event {
			e := []vtx.Event{
				prof.E("connect", "c1", 0, "B"), prof.E("connect", "c1", 0, "A"), prof.E("connect", "c2", 0, "B"),
				prof.E("peerdial", "c1", 0, "A"), prof.E("peerdial", "c1", 0, "B"), prof.E("perm", "c1", 0, "B"),
				{K: "refresh", C: "c1", L: 0},
				// unknown id
				{K: "cbind", C: "c1", N: 0xFFFF, Peers: []string{"c1"}, L: -1},
			}
			for i, cv := range m.ConnView["c1"] {
				n := uint16(i) //nolint:gosec
				e = append(e,
					vtx.Event{K: "cbind", C: "c1", N: n, Peers: []string{"c1"}, L: -1},             // owner
					vtx.Event{K: "cbind", C: "c2", N: n, Peers: []string{"c1"}, L: -1},             // other client, other user
					vtx.Event{K: "cbind", C: "c1", N: n, Peers: []string{"c1"}, As: "u2", L: -1}, // right 5-tuple IP, wrong user
					vtx.Event{K: "cbind", C: "c1", N: n, Peers: []string{"c1"}, Rule: "reset", L: -1}, // owner, data connection reset behind the request
					vtx.Event{K: "closeconn", C: "c1", N: n, Rule: "peer", L: -1},
				)
				if cv.Bound {
					e = append(e,
						vtx.Event{K: "bytes", C: "c1", N: n, Rule: "c2p", L: 0}, vtx.Event{K: "bytes", C: "c1", N: n, Rule: "c2p", L: 1},
						vtx.Event{K: "bytes", C: "c1", N: n, Rule: "p2c", L: 1}, vtx.Event{K: "bytes", C: "c1", N: n, Rule: "p2c", L: 7},
						vtx.Event{K: "closeconn", C: "c1", N: n, Rule: "client", L: -1},
					)
				}
			}

			return append(e, vtx.AdvanceMenu(m, now, []time.Duration{ns}, nil)...)
		},
	}
}

// udpControl: TCP allocations made over a datagram (UDP) control channel - the server accepts them - with
// Connect, inbound peer connections and ConnectionBind requests that arrive on that control channel (there
// is no stream listener to open a data connection to): such a bind is refused, and like every refused
// request it changes nothing: the peer connection is closed when its 30 s are over.
func udpControl() *vtx.Profile {
	depth := 4
	if rep.Thorough() {
		depth = 5
	}
	ns := time.Nanosecond

	return &vtx.Profile{
		Name: "c16-tcp-relay-over-udp-control", Configs: []vtx.Config{{}}, Clients: []string{"c1"}, Peers: []string{"A", "B"},
		Depth: depth, Drain: true, Resources: true,
		Tags: map[string]bool{"tcp": true, "policy": true, "resp": true, "resources": true, "count": true},
		Setup: func(vtx.Config) []vtx.Event {
			return []vtx.Event{tcpAlloc("c1"), prof.E("perm", "c1", 0, "A")}
		},
		Menu: func(m *vtx.Model, now time.Time, _ int) []vtx.Event {
			e := []vtx.Event{
				prof.E("connect", "c1", 0, "B"), prof.E("connect", "c1", 0, "A"), prof.E("peerdial", "c1", 0, "A"),
				{K: "refresh", C: "c1", L: 0},
				{K: "cbind", C: "c1", N: 0xFFFF, Peers: []string{"c1"}, Rule: "control", L: -1},
			}
			for i := range m.ConnView["c1"] {
				n := uint16(i) //nolint:gosec
				e = append(e, vtx.Event{K: "cbind", C: "c1", N: n, Peers: []string{"c1"}, Rule: "control", L: -1},
					vtx.Event{K: "closeconn", C: "c1", N: n, Rule: "peer", L: -1})
			}

			return append(e, vtx.AdvanceMenu(m, now, []time.Duration{ns}, nil)...)
		},
	}
}

// v6Profile: the same relay over IPv6: an IPv6 stream listener, an IPv6 TCP allocation, IPv6 peers that are
// connected to and that connect. Every address in a response or indication is that of the real connection.
func v6Profile() *vtx.Profile {
	depth := 3
	if rep.Thorough() {
		depth = 4
	}
	ns := time.Nanosecond

	return &vtx.Profile{
		Name: "c16-tcp-relay-ipv6", Configs: []vtx.Config{{Stream: true, V6: true}}, Clients: []string{"c6"}, Peers: []string{"V6", "V6b"},
		Depth: depth, Drain: true, Resources: true,
		Tags: map[string]bool{"tcp": true, "policy": true, "leak-p2c": true, "miss-p2c": true, "resp": true, "resources": true, "count": true},
		Setup: func(vtx.Config) []vtx.Event {
			return []vtx.Event{{K: "alloc", C: "c6", L: -1, TCP: true, Fam: 6}, prof.E("perm", "c6", 0, "V6")}
		},
		Menu: func(m *vtx.Model, now time.Time, _ int) []vtx.Event {
			e := []vtx.Event{
				prof.E("connect", "c6", 0, "V6"), prof.E("connect", "c6", 0, "V6b"),
				prof.E("peerdial", "c6", 0, "V6"), prof.E("peerdial", "c6", 0, "V6b"), prof.E("perm", "c6", 0, "V6b"),
			}
			for i, cv := range m.ConnView["c6"] {
				n := uint16(i) //nolint:gosec
				e = append(e, vtx.Event{K: "cbind", C: "c6", N: n, Peers: []string{"c6"}, L: -1})
				if cv.Bound {
					e = append(e, vtx.Event{K: "bytes", C: "c6", N: n, Rule: "c2p", L: 1}, vtx.Event{K: "bytes", C: "c6", N: n, Rule: "p2c", L: 7})
				}
			}

			return append(e, vtx.AdvanceMenu(m, now, []time.Duration{ns}, nil)...)
		},
	}
}

func TestC16V6(t *testing.T) {
	r := rep.New("C16")
	defer r.Write()
	vtx.Explore(t, v6Profile(), r)
}

func TestC16UDPControl(t *testing.T) {
	r := rep.New("C16")
	defer r.Write()
	vtx.Explore(t, udpControl(), r)
}

func TestC16(t *testing.T) {
	r := rep.New("C16")
	defer r.Write()
	vtx.Explore(t, profile(), r)
}
