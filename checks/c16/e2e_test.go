package c16

import (
	"bytes"
	"fmt"
	"net"
	"testing"
	"testing/synctest"
	"time"

	"github.com/pion/logging"
	turn "github.com/pion/turn/v5"
	"github.com/pion/turn/v5/verif/rep"
	"github.com/pion/turn/v5/verif/simnet"
	"github.com/pion/turn/v5/verif/vtx"
)

type qlf struct{}

func (qlf) NewLogger(string) logging.LeveledLogger { return vtx.Quiet{} }

type e2eCase struct {
	Dir      string // "dial" (client Connect) | "accept" (peer connects to the relayed address)
	Seg      int    // bytes per Read on every TCP connection (0 = whole writes)
	Coalesce bool   // back-to-back writes arrive as one segment
	First    string // who talks first: "peer" | "client"
	Len      int    // bytes per direction
}

func pattern(tag string, n int) []byte {
	b := make([]byte, n)
	for i := range b {
		b[i] = byte(int(tag[0]) + i*7)
	}
	copy(b, tag)

	return b
}

// runE2E: real turn.Client (TCP transport, AllocateTCP) <-> real turn.Server <-> scripted peer.
func runE2E(t *testing.T, c e2eCase) (out string) {
	defer func() {
		if e := recover(); e != nil {
			out = "fatal:" + fmt.Sprint(e) + " (outcome before: " + out + ")"
		}
	}()
	synctest.Test(t, func(*testing.T) {
		w, err := vtx.NewWorld(vtx.Config{Stream: true}, nil, []string{"B"})
		if err != nil {
			out = "harness:" + err.Error()

			return
		}
		w.Net.DefaultSeg, w.Net.Coalesce = c.Seg, c.Coalesce
		peerL, err := w.Net.ListenTCPAddr("tcp", &net.TCPAddr{IP: vtx.PeerSpec["B"].IP, Port: 5000})
		if err != nil {
			out = "harness:" + err.Error()

			return
		}
		ctrl, err := w.Net.DialTCPAddr(&net.TCPAddr{IP: net.IPv4(10, 0, 0, 2).To4(), Port: 4000}, &net.TCPAddr{IP: w.SrvAddr.IP, Port: w.SrvAddr.Port})
		if err != nil {
			out = "harness:" + err.Error()

			return
		}
		cl, err := turn.NewClient(&turn.ClientConfig{
			STUNServerAddr: w.SrvAddr.String(), TURNServerAddr: w.SrvAddr.String(), Conn: turn.NewSTUNConn(ctrl),
			Username: "u1", Password: "p1", Realm: vtx.Realm, LoggerFactory: qlf{}, Net: w.Net.Transport(),
		})
		if err != nil {
			out = "harness:" + err.Error()

			return
		}
		var closeAlloc func()
		defer func() {
			if closeAlloc != nil {
				closeAlloc()
				synctest.Wait()
			}
			cl.Close()
			_ = ctrl.Close()
			w.Close()
		}()
		if err := cl.Listen(); err != nil {
			out = "harness:listen:" + err.Error()

			return
		}
		type res struct {
			conn net.Conn
			err  error
		}
		done := make(chan res, 1)
		var peerEnd *simnet.Conn
		toClient, toPeer := pattern("peer->client:", c.Len), pattern("client->peer:", c.Len)
		go func() {
			alloc, err := cl.AllocateTCP()
			if err != nil {
				done <- res{nil, fmt.Errorf("allocate: %w", err)}

				return
			}
			closeAlloc = func() { _ = alloc.Close() }
			peer := &net.TCPAddr{IP: vtx.PeerSpec["B"].IP, Port: 5000}
			if c.Dir == "dial" {
				conn, err := alloc.DialTCP("tcp", nil, peer)
				if err != nil {
					done <- res{nil, err}
				} else {
					done <- res{conn, nil}
				}

				return
			}
			if err := cl.CreatePermission(peer); err != nil {
				done <- res{nil, fmt.Errorf("permission: %w", err)}

				return
			}
			pe, err := w.Net.DialTCPAddr(&net.TCPAddr{IP: peer.IP, Port: 6000}, alloc.Addr().(*net.TCPAddr)) //nolint:forcetypeassert
			if err != nil {
				done <- res{nil, fmt.Errorf("peer dial: %w", err)}

				return
			}
			peerEnd = pe
			if c.First == "peer" {
				_, _ = pe.Write(toClient) // the peer talks before the client has even accepted
			}
			conn, err := alloc.AcceptTCP()
			if err != nil {
				done <- res{nil, err}
			} else {
				done <- res{conn, nil}
			}
		}()
		// let everything settle; for "dial" the peer may talk as soon as it has been connected to
		for range 50 {
			synctest.Wait()
			if c.Dir == "dial" && peerEnd == nil {
				if pe := peerL.Take(); pe != nil {
					peerEnd = pe
					if c.First == "peer" {
						_, _ = pe.Write(toClient)
					}
				}
			}
			if len(done) > 0 {
				break
			}
			time.Sleep(10 * time.Millisecond)
		}
		synctest.Wait()
		if len(done) == 0 {
			out = "client-call-never-returned"

			return
		}
		r := <-done
		if r.err != nil {
			out = "client-call-failed:" + r.err.Error()

			return
		}
		defer r.conn.Close() //nolint:errcheck
		if peerEnd == nil {
			out = "no-peer-connection"

			return
		}
		if c.First != "peer" {
			_, _ = r.conn.Write(toPeer)
			synctest.Wait()
			_, _ = peerEnd.Write(toClient)
		} else {
			_, _ = r.conn.Write(toPeer)
		}
		// read what arrived at both ends
		got := make(chan []byte, 1)
		go func() {
			buf := make([]byte, 0, c.Len)
			tmp := make([]byte, 4096)
			_ = r.conn.SetReadDeadline(time.Now().Add(5 * time.Second))
			for len(buf) < c.Len {
				n, err := r.conn.Read(tmp)
				buf = append(buf, tmp[:n]...)
				if err != nil {
					break
				}
			}
			got <- buf
		}()
		time.Sleep(6 * time.Second)
		synctest.Wait()
		atPeer, _ := peerEnd.TakeAll()
		var atClient []byte
		select {
		case atClient = <-got:
		default:
			out = "client-read-never-returned"

			return
		}
		switch {
		case !bytes.Equal(atClient, toClient):
			out = fmt.Sprintf("peer->client-bytes-differ: got %d bytes %q, want %d", len(atClient), trunc(atClient), len(toClient))
		case !bytes.Equal(atPeer, toPeer):
			out = fmt.Sprintf("client->peer-bytes-differ: got %d bytes %q, want %d", len(atPeer), trunc(atPeer), len(toPeer))
		default:
			out = "ok"
		}
	})

	return out
}

func trunc(b []byte) []byte {
	if len(b) > 24 {
		return b[:24]
	}

	return b
}

// TestC16ClientE2E: the bytes of the client's data connection and of the peer
// connection are copied to each other unmodified and in order, through the real
// client library (Connect / ConnectionAttempt, ConnectionBind, TCPConn) and the
// real server, for every segmentation of every TCP stream in the system.
func TestC16ClientE2E(t *testing.T) {
	r := rep.New("C16")
	defer r.Write()
	shard, n := rep.Shard()
	segs := []int{0, 1, 2, 3, 5, 7, 13, 19, 20, 21, 27, 28, 29}
	lens := []int{1, 64, 4000}
	if rep.Thorough() {
		segs = nil
		for s := 0; s <= 64; s++ {
			segs = append(segs, s)
		}
		lens = []int{1, 7, 64, 1500, 4000, 70000}
	}
	idx := 0
	for _, dir := range []string{"dial", "accept"} {
		for _, seg := range segs {
			for _, co := range []bool{false, true} {
				for _, first := range []string{"client", "peer"} {
					for _, l := range lens {
						idx++
						if idx%n != shard {
							continue
						}
						c := e2eCase{dir, seg, co, first, l}
						stop := r.Guard(60*time.Second, "c16-e2e:case-never-quiesces", func() any { return c })
						out := runE2E(t, c)
						stop()
						r.Evaluations++
						cls := out
						if i := bytes.IndexByte([]byte(out), ':'); i > 0 {
							cls = out[:i]
						}
						r.Class(fmt.Sprintf("e2e %s first=%s coalesce=%v -> %s", dir, first, co, cls))
						if out != "ok" {
							r.Violate(rep.Violation{Oracle: "c16-e2e", Signature: "e2e:" + dir + ":" + cls, Detail: fmt.Sprintf("%+v: %s", c, out),
								Replay: map[string]any{"engine": "c16-e2e", "case": c}})
						}
					}
				}
			}
		}
	}
	r.Sample(map[string]any{"e2e_cases_dimensions": "direction x segment size x coalescing x who talks first x length", "segment_sizes": segs})
}
