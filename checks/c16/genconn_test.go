package c16

import (
	"fmt"
	"net"
	"testing"

	turn "github.com/pion/turn/v5"
	"github.com/pion/turn/v5/verif/rep"
	"github.com/pion/turn/v5/verif/simnet"
)

// TestC16GenConn: "a Connect success refers to a real peer TCP connection made
// from the relayed address" for the *bundled* relay address generators (the
// other parts of C16 use the harness's own generator). For every generator x
// family x listen address (wildcard, specific) x relay-address configuration
// (same as the listen address, a different local address = NAT / multi-homed):
// a relay listener is allocated, then AllocateConn is called the way the
// allocation manager calls it (LocalAddr = the advertised relayed address) for
// one and for two peers; every connection must arrive at the peer from exactly
// the relayed address and port, and the relay listener must still accept an
// inbound peer connection afterwards.
func TestC16GenConn(t *testing.T) {
	r := rep.New("C16")
	defer r.Write()
	if i, _ := rep.Shard(); i != 0 {
		return
	}
	type gcase struct {
		Gen, Network, Address, Relay string
		Peers                        int
	}
	var cases []gcase
	for _, gen := range []string{"static", "range", "none"} {
		for _, network := range []string{"tcp4", "tcp6"} {
			wild, spec, other := "0.0.0.0", "10.9.0.1", "10.9.0.7"
			if network == "tcp6" {
				wild, spec, other = "::", "fd00:9::1", "fd00:9::7"
			}
			for _, addr := range []string{wild, spec} {
				relays := []string{spec, other}
				if gen == "none" {
					if addr == wild {
						continue // the pass-through generator advertises the listen address itself
					}
					relays = []string{addr}
				}
				for _, relay := range relays {
					for _, peers := range []int{1, 2} {
						cases = append(cases, gcase{gen, network, addr, relay, peers})
					}
				}
			}
		}
	}
	for _, c := range cases {
		r.Evaluations++
		fail := func(sig, f string, a ...any) {
			r.Violate(rep.Violation{Oracle: "genconn", Signature: "genconn:" + sig + ":" + c.Gen + ":" + c.Network, Detail: fmt.Sprintf("%+v: ", c) + fmt.Sprintf(f, a...),
				Replay: map[string]any{"engine": "enum-c16-genconn", "case": c}})
		}
		nw := simnet.New()
		nw.ModelReusePort = true
		nw.LogOff = true
		relayIP := net.ParseIP(c.Relay)
		var g turn.RelayAddressGenerator
		switch c.Gen {
		case "static":
			g = &turn.RelayAddressGeneratorStatic{RelayAddress: relayIP, Address: c.Address, Net: nw.Transport()}
		case "range":
			g = &turn.RelayAddressGeneratorPortRange{RelayAddress: relayIP, Address: c.Address, MinPort: 50000, MaxPort: 50010, Net: nw.Transport()}
		default:
			g = &turn.RelayAddressGeneratorNone{Address: c.Address, Net: nw.Transport()}
		}
		if err := g.Validate(); err != nil {
			fail("harness-validate", "%v", err)

			continue
		}
		ln, adv, err := g.AllocateListener(turn.AllocateListenerConfig{Network: c.Network, UserID: "u", Realm: "r"})
		if err != nil || ln == nil {
			fail("listener-failed", "%v", err)

			continue
		}
		relay, ok := adv.(*net.TCPAddr)
		if !ok || !relay.IP.Equal(relayIP) {
			fail("advertised-address", "%v", adv)

			continue
		}
		peerIPs := []string{"10.1.0.1", "10.1.0.2"}
		if c.Network == "tcp6" {
			peerIPs = []string{"fd00:1::1", "fd00:1::2"}
		}
		okAll := true
		for i := 0; i < c.Peers; i++ {
			pa := &net.TCPAddr{IP: net.ParseIP(peerIPs[i]), Port: 5000}
			pl, err := nw.ListenTCPAddr(c.Network, pa)
			if err != nil {
				fail("harness-peer-listen", "%v", err)
				okAll = false

				break
			}
			conn, err := g.AllocateConn(turn.AllocateConnConfig{Network: c.Network, UserID: "u", Realm: "r", LocalAddr: relay, RemoteAddr: pa})
			if err != nil || conn == nil {
				fail("connect-failed", "peer %d: %v", i, err)
				okAll = false

				break
			}
			acc := pl.Take()
			if acc == nil {
				fail("no-connection-at-the-peer", "peer %d", i)
				okAll = false

				break
			}
			if got := acc.RemoteAddr().String(); got != relay.String() {
				fail("connection-not-made-from-the-relayed-address", "peer %d sees %s, relayed address %s", i, got, relay)
				okAll = false

				break
			}
			if la, _ := conn.LocalAddr().(*net.TCPAddr); la == nil || la.Port != relay.Port {
				fail("local-port", "%v vs %v", conn.LocalAddr(), relay)
				okAll = false

				break
			}
		}
		if !okAll {
			continue
		}
		// the listener still accepts an inbound peer connection on the relayed port
		bind := net.ParseIP(c.Address)
		if bind.IsUnspecified() {
			bind = relayIP
		}
		if _, err := nw.DialTCPAddr(&net.TCPAddr{IP: net.ParseIP(peerIPs[0]), Port: 6000}, &net.TCPAddr{IP: bind, Port: relay.Port}); err != nil {
			fail("relay-listener-unreachable-after-connect", "%v", err)

			continue
		}
		wild := "specific"
		if net.ParseIP(c.Address).IsUnspecified() {
			wild = "wildcard"
		}
		nat := "relay=listen-address"
		if c.Relay != c.Address && wild == "specific" || (wild == "wildcard" && c.Relay != "10.9.0.1" && c.Relay != "fd00:9::1") {
			nat = "relay!=default-source"
		}
		r.Class(fmt.Sprintf("genconn %s %s %s %s peers=%d -> from relayed address", c.Gen, c.Network, wild, nat, c.Peers))
	}
}
