package c16

import (
	"crypto/rand"
	"encoding/json"
	"fmt"
	"io"
	"net"
	"os"
	"testing"
	"testing/synctest"

	"github.com/pion/turn/v5/verif/rep"
	"github.com/pion/turn/v5/verif/vtx"
	"github.com/pion/turn/v5/verif/wire"
)

// Part idclash: connection ids are 32 random bits, so "unique" cannot be
// observed by waiting for a collision. Here the process's random source is
// scripted: from a chosen draw on it repeats itself, so that the id drawn for a
// second peer connection equals the id of one that is still pending - in the
// same allocation or in another user's. The Connect (or the inbound
// connection) that would get the taken id may fail; it must never be answered
// with a success that names an id another live connection has.

type repeatReader struct{ pattern [8]byte }

func (r repeatReader) Read(p []byte) (int, error) {
	for i := range p {
		p[i] = r.pattern[i%8]
	}

	return len(p), nil
}

func TestC16IDClash(t *testing.T) {
	r := rep.New("C16")
	defer r.Write()
	if i, _ := rep.Shard(); i != 0 {
		return
	}
	type cas struct {
		Name   string   `json:"name"`
		Second string   `json:"second_client"`
		Peers  []string `json:"peers"`
	}
	cases := []cas{
		{"same-allocation-two-peers", "c1", []string{"A", "B"}},
		{"two-allocations-of-two-users", "c2", []string{"A", "A"}},
		{"two-allocations-of-two-users-other-peer", "c2", []string{"A", "B"}},
		{"two-allocations-of-one-user", "c3", []string{"A", "B"}},
	}
	if rep.ReplayPath() != "" {
		// replay: only the recorded case; the verdict is printed
		var doc struct {
			Case cas `json:"case"`
		}
		if b, err := os.ReadFile(rep.ReplayPath()); err == nil && json.Unmarshal(b, &doc) == nil && doc.Case.Name != "" {
			cases = []cas{doc.Case}
		}
		defer func() { fmt.Printf("replayed %+v: %d violation(s) %v\n", cases, len(r.Violations), r.Violations) }()
	}
	for _, c := range cases {
		var fatal string
		func() {
			defer func() {
				if e := recover(); e != nil {
					fatal = fmt.Sprint(e)
				}
			}()
			synctest.Test(t, func(*testing.T) {
				fail := func(sig, detail string) {
					r.Violate(rep.Violation{Oracle: "c16-idclash", Signature: "idclash:" + sig + ":" + c.Name, Detail: detail,
						Replay: map[string]any{"engine": "c16-idclash", "case": c}})
				}
				w, err := vtx.NewWorld(vtx.Config{Stream: true}, []string{"c1", "c2", "c3"}, []string{"A", "B"})
				if err != nil {
					fail("harness:newworld", err.Error())

					return
				}
				defer w.Close()
				for _, p := range []string{"A", "B"} {
					ps := vtx.PeerSpec[p]
					if _, err := w.Net.ListenTCPAddr("tcp4", &net.TCPAddr{IP: ps.IP, Port: ps.Port}); err != nil {
						fail("harness:peer-listener", err.Error())

						return
					}
				}
				tcp := func(b *wire.B) { b.U32(wire.AttrRequestedTransport, 6<<24) }
				owners := []string{"c1"}
				if c.Second != "c1" {
					owners = append(owners, c.Second)
				}
				for _, name := range owners {
					if res := w.C[name].Request(wire.Allocate, nil, tcp); res.Resp == nil || res.Resp.Class != wire.Success {
						fail("harness:allocate", fmt.Sprint(name, " ", res.Resp))

						return
					}
				}
				saved := rand.Reader
				rand.Reader = io.Reader(repeatReader{[8]byte{0x5a, 0x11, 0x22, 0x33, 0x44, 0x55, 0x66, 0x77}})
				defer func() { rand.Reader = saved }()
				peerAttr := func(p string) func(b *wire.B) {
					ps := vtx.PeerSpec[p]

					return func(b *wire.B) { b.XorAddr(wire.AttrXORPeerAddress, ps.IP, ps.Port) }
				}
				r1 := w.C["c1"].Request(wire.Connect, nil, peerAttr(c.Peers[0]))
				r.Evaluations++
				id1, ok := uint32(0), false
				if r1.Resp != nil && r1.Resp.Class == wire.Success {
					id1, ok = r1.Resp.U32(wire.AttrConnectionID)
				}
				if !ok {
					fail("harness:first-connect", fmt.Sprint(r1.Resp))

					return
				}
				r2 := w.C[c.Second].Request(wire.Connect, nil, peerAttr(c.Peers[1]))
				r.Evaluations++
				outcome := "no-answer"
				if r2.Resp != nil {
					outcome = fmt.Sprintf("error-%d", r2.Resp.ErrorCode())
					if r2.Resp.Class == wire.Success {
						id2, _ := r2.Resp.U32(wire.AttrConnectionID)
						outcome = "success-other-id"
						if id2 == id1 {
							outcome = "success-same-id"
							fail("two-live-connections-share-an-id", fmt.Sprintf("Connect(c1,%s) -> id %#x, still pending; Connect(%s,%s) -> success with id %#x", c.Peers[0], id1, c.Second, c.Peers[1], id2))
						}
					}
				}
				r.Class(fmt.Sprintf("idclash:%s -> second Connect %s", c.Name, outcome))
				// the server still serves afterwards
				if res := w.C["c1"].Request(wire.Refresh, nil, nil); res.Resp == nil || res.Resp.Class != wire.Success {
					fail("server-does-not-serve-afterwards", fmt.Sprint(res.Resp))
				}
			})
		}()
		if fatal != "" {
			r.Violate(rep.Violation{Oracle: "fatal", Signature: "idclash:panic:" + c.Name, Detail: fatal})
		}
	}
}
