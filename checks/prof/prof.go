// Package prof holds the Engine-A profiles shared by several properties.
package prof

import (
	"time"

	"github.com/pion/turn/v5/verif/rep"
	"github.com/pion/turn/v5/verif/vtx"
)

// E builds a request event.
func E(k, c string, n uint16, peers ...string) vtx.Event {
	return vtx.Event{K: k, C: c, N: n, Peers: peers, L: -1}
}

const N1, N2, N3 = 0x4000, 0x4001, 0x7FFF

var ns1 = []time.Duration{time.Nanosecond}

// Relay is the C01/C02 state space: two clients of different users, four
// peers (same IP other port, other IP same port, IPv6), every operator policy,
// two timeout configurations, IPv4 and IPv6 allocations.
func Relay(name string, tags map[string]bool) *vtx.Profile {
	depth := 4
	cfgs := []vtx.Config{
		{Policy: "allow"}, {Policy: "denyB"}, {Policy: "denyAll"},
		{Policy: "denyB", Perm: 40 * time.Second, Chan: 100 * time.Second},
		// the permission handler's verdict for B changes from yes to no 5 s into the run (the +7 s advance crosses it)
		{Policy: "denyBlate", Perm: 40 * time.Second, Chan: 100 * time.Second},
	}
	if rep.Thorough() {
		depth = 5
		cfgs = append(cfgs, vtx.Config{Policy: "allow", Perm: 40 * time.Second, Chan: 100 * time.Second},
			vtx.Config{Policy: "allow", Perm: 100 * time.Second, Chan: 40 * time.Second, Lifetime: 70 * time.Second})
	}

	return &vtx.Profile{
		Name: name, Configs: cfgs, Clients: []string{"c1", "c2"}, Peers: []string{"A", "A2", "B", "V6", "V6b"},
		Chans: []uint16{N1, N2}, Depth: depth, Drain: true, Tags: tags,
		Menu: func(m *vtx.Model, now time.Time, _ int) []vtx.Event {
			var e []vtx.Event
			if m.Allocs["c1"] == nil {
				e = append(e, E("alloc", "c1", 0), vtx.Event{K: "alloc", C: "c1", L: -1, Fam: 6}, E("perm", "c1", 0, "A"), E("chan", "c1", N1, "A"))
			} else {
				e = append(e, vtx.Event{K: "refresh", C: "c1", L: 0}, vtx.Event{K: "refresh", C: "c1", L: -1},
					E("perm", "c1", 0, "A"), E("perm", "c1", 0, "B"), E("perm", "c1", 0, "A", "B"), E("perm", "c1", 0, "V6"),
					// mixed address families in one request, either order: refused as a whole whatever the allocation's family
					E("perm", "c1", 0, "A", "V6"), E("perm", "c1", 0, "V6", "A"),
					E("chan", "c1", N1, "A"), E("chan", "c1", N1, "B"), E("chan", "c1", N2, "V6"), E("chan", "c1", N2, "A2"),
					// A's IPv4 address presented in the IPv6 form of the attribute (::ffff:10.1.0.1): an IPv4 peer all the same -
					// the same permission / binding on an IPv4 allocation, refused (443) on an IPv6 one
					E("perm", "c1", 0, "A"+vtx.Mapped6), E("chan", "c1", N1, "A"+vtx.Mapped6))
			}
			if m.Allocs["c2"] == nil {
				e = append(e, E("alloc", "c2", 0))
			} else {
				e = append(e, E("perm", "c2", 0, "A"), E("chan", "c2", N1, "B"))
			}

			// +500 ms: a second request within a second of the first (what a client that follows CreatePermission with ChannelBind does)
			return append(e, vtx.AdvanceMenu(m, now, ns1, []time.Duration{500 * time.Millisecond, 7 * time.Second})...)
		},
	}
}

// Isolation is the C04 state space: three clients (same IP other port, same
// user on another 5-tuple) reusing transaction ids, channel numbers and peers.
func Isolation(name string, tags map[string]bool) *vtx.Profile {
	depth := 4
	if rep.Thorough() {
		depth = 5
	}
	cl := []string{"c1", "c2", "c3"}

	return &vtx.Profile{
		Name: name, Configs: []vtx.Config{{}, {Perm: 40 * time.Second, Chan: 100 * time.Second, Lifetime: 150 * time.Second}},
		Clients: cl, Peers: []string{"A", "B"}, Chans: []uint16{N1}, Depth: depth, Drain: true, Tags: tags,
		Menu: func(m *vtx.Model, now time.Time, _ int) []vtx.Event {
			var e []vtx.Event
			for _, c := range cl {
				if m.Allocs[c] == nil {
					e = append(e, vtx.Event{K: "alloc", C: c, L: -1, FixTx: "shared-tx-id"}, E("perm", c, 0, "A"))
				} else {
					e = append(e, vtx.Event{K: "alloc", C: c, L: -1, FixTx: "shared-tx-id"}, vtx.Event{K: "refresh", C: c, L: 0},
						E("perm", c, 0, "A"), E("chan", c, N1, "A"), E("chan", c, N1, "B"))
					if c == "c1" {
						// the allocation ends although its relay socket refuses to be closed (once): whoever allocates on
						// this 5-tuple next inherits nothing of it - the sweep also knocks at the first relayed address
						e = append(e, vtx.Event{K: "refresh", C: c, L: 0, Fail: "closeerr"})
					}
				}
			}

			return append(e, vtx.AdvanceMenu(m, now, ns1, nil)...)
		},
	}
}

// IsolationDual: one server with a UDP socket and a stream listener on the
// same ip:port sharing one relay address generator; c1 (UDP) and c1t (stream)
// have the same ip:port and user and differ only in the transport of their
// 5-tuple; c2t is a stream client with c2's address. The stream clients may
// also just go away (control connection closed).
func IsolationDual(name string, tags map[string]bool) *vtx.Profile {
	depth := 4
	if rep.Thorough() {
		depth = 5
	}
	cl := []string{"c1", "c1t", "c2t"}

	return &vtx.Profile{
		Name: name, Configs: []vtx.Config{{Dual: true}}, Clients: cl, Peers: []string{"A", "B"}, Chans: []uint16{N1}, Depth: depth, Drain: true, Tags: tags,
		Menu: func(m *vtx.Model, now time.Time, _ int) []vtx.Event {
			var e []vtx.Event
			for _, c := range cl {
				if m.Gone[c] {
					continue
				}
				if m.Allocs[c] == nil {
					e = append(e, E("alloc", c, 0))
				} else {
					e = append(e, vtx.Event{K: "refresh", C: c, L: 0}, E("perm", c, 0, "A"), E("chan", c, N1, "B"))
				}
				if c != "c1" {
					e = append(e, vtx.Event{K: "close-control", C: c, L: -1})
				}
			}

			return append(e, vtx.AdvanceMenu(m, now, ns1, nil)...)
		},
	}
}

// IsolationMultihomed: a stream listener bound to the unspecified address on a host with two addresses; c1 and c1m
// have the same ip:port and user and are connected to the one and to the other server address: two 5-tuples that
// differ in the server address only. c2 is an ordinary third client.
func IsolationMultihomed(name string, tags map[string]bool) *vtx.Profile {
	depth := 4
	if rep.Thorough() {
		depth = 5
	}
	cl := []string{"c1", "c1m", "c2"}

	return &vtx.Profile{
		Name: name, Configs: []vtx.Config{{Stream: true, Wild: true}}, Clients: cl, Peers: []string{"A", "B"}, Chans: []uint16{N1}, Depth: depth, Drain: true, Tags: tags,
		Menu: func(m *vtx.Model, now time.Time, _ int) []vtx.Event {
			var e []vtx.Event
			for _, c := range cl {
				if m.Gone[c] {
					continue
				}
				if m.Allocs[c] == nil {
					e = append(e, E("alloc", c, 0))
				} else {
					e = append(e, vtx.Event{K: "refresh", C: c, L: 0}, E("perm", c, 0, "A"), E("chan", c, N1, "B"))
				}
				if c != "c2" {
					e = append(e, vtx.Event{K: "close-control", C: c, L: -1})
				}
			}

			return append(e, vtx.AdvanceMenu(m, now, ns1, nil)...)
		},
	}
}

// IsolationFamily: two clients whose source addresses differ only in address
// family representation (10.0.0.2:4000 and [::10.0.0.2]:4000, the deprecated
// IPv4-compatible form), [0a00:0002::]:4000 (the IPv4 bytes at the head of an IPv6 address) plus one on
// the same IP with another port.
func IsolationFamily(name string, tags map[string]bool) *vtx.Profile {
	depth := 4
	if rep.Thorough() {
		depth = 5
	}
	cl := []string{"c1", "c1x", "c1h", "c2"}

	return &vtx.Profile{
		Name: name, Configs: []vtx.Config{{}}, Clients: cl, Peers: []string{"A", "B"}, Chans: []uint16{N1}, Depth: depth, Drain: true, Tags: tags,
		Menu: func(m *vtx.Model, now time.Time, _ int) []vtx.Event {
			var e []vtx.Event
			for _, c := range cl {
				if m.Allocs[c] == nil {
					e = append(e, E("alloc", c, 0))
				} else {
					e = append(e, vtx.Event{K: "refresh", C: c, L: 0}, E("perm", c, 0, "A"), E("chan", c, N1, "B"))
				}
			}

			return append(e, vtx.AdvanceMenu(m, now, ns1, nil)...)
		},
	}
}

// IsolationTCP: two TCP allocations (different users) on one stream listener
// reusing the same peers for Connect and inbound connections.
func IsolationTCP(name string, tags map[string]bool) *vtx.Profile {
	depth := 4
	if rep.Thorough() {
		depth = 5
	}
	cl := []string{"c1", "c2"}

	return &vtx.Profile{
		Name: name, Configs: []vtx.Config{{Stream: true}}, Clients: cl, Peers: []string{"A", "B"}, Depth: depth, Drain: true, Tags: tags, Resources: true,
		Setup: func(vtx.Config) []vtx.Event {
			return []vtx.Event{{K: "alloc", C: "c1", L: -1, TCP: true}, {K: "alloc", C: "c2", L: -1, TCP: true}}
		},
		Menu: func(m *vtx.Model, now time.Time, _ int) []vtx.Event {
			var e []vtx.Event
			for _, c := range cl {
				e = append(e, E("connect", c, 0, "A"), E("connect", c, 0, "B"), E("perm", c, 0, "A"), E("peerdial", c, 0, "A"),
					vtx.Event{K: "refresh", C: c, L: 0})
				other := "c2"
				if c == "c2" {
					other = "c1"
				}
				for i := range m.ConnView[c] {
					e = append(e, vtx.Event{K: "cbind", C: c, N: uint16(i), Peers: []string{c}, L: -1}, //nolint:gosec
						vtx.Event{K: "cbind", C: other, N: uint16(i), Peers: []string{c}, L: -1}) //nolint:gosec
				}
			}

			return append(e, vtx.AdvanceMenu(m, now, ns1, nil)...)
		},
	}
}

// Channels is the C08 state space: bind / re-bind / conflicting bind / expiry
// over in-range and out-of-range numbers and peers differing only in port.
func Channels(name string, tags map[string]bool) *vtx.Profile {
	depth := 3
	if rep.Thorough() {
		depth = 4
	}
	nums := []uint16{0x4000, 0x4001, 0x7FFF, 0x3FFF, 0x8000, 0, 0xFFFF}
	peers := []string{"A", "A2", "B"}

	return &vtx.Profile{
		Name: name, Configs: []vtx.Config{{Lifetime: 10 * time.Hour}, {Lifetime: 10 * time.Hour, Perm: 100 * time.Second, Chan: 40 * time.Second},
			// three bindings of one allocation whose LOWEST number expires first, the others living on
			{Name: "three-bindings-lowest-expires-first", Lifetime: 10 * time.Hour, Perm: 100 * time.Second, Chan: 40 * time.Second}},
		Clients: []string{"c1", "c2"}, Peers: peers, Chans: nums, Depth: depth, Drain: true, Tags: tags,
		Setup: func(c vtx.Config) []vtx.Event {
			ev := []vtx.Event{E("alloc", "c1", 0), E("alloc", "c2", 0)}
			if c.Name == "three-bindings-lowest-expires-first" {
				ev = append(ev, E("chan", "c1", 0x4000, "A"), vtx.Event{K: "adv", Rule: "by10s", D: 10 * time.Second, L: -1},
					E("chan", "c1", 0x4001, "A2"), E("chan", "c1", 0x7FFF, "B"))
			}

			return ev
		},
		Menu: func(m *vtx.Model, now time.Time, _ int) []vtx.Event {
			var e []vtx.Event
			for _, n := range nums {
				for _, p := range peers {
					e = append(e, E("chan", "c1", n, p))
				}
			}
			e = append(e, E("chan", "c2", 0x4000, "A"), E("chan", "c2", 0x4001, "A"))
			// A's address in the IPv6 form of the attribute (::ffff:10.1.0.1) is the same peer
			e = append(e, E("chan", "c1", 0x4000, "A"+vtx.Mapped6), E("chan", "c1", 0x4001, "A"+vtx.Mapped6))
			// the repeat of an established binding whose success response the server fails to write (one transient
			// ENOBUFS): the client hears nothing, the binding is what it was
			if a := m.Allocs["c1"]; a != nil {
				for _, n := range nums {
					if ch, ok := a.Chans[n]; ok {
						for _, p := range peers {
							if vtx.PeerSpec[p].String() == ch.Peer.String() {
								ev := E("chan", "c1", n, p)
								ev.Fail = "respwrite"
								e = append(e, ev)
							}
						}
					}
				}
			}

			return append(e, vtx.AdvanceMenu(m, now, ns1, nil)...)
		},
	}
}
