package c03

import (
	"fmt"
	"testing"
	"testing/synctest"

	"github.com/pion/turn/v5/verif/rep"
	"github.com/pion/turn/v5/verif/vtx"
	"github.com/pion/turn/v5/verif/wire"
)

// TestC03Unsigned: only what MESSAGE-INTEGRITY covers may take effect. A
// request of the allocation's owner, correctly signed, is extended *after* its
// MESSAGE-INTEGRITY attribute by attributes nobody signed (anybody who sees
// one authenticated request can do that and replay it from the client's
// address within the nonce's lifetime; RFC 5389 15.4: "agents MUST ignore all
// other attributes that follow MESSAGE-INTEGRITY"). Whatever the server
// answers, the unsigned attributes change nothing: the peer named after the
// integrity gets no permission, the LIFETIME 0 after it deletes nothing, the
// channel named after it is not bound, the lifetime asked for after it is not
// granted.
func TestC03Unsigned(t *testing.T) {
	r := rep.New("C03")
	defer r.Write()
	if i, _ := rep.Shard(); i != 0 {
		return
	}
	a, b := vtx.PeerSpec["A"], vtx.PeerSpec["B"]
	type ucase struct {
		name     string
		method   uint16
		signed   func(x *wire.B) // attributes covered by the integrity
		unsigned func(x *wire.B) // attributes appended after it
	}
	cases := []ucase{
		{"CreatePermission+peer", wire.CreatePermission,
			func(x *wire.B) { x.XorAddr(wire.AttrXORPeerAddress, a.IP, a.Port) },
			func(x *wire.B) { x.XorAddr(wire.AttrXORPeerAddress, b.IP, b.Port) }},
		{"Refresh+lifetime0", wire.Refresh, nil, func(x *wire.B) { x.U32(wire.AttrLifetime, 0) }},
		{"Refresh(600)+lifetime0", wire.Refresh, func(x *wire.B) { x.U32(wire.AttrLifetime, 600) }, func(x *wire.B) { x.U32(wire.AttrLifetime, 0) }},
		{"ChannelBind(number)+peer", wire.ChannelBind,
			func(x *wire.B) { x.U32(wire.AttrChannelNumber, 0x4001<<16) },
			func(x *wire.B) { x.XorAddr(wire.AttrXORPeerAddress, b.IP, b.Port) }},
		{"ChannelBind(peer)+number", wire.ChannelBind,
			func(x *wire.B) { x.XorAddr(wire.AttrXORPeerAddress, b.IP, b.Port) },
			func(x *wire.B) { x.U32(wire.AttrChannelNumber, 0x4001<<16) }},
		{"Send-indication-is-unauthenticated-anyway", 0, nil, nil},
	}
	for _, uc := range cases {
		if uc.method == 0 {
			continue
		}
		for _, fp := range []bool{false, true} {
			label := uc.name
			if fp {
				label += "+fingerprint"
			}
			bubble(t, r, "unsigned "+label, func() {
				cfg := vtx.Config{Lifetime: 0}
				w, err := vtx.NewWorld(cfg, []string{"c1"}, []string{"A", "B"})
				if err != nil {
					return
				}
				defer w.Close()
				x := &vtx.Exec{W: w, M: vtx.NewModel(cfg), Chans: []uint16{0x4000, 0x4001}}
				for _, ev := range []vtx.Event{{K: "alloc", C: "c1", L: -1}, {K: "perm", C: "c1", Peers: []string{"A"}, L: -1},
					{K: "chan", C: "c1", N: 0x4000, Peers: []string{"A"}, L: -1}} {
					if v := x.Apply(ev); v != nil {
						r.Violate(rep.Violation{Oracle: "harness", Signature: "harness:setup:" + v.Sig, Detail: v.Detail})

						return
					}
				}
				c1 := w.C["c1"]
				tx := w.NextTx()
				m := wire.New(uc.method, wire.Request, tx)
				if uc.signed != nil {
					uc.signed(m)
				}
				c1.Auth(m) // USERNAME, REALM, NONCE, MESSAGE-INTEGRITY over everything so far
				uc.unsigned(m)
				if fp {
					m.Fingerprint()
				}
				c1.Send(m.Bytes())
				synctest.Wait()
				got := "silence"
				for _, rx := range c1.Recv() {
					if rx.Msg != nil && rx.Msg.TxID == tx {
						got = fmt.Sprintf("%d/%d", rx.Msg.Class, rx.Msg.ErrorCode())
					}
				}
				r.Evaluations++
				r.Class(fmt.Sprintf("unsigned/%s -> %s", label, got))
				fail := func(what, detail string) {
					r.Violate(rep.Violation{Oracle: "c03", Signature: "unsigned-attribute-after-integrity-took-effect:" + uc.name + ":" + what, Detail: label + " answered " + got + ": " + detail,
						Replay: map[string]any{"engine": "vtx-c03-unsigned", "case": label}})
				}
				ev := vtx.Event{K: "req", C: "c1", L: -1}
				if v := x.CheckCount(ev); v != nil {
					fail("count", v.Detail)

					return
				}
				if v := x.Sweep(ev); v != nil {
					fail(v.Tag, v.Detail)

					return
				}
				// the allocation still answers its owner and still has its original lifetime: a plain Refresh succeeds
				if v := x.Apply(vtx.Event{K: "refresh", C: "c1", L: -1}); v != nil {
					fail("refresh-afterwards", v.Detail)
				}
			})
		}
	}
}
