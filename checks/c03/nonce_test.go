package c03

import (
	"crypto/hmac"
	"crypto/rand"
	"crypto/sha256"
	"encoding/binary"
	"encoding/hex"
	"fmt"
	"math/big"
	"strings"
	"testing"
	"testing/synctest"
	"time"

	"github.com/pion/turn/v5/internal/server"
	"github.com/pion/turn/v5/verif/rep"
)

// ctr is a deterministic stand-in for crypto/rand.Reader so that the nonce
// keys are known to the reference.
type ctr struct{ n uint64 }

func (c *ctr) Read(p []byte) (int, error) {
	for i := range p {
		c.n++
		p[i] = byte((c.n * 0x9E3779B97F4A7C15) >> 56)
	}

	return len(p), nil
}

func keyOf(seed uint64) []byte {
	k := make([]byte, 64)
	_, _ = (&ctr{n: seed}).Read(k)

	return k
}

type mgr struct {
	name string
	nm   server.NonceManager
	key  []byte
	hlen int // 0 = long nonce
}

func managers() []mgr {
	var out []mgr
	old := rand.Reader
	defer func() { rand.Reader = old }()
	mk := func(seed uint64, hlen int) mgr {
		rand.Reader = &ctr{n: seed}
		var nm server.NonceManager
		var err error
		name := "long"
		if hlen == 0 {
			nm, err = server.NewNonceHash()
		} else {
			nm, err = server.NewShortNonceHash(hlen)
			name = fmt.Sprintf("short-%02d", hlen)
		}
		if err != nil {
			panic(err)
		}

		return mgr{name, nm, keyOf(seed), hlen}
	}
	out = append(out, mk(1000, 0))
	for h := 2; h <= 32; h++ {
		out = append(out, mk(uint64(2000+h), h)) //nolint:gosec
	}

	return out
}

// refStructure says whether s is a structurally authentic nonce of m and
// returns its timestamp. Written from the format description, not the code.
func refStructure(m mgr, s string) (ts time.Time, ok bool) {
	if m.hlen == 0 {
		b, err := hex.DecodeString(s)
		if err != nil || len(b) != 40 {
			return ts, false
		}
		mac := hmac.New(sha256.New, m.key)
		mac.Write(b[:8]) //nolint:errcheck
		if !hmac.Equal(mac.Sum(nil), b[8:]) {
			return ts, false
		}

		return time.UnixMilli(int64(binary.BigEndian.Uint64(b[:8]))), true //nolint:gosec
	}
	if s == "" {
		return ts, false
	}
	n := new(big.Int)
	for _, c := range strings.ToUpper(s) {
		d := strings.IndexRune("0123456789ABCDEFGHIJKLMNOPQRSTUVWXYZ", c)
		if d < 0 {
			return ts, false
		}
		n.Mul(n, big.NewInt(36))
		n.Add(n, big.NewInt(int64(d)))
	}
	raw := n.Bytes()
	if len(raw) > 4+m.hlen {
		return ts, false
	}
	b := make([]byte, 4+m.hlen)
	copy(b[len(b)-len(raw):], raw)
	mac := hmac.New(sha256.New, m.key)
	mac.Write(b[:4]) //nolint:errcheck
	if !hmac.Equal(mac.Sum(nil)[:m.hlen], b[4:]) {
		return ts, false
	}

	return time.Unix(int64(binary.BigEndian.Uint32(b[:4]))*60, 0), true
}

func mutations(s string) []string {
	var out []string
	alpha := "0Z9aG"
	if len(s) > 60 {
		alpha = "0f9a"
	}
	for i := 0; i <= len(s); i++ {
		for _, c := range alpha {
			out = append(out, s[:i]+string(c)+s[i:]) // insertion
			if i < len(s) && rune(s[i]) != c {
				out = append(out, s[:i]+string(c)+s[i+1:]) // substitution
			}
		}
		if i < len(s) {
			out = append(out, s[:i]+s[i+1:]) // deletion
		}
	}
	out = append(out, "", "0", strings.ToLower(s), s+s, " "+s, s+"\x00")

	return out
}

// truncations: a short nonce with its HMAC cut to fewer bytes than the server mints (2 .. hlen-1), and the bare
// time stamp: a shorter MAC is a weaker MAC, none of them is a nonce of this server.
func truncations(s string, hlen int) []string {
	if hlen == 0 {
		return nil
	}
	n := new(big.Int)
	if _, ok := n.SetString(strings.ToLower(s), 36); !ok {
		return nil
	}
	raw := n.Bytes()
	b := make([]byte, 4+hlen)
	if len(raw) > len(b) {
		return nil
	}
	copy(b[len(b)-len(raw):], raw)
	var out []string
	for l := 0; l < hlen; l++ {
		out = append(out, strings.ToUpper(new(big.Int).SetBytes(b[:4+l]).Text(36)))
	}

	return out
}

func TestC03Nonce(t *testing.T) {
	r := rep.New("C03")
	defer r.Write()
	shard, n := rep.Shard()
	ms := managers()
	ages := []time.Duration{0, time.Second, 59 * time.Minute, 60*time.Minute - time.Second, 60 * time.Minute,
		60*time.Minute + time.Second, 61*time.Minute - time.Second, 61 * time.Minute, 61*time.Minute + time.Second, 2 * time.Hour, 25 * time.Hour}
	for mi, m := range ms {
		if mi%n != shard {
			continue
		}
		other := ms[(mi+1)%len(ms)]
		if m.hlen != 0 { // another instance of the same kind and length
			old := rand.Reader
			rand.Reader = &ctr{n: 777}
			nm2, _ := server.NewShortNonceHash(m.hlen)
			rand.Reader = old
			other = mgr{m.name + "-other", nm2, keyOf(777), m.hlen}
		}
		viol := func(sig, detail string) {
			r.Violate(rep.Violation{Oracle: "nonce", Signature: sig, Detail: m.name + ": " + detail,
				Replay: map[string]any{"engine": "enum-c03-nonce", "manager": m.name, "detail": detail}})
		}
		for _, off := range []time.Duration{0, time.Second, 59 * time.Second} {
			var minted string
			// (a) ages, (b) mutations, (c) other instance -- one bubble, time ascending
			synctest.Test(t, func(*testing.T) {
				time.Sleep(off)
				var err error
				minted, err = m.nm.Generate()
				if err != nil {
					viol("generate-failed", err.Error())

					return
				}
				if _, ok := refStructure(m, minted); !ok {
					viol("generated-nonce-not-authentic-by-reference", minted)

					return
				}
				r.Evaluations++
				if other.nm.Validate(minted) == nil {
					viol("nonce-of-another-instance-accepted", minted)
				}
				for _, mu := range append(mutations(minted), truncations(minted, m.hlen)...) {
					r.Evaluations++
					ts, authentic := refStructure(m, mu)
					err := m.nm.Validate(mu)
					inWindow := authentic && !ts.After(time.Now()) && time.Since(ts) <= time.Hour
					switch {
					case err == nil && !inWindow:
						if authentic {
							viol("mutated-nonce-outside-window-accepted", fmt.Sprintf("%q ts=%v", mu, ts))
						} else {
							viol("forged-nonce-accepted", fmt.Sprintf("%q (from %q)", mu, minted))
						}
						r.Class(m.name + "/mutation/accepted-not-authentic")
					case err != nil && inWindow:
						r.Class(m.name + "/mutation/same-token-rejected")
					case err == nil:
						r.Class(m.name + "/mutation/same-token-accepted")
					default:
						r.Class(m.name + "/mutation/rejected")
					}
				}
				start := time.Now()
				for _, age := range ages {
					time.Sleep(time.Until(start.Add(age)))
					r.Evaluations++
					err := m.nm.Validate(minted)
					cls := "accepted"
					if err != nil {
						cls = "rejected"
					}
					r.Class(fmt.Sprintf("%s/age-%v/%s", m.name, age, cls))
					if age <= 60*time.Minute && err != nil {
						viol("fresh-nonce-rejected", fmt.Sprintf("minted at +%v, age %v: %v", off, age, err))
					}
					if age >= 61*time.Minute && err == nil {
						viol("expired-nonce-accepted", fmt.Sprintf("minted at +%v, age %v", off, age))
					}
				}
			})
			// (d) future-dated: minted in a bubble whose clock is ahead, validated in a fresh bubble (clock restarts)
			for _, ahead := range []time.Duration{time.Minute + time.Second, 30 * time.Minute, 2 * time.Hour, 48 * time.Hour} {
				var future string
				synctest.Test(t, func(*testing.T) {
					time.Sleep(off + ahead)
					future, _ = m.nm.Generate()
				})
				synctest.Test(t, func(*testing.T) {
					time.Sleep(off)
					r.Evaluations++
					err := m.nm.Validate(future)
					cls := "rejected"
					if err == nil {
						cls = "accepted"
						viol("future-dated-nonce-accepted", fmt.Sprintf("stamped %v ahead of the clock", ahead))
					}
					r.Class(fmt.Sprintf("%s/future-%v/%s", m.name, ahead, cls))
				})
			}
		}
		r.Sample(map[string]any{"manager": m.name})
	}
}
