package c03

import (
	"fmt"
	"net"
	"strings"
	"testing"
	"testing/synctest"
	"time"

	"github.com/pion/turn/v5/verif/rep"
	"github.com/pion/turn/v5/verif/vtx"
	"github.com/pion/turn/v5/verif/wire"
)

func bubble(t *testing.T, r *rep.Report, what string, body func()) {
	var fatal string
	stop := r.Guard(30*time.Second, "c03:"+what+":never-quiesces", func() any { return what })
	func() {
		defer func() {
			if e := recover(); e != nil {
				fatal = fmt.Sprint(e)
			}
		}()
		synctest.Test(t, func(*testing.T) { body() })
	}()
	stop()
	if fatal != "" {
		r.Violate(rep.Violation{Oracle: "fatal", Signature: "fatal:" + fatal, Detail: what})
	}
}

// TestC03Expiry: nonce age through the real server. A nonce minted at second
// offset {0,1,59} of a minute is presented on a Refresh of the client's own
// allocation at ages around one hour.
func TestC03Expiry(t *testing.T) {
	r := rep.New("C03")
	defer r.Write()
	shard, n := rep.Shard()
	ages := []time.Duration{59 * time.Minute, 60*time.Minute - time.Second, 60 * time.Minute, 60*time.Minute + time.Second,
		61*time.Minute - time.Second, 61 * time.Minute, 61*time.Minute + time.Second, 3 * time.Hour}
	idx := 0
	for _, off := range []time.Duration{0, time.Second, 59 * time.Second} {
		for _, age := range ages {
			for _, m := range udpMethods() {
				idx++
				if idx%n != shard || m.name == "Refresh0" || strings.HasPrefix(m.name, "Allocate") {
					continue
				}
				bubble(t, r, fmt.Sprintf("expiry off=%v age=%v %s", off, age, m.name), func() {
					cfg := vtx.Config{Lifetime: 10 * time.Hour, Perm: 10 * time.Hour, Chan: 10 * time.Hour}
					w, err := vtx.NewWorld(cfg, []string{"c1"}, []string{"A", "B"})
					if err != nil {
						return
					}
					defer w.Close()
					time.Sleep(off)
					x := &vtx.Exec{W: w, M: vtx.NewModel(cfg), Chans: []uint16{0x4000}}
					for _, ev := range []vtx.Event{{K: "alloc", C: "c1", L: -1}, {K: "perm", C: "c1", Peers: []string{"A"}, L: -1},
						{K: "chan", C: "c1", N: 0x4000, Peers: []string{"A"}, L: -1}} {
						if v := x.Apply(ev); v != nil {
							r.Violate(rep.Violation{Oracle: "harness", Signature: "harness:setup:" + v.Sig, Detail: v.Detail})

							return
						}
					}
					c1 := w.C["c1"]
					old := c1.Nonce
					vtx.Advance(age)
					tx := w.NextTx()
					c1.Send(build(m.method, tx, m.attrs, c1.User, c1.Pass, old, defect{name: "none", mi: "ok", valid: true}))
					synctest.Wait()
					got := "silence"
					var resp *wire.Msg
					for _, rx := range c1.Recv() {
						if rx.Msg != nil && rx.Msg.TxID == tx {
							resp = rx.Msg
							got = fmt.Sprintf("%d/%d", rx.Msg.Class, rx.Msg.ErrorCode())
						}
					}
					r.Evaluations++
					r.Class(fmt.Sprintf("expiry/%s/off=%v/age=%v -> %s", m.name, off, age, got))
					switch {
					case age <= 60*time.Minute && (resp == nil || resp.Class != wire.Success):
						r.Violate(rep.Violation{Oracle: "c03", Signature: "nonce-within-the-hour-refused:" + m.name, Detail: fmt.Sprintf("off=%v age=%v: %s", off, age, got)})
					case age >= 61*time.Minute && (resp == nil || resp.Class != wire.Error || resp.ErrorCode() != 438):
						r.Violate(rep.Violation{Oracle: "c03", Signature: "expired-nonce-not-challenged-438:" + m.name, Detail: fmt.Sprintf("off=%v age=%v: %s", off, age, got)})
					}
				})
			}
		}
	}
}

// TestC03NoAuth: a server without an auth handler never lets a state-changing
// request take effect, whatever it carries.
func TestC03NoAuth(t *testing.T) {
	r := rep.New("C03")
	defer r.Write()
	if i, _ := rep.Shard(); i != 0 {
		return
	}
	for _, m := range udpMethods() {
		bubble(t, r, "noauth "+m.name, func() {
			cfg := vtx.Config{NoAuth: true}
			w, err := vtx.NewWorld(cfg, []string{"c1"}, []string{"A", "B"})
			if err != nil {
				return
			}
			defer w.Close()
			x := &vtx.Exec{W: w, M: vtx.NewModel(cfg), Chans: []uint16{0x4000}}
			c1 := w.C["c1"]
			for _, d := range []defect{{name: "no-integrity", mi: "none"}, {name: "signed", mi: "ok", nonce: "0123456789"}, {name: "signed-empty-key", mi: "emptykey", nonce: "0123456789"}} {
				tx := w.NextTx()
				c1.Send(build(m.method, tx, m.attrs, "u1", "p1", "0123456789", d))
				synctest.Wait()
				got := "silence"
				for _, rx := range c1.Recv() {
					if rx.Msg != nil && rx.Msg.TxID == tx {
						got = fmt.Sprintf("%d/%d", rx.Msg.Class, rx.Msg.ErrorCode())
						if rx.Msg.Class == wire.Success {
							r.Violate(rep.Violation{Oracle: "c03", Signature: "success-without-auth-handler:" + m.name, Detail: d.name})
						}
					}
				}
				r.Evaluations++
				r.Class(fmt.Sprintf("noauth/%s/%s -> %s", m.name, d.name, got))
				ev := vtx.Event{K: "req", C: "c1", L: -1}
				if v := x.CheckCount(ev); v != nil {
					r.Violate(rep.Violation{Oracle: "c03", Signature: "state-changed-without-auth-handler:" + m.name, Detail: v.Detail})
				}
				if v := x.Sweep(ev); v != nil {
					r.Violate(rep.Violation{Oracle: "c03", Signature: "state-changed-without-auth-handler:" + m.name + ":" + v.Tag, Detail: v.Detail})
				}
			}
		})
	}
}

// TestC03TCP: Connect and ConnectionBind (RFC 6062) with every credential defect.
func TestC03TCP(t *testing.T) {
	r := rep.New("C03")
	defer r.Write()
	shard, n := rep.Shard()
	for pi, part := range []string{"connect", "bind"} {
		if pi%n != shard%2 || shard >= 2 {
			continue
		}
		bubble(t, r, "tcp "+part, func() {
			cfg := vtx.Config{Stream: true}
			w, err := vtx.NewWorld(cfg, []string{"c1", "c2"}, []string{"A", "B"})
			if err != nil {
				return
			}
			defer w.Close()
			x := &vtx.Exec{W: w, M: vtx.NewModel(cfg)}
			for _, ev := range []vtx.Event{{K: "alloc", C: "c1", L: -1, TCP: true}, {K: "alloc", C: "c2", L: -1, TCP: true}} {
				if v := x.Apply(ev); v != nil {
					r.Violate(rep.Violation{Oracle: "harness", Signature: "harness:setup:" + v.Sig, Detail: v.Detail})

					return
				}
			}
			tcpm := x.TCP() // opens the peers' TCP listeners
			c1 := w.C["c1"]
			b := vtx.PeerSpec["B"]
			connectAttrs := func(bb *wire.B) { bb.XorAddr(wire.AttrXORPeerAddress, b.IP, b.Port) }
			ds := defects(c1.Nonce)
			ds = append(ds, defect{name: "other-users-valid-credentials", user: "u2", mi: "otheruser"})
			if part == "connect" {
				for _, d := range ds {
					if d.valid {
						continue
					}
					pass := c1.Pass
					if d.mi == "otheruser" {
						pass = vtx.Users["u2"]
					}
					mark := w.Net.Mark()
					tx := w.NextTx()
					c1.Send(build(wire.Connect, tx, connectAttrs, c1.User, pass, c1.Nonce, d))
					synctest.Wait()
					got := "silence"
					for _, rx := range c1.Recv() {
						if rx.Msg != nil && rx.Msg.TxID == tx {
							got = fmt.Sprintf("%d/%d", rx.Msg.Class, rx.Msg.ErrorCode())
							if rx.Msg.Class == wire.Success {
								r.Violate(rep.Violation{Oracle: "c03", Signature: "defective-credentials-accepted:Connect:" + classOf(d, ""), Detail: d.name})
							}
						}
					}
					for _, e := range w.Net.Since(mark) {
						if e.Kind == "dial" || e.Kind == "dial-fail" {
							r.Violate(rep.Violation{Oracle: "c03", Signature: "defective-connect-dialled-the-peer:" + classOf(d, ""), Detail: d.name + " " + e.String()})
						}
					}
					r.Evaluations++
					r.Class(fmt.Sprintf("tcp/Connect/%s -> %s", classOf(d, ""), got))
				}
				// the valid Connect then works
				if v := x.Apply(vtx.Event{K: "connect", C: "c1", Peers: []string{"B"}, L: -1}); v != nil {
					r.Violate(rep.Violation{Oracle: "c03", Signature: "valid-connect-refused-after-defective-ones", Detail: v.Detail})
				}

				return
			}
			// bind: one pending connection of c1, every defective ConnectionBind on a fresh data connection
			if v := x.Apply(vtx.Event{K: "connect", C: "c1", Peers: []string{"B"}, L: -1}); v != nil {
				r.Violate(rep.Violation{Oracle: "harness", Signature: "harness:connect:" + v.Sig, Detail: v.Detail})

				return
			}
			id := tcpm.Conns["c1"][0].ID
			port := 33000
			for _, d := range ds {
				if d.valid {
					continue
				}
				pass := c1.Pass
				if d.mi == "otheruser" {
					pass = vtx.Users["u2"]
				}
				port++
				dc, err := w.Net.DialTCPAddr(&net.TCPAddr{IP: c1.Addr.IP, Port: port}, &net.TCPAddr{IP: w.SrvAddr.IP, Port: w.SrvAddr.Port})
				if err != nil {
					return
				}
				tx := w.NextTx()
				_, _ = dc.Write(build(wire.ConnectionBind, tx, func(bb *wire.B) { bb.U32(wire.AttrConnectionID, id) }, c1.User, pass, c1.Nonce, d))
				synctest.Wait()
				raw, _ := dc.TakeAll()
				got := "silence"
				if fl, ferr := wire.FrameLen(raw); ferr == nil && fl > 0 {
					if m, perr := wire.Parse(raw[:fl]); perr == nil && m.TxID == tx {
						got = fmt.Sprintf("%d/%d", m.Class, m.ErrorCode())
						if m.Class == wire.Success {
							r.Violate(rep.Violation{Oracle: "c03", Signature: "defective-credentials-accepted:ConnectionBind:" + classOf(d, ""), Detail: d.name})
						}
					}
				}
				_ = dc.Close()
				synctest.Wait()
				r.Evaluations++
				r.Class(fmt.Sprintf("tcp/ConnectionBind/%s -> %s", classOf(d, ""), got))
			}
			// the owner's valid bind still works: no defective request consumed the connection
			if v := x.Apply(vtx.Event{K: "cbind", C: "c1", N: 0, Peers: []string{"c1"}, L: -1}); v != nil {
				r.Violate(rep.Violation{Oracle: "c03", Signature: "valid-bind-refused-after-defective-ones", Detail: v.Detail})
			}
		})
	}
}

// TestC03TwoServers: "a nonce minted by this server instance": two turn.Servers in one process (same users, same
// realm). The nonce server A hands out in its 401 is worthless at server B: every method signed with it and valid
// credentials is challenged with 438 there and changes nothing; B's own nonce then works.
func TestC03TwoServers(t *testing.T) {
	r := rep.New("C03")
	defer r.Write()
	if i, _ := rep.Shard(); i != 0 {
		return
	}
	for _, m := range udpMethods() {
		if m.name == "Allocate-same-transaction-id" {
			continue
		}
		bubble(t, r, "two-servers "+m.name, func() {
			cfg := vtx.Config{Lifetime: 10 * time.Hour}
			wa, err := vtx.NewWorld(cfg, []string{"c1"}, []string{"A", "B"})
			if err != nil {
				return
			}
			defer wa.Close()
			wb, err := vtx.NewWorld(cfg, []string{"c1"}, []string{"A", "B"})
			if err != nil {
				return
			}
			defer wb.Close()
			wa.C["c1"].Request(wire.Refresh, nil, nil) // learns A's nonce
			foreign := wa.C["c1"].Nonce
			x := &vtx.Exec{W: wb, M: vtx.NewModel(cfg), Chans: []uint16{0x4000}}
			c := wb.C["c1"]
			if m.needsAlloc {
				for _, ev := range []vtx.Event{{K: "alloc", C: "c1", L: -1}, {K: "perm", C: "c1", Peers: []string{"A"}, L: -1},
					{K: "chan", C: "c1", N: 0x4000, Peers: []string{"A"}, L: -1}} {
					if v := x.Apply(ev); v != nil {
						r.Violate(rep.Violation{Oracle: "harness", Signature: "harness:setup:" + v.Sig, Detail: v.Detail})

						return
					}
				}
			}
			if foreign == "" || foreign == c.Nonce {
				r.Violate(rep.Violation{Oracle: "harness", Signature: "harness:two-servers-share-a-nonce-text", Detail: foreign})

				return
			}
			gen0 := wb.GenCalls
			tx := wb.NextTx()
			c.Send(build(m.method, tx, m.attrs, c.User, c.Pass, foreign, defect{name: "none", mi: "ok", valid: true}))
			synctest.Wait()
			got := "silence"
			var resp *wire.Msg
			for _, rx := range c.Recv() {
				if rx.Msg != nil && rx.Msg.TxID == tx {
					resp = rx.Msg
					got = fmt.Sprintf("%d/%d", rx.Msg.Class, rx.Msg.ErrorCode())
				}
			}
			r.Evaluations++
			r.Class(fmt.Sprintf("nonce of another server instance/%s -> %s", m.name, got))
			ev := vtx.Event{K: "req", C: "c1", L: -1}
			switch {
			case resp != nil && resp.Class == wire.Success:
				r.Violate(rep.Violation{Oracle: "c03", Signature: "nonce-of-another-server-instance-accepted:" + m.name, Detail: got})
			case resp == nil || resp.Class != wire.Error || resp.ErrorCode() != 438:
				r.Violate(rep.Violation{Oracle: "c03", Signature: "nonce-of-another-server-instance-not-challenged-438:" + m.name, Detail: got})
			case wb.GenCalls != gen0:
				r.Violate(rep.Violation{Oracle: "c03", Signature: "nonce-of-another-server-instance:relay-socket-allocated:" + m.name})
			default:
				if v := x.CheckCount(ev); v != nil {
					r.Violate(rep.Violation{Oracle: "c03", Signature: "nonce-of-another-server-instance:state-changed:" + m.name, Detail: v.Detail})
				} else if v := x.Sweep(ev); v != nil {
					r.Violate(rep.Violation{Oracle: "c03", Signature: "nonce-of-another-server-instance:state-changed:" + m.name + ":" + v.Tag, Detail: v.Detail})
				}
			}
		})
	}
}
