package c03

import (
	"fmt"
	"strings"
	"testing"
	"testing/synctest"
	"time"

	"github.com/pion/turn/v5/verif/rep"
	"github.com/pion/turn/v5/verif/vtx"
	"github.com/pion/turn/v5/verif/wire"
)

// TestC03Rotation: "valid long-term credentials" are what the operator's auth
// handler says at the time of the request, not what it said when the allocation
// was made. The client allocates, installs a permission and a channel; the
// operator then changes the account's password or removes the account
// (immediately, after a minute, after 59 minutes); every method signed with the
// key that was valid before must not succeed and must change nothing (the
// allocation count and, after a Refresh 0 / CreatePermission / ChannelBind, the
// probe sweep of the reference model); with the new password the same request
// succeeds.
func TestC03Rotation(t *testing.T) {
	r := rep.New("C03")
	defer r.Write()
	shard, n := rep.Shard()
	idx := 0
	for _, user := range []string{"c1", "c4"} {
		for _, act := range []string{"password-changed", "account-removed"} {
			for _, wait := range []time.Duration{0, time.Minute, 59 * time.Minute} {
				for _, m := range udpMethods() {
					idx++
					if idx%n != shard || m.name == "Allocate" {
						continue
					}
					what := fmt.Sprintf("rotation %s %s wait=%v %s", user, act, wait, m.name)
					bubble(t, r, what, func() { rotationCase(r, what, user, act, wait, m) })
				}
			}
		}
	}
}

func rotationCase(r *rep.Report, what, cn, act string, wait time.Duration, m methodSpec) {
	cfg := vtx.Config{Lifetime: 10 * time.Hour, Perm: 10 * time.Hour, Chan: 10 * time.Hour}
	w, err := vtx.NewWorld(cfg, []string{cn}, []string{"A", "B"})
	if err != nil {
		return
	}
	defer w.Close()
	x := &vtx.Exec{W: w, M: vtx.NewModel(cfg), Chans: []uint16{0x4000, 0x4001}}
	c := w.C[cn]
	var allocTxID [12]byte
	copy(allocTxID[:], allocTx)
	for _, ev := range []vtx.Event{{K: "alloc", C: cn, L: -1}, {K: "perm", C: cn, Peers: []string{"A"}, L: -1},
		{K: "chan", C: cn, N: 0x4000, Peers: []string{"A"}, L: -1}} {
		if v := x.Apply(ev); v != nil {
			r.Violate(rep.Violation{Oracle: "harness", Signature: "harness:setup:" + v.Sig, Detail: v.Detail})

			return
		}
	}
	vtx.Advance(wait)
	newPass := "rotated-password"
	if act == "account-removed" {
		newPass = ""
	}
	w.Rotate(c.User, newPass)
	send := func(pass string) (string, *wire.Msg) {
		tx := w.NextTx()
		c.Send(build(m.method, tx, m.attrs, c.User, pass, c.Nonce, defect{name: "none", mi: "ok", valid: true}))
		synctest.Wait()
		got := "silence"
		var resp *wire.Msg
		for _, rx := range c.Recv() {
			if rx.Msg != nil && rx.Msg.TxID == tx {
				resp = rx.Msg
				got = fmt.Sprintf("%d/%d", rx.Msg.Class, rx.Msg.ErrorCode())
			}
		}

		return got, resp
	}
	got, resp := send(c.Pass)
	r.Evaluations++
	r.Class(fmt.Sprintf("rotation/%s/%s/wait=%v/%s with the old key -> %s", cn, act, wait, m.name, got))
	if resp != nil && resp.Class == wire.Success {
		r.Violate(rep.Violation{Oracle: "a request signed with a key the auth handler no longer gives does not succeed",
			Signature: "rotation:old-key-accepted:" + act + ":" + strings.TrimSuffix(m.name, "-same-transaction-id"), Detail: what + ": " + got,
			Replay: map[string]any{"case": what}})

		return
	}
	// nothing changed: count and the full sweep against the model, which saw no event
	if v := x.CheckCount(vtx.Event{K: "rotation"}); v != nil {
		r.Violate(rep.Violation{Oracle: "state unchanged", Signature: "rotation:state-changed:" + act + ":" + m.name + ":" + v.Sig, Detail: what + ": " + v.Detail,
			Replay: map[string]any{"case": what}})

		return
	}
	if v := x.Sweep(vtx.Event{K: "rotation"}); v != nil {
		r.Violate(rep.Violation{Oracle: "state unchanged", Signature: "rotation:state-changed:" + act + ":" + m.name + ":" + v.Sig, Detail: what + ": " + v.Detail,
			Replay: map[string]any{"case": what}})

		return
	}
	if act == "password-changed" && !strings.HasPrefix(m.name, "Allocate") { // (an Allocate on an occupied 5-tuple is 437 with any key)
		got, resp = send(newPass)
		r.Evaluations++
		r.Class(fmt.Sprintf("rotation/%s/%s/wait=%v/%s with the new key -> %s", cn, act, wait, m.name, got))
		if resp == nil || resp.Class != wire.Success {
			r.Violate(rep.Violation{Oracle: "a request signed with the key the auth handler gives now succeeds",
				Signature: "rotation:new-key-refused:" + m.name, Detail: what + ": " + got, Replay: map[string]any{"case": what}})
		}
	}
}
