package c03

import (
	"fmt"
	"net"
	"testing"
	"testing/synctest"
	"time"

	"github.com/pion/turn/v5/verif/rep"
	"github.com/pion/turn/v5/verif/simnet"
	"github.com/pion/turn/v5/verif/vtx"
	"github.com/pion/turn/v5/verif/wire"
)

// defect describes how the credentials of a request are wrong.
type defect struct {
	name               string
	user, realm, nonce string // "" = as the client would; "-" = attribute absent
	pass               string // "" = the presenting identity's password
	mi                 string // ok | none | wrongkey | flip | trunc | otheruser
	bit, trunc         int
	wantChallenge      int // 401 / 438 when the property names the answer, else 0
	valid              bool
}

func defects(validNonce string) []defect {
	d := []defect{
		{name: "none", mi: "ok", valid: true},
		{name: "no-integrity", mi: "none", wantChallenge: 401},
		{name: "no-credentials-at-all", user: "-", realm: "-", nonce: "-", mi: "none", wantChallenge: 401},
		{name: "wrong-key", mi: "wrongkey"},
		{name: "unknown-user", user: "mallory", mi: "ok"},
		// the handler returns the right key for this user together with ok=false ("derive the key, then decide")
		{name: "refused-user-correct-password", user: vtx.RevokedUser, pass: vtx.RevokedPass, mi: "ok"},
		{name: "unknown-user-empty-key", user: "mallory", mi: "emptykey"},
		{name: "known-user-empty-key", mi: "emptykey"},
		{name: "missing-username", user: "-", mi: "ok"},
		{name: "missing-realm", realm: "-", mi: "ok"},
		{name: "missing-nonce", nonce: "-", mi: "ok"},
		{name: "empty-nonce", nonce: "\x00empty", mi: "ok", wantChallenge: 438},
		{name: "random-nonce", nonce: "3q2w1e4r5t6y7u8i9o0p", mi: "ok", wantChallenge: 438},
		{name: "other-realm", realm: "evil.example", mi: "ok"},
		// REALM names another realm, the HMAC is keyed with the account of the server's own realm: the handler
		// has no such (user, realm) and must be asked about the realm that was presented
		{name: "other-realm-signed-with-the-home-realm-key", realm: "evil.example", mi: "homekey"},
	}
	for bit := 0; bit < 160; bit++ {
		d = append(d, defect{name: fmt.Sprintf("hmac-bitflip-%03d", bit), mi: "flip", bit: bit})
	}
	for l := 0; l < 20; l++ {
		d = append(d, defect{name: fmt.Sprintf("hmac-truncated-%02d", l), mi: "trunc", trunc: l})
	}
	// every single-character mutation of the valid nonce (substitution by a neighbouring
	// base36 digit, deletion, insertion)
	for i := 0; i < len(validNonce); i++ {
		sub := []byte(validNonce)
		c := sub[i]
		switch {
		case c == '9':
			sub[i] = 'a'
		case c == 'z':
			sub[i] = '0'
		default:
			sub[i] = c + 1
		}
		d = append(d, defect{name: fmt.Sprintf("nonce-subst-%02d", i), nonce: string(sub), mi: "ok", wantChallenge: 438})
		d = append(d, defect{name: fmt.Sprintf("nonce-delete-%02d", i), nonce: validNonce[:i] + validNonce[i+1:], mi: "ok", wantChallenge: 438})
		d = append(d, defect{name: fmt.Sprintf("nonce-insert-%02d", i), nonce: validNonce[:i] + "7" + validNonce[i:], mi: "ok", wantChallenge: 438})
	}

	return d
}

// build assembles a request with the given credential defect.
func build(method uint16, tx [12]byte, attrs func(b *wire.B), user, pass, nonce string, d defect) []byte {
	b := wire.New(method, wire.Request, tx)
	if attrs != nil {
		attrs(b)
	}
	u, r, n := user, vtx.Realm, nonce
	if d.user != "" {
		u = d.user
	}
	if d.pass != "" {
		pass = d.pass
	}
	if d.realm != "" {
		r = d.realm
	}
	if d.nonce != "" {
		n = d.nonce
	}
	if n == "\x00empty" {
		n = ""
	}
	if u != "-" {
		b.Str(wire.AttrUsername, u)
	}
	if r != "-" {
		b.Str(wire.AttrRealm, r)
	}
	if d.nonce != "-" {
		b.Str(wire.AttrNonce, n)
	}
	// the key a legitimate client of that (user, realm) would use
	keyUser, keyRealm := u, r
	if keyUser == "-" {
		keyUser = user
	}
	if keyRealm == "-" {
		keyRealm = vtx.Realm
	}
	key := wire.LongTermKey(keyUser, keyRealm, pass)
	switch d.mi {
	case "ok", "otheruser":
		b.Integrity(key)
	case "homekey":
		b.Integrity(wire.LongTermKey(keyUser, vtx.Realm, pass))
	case "none":
	case "wrongkey":
		b.Integrity(wire.LongTermKey(keyUser, keyRealm, pass+"x"))
	case "emptykey":
		// what a client that knows no secret at all can compute: HMAC with the empty key
		b.Integrity(nil)
	case "flip":
		mac := b.MAC(key)
		mac[d.bit/8] ^= 1 << (d.bit % 8)
		b.Attr(wire.AttrMessageIntegrity, mac)
	case "trunc":
		mac := b.MAC(key)
		b.Attr(wire.AttrMessageIntegrity, mac[:d.trunc])
	}

	return b.Bytes()
}

type methodSpec struct {
	name   string
	method uint16
	attrs  func(b *wire.B)
	// needs: "none" (works without allocation) or "alloc"
	needsAlloc bool
}

func udpMethods() []methodSpec {
	a := vtx.PeerSpec["A"]
	b := vtx.PeerSpec["B"]

	return []methodSpec{
		{"Allocate", wire.Allocate, func(x *wire.B) { x.U32(wire.AttrRequestedTransport, 17<<24) }, false},
		// the transaction id of the Allocate that created the allocation (a "retransmission" must authenticate too)
		{"Allocate-same-transaction-id", wire.Allocate, func(x *wire.B) { x.U32(wire.AttrRequestedTransport, 17<<24) }, false},
		{"Refresh", wire.Refresh, func(x *wire.B) { x.U32(wire.AttrLifetime, 1200) }, true},
		{"Refresh0", wire.Refresh, func(x *wire.B) { x.U32(wire.AttrLifetime, 0) }, true},
		{"CreatePermission", wire.CreatePermission, func(x *wire.B) { x.XorAddr(wire.AttrXORPeerAddress, b.IP, b.Port) }, true},
		{"ChannelBind", wire.ChannelBind, func(x *wire.B) {
			x.U32(wire.AttrChannelNumber, 0x4001<<16)
			x.XorAddr(wire.AttrXORPeerAddress, b.IP, b.Port)
		}, true},
		{"ChannelBind-rebind", wire.ChannelBind, func(x *wire.B) {
			x.U32(wire.AttrChannelNumber, 0x4000<<16)
			x.XorAddr(wire.AttrXORPeerAddress, a.IP, a.Port)
		}, true},
	}
}

// One world per (state, method); every defect is tried in it as long as the
// model says nothing changed. state: "none" | "own" | "own-anon" (the owner's user id is "") | "other-user".
const allocTx = "c03-alloc-tx"

func runUDP(t *testing.T, r *rep.Report, state string, ms methodSpec, noAuth bool) {
	var fatal string
	sameTx := ms.name == "Allocate-same-transaction-id"
	own := state == "own" || state == "own-anon"
	if sameTx && !own {
		// no allocation: nothing to replay; another user's *valid* credentials: C03 exempts Allocate from the owner rule
		return
	}
	func() {
		defer func() {
			if e := recover(); e != nil {
				fatal = fmt.Sprint(e)
			}
		}()
		synctest.Test(t, func(*testing.T) {
			cfg := vtx.Config{Lifetime: 10 * time.Hour}
			w, err := vtx.NewWorld(cfg, []string{"c1", "c2", "c4"}, []string{"A", "B"})
			if err != nil {
				r.Violate(rep.Violation{Oracle: "harness", Signature: "harness:newworld", Detail: err.Error()})

				return
			}
			defer w.Close()
			x := &vtx.Exec{W: w, M: vtx.NewModel(cfg), Chans: []uint16{0x4000, 0x4001}}
			cn := "c1"
			if state == "own-anon" {
				cn = "c4" // the allocation's owner has the empty user id
			}
			c1 := w.C[cn]
			setup := []vtx.Event{}
			if state != "none" {
				setup = append(setup, vtx.Event{K: "alloc", C: cn, L: -1, FixTx: allocTx}, vtx.Event{K: "perm", C: cn, Peers: []string{"A"}, L: -1},
					vtx.Event{K: "chan", C: cn, N: 0x4000, Peers: []string{"A"}, L: -1})
			} else {
				// obtain a nonce
				c1.Request(wire.Refresh, nil, nil)
			}
			for _, ev := range setup {
				if v := x.Apply(ev); v != nil {
					r.Violate(rep.Violation{Oracle: "harness", Signature: "harness:setup:" + v.Sig, Detail: v.Detail})

					return
				}
			}
			// the presenting identity: own user, or the other user with VALID credentials of its own
			user, pass := c1.User, c1.Pass
			if state == "other-user" {
				user, pass = "u2", vtx.Users["u2"]
			}
			if state == "other-user-case" {
				user, pass = "U1", vtx.Users["U1"] // a different account whose name differs from the owner's in letter case only
			}
			nonce := c1.Nonce
			for _, d := range defects(nonce) {
				if otherUser(state) && !d.valid {
					continue // the other-user column is the defect itself
				}
				if sameTx && d.valid && own {
					continue // the genuine retransmission (idempotent success) is C19's subject
				}
				if d.valid && !otherUser(state) && (!ms.needsAlloc || own) && !(ms.method == wire.Allocate && own) {
					continue // the legitimate request is sent last (it changes state)
				}
				label := fmt.Sprintf("udp/%s/%s/%s", state, ms.name, d.name)
				if otherUser(state) {
					label = fmt.Sprintf("udp/%s/%s/valid-credentials-of-another-user", state, ms.name)
				}
				r.Evaluations++
				gen0 := w.GenCalls
				tx := w.NextTx()
				if sameTx {
					tx = [12]byte{}
					copy(tx[:], allocTx)
				}
				c1.Send(build(ms.method, tx, ms.attrs, user, pass, nonce, d))
				synctest.Wait()
				var resp *wire.Msg
				for _, rx := range c1.Recv() {
					if rx.Msg != nil && rx.Msg.TxID == tx {
						resp = rx.Msg
					}
				}
				got := "silence"
				if resp != nil {
					got = fmt.Sprintf("%d/%d", resp.Class, resp.ErrorCode())
				}
				legit := false
				fail := func(sig, detail string) {
					r.Violate(rep.Violation{Oracle: "c03", Signature: sig, Detail: label + ": " + detail,
						Replay: map[string]any{"engine": "vtx-c03", "state": state, "method": ms.name, "defect": d.name}})
				}
				r.Class(fmt.Sprintf("%s/%s/%s -> %s", state, ms.name, classOf(d, state), got))
				_ = legit
				if resp != nil && resp.Class == wire.Success {
					fail("defective-credentials-accepted:"+ms.name+":"+classOf(d, state), got)

					return
				}
				if d.wantChallenge != 0 && !otherUser(state) {
					if resp == nil || resp.Class != wire.Error || resp.ErrorCode() != d.wantChallenge {
						fail(fmt.Sprintf("challenge-%d-expected:%s", d.wantChallenge, classOf(d, state)), got)
					} else {
						n, ok1 := resp.Get(wire.AttrNonce)
						rl, ok2 := resp.Get(wire.AttrRealm)
						if !ok1 || !ok2 || string(rl) != vtx.Realm || len(n) == 0 {
							fail("challenge-without-nonce-or-realm:"+classOf(d, state), got)
						} else {
							nonce = string(n) // the fresh nonce must be acceptable: used from now on
						}
					}
				}
				if w.GenCalls != gen0 {
					fail("defective-request-allocated-relay-socket:"+ms.name, "")

					return
				}
				ev := vtx.Event{K: "req", C: cn, L: -1}
				if v := x.CheckCount(ev); v != nil {
					fail("state-changed:"+ms.name+":"+classOf(d, state)+":count", v.Detail)

					return
				}
				if v := x.Sweep(ev); v != nil {
					fail("state-changed:"+ms.name+":"+classOf(d, state)+":"+v.Tag, v.Detail)

					return
				}
			}
			// finally the valid request with the latest challenge nonce must work where it should
			if !otherUser(state) && !sameTx {
				tx := w.NextTx()
				c1.Send(build(ms.method, tx, ms.attrs, c1.User, c1.Pass, nonce, defect{name: "none", mi: "ok", valid: true}))
				synctest.Wait()
				ok := false
				for _, rx := range c1.Recv() {
					if rx.Msg != nil && rx.Msg.TxID == tx && rx.Msg.Class == wire.Success {
						ok = true
					}
				}
				should := (!ms.needsAlloc || own) && !(ms.method == wire.Allocate && own)
				if should && !ok {
					r.Violate(rep.Violation{Oracle: "c03", Signature: "fresh-challenge-nonce-not-accepted:" + ms.name, Detail: state})
				}
				r.Evaluations++
			}
		})
	}()
	if fatal != "" {
		r.Violate(rep.Violation{Oracle: "fatal", Signature: "fatal:" + fatal, Detail: state + "/" + ms.name})
	}
}

func otherUser(state string) bool { return state == "other-user" || state == "other-user-case" }

func classOf(d defect, state string) string {
	if otherUser(state) {
		return "other-users-valid-credentials"
	}
	switch {
	case len(d.name) > 12 && d.name[:12] == "hmac-bitflip":
		return "hmac-bitflip"
	case len(d.name) > 14 && d.name[:14] == "hmac-truncated":
		return "hmac-truncated"
	case len(d.name) > 6 && d.name[:6] == "nonce-":
		return "nonce-mutated"
	}

	return d.name
}

func TestC03Server(t *testing.T) {
	r := rep.New("C03")
	defer r.Write()
	shard, n := rep.Shard()
	idx := 0
	for _, state := range []string{"none", "own", "own-anon", "other-user", "other-user-case"} {
		for _, ms := range udpMethods() {
			idx++
			if idx%n != shard {
				continue
			}
			runUDP(t, r, state, ms, false)
		}
	}
}

var (
	_ = simnet.New
	_ = net.IPv4
)
