package c17

import (
	"bytes"
	"fmt"
	"sync"
	"testing"
	"time"

	turn "github.com/pion/turn/v5"
	"github.com/pion/turn/v5/verif/rep"
	"github.com/pion/turn/v5/verif/wire"
)

// TestC17Concurrent: one handler value serves every listener and connection of
// a server, so its calls overlap. This part is a SAMPLING side condition (free
// running goroutines, built with -race): 8 goroutines validate distinct
// genuine credentials through ONE handler of each kind; every call must accept
// and return the long-term key of its own (username, realm, password), and the
// race detector must stay silent. The cooperative scheduler of Engine B cannot
// interleave inside a handler call (no synchronisation points there), which is
// why this is not an exhaustive part.
func TestC17Concurrent(t *testing.T) {
	r := rep.New("C17")
	defer r.Write()
	if i, _ := rep.Shard(); i != 0 {
		return
	}
	r.Extra["concurrent_part_is_sampling"] = "free-running goroutines under -race; side condition, not the deciding step"
	const secret, realm = "concurrent-secret", "pion.ly"
	for _, kind := range kinds {
		var h turn.AuthHandler
		if kind == "lt" {
			h = turn.NewLongTermAuthHandler(secret, nil)
		} else {
			h = turn.LongTermTURNRESTAuthHandler(secret, nil)
		}
		var mu sync.Mutex
		bad := map[string]int{}
		var wg sync.WaitGroup
		for g := 0; g < 8; g++ {
			wg.Add(1)
			go func() {
				defer wg.Done()
				// distinct expiry stamps per goroutine: distinct usernames and passwords
				stamp := time.Now().Add(time.Duration(g+1) * time.Hour).Unix()
				username := refUsername(kind, stamp, fmt.Sprintf("user-%d", g))
				want := wire.LongTermKey(username, realm, refPassword(secret, username))
				for i := 0; i < 3000; i++ {
					_, key, ok := h(&turn.RequestAttributes{Username: username, Realm: realm, SrcAddr: srcAddr})
					if !ok || !bytes.Equal(key, want) {
						mu.Lock()
						bad[fmt.Sprintf("ok=%v key-matches=%v", ok, bytes.Equal(key, want))]++
						mu.Unlock()
					}
				}
			}()
		}
		wg.Wait()
		r.Evaluations += 8 * 3000
		for k, n := range bad {
			r.Violate(rep.Violation{Oracle: "c17-concurrent", Signature: "concurrent:genuine-credential-mishandled-under-overlapping-calls:" + kind,
				Detail: fmt.Sprintf("%d calls answered %s", n, k)})
		}
		r.Class("concurrent " + kind + " -> every overlapping call accepted with its own key")
	}
}
