package c17

import (
	"fmt"
	"net"
	"sort"
	"testing"
	"testing/synctest"
	"time"

	turn "github.com/pion/turn/v5"
	"github.com/pion/turn/v5/verif/rep"
	"github.com/pion/turn/v5/verif/simnet"
	"github.com/pion/turn/v5/verif/vtx"
	"github.com/pion/turn/v5/verif/wire"
)

var (
	srvAddr  = &net.UDPAddr{IP: net.IPv4(10, 0, 0, 1).To4(), Port: 3478}
	relayIP  = net.IPv4(10, 9, 0, 1).To4()
	clientIP = net.IPv4(10, 0, 0, 2).To4()
)

type e2eCase struct {
	baseCase
	Dur       string `json:"dur"`
	PhaseMs   int64  `json:"phase_ms"`
	Stamp     int64  `json:"expected_stamp"`
	Username  string `json:"username"`
	Password  string `json:"password"`
	AtNs      int64  `json:"at_unix_ns,omitempty"`
	Presented string `json:"presented,omitempty"`
}

type world struct {
	nw   *simnet.Net
	srv  *turn.Server
	sock []*simnet.UDPSock
	txc  uint32
	last *granted // the Allocate most recently answered with success
}

func newWorld(realm string, h turn.AuthHandler) (*world, error) {
	w := &world{nw: simnet.New()}
	w.nw.LogOff = true
	s, err := w.nw.ListenUDP("udp4", srvAddr)
	if err != nil {
		return nil, err
	}
	w.srv, err = turn.NewServer(turn.ServerConfig{
		Realm:         realm,
		AuthHandler:   h,
		LoggerFactory: vtx.QuietFactory{},
		PacketConnConfigs: []turn.PacketConnConfig{{
			PacketConn: s,
			RelayAddressGenerator: &turn.RelayAddressGeneratorStatic{
				RelayAddress: relayIP, Address: "10.9.0.1", Net: w.nw.Transport(),
			},
		}},
	})
	if err != nil {
		_ = s.Close()

		return nil, err
	}
	synctest.Wait()

	return w, nil
}

func (w *world) close() {
	_ = w.srv.Close()
	synctest.Wait()
	for _, s := range w.sock {
		_ = s.Close()
	}
	synctest.Wait()
}

func (w *world) tx() [12]byte {
	w.txc++
	var tx [12]byte
	copy(tx[:], fmt.Sprintf("c17-%08d", w.txc))

	return tx
}

// exchange sends one datagram from a client socket and returns the response
// with the same transaction id (nil = silence).
func (w *world) exchange(s *simnet.UDPSock, tx [12]byte, b []byte) *wire.Msg {
	_, _ = s.WriteTo(b, srvAddr)
	synctest.Wait()
	var out *wire.Msg
	for _, d := range s.Drain() {
		m, err := wire.Parse(d.Data)
		if err == nil && m.TxID == tx && out == nil {
			out = m
		}
	}

	return out
}

// allocate performs the two-step long-term-credential Allocate from a fresh
// client socket: unauthenticated request -> 401 with REALM and NONCE ->
// request signed with the key of the presented password. Returns the outcome
// text ("success", "error NNN", "silence", ...) and the final response.
func (w *world) allocate(username, password string, wantRealm string) (string, *wire.Msg) {
	s, err := w.nw.ListenUDP("udp4", &net.UDPAddr{IP: clientIP, Port: 4000 + len(w.sock)})
	if err != nil {
		return "harness:" + err.Error(), nil
	}
	w.sock = append(w.sock, s)
	tx := w.tx()
	ch := w.exchange(s, tx, wire.New(wire.Allocate, wire.Request, tx).U32(wire.AttrRequestedTransport, 17<<24).Bytes())
	if ch == nil || ch.Class != wire.Error || ch.ErrorCode() != 401 {
		return "harness:no-401-challenge", ch
	}
	nonce, _ := ch.Get(wire.AttrNonce)
	realm, okR := ch.Get(wire.AttrRealm)
	if !okR || string(realm) != wantRealm {
		return fmt.Sprintf("harness:challenge-realm=%q", realm), ch
	}
	tx = w.tx()
	raw := signedAllocate(tx, username, string(realm), string(nonce), password)
	resp := w.exchange(s, tx, raw)
	if resp != nil && resp.Method == wire.Allocate && resp.Class == wire.Success {
		w.last = &granted{s: s, tx: tx, raw: raw, nonce: string(nonce), realm: string(realm), user: username}
	}
	switch {
	case resp == nil:
		return "silence", nil
	case resp.Method == wire.Allocate && resp.Class == wire.Success:
		if _, ok := resp.XorAddr(wire.AttrXORRelayedAddress); !ok {
			return "success-without-relayed-address", resp
		}
		if password != emptyKeyPassword && !resp.CheckIntegrity(wire.LongTermKey(username, string(realm), password)) {
			return "success-with-bad-integrity", resp
		}

		return "success", resp
	case resp.Class == wire.Error:
		return fmt.Sprintf("error %d", resp.ErrorCode()), resp
	}

	return "other", resp
}

// granted remembers the Allocate that was last answered with success: socket, transaction id, datagram.
type granted struct {
	s                  *simnet.UDPSock
	tx                 [12]byte
	raw                []byte
	nonce, realm, user string
}

// again sends an Allocate with the transaction id of the granted one from the same socket (what a
// retransmission looks like to the server) and classifies the answer.
func (w *world) again(g *granted, raw []byte) string {
	resp := w.exchange(g.s, g.tx, raw)
	switch {
	case resp == nil:
		return "silence"
	case resp.Class == wire.Success:
		return "success"
	case resp.Class == wire.Error:
		return fmt.Sprintf("error %d", resp.ErrorCode())
	}

	return "other"
}

// TestC17EndToEnd: a real turn.Server on simnet whose AuthHandler is the
// handler under test; an Allocate signed with the generated credentials
// succeeds at every probed instant t with t.Unix() <= stamp (among them one
// second before the exact expiry) and is refused at every later one (among
// them one second after). Also one forged request per world.
func TestC17EndToEnd(t *testing.T) {
	r := rep.New("C17")
	defer r.Write()
	si, sn := rep.Shard()
	lc := localClasses{}
	defer lc.flush(r)
	bases := baseCases()
	r.Bound = len(bases)
	done := true
	phases := phases
	if rep.Thorough() {
		phases = thoroughPhases
	}
outer:
	for bi := si; bi < len(bases); bi += sn {
		b := bases[bi]
		for _, d := range durs {
			for _, ph := range phases {
				if r.OverBudget("e2e") {
					done = false

					break outer
				}
				gns := genBase*1e9 + int64(ph)
				ens := gns + int64(d)
				stamp := floorDiv(ens, 1e9)
				ec := e2eCase{baseCase: b, Dur: d.String(), PhaseMs: ph.Milliseconds(), Stamp: stamp}
				rep.Current(ec)
				c, pan := genAt(t, b.Kind, b.Secret, b.User, d, gns)
				if pan != "" || c.Err != "" {
					r.Violate(rep.Violation{Oracle: "generator", Signature: "gen-error:" + b.Kind, Detail: pan + c.Err, Replay: ec})

					continue
				}
				ec.Username, ec.Password = c.User, c.Pass
				set := map[int64]bool{
					ens - 1e9: true, ens + 1e9: true, // one second before / after the exact expiry
					(stamp - 1) * 1e9: true, stamp * 1e9: true, stamp*1e9 + 999e6: true,
					(stamp + 1) * 1e9: true, (stamp + 2) * 1e9: true,
				}
				var ats []int64
				for v := range set {
					ats = append(ats, v)
				}
				sort.Slice(ats, func(i, j int) bool { return ats[i] < ats[j] })
				ats = reachable(ats)
				pan = bubble(t, func() {
					if len(ats) > 0 && ats[0]-time.Now().UnixNano() > int64(time.Second) {
						time.Sleep(850 * time.Millisecond) // the server (and its handler) starts at no whole second
					}
					w, err := newWorld(b.Realm, handler(b.Kind, b.Secret))
					if err != nil {
						r.Violate(rep.Violation{Oracle: "harness", Signature: "harness:newserver", Detail: err.Error(), Replay: ec})

						return
					}
					defer w.close()
					var first *granted
					for i, at := range ats {
						sleepTo(at)
						now := time.Now()
						ec.AtNs, ec.Presented = at, "genuine"
						out, _ := w.allocate(c.User, c.Pass, b.Realm)
						r.Evaluations++
						want := now.Unix() <= stamp
						rel := "unexpired"
						if !want {
							rel = "expired"
						}
						lc[fmt.Sprintf("e2e:%s|%s|%s|%s", b.Kind, durClass(d), rel, out)]++
						switch {
						case len(out) > 8 && out[:8] == "harness:":
							r.Violate(rep.Violation{Oracle: "harness", Signature: out, Replay: ec})
						case want && out != "success":
							r.Violate(rep.Violation{Oracle: "Allocate with unexpired generated credentials succeeds",
								Signature: "e2e:unexpired-refused:" + b.Kind + ":" + out,
								Detail:    fmt.Sprintf("at unix %d (%+dms from exact expiry), stamp %d: %s", now.Unix(), (at-ens)/1e6, stamp, out), Replay: ec})
						case !want && (out == "success" || out[:5] != "error"):
							r.Violate(rep.Violation{Oracle: "Allocate with expired credentials is refused with an error response",
								Signature: "e2e:expired-not-refused:" + b.Kind + ":" + out,
								Detail:    fmt.Sprintf("at unix %d (%+dms from exact expiry), stamp %d: %s", now.Unix(), (at-ens)/1e6, stamp, out), Replay: ec})
						}
						if !want && first != nil {
							// the very datagram that was granted while the credential was valid, sent again now that it has
							// expired (same socket, same transaction id: a retransmission to the server's eyes)
							ec.Presented = "replay-of-the-granted-allocate-after-expiry"
							out := w.again(first, first.raw)
							r.Evaluations++
							lc[fmt.Sprintf("e2e-replay:%s|%s|%s", b.Kind, durClass(d), out)]++
							if out == "success" {
								r.Violate(rep.Violation{Oracle: "an expired credential authenticates nothing, whatever the transaction id",
									Signature: "e2e:expired-replay-answered-with-success:" + b.Kind,
									Detail:    fmt.Sprintf("at unix %d, stamp %d: the Allocate granted earlier, re-sent with its transaction id, got %s", now.Unix(), stamp, out), Replay: ec})
							}
							first = nil
						}
						if i == 0 {
							if want && out == "success" && w.last != nil {
								first = w.last
								// the transaction id of the granted Allocate, signed with the password of another secret
								ec.Presented = "granted-transaction-id-with-pass-of-other-secret"
								o2 := w.again(first, signedAllocate(first.tx, c.User, first.realm, first.nonce, refPassword(b.Secret+"x", c.User)))
								r.Evaluations++
								lc[fmt.Sprintf("e2e-forged:%s|%s|%s", b.Kind, ec.Presented, o2)]++
								if o2 == "success" {
									r.Violate(rep.Violation{Oracle: "forged credentials are refused with an error response",
										Signature: "e2e:forged-not-refused:" + b.Kind + ":" + ec.Presented + ":" + o2, Replay: ec})
								}
							}
							// forged: right name, password of another secret; and a bumped stamp with the genuine password
							for _, f := range [][3]string{
								{"pass-of-other-secret", c.User, refPassword(b.Secret+"x", c.User)},
								{"stamp+1-with-genuine-pass", refUsername(b.Kind, stamp+1, b.User), c.Pass},
								{"plus-sign-stamp-with-genuine-pass", "+" + c.User, c.Pass},
								// usernames the handler rejects, signed with the empty key (no knowledge of the secret)
								{"expired-name-empty-key", refUsername(b.Kind, 946684000, b.User), emptyKeyPassword},
								{"non-numeric-name-empty-key", "x" + c.User, emptyKeyPassword},
								{"genuine-name-empty-key", c.User, emptyKeyPassword},
							} {
								ec.Presented = f[0]
								out, _ := w.allocate(f[1], f[2], b.Realm)
								r.Evaluations++
								lc[fmt.Sprintf("e2e-forged:%s|%s|%s", b.Kind, f[0], out)]++
								if out == "success" || len(out) < 5 || out[:5] != "error" {
									r.Violate(rep.Violation{Oracle: "forged credentials are refused with an error response",
										Signature: "e2e:forged-not-refused:" + b.Kind + ":" + f[0] + ":" + out, Replay: ec})
								}
							}
						}
					}
				})
				if pan != "" {
					r.Violate(rep.Violation{Oracle: "no-panic", Signature: "panic:e2e:" + b.Kind, Detail: pan, Replay: ec})
				}
				ec.AtNs, ec.Presented = 0, ""
				r.Sample(ec)
			}
		}
	}
	r.Exhaustive = r.Exhaustive && done
}
