package c17

import (
	"bytes"
	"fmt"
	"sort"
	"strconv"
	"testing"
	"time"

	"github.com/pion/turn/v5/verif/rep"
	"github.com/pion/turn/v5/verif/wire"
)

var alphabet = []rune{'0', '9', ':', '+', '-', 'a', ' '}

type mutant struct {
	S    string
	Kind string // sub|del|ins
}

// mutants returns every single-character substitution, deletion and insertion
// over the alphabet (by rune, so the result stays UTF-8), without duplicates
// and without the identity.
func mutants(s string) []mutant {
	rs := []rune(s)
	seen := map[string]bool{s: true}
	var out []mutant
	add := func(m []rune, kind string) {
		x := string(m)
		if !seen[x] {
			seen[x] = true
			out = append(out, mutant{x, kind})
		}
	}
	for i := range rs {
		for _, c := range alphabet {
			if rs[i] == c {
				continue
			}
			m := append([]rune(nil), rs...)
			m[i] = c
			add(m, "sub")
		}
		add(append(append([]rune(nil), rs[:i]...), rs[i+1:]...), "del")
	}
	for i := 0; i <= len(rs); i++ {
		for _, c := range alphabet {
			m := append(append(append([]rune(nil), rs[:i]...), c), rs[i:]...)
			add(m, "ins")
		}
	}

	return out
}

type mutCase struct {
	baseCase
	Dur      string `json:"dur"`
	Username string `json:"username"`
	Password string `json:"password"`
	MutUser  string `json:"presented_username"`
	MutPass  string `json:"presented_password"`
	What     string `json:"what"`
}

// usernameShape classifies a presented username for class counting only (not
// used by the oracle): a stamp as a generator writes it, some other text that
// still parses as a number ("+1", "01"), or no number at all.
func usernameShape(kind, u string) string {
	if _, ok := refStamp(kind, u); ok {
		return "canonical-stamp"
	}
	ts := u
	if kind == "rest" {
		for i := 0; i < len(u); i++ {
			if u[i] == ':' {
				ts = u[:i]

				break
			}
		}
	}
	if _, err := strconv.ParseInt(ts, 10, 64); err == nil {
		return "noncanonical-number"
	}

	return "non-numeric"
}

// judge evaluates one presented pair against a handler result.
func judge(r *rep.Report, lc localClasses, mc mutCase, secret string, now int64, ok bool, key []byte, full bool) {
	r.Evaluations++
	auth := ok && bytes.Equal(key, wire.LongTermKey(mc.MutUser, mc.Realm, mc.MutPass))
	if full {
		if e2e := authenticates(mc.MutUser, mc.Realm, mc.MutPass, ok, key); e2e != auth {
			// MD5-equal keys and HMAC verification must agree
			r.Violate(rep.Violation{Oracle: "harness", Signature: "harness:key-equality-vs-integrity-disagree", Replay: mc})
			auth = auth || e2e
		}
	}
	lg := legit(mc.Kind, secret, mc.MutUser, mc.MutPass, now)
	switch {
	case auth && !lg:
		r.Violate(rep.Violation{Oracle: "a pair no generator produces for this secret never authenticates",
			Signature: "forged-pair-authenticates:" + mc.Kind + ":" + mc.What,
			Detail:    fmt.Sprintf("presented (%q,%q) for genuine (%q,%q) authenticated", mc.MutUser, mc.MutPass, mc.Username, mc.Password),
			Replay:    mc})
	case !auth && lg:
		r.Violate(rep.Violation{Oracle: "a legitimately generated unexpired pair authenticates",
			Signature: "legit-pair-rejected:" + mc.Kind + ":" + mc.What, Replay: mc})
	}
	out := "rejected"
	if ok {
		out = "ok-but-other-key"
	}
	if auth {
		out = "authenticates(legit)"
	}
	lc[fmt.Sprintf("mut:%s|%s|user=%s|%s", mc.Kind, mc.What, usernameShape(mc.Kind, mc.MutUser), out)]++
}

// TestC17Mutations: every single-character mutation of the username, of the
// password, and (pairs) of both; plus passwords from other secrets and other
// usernames. Validation instant = generation instant (credentials fresh).
func TestC17Mutations(t *testing.T) {
	r := rep.New("C17")
	defer r.Write()
	si, sn := rep.Shard()
	lc := localClasses{}
	defer lc.flush(r)
	bases := shortBaseCases()
	mdurs := []time.Duration{time.Second, time.Hour, 100 * 24 * time.Hour}
	moreSecrets := []string{"", "s", "S", "s ", "t", secret32, secret32[:31] + "w", secret32 + secret32 + "!"}
	r.Bound = len(bases)
	done := true
	gns := genBase * 1e9
outer:
	for bi := si; bi < len(bases); bi += sn {
		b := bases[bi]
		for _, d := range mdurs {
			if r.OverBudget("mutations") {
				done = false

				break outer
			}
			mc := mutCase{baseCase: b, Dur: d.String()}
			rep.Current(mc)
			pan := bubble(t, func() {
				sleepTo(gns)
				c := generate(b.Kind, b.Secret, b.User, d)
				mc.Username, mc.Password = c.User, c.Pass
				now := time.Now().Unix()
				h := handler(b.Kind, b.Secret)
				// sanity: the genuine pair authenticates now
				mc.MutUser, mc.MutPass, mc.What = c.User, c.Pass, "genuine"
				_, key0, ok0 := call(h, c.User, b.Realm)
				judge(r, lc, mc, b.Secret, now, ok0, key0, true)

				mu, mp := mutants(c.User), mutants(c.Pass)
				// password only
				for _, p := range mp {
					mc.MutUser, mc.MutPass, mc.What = c.User, p.S, "pass-"+p.Kind
					judge(r, lc, mc, b.Secret, now, ok0, key0, true)
				}
				for _, u := range mu {
					_, key, ok := call(h, u.S, b.Realm)
					// username only
					mc.MutUser, mc.MutPass, mc.What = u.S, c.Pass, "user-"+u.Kind
					judge(r, lc, mc, b.Secret, now, ok, key, true)
					// the password an attacker without the secret could still try:
					// the reference password of the *mutated* name under other secrets
					for _, s2 := range moreSecrets {
						if s2 == b.Secret {
							continue
						}
						mc.MutPass, mc.What = refPassword(s2, u.S), "user-"+u.Kind+"+pass-of-other-secret"
						judge(r, lc, mc, b.Secret, now, ok, key, false)
					}
					// both mutated
					for _, p := range mp {
						mc.MutPass, mc.What = p.S, "both"
						judge(r, lc, mc, b.Secret, now, ok, key, rep.Thorough())
					}
				}
				// password derived from another secret (same username), both ways:
				// (a) genuine name + password under s2 against handler(secret)
				// (b) genuine pair against handler(s2)
				for _, s2 := range moreSecrets {
					if s2 == b.Secret {
						continue
					}
					mc.MutUser, mc.MutPass, mc.What = c.User, refPassword(s2, c.User), "pass-of-other-secret"
					judge(r, lc, mc, b.Secret, now, ok0, key0, true)
					h2 := handler(b.Kind, s2)
					_, key2, ok2 := call(h2, c.User, b.Realm)
					mc.MutUser, mc.MutPass, mc.What = c.User, c.Pass, "handler-of-other-secret"
					judge(r, lc, mc, s2, now, ok2, key2, true)
				}
				// password derived from another username (same secret): every other
				// user part, every other stamp nearby, and the other generator's form.
				var others []string
				st, _ := refStamp(b.Kind, c.User)
				for _, u2 := range append([]string{"x", "u2", "u:", ":u"}, users[:4]...) {
					others = append(others, refUsername("rest", st, u2))
				}
				for _, ds := range []int64{-1, 1, 10, -3600} {
					others = append(others, refUsername(b.Kind, st+ds, b.User))
				}
				others = append(others, refUsername("lt", st, ""))
				sort.Strings(others)
				for _, ou := range others {
					if ou == c.User {
						continue
					}
					// present the genuine username with the other name's password ...
					mc.MutUser, mc.MutPass, mc.What = c.User, refPassword(b.Secret, ou), "pass-of-other-username"
					judge(r, lc, mc, b.Secret, now, ok0, key0, true)
					// ... and the other username with the genuine password
					_, key, ok := call(h, ou, b.Realm)
					mc.MutUser, mc.MutPass, mc.What = ou, c.Pass, "other-username-with-genuine-pass"
					judge(r, lc, mc, b.Secret, now, ok, key, true)
				}
			})
			if pan != "" {
				r.Violate(rep.Violation{Oracle: "no-panic", Signature: "panic:mutations:" + b.Kind, Detail: pan, Replay: mc})
			}
			mc.MutUser, mc.MutPass, mc.What = "", "", ""
			r.Sample(mc)
		}
	}
	r.Exhaustive = r.Exhaustive && done
}
