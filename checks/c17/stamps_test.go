package c17

import (
	"fmt"
	"math"
	"testing"
	"time"

	"github.com/pion/turn/v5/verif/rep"
)

// Part stamps: usernames written by the holder of the shared secret for expiry
// stamps no generator call in this bubble would reach - the whole int64 range,
// and in particular stamps whose distance from "now" does not fit a
// time.Duration (|stamp-now| around 2^63 ns = 292.47 years) - each with the
// genuine password of the reference. ok <=> now.Unix() <= stamp, whatever the
// magnitude; and the generators called with the extreme durations
// (math.MinInt64, math.MaxInt64 ns) give credentials that obey the same rule.
type stampCase struct {
	baseCase
	Stamp int64  `json:"stamp"`
	AtNs  int64  `json:"at_unix_ns"`
	User_ string `json:"username"`
	Pass  string `json:"password"`
	Gen   string `json:"generated_with_duration,omitempty"`
}

func stampSet(now int64) []int64 {
	const wrap = int64(math.MaxInt64 / 1000000000) // 9223372036: the largest whole number of seconds in a time.Duration
	set := []int64{
		math.MinInt64, math.MinInt64 + 1, -(1 << 62), -1e12, now - 2*wrap, now - wrap - 2, now - wrap - 1, now - wrap, now - wrap + 1,
		-wrap - 1, -wrap, -(1 << 32), -(1 << 31) - 1, -1, 0, 1, now - 1, now, now + 1, 1 << 31, 1 << 32, wrap, wrap + 1,
		now + wrap - 1, now + wrap, now + wrap + 1, now + wrap + 2, now + 2*wrap, 1e12, 1 << 62, math.MaxInt64 - 1, math.MaxInt64,
	}
	// every power of two and its neighbours, both signs
	for s := uint(33); s < 63; s += 3 {
		set = append(set, 1<<s, -(1 << s), now+(1<<s), now-(1<<s))
	}

	return set
}

func stampClass(stamp, now int64) string {
	const wrap = int64(math.MaxInt64 / 1000000000)
	d := "near"
	switch {
	case stamp < now && (stamp < math.MinInt64+now+1 || now-stamp > wrap):
		d = "past-beyond-duration-range"
	case stamp < now:
		d = "past"
	case stamp-now > wrap || stamp-now < 0:
		d = "future-beyond-duration-range"
	case stamp > now:
		d = "future"
	}

	return d
}

func TestC17Stamps(t *testing.T) {
	r := rep.New("C17")
	defer r.Write()
	si, sn := rep.Shard()
	lc := localClasses{}
	defer lc.flush(r)
	bases := shortBaseCases()
	r.Bound = len(bases)
	done := true
	ats := []int64{epoch*1e9 + 1, genBase * 1e9, genBase*1e9 + 999e6}
outer:
	for bi := si; bi < len(bases); bi += sn {
		b := bases[bi]
		if r.OverBudget("stamps") {
			done = false

			break outer
		}
		sc := stampCase{baseCase: b}
		rep.Current(sc)
		pan := bubble(t, func() {
			h := handler(b.Kind, b.Secret)
			for _, at := range ats {
				sleepTo(at)
				now := time.Now().Unix()
				type pair struct {
					stamp      int64
					user, pass string
					gen        string
				}
				var pairs []pair
				for _, st := range stampSet(now) {
					u := refUsername(b.Kind, st, b.User)
					pairs = append(pairs, pair{st, u, refPassword(b.Secret, u), ""})
				}
				// the library's own generators with the extreme durations: whatever stamp they
				// name (time.Time.Add saturates nothing: it wraps nothing within this range), the handler
				// must apply the same rule to it
				for _, d := range []time.Duration{math.MinInt64, math.MinInt64 + 1, -math.MaxInt64, math.MaxInt64 - 1, math.MaxInt64} {
					c := generate(b.Kind, b.Secret, b.User, d)
					if c.Err != "" {
						continue
					}
					if st, ok := refStamp(b.Kind, c.User); ok && c.Pass == refPassword(b.Secret, c.User) {
						pairs = append(pairs, pair{st, c.User, c.Pass, fmt.Sprint(int64(d))})
					}
				}
				for _, p := range pairs {
					_, key, ok := call(h, p.user, b.Realm)
					r.Evaluations++
					want := now <= p.stamp
					cl := stampClass(p.stamp, now)
					lc[fmt.Sprintf("stamps:%s|%s|generated=%v|ok=%v", b.Kind, cl, p.gen != "", ok)]++
					sc.Stamp, sc.AtNs, sc.User_, sc.Pass, sc.Gen = p.stamp, at, p.user, p.pass, p.gen
					if ok != want {
						sig := "stamps:rejected-unexpired:" + b.Kind + ":" + cl
						if ok {
							sig = "stamps:accepted-expired:" + b.Kind + ":" + cl
						}
						r.Violate(rep.Violation{Oracle: "ok <=> now.Unix() <= stamp, for every int64 stamp", Signature: sig,
							Detail: fmt.Sprintf("username %q with its genuine password at unix %d: handler ok=%v", p.user, now, ok), Replay: sc})

						continue
					}
					if ok && !authenticates(p.user, b.Realm, p.pass, ok, key) {
						r.Violate(rep.Violation{Oracle: "request signed with the genuine password verifies under the returned key",
							Signature: "stamps:signed-request-rejected:" + b.Kind, Replay: sc})
					}
				}
			}
		})
		if pan != "" {
			r.Violate(rep.Violation{Oracle: "no-panic", Signature: "panic:stamps:" + b.Kind, Detail: pan, Replay: sc})
		}
		r.Sample(sc)
	}
	r.Exhaustive = r.Exhaustive && done
}
