// Package c17 checks property C17: "Time-windowed shared-secret credentials
// validate iff authentic and unexpired" for both generator/handler pairs of
// /repo/lt_cred.go (GenerateLongTermCredentials + NewLongTermAuthHandler,
// GenerateLongTermTURNRESTCredentials + LongTermTURNRESTAuthHandler).
//
// Everything runs in testing/synctest bubbles: time.Now() is virtual, starts
// at 2000-01-01 00:00:00 UTC and moves only by time.Sleep, so every generation
// and validation instant is exact to the nanosecond.
//
// The oracle is written from draft-uberti-behave-turn-rest-00 (password =
// base64(HMAC-SHA1(secret, username)), username = expiry-unix-timestamp[:user])
// and RFC 5389 §15.4 (key = MD5(username ":" realm ":" password)); it never
// calls the library to decide.
package c17

import (
	"bytes"
	"crypto/hmac"
	"crypto/sha1" //nolint:gosec
	"encoding/base64"
	"fmt"
	"net"
	"sort"
	"strconv"
	"strings"
	"testing"
	"testing/synctest"
	"time"

	"github.com/pion/stun/v3"
	turn "github.com/pion/turn/v5"
	"github.com/pion/turn/v5/verif/rep"
	"github.com/pion/turn/v5/verif/vtx"
	"github.com/pion/turn/v5/verif/wire"
)

// epoch is the start of every synctest bubble clock.
const epoch int64 = 946684800

// genBase is the second in which credentials are generated (one hour into the
// bubble so that windows around the expiry of negative durations are reachable).
const genBase = epoch + 3600

var (
	secret32 = "0123456789abcdefghijklmnopqrstuv"
	secrets  = []string{"", "s", secret32}
	// long user ids and realms: "username:realm:password" of 100 .. 500 bytes (USERNAME may be 513 bytes, REALM 763)
	users = []string{"", "u", "a:b", "üñí", strings.Repeat("u", 100), strings.Repeat("long-user-id/", 30)}
	// a realm is compared and hashed as it stands (letter case included)
	realms = []string{"", "R.Example", "pion.ly", strings.Repeat("r", 127), strings.Repeat("realm.example.", 20)}
	// the required set {-10s,-1s,0,1s,59s,1h,100d} plus sub-second durations
	// (the stamp is floor(now+duration)) and one that carries the stamp past 2^31.
	durs = []time.Duration{-10 * time.Second, -time.Second, -time.Millisecond, 0, time.Millisecond, time.Second,
		1500 * time.Millisecond, 59 * time.Second, time.Hour, 100 * 24 * time.Hour, 40 * 365 * 24 * time.Hour,
		// expiry at / just before 1970-01-01 (usernames "0" and "-1") and in 1960 (negative stamp):
		// their windows lie before the bubble clock's start, so they are probed at
		// the bubble start and at the generation instant (see reachable)
		-time.Duration(genBase) * time.Second, -time.Duration(genBase)*time.Second - time.Millisecond, -40 * 365 * 24 * time.Hour}
	phases = []time.Duration{0, 500 * time.Millisecond, 999 * time.Millisecond}
	kinds  = []string{"lt", "rest"}

	thoroughPhases = []time.Duration{0, time.Millisecond, 250 * time.Millisecond, 500 * time.Millisecond,
		750 * time.Millisecond, 998 * time.Millisecond, 999 * time.Millisecond, time.Second - time.Nanosecond}
)

// ---------------------------------------------------------------- reference

// refPassword is draft-uberti-behave-turn-rest-00 §2.2: base64(hmac-sha1(key, username)).
func refPassword(secret, username string) string {
	m := hmac.New(sha1.New, []byte(secret))
	m.Write([]byte(username)) //nolint:errcheck

	return base64.StdEncoding.EncodeToString(m.Sum(nil))
}

// refUsername is the username the generator of the given kind has to produce
// for an expiry stamp.
func refUsername(kind string, stamp int64, user string) string {
	if kind == "lt" {
		return strconv.FormatInt(stamp, 10)
	}

	return strconv.FormatInt(stamp, 10) + ":" + user
}

// refStamp parses a presented username the way the *reference* reads it: a
// canonical decimal unix timestamp (as a generator writes it), for the REST
// form followed by ':' and an arbitrary user part. ok=false: not a username any
// generator would produce.
func refStamp(kind, username string) (int64, bool) {
	ts := username
	if kind == "rest" {
		i := strings.IndexByte(username, ':')
		if i < 0 {
			return 0, false
		}
		ts = username[:i]
	}
	v, err := strconv.ParseInt(ts, 10, 64)
	if err != nil || strconv.FormatInt(v, 10) != ts {
		return 0, false
	}

	return v, true
}

// legit reports whether (username, password) is a pair the generator of this
// kind legitimately produces for secret and is unexpired at unix second now.
func legit(kind, secret, username, password string, now int64) bool {
	st, ok := refStamp(kind, username)

	return ok && password == refPassword(secret, username) && now <= st
}

func floorDiv(a, b int64) int64 {
	q := a / b
	if a%b != 0 && (a < 0) != (b < 0) {
		q--
	}

	return q
}

// ---------------------------------------------------------------- library access

type cred struct {
	User, Pass string
	Err        string
}

func generate(kind, secret, user string, d time.Duration) cred {
	var u, p string
	var err error
	if kind == "lt" {
		u, p, err = turn.GenerateLongTermCredentials(secret, d)
	} else {
		u, p, err = turn.GenerateLongTermTURNRESTCredentials(secret, user, d)
	}
	c := cred{User: u, Pass: p}
	if err != nil {
		c.Err = err.Error()
	}

	return c
}

func handler(kind, secret string) turn.AuthHandler {
	if kind == "lt" {
		return turn.NewLongTermAuthHandler(secret, vtx.Quiet{})
	}

	return turn.LongTermTURNRESTAuthHandler(secret, vtx.Quiet{})
}

var srcAddr = &net.UDPAddr{IP: net.IPv4(10, 0, 0, 2).To4(), Port: 4000}

// methods: the verdict of the time-windowed handlers does not depend on the request method.
var methods = []stun.Method{stun.MethodAllocate, stun.MethodRefresh, stun.MethodCreatePermission, stun.MethodChannelBind,
	stun.MethodConnect, stun.MethodConnectionBind, stun.MethodBinding}

// call asks the handler with Method unset and with every request method; when a method gets another answer
// than the unset one, that answer is returned (so that whichever oracle it offends reports it).
func call(h turn.AuthHandler, username, realm string) (uid string, key []byte, ok bool) {
	uid, key, ok = h(&turn.RequestAttributes{Username: username, Realm: realm, SrcAddr: srcAddr})
	for _, m := range methods {
		u2, k2, ok2 := h(&turn.RequestAttributes{Username: username, Realm: realm, SrcAddr: srcAddr, Method: m})
		if ok2 != ok || u2 != uid || !bytes.Equal(k2, key) {
			return u2, k2, ok2
		}
	}

	return uid, key, ok
}

// ---------------------------------------------------------------- bubbles

// bubble runs f in a fresh synctest bubble; a panic (of the code under test or
// a leaked goroutine) is returned as text.
func bubble(t *testing.T, f func()) (panicked string) {
	t.Helper()
	defer func() {
		if e := recover(); e != nil {
			panicked = fmt.Sprint(e)
		}
	}()
	synctest.Test(t, func(*testing.T) {
		if time.Now().UnixNano() != epoch*1e9 {
			panic(fmt.Sprintf("harness: bubble clock starts at %v", time.Now().UTC()))
		}
		f()
	})

	return ""
}

// sleepTo advances the bubble clock to the absolute instant ns (unix nanos).
func sleepTo(ns int64) {
	d := ns - time.Now().UnixNano()
	if d < 0 {
		panic(fmt.Sprintf("harness: instant %d is in the past", ns))
	}
	if d > 0 {
		time.Sleep(time.Duration(d))
	}
}

// genAt generates credentials in their own bubble at the exact instant gns.
func genAt(t *testing.T, kind, secret, user string, d time.Duration, gns int64) (c cred, panicked string) {
	panicked = bubble(t, func() {
		sleepTo(gns)
		c = generate(kind, secret, user, d)
	})

	return c, panicked
}

// ---------------------------------------------------------------- shared helpers

type baseCase struct {
	Kind, Secret, User, Realm string
}

// baseCases enumerates kind x secret x user x realm; the plain generator has
// no user part, so its user dimension collapses to one value.
func baseCases() []baseCase { return baseCasesOf(users, realms) }

// shortBaseCases leaves the long user ids / realms out (the mutation part's cost is quadratic in their length).
func shortBaseCases() []baseCase { return baseCasesOf(users[:4], realms[:3]) }

func baseCasesOf(users, realms []string) []baseCase {
	var out []baseCase
	for _, k := range kinds {
		for _, s := range secrets {
			for _, u := range users {
				if k == "lt" && u != users[0] {
					continue
				}
				for _, r := range realms {
					out = append(out, baseCase{k, s, u, r})
				}
			}
		}
	}

	return out
}

func durClass(d time.Duration) string {
	// the stamp ranges matter as much as the sign: "0", negative numbers and
	// numbers beyond 2^31 are all usernames a generator writes
	stamp := floorDiv(genBase*1e9+int64(d), 1e9)
	s := ""
	switch {
	case stamp < 0:
		s = ",stamp<0"
	case stamp == 0:
		s = ",stamp=0"
	case stamp > 1<<31:
		s = ",stamp>2^31"
	}
	switch {
	case d < 0:
		return "dur<0" + s
	case d == 0:
		return "dur=0" + s
	}

	return "dur>0" + s
}

var tx0 = [12]byte{'c', '1', '7', 0, 0, 0, 0, 0, 0, 0, 0, 1}

// signedAllocate builds a real Allocate request carrying username/realm and
// signed with the long-term key derived from the *presented* password.
// emptyKeyPassword marks a request that is signed with the empty HMAC key: what a
// client that knows no secret at all can compute.
const emptyKeyPassword = "\x00sign-with-the-empty-key"

func signedAllocate(tx [12]byte, username, realm, nonce, password string) []byte {
	key := wire.LongTermKey(username, realm, password)
	if password == emptyKeyPassword {
		key = nil
	}

	return wire.New(wire.Allocate, wire.Request, tx).
		U32(wire.AttrRequestedTransport, 17<<24).
		Str(wire.AttrUsername, username).
		Str(wire.AttrRealm, realm).
		Str(wire.AttrNonce, nonce).
		Integrity(key).Bytes()
}

// authenticates is the end-to-end judgement: does a request signed with the
// presented password verify under the key the handler returned.
func authenticates(username, realm, password string, ok bool, key []byte) bool {
	if !ok {
		return false
	}
	m, err := wire.Parse(signedAllocate(tx0, username, realm, "n", password))
	if err != nil {
		panic("harness: " + err.Error())
	}

	return m.CheckIntegrity(key)
}

type localClasses map[string]int64

func (l localClasses) flush(r *rep.Report) {
	keys := make([]string, 0, len(l))
	for k := range l {
		keys = append(keys, k)
	}
	sort.Strings(keys)
	for _, k := range keys {
		r.Classes[k] += l[k]
	}
}

// ---------------------------------------------------------------- part 1: handlers over the expiry window

type winCase struct {
	baseCase
	Dur     string `json:"dur"`
	PhaseMs int64  `json:"phase_ms"`
	GenNs   int64  `json:"gen_unix_ns"`
	Stamp   int64  `json:"expected_stamp"`
	User_   string `json:"username"`
	Pass    string `json:"password"`
	AtNs    int64  `json:"at_unix_ns,omitempty"`
}

// instants returns every second boundary b in [stamp-3, stamp+4] with b-1ms,
// b, b+1ms, plus the exact expiry instant e and e-1ms, e+1ms, ascending.
func instants(stamp, ens int64) []int64 {
	set := map[int64]bool{ens - 1e6: true, ens: true, ens + 1e6: true}
	lo, hi := int64(-3), int64(4)
	if rep.Thorough() {
		lo, hi = -30, 31
	}
	for k := lo; k <= hi; k++ {
		b := (stamp + k) * 1e9
		set[b-1e6], set[b], set[b+1e6] = true, true, true
	}
	out := make([]int64, 0, len(set))
	for v := range set {
		out = append(out, v)
	}
	sort.Slice(out, func(i, j int) bool { return out[i] < out[j] })

	return reachable(out)
}

// reachable drops instants before the start of the bubble clock; when nothing
// is left (expiry decades in the past) the probes are the bubble start, one
// hour in, and just after.
func reachable(ats []int64) []int64 {
	var out []int64
	for _, a := range ats {
		if a >= epoch*1e9 {
			out = append(out, a)
		}
	}
	if len(out) == 0 {
		out = []int64{epoch * 1e9, epoch*1e9 + 1, genBase * 1e9, genBase*1e9 + 999e6}
	}

	return out
}

func TestC17Handlers(t *testing.T) {
	r := rep.New("C17")
	defer r.Write()
	si, sn := rep.Shard()
	lc := localClasses{}
	defer lc.flush(r)
	bases := baseCases()
	r.Bound = len(bases)
	done := true
	phases := phases
	if rep.Thorough() {
		phases = thoroughPhases
	}
outer:
	for bi := si; bi < len(bases); bi += sn {
		b := bases[bi]
		for _, d := range durs {
			for _, ph := range phases {
				if r.OverBudget("handlers") {
					done = false

					break outer
				}
				gns := genBase*1e9 + int64(ph)
				ens := gns + int64(d)       // exact expiry instant
				stamp := floorDiv(ens, 1e9) // expiry at unix-second granularity
				wc := winCase{baseCase: b, Dur: d.String(), PhaseMs: ph.Milliseconds(), GenNs: gns, Stamp: stamp}
				rep.Current(wc)
				c, pan := genAt(t, b.Kind, b.Secret, b.User, d, gns)
				wc.User_, wc.Pass = c.User, c.Pass
				if pan != "" {
					r.Violate(rep.Violation{Oracle: "no-panic", Signature: "panic:generate:" + b.Kind, Detail: pan, Replay: wc})

					continue
				}
				r.Evaluations++
				if c.Err != "" {
					r.Violate(rep.Violation{Oracle: "generator", Signature: "gen-error:" + b.Kind, Detail: c.Err, Replay: wc})

					continue
				}
				// The generator must name the expiry instant now+duration (unix
				// seconds) in the username and derive the password per the draft.
				if want := refUsername(b.Kind, stamp, b.User); c.User != want {
					r.Violate(rep.Violation{Oracle: "generator-username", Signature: "gen-username:" + b.Kind,
						Detail: fmt.Sprintf("username %q, reference %q", c.User, want), Replay: wc})

					continue
				}
				if want := refPassword(b.Secret, c.User); c.Pass != want {
					r.Violate(rep.Violation{Oracle: "generator-password", Signature: "gen-password:" + b.Kind,
						Detail: fmt.Sprintf("password %q, reference %q", c.Pass, want), Replay: wc})

					continue
				}
				wantKey := wire.LongTermKey(c.User, b.Realm, c.Pass)
				pan = bubble(t, func() {
					// the handler is built at an instant that is no whole second (a server starts whenever it starts)
					insts := instants(stamp, ens)
					if len(insts) > 0 && insts[0]-time.Now().UnixNano() > int64(time.Second) {
						time.Sleep(850 * time.Millisecond)
					}
					h := handler(b.Kind, b.Secret)
					if b.Kind == "rest" && strings.Contains(c.User, ":") {
						// a REST credential ("<timestamp>:<user id>") is no credential of the plain handler, whose user
						// names are timestamps and nothing else: it does not authenticate there, whatever the time
						uid, key, ok := call(handler("lt", b.Secret), c.User, b.Realm)
						r.Evaluations++
						lc[fmt.Sprintf("cross:rest-credential-at-plain-handler|ok=%v", ok)]++
						if authenticates(c.User, b.Realm, c.Pass, ok, key) {
							r.Violate(rep.Violation{Oracle: "a username with a non-numeric timestamp never authenticates", Signature: "cross:rest-credential-authenticates-at-the-plain-handler",
								Detail: fmt.Sprintf("username %q: ok=%v user id %q", c.User, ok, uid), Replay: wc})
						}
					}
					for _, at := range insts {
						sleepTo(at)
						now := time.Now()
						if now.UnixNano() != at {
							panic("harness: clock did not land on instant")
						}
						uid, key, ok := call(h, c.User, b.Realm)
						r.Evaluations++
						want := now.Unix() <= stamp // accepted at every instant up to (the second of) its expiry, at none after
						rel := "at-stamp-second"
						switch {
						case now.Unix() < stamp:
							rel = "before"
						case now.Unix() > stamp:
							rel = "after"
						case at > ens:
							rel = "at-stamp-second,after-exact-expiry"
						}
						lc[fmt.Sprintf("window:%s|%s|%s|ok=%v", b.Kind, durClass(d), rel, ok)]++
						wc.AtNs = at
						if ok != want {
							sig := "window:rejected-unexpired:" + b.Kind
							if ok {
								sig = "window:accepted-expired:" + b.Kind
							}
							r.Violate(rep.Violation{Oracle: "ok <=> now.Unix() <= floor(gen+duration)", Signature: sig,
								Detail: fmt.Sprintf("at %s (unix %d, %+dms from exact expiry) handler ok=%v, stamp %d",
									now.UTC().Format("15:04:05.000"), now.Unix(), (at-ens)/1e6, ok, stamp), Replay: wc})

							continue
						}
						if !ok {
							continue
						}
						if !bytes.Equal(key, wantKey) {
							r.Violate(rep.Violation{Oracle: "key == MD5(username:realm:password)", Signature: "key-mismatch:" + b.Kind,
								Detail: fmt.Sprintf("key %x want %x", key, wantKey), Replay: wc})

							continue
						}
						if !authenticates(c.User, b.Realm, c.Pass, ok, key) {
							r.Violate(rep.Violation{Oracle: "request signed with the generated password verifies under the returned key",
								Signature: "signed-request-rejected:" + b.Kind, Replay: wc})
						}
						// Observation only (the property statement does not speak about
						// the user id): is it the user part of the username?
						wantUID := c.User
						if b.Kind == "rest" {
							wantUID = b.User
						}
						if uid == wantUID {
							lc["userid:"+b.Kind+":is-user-part"]++
						} else {
							lc["userid:"+b.Kind+":differs-from-user-part(user contains ':')"]++
						}
					}
				})
				if pan != "" {
					r.Violate(rep.Violation{Oracle: "no-panic", Signature: "panic:handler:" + b.Kind, Detail: pan, Replay: wc})
				}
				wc.AtNs = 0
				r.Sample(wc)
			}
		}
	}
	r.Exhaustive = r.Exhaustive && done
	if si == 0 {
		r.Note("user id: LongTermTURNRESTAuthHandler returns fields[1] of strings.Split(username, \":\"), so for user \"a:b\" the user id is \"a\"; counted as a class, not a violation (the property statement does not constrain the user id)")
	}
}
