package c12

import (
	"encoding/json"
	"fmt"
	"os"
	"strings"
	"testing"
	"testing/synctest"
	"time"

	"github.com/pion/turn/v5/verif/rep"
)

// Case is one point of the fault product for a single transaction.
type Case struct {
	RTOms  int    `json:"rto_ms"` // 0 = library default
	Mask   int    `json:"mask"`   // bit i-1: the server answers transmission i
	Delay  string `json:"delay"`  // imm | quarter | half | pre (next timer -1ns) | post (next timer +1ns) | afterfail
	Noise  string `json:"noise"`
	WErr   int    `json:"werr"`  // transmission whose WriteTo fails (0 = none)
	Close  string `json:"close"` // never | pre-start | before-answer | after-tx k | with-timer k | with-response | with-response-rev
	CloseK int    `json:"close_k,omitempty"`
}

func (c Case) String() string {
	return fmt.Sprintf("rto=%dms mask=%07b delay=%s noise=%s werr=%d close=%s/%d", c.RTOms, c.Mask, c.Delay, c.Noise, c.WErr, c.Close, c.CloseK)
}

var noises = []string{"none", "wrongid-first", "dup", "stale-first", "nonstun-server", "nonstun-other", "othersrc-first"}

type plan struct {
	rto   int
	mask  int
	delay string
	noise string
}

func lowest(mask int) int {
	for i := 1; i <= maxSends; i++ {
		if mask&(1<<(i-1)) != 0 {
			return i
		}
	}

	return 0
}

// plans lists the outermost loop: RTO x answer plan x delay x noise.
func plans(thorough bool) []plan {
	rtos := []int{0, 100, 200, 300, 400, 800, 1000, 1600} // 300 and 1000 are not of the form 1600/2^k: the doubling crosses the cap between two values
	delays := []string{"imm", "half", "pre", "post"}
	var masks []int
	for i := 1; i <= maxSends; i++ { // quick: one answered transmission, or two (the second answer is a late duplicate)
		masks = append(masks, 1<<(i-1))
	}
	for i := 1; i <= maxSends; i++ {
		for j := i + 1; j <= maxSends; j++ {
			masks = append(masks, 1<<(i-1)|1<<(j-1))
		}
	}
	if thorough {
		rtos = []int{0, 1, 50, 100, 200, 400, 799, 800, 801, 1000, 1599, 1600}
		delays = []string{"imm", "quarter", "half", "pre", "post"}
		masks = masks[:0]
		for m := 1; m < 1<<maxSends; m++ { // every subset of answered (= not lost) transmissions
			masks = append(masks, m)
		}
	}
	var out []plan
	for _, noise := range noises {
		// the server never answers: the noise (if any) arrives at the slot of transmission 1
		if noise == "none" {
			for _, r := range rtos {
				out = append(out, plan{r, 0, "imm", noise})
			}
		} else if noise != "dup" && noise != "othersrc-first" { // those two contain a matching response
			for _, d := range append(append([]string{}, delays...), "afterfail") {
				for _, r := range rtos {
					out = append(out, plan{r, 0, d, noise})
				}
			}
		}
		for _, m := range masks {
			for _, d := range delays {
				for _, r := range rtos {
					out = append(out, plan{r, m, d, noise})
				}
			}
		}
		// a response that arrives only after the final failure: the transmission index is immaterial
		for _, r := range rtos {
			out = append(out, plan{r, 1 << (maxSends - 1), "afterfail", noise})
		}
	}

	return out
}

type closePlan struct {
	kind string
	k    int
}

func closePlans(p plan) []closePlan {
	cs := []closePlan{{"never", 0}, {"pre-start", 0}}
	for k := 1; k <= maxSends; k++ {
		cs = append(cs, closePlan{"after-tx", k})
	}
	for k := 2; k <= maxSends+1; k++ { // Close() racing with the timer of transmission k (8: of the final failure)
		cs = append(cs, closePlan{"with-timer", k})
	}
	if p.mask != 0 || p.noise != "none" { // needs a datagram to be before / concurrent with
		cs = append(cs, closePlan{"before-answer", 0}, closePlan{"with-response", 0}, closePlan{"with-response-rev", 0})
	}

	return cs
}

type datagram struct {
	from   string // "srv" | "oth"
	data   []byte
	marker int // >0: a response carrying the transaction's own id
}

// script turns a case into harness actions and into the events the reference
// model needs. Everything is relative to the start of the transaction (0).
func script(c Case, main, warm [12]byte) (items []item, evs []hEv, end time.Duration) {
	rto := effRTO(c.RTOms)
	s, fail := sendTimes(0, rto)
	first := lowest(c.Mask)
	hasSlot := first != 0 || c.Noise != "none"
	slotI := first
	if slotI == 0 {
		slotI = 1
	}
	tFirst := slot(slotI, c.Delay, 0, rto)

	// --- datagrams of the first slot
	var firstBatch []datagram
	switch c.Noise {
	case "wrongid-first":
		// two success responses whose ids differ from the request's in a single bit (first / last byte)
		w1, w2 := main, main
		w1[0] ^= 0x80
		w2[11] ^= 0x01
		firstBatch = append(firstBatch, datagram{"srv", response(w1, 400), 0}, datagram{"srv", response(w2, 401), 0})
	case "stale-first":
		firstBatch = append(firstBatch, datagram{"srv", response(warm, 500), 0})
	case "nonstun-server":
		firstBatch = append(firstBatch, datagram{"srv", []byte("\xff\xfenot a STUN message, 27 B"), 0})
	case "nonstun-other":
		firstBatch = append(firstBatch, datagram{"oth", []byte("\xff\xfenot a STUN message, 27 B"), 0})
	case "othersrc-first":
		firstBatch = append(firstBatch, datagram{"oth", response(main, 300), 300})
	}
	if first != 0 {
		firstBatch = append(firstBatch, datagram{"srv", response(main, 100+first), 100 + first})
		if c.Noise == "dup" {
			firstBatch = append(firstBatch, datagram{"srv", response(main, 200+first), 200 + first})
		}
	}
	send := func(d datagram) func(w *world) {
		return func(w *world) {
			from := srvAddr
			if d.from == "oth" {
				from = othAddr
			}
			w.deliver(from, d.data)
		}
	}
	conc := strings.HasPrefix(c.Close, "with-response")
	if hasSlot {
		firstMarker := 0
		for _, d := range firstBatch {
			if d.marker != 0 {
				firstMarker = d.marker

				break
			}
		}
		if conc {
			batch := firstBatch
			items = append(items, item{at: tFirst, prio: prioDeliver, name: "deliver+close", fn: func(w *world) {
				if c.Close == "with-response-rev" {
					go w.cl.Close()
				}
				for _, d := range batch {
					send(d)(w)
				}
				if c.Close == "with-response" {
					go w.cl.Close()
				}
				w.closed = true
			}})
			if firstMarker != 0 {
				evs = append(evs, hEv{at: tFirst, prio: prioDeliver, kind: evConc, marker: firstMarker})
			} else {
				evs = append(evs, hEv{at: tFirst, prio: prioDeliver, kind: evClose})
			}
		} else {
			for n, d := range firstBatch {
				items = append(items, item{at: tFirst, prio: prioDeliver + n, name: "deliver", fn: send(d)})
				if d.marker != 0 {
					evs = append(evs, hEv{at: tFirst, prio: prioDeliver + n, kind: evResp, marker: d.marker})
				}
			}
		}
	}
	// --- answers to the other transmissions of the mask
	for i := first + 1; i <= maxSends && first != 0; i++ {
		if c.Mask&(1<<(i-1)) == 0 {
			continue
		}
		t := slot(i, c.Delay, 0, rto)
		d := datagram{"srv", response(main, 100+i), 100 + i}
		items = append(items, item{at: t, prio: prioDeliver, name: "deliver", fn: send(d)})
		evs = append(evs, hEv{at: t, prio: prioDeliver, kind: evResp, marker: d.marker})
	}
	// --- write error
	arm := func(w *world) { w.cs.WriteErr, w.cs.WriteErrOnce = errInjected, true }
	switch {
	case c.WErr == 1:
		items = append(items, item{at: 0, prio: prioArmFirst, name: "arm-werr", fn: arm})
	case c.WErr > 1:
		items = append(items, item{at: s[c.WErr-1], prio: prioArm, name: "arm-werr", fn: arm})
	}
	// --- Close
	cl := func(where string) func(w *world) { return func(w *world) { w.closeClient(where) } }
	switch c.Close {
	case "pre-start":
		items = append(items, item{at: 0, prio: prioPreClose, name: "close", fn: cl("pre-start")})
		evs = append(evs, hEv{at: 0, prio: prioPreClose, kind: evClose})
	case "after-tx":
		items = append(items, item{at: s[c.CloseK], prio: prioCloseTx, name: "close", fn: cl("after-tx")})
		evs = append(evs, hEv{at: s[c.CloseK], prio: prioCloseTx, kind: evClose})
	case "with-timer":
		tk := fail
		if c.CloseK <= maxSends {
			tk = s[c.CloseK]
		}
		// a goroutine that wakes up at the very instant of the timer and calls Close: the order is up to the scheduler
		items = append(items, item{at: tk - 1, prio: prioDeliver + 100, name: "close-with-timer", fn: func(w *world) {
			go func() {
				time.Sleep(time.Nanosecond)
				w.cl.Close()
			}()
			w.closed = true
		}})
	case "before-answer":
		items = append(items, item{at: tFirst, prio: prioCloseAns, name: "close", fn: cl("before-answer")})
		evs = append(evs, hEv{at: tFirst, prio: prioCloseAns, kind: evClose})
	}
	end = fail
	for _, it := range items {
		if it.at > end {
			end = it.at
		}
	}

	return items, evs, end + 2*time.Millisecond
}

func ansKind(mask int) string {
	switch {
	case mask == 0:
		return "never"
	case mask&(mask-1) != 0:
		return "several"
	case mask == 1:
		return "tx1"
	case mask == 1<<(maxSends-1):
		return "tx7"
	}

	return "tx2-6"
}

func werrKind(j int) string {
	switch j {
	case 0:
		return "none"
	case 1:
		return "first"
	}

	return "rtx"
}

type result struct {
	Case    Case      `json:"case"`
	WantArr []string  `json:"predicted_transmissions"`
	Want    []outcome `json:"predicted_outcomes"`
	Got     obs       `json:"observed"`
	GotArr  int       `json:"observed_transmissions"`
	Table   int       `json:"table_size_after_finish"`
	viols   []viol
	class   string
}

// runSingle executes one case on a fresh client in a fresh bubble.
func runSingle(t *testing.T, c Case) result {
	t.Helper()
	res := result{Case: c, Table: -1}
	mainID, warmID := txid("main-txn-id!"), txid("warm-txn-id!")
	var harnessErr string
	w, leak := runBubble(t, func() (w *world) {
		defer func() {
			if e := recover(); e != nil {
				harnessErr = fmt.Sprint(e)
			}
		}()
		var err error
		if w, err = newWorld(time.Duration(c.RTOms) * time.Millisecond); err != nil {
			panic(err)
		}
		if c.Noise == "stale-first" { // a transaction that has already finished
			wt := w.start("warm-up", warmID)
			synctest.Wait()
			w.deliver(srvAddr, response(warmID, 501))
			synctest.Wait()
			if o := wt.observe(); o.Kind != "resp" || !o.OwnID || o.Marker != 501 || o.At != 0 {
				w.violate("warm-up-transaction-failed", "%v", o)
			}
			w.mu.Lock()
			w.arr = nil
			w.mu.Unlock()
		}
		items, evs, end := script(c, mainID, warmID)
		var tr *txrun
		items = append(items, item{at: 0, prio: prioTimer, name: "start", fn: func(w *world) { tr = w.start("main", mainID) }})
		w.play(items)
		w.goTo(end)
		raceK := 0
		if c.Close == "with-timer" {
			raceK = c.CloseK
		}
		pred := reference(0, effRTO(c.RTOms), c.WErr, raceK, evs)
		wantArr, outs := pred.arr, pred.outs
		if c.Close == "pre-start" {
			// The property does not say whether a client closed beforehand refuses: an immediate error is accepted too.
			outs = append(outs, outcome{Kind: "closed", At: 0})
		}
		v0 := len(w.viols)
		pred.outs = outs
		o := w.checkTx(tr, "", pred, w.arrivals())
		v1 := len(w.viols)
		res.Got, res.Want, res.Table = o, outs, tableSize(w.cl)
		for _, a := range wantArr {
			res.WantArr = append(res.WantArr, a.String())
		}
		if pred.opt >= 0 {
			res.WantArr = append(res.WantArr, "maybe "+pred.opt.String())
		}
		res.GotArr = len(w.arrivals())
		causeWedged, causeExited := "late-response-after-"+o.label(), "after-"+o.label()
		if c.WErr == 1 && o.Kind == "error" && o.At == 0 {
			causeWedged = "write-error-leaves-transaction"
		}
		if strings.HasPrefix(c.Noise, "nonstun") {
			causeExited = "non-stun-datagram-from-" + strings.TrimPrefix(c.Noise, "nonstun-")
		}
		state := w.postCheck([]*txrun{tr}, causeWedged, causeExited)
		if strings.HasPrefix(state, "exited") {
			w.foldExited(v0, v1, causeExited)
		}
		res.class = fmt.Sprintf("ans=%s noise=%s werr=%s close=%s -> %s", ansKind(c.Mask), c.Noise, werrKind(c.WErr),
			strings.TrimSuffix(c.Close, "-rev"), o.label())
		if state != "" {
			res.class += "; then read loop " + state
		}

		return w
	})
	if w != nil {
		res.viols = append(res.viols, w.viols...)
	}
	if harnessErr != "" {
		res.viols = append(res.viols, viol{"panic:harness-or-library-in-root", harnessErr})
	}
	if leak != "" {
		known := false
		for _, v := range res.viols {
			if strings.Contains(v.sig, "read-loop-wedged") {
				known = true // the goroutine left behind is the wedged read loop already reported
			}
		}
		switch {
		case known:
		case strings.Contains(leak, "blocked goroutines remain"):
			res.viols = append(res.viols, viol{"goroutine-leak:bubble-does-not-drain", leak})
		default:
			res.viols = append(res.viols, viol{"panic:bubble", leak})
		}
	}

	return res
}

func TestC12Single(t *testing.T) {
	if rep.ReplayPath() != "" {
		replaySingle(t)

		return
	}
	r := rep.New("C12")
	defer r.Write()
	ps := plans(rep.Thorough())
	shard, n := rep.Shard()
	classes := map[string]int64{}
	defer func() {
		for k, v := range classes {
			for range v {
				r.Class(k)
			}
		}
	}()
	r.Note("plans=%d (RTO x answered-transmissions mask x delay x noise), each x 8 write-error positions x up to 19 Close placements", len(ps))
	for x := shard; x < len(ps); x += n {
		p := ps[x]
		if r.OverBudget("c12 single-transaction fault product") {
			return
		}
		for werr := 0; werr <= maxSends; werr++ {
			for _, cp := range closePlans(p) {
				c := Case{RTOms: p.rto, Mask: p.mask, Delay: p.delay, Noise: p.noise, WErr: werr, Close: cp.kind, CloseK: cp.k}
				rep.Current(map[string]any{"part": "single", "case": c, "sig_hint": "c12-single:case-never-quiesces(lock-held-or-spin)"})
				stop := r.Guard(30*time.Second, "c12-single:case-never-quiesces(lock-held-or-spin)", func() any { return c })
				res := runSingle(t, c)
				stop()
				r.Evaluations++
				classes[res.class]++
				for _, v := range res.viols {
					r.Violate(rep.Violation{Oracle: "c12-single", Signature: v.sig, Detail: c.String() + ": " + v.detail,
						Replay: map[string]any{"engine": "c12-single", "case": c}})
				}
				if x < 3*n && werr == 2 && cp.kind == "never" {
					r.Sample(res)
				}
			}
		}
	}
}

// loadReplay reads the "case" member of the -vreplay file into c.
func loadReplay(c any) bool {
	if rep.ReplayPath() == "" {
		return false
	}
	b, err := os.ReadFile(rep.ReplayPath())
	if err != nil {
		panic(err)
	}
	doc := struct {
		Case any `json:"case"`
	}{Case: c}
	if err := json.Unmarshal(b, &doc); err != nil {
		panic(err)
	}

	return true
}

// replaySingle runs the one case of the -vreplay file and prints what happened.
func replaySingle(t *testing.T) {
	t.Helper()
	var c Case
	loadReplay(&c)
	res := runSingle(t, c)
	fmt.Printf("case: %v\npredicted: transmissions at %v, completion %v\nobserved:  %v, %d transmissions, Client.trMap.Size()=%d after the transaction finished\n",
		c, res.WantArr, res.Want, res.Got, res.GotArr, res.Table)
	for _, v := range res.viols {
		fmt.Printf("VIOLATION %s: %s\n", v.sig, v.detail)
	}
	if len(res.viols) == 0 {
		fmt.Println("no violation")
	}
}
