// Package c12 checks property C12 ("client transactions match by ID,
// retransmit on schedule and always terminate") by exhaustive fault
// enumeration on the real turn.Client in virtual time.
//
// Shared harness: a simnet network, the real client on 10.0.0.2:4000 with its
// Listen loop running, the harness as scripted server on 10.0.0.1:3478, a
// scripted list of harness actions at exact virtual instants, and a reference
// model of one transaction written from the property text only.
package c12

import (
	"errors"
	"fmt"
	"net"
	"reflect"
	"sort"
	"strings"
	"sync"
	"testing"
	"testing/synctest"
	"time"

	"github.com/pion/stun/v3"
	turn "github.com/pion/turn/v5"
	iclient "github.com/pion/turn/v5/internal/client"
	"github.com/pion/turn/v5/verif/simnet"
	"github.com/pion/turn/v5/verif/vtx"
	"github.com/pion/turn/v5/verif/wire"
)

// ------------------------------------------------------------------ reference (from the property text)

const (
	rtxCap   = 1600 * time.Millisecond // "capped at 1.6 s"
	maxSends = 7                       // "sent 7 times"
	// defaultRTO is what ClientConfig.RTO == 0 means (documented default of the
	// library). It is the only number of the reference that is not in the
	// property text.
	defaultRTO = 200 * time.Millisecond
)

func effRTO(ms int) time.Duration {
	if ms == 0 {
		return defaultRTO
	}

	return time.Duration(ms) * time.Millisecond
}

// intervals returns iv[k] = the interval that follows transmission k
// (k = 1..7): RTO, 2 RTO, 4 RTO ... each capped at 1.6 s.
func intervals(rto time.Duration) [maxSends + 1]time.Duration {
	var iv [maxSends + 1]time.Duration
	cur := rto
	for k := 1; k <= maxSends; k++ {
		if cur > rtxCap {
			cur = rtxCap
		}
		iv[k] = cur
		cur *= 2
	}

	return iv
}

// sendTimes returns the instants s[1..7] of the transmissions of a
// transaction started at start and the instant of the final failure.
func sendTimes(start, rto time.Duration) (s [maxSends + 1]time.Duration, fail time.Duration) {
	iv := intervals(rto)
	t := start
	for k := 1; k <= maxSends; k++ {
		s[k] = t
		t += iv[k]
	}

	return s, t
}

// slot is the instant at which the answer to transmission i is delivered.
func slot(i int, delay string, start, rto time.Duration) time.Duration {
	s, fail := sendTimes(start, rto)
	iv := intervals(rto)
	switch delay {
	case "imm":
		return s[i]
	case "quarter":
		return s[i] + iv[i]/4
	case "half":
		return s[i] + iv[i]/2
	case "pre":
		return s[i] + iv[i] - 1
	case "post":
		return s[i] + iv[i] + 1
	case "afterfail":
		return fail + time.Millisecond
	}
	panic("bad delay " + delay)
}

// Priorities of things that happen at one virtual instant. Timers of the
// client always run first (the harness sleeps, then waits for quiescence,
// then acts).
const (
	prioPreClose = -3
	prioArmFirst = -2
	prioTimer    = 0 // start of the transaction and every retransmission timer
	prioArm      = 1
	prioCloseTx  = 2
	prioCloseAns = 3
	prioDeliver  = 4 // + sequence number of the datagram
)

const (
	evClose = iota
	evResp
	evConc // a matching response and Close() in flight at once
	evTx
	evFail
)

// hEv is something the harness does that matters to one transaction.
type hEv struct {
	at     time.Duration
	prio   int
	kind   int
	marker int
	k      int
}

type outcome struct {
	Kind   string        `json:"kind"` // resp | timeout | closed | write-error
	At     time.Duration `json:"at"`
	Marker int           `json:"marker,omitempty"`
}

func (o outcome) String() string {
	if o.Kind == "resp" {
		return fmt.Sprintf("resp#%d@%v", o.Marker, o.At)
	}

	return fmt.Sprintf("%s@%v", o.Kind, o.At)
}

// prediction is what the reference says about one transaction.
type prediction struct {
	arr  []time.Duration // instants at which the request reaches the server
	opt  time.Duration   // >= 0: one more transmission at this instant may or may not happen (Close racing with that timer)
	outs []outcome       // acceptable completions
}

// reference predicts, for a transaction started at start, the instants at
// which its request reaches the server and the acceptable ways it completes.
// raceK in 2..8 says that Client.Close() is called concurrently with the timer
// of transmission raceK (8 = the timer of the final failure).
func reference(start, rto time.Duration, werr, raceK int, evs []hEv) prediction {
	p := prediction{opt: -1}
	s, fail := sendTimes(start, rto)
	all := make([]hEv, 0, len(evs)+maxSends+1)
	for k := 1; k <= maxSends; k++ {
		all = append(all, hEv{at: s[k], prio: prioTimer, kind: evTx, k: k})
	}
	all = append(all, hEv{at: fail, prio: prioTimer, kind: evFail, k: maxSends + 1})
	all = append(all, evs...)
	sort.SliceStable(all, func(i, j int) bool {
		if all[i].at != all[j].at {
			return all[i].at < all[j].at
		}

		return all[i].prio < all[j].prio
	})
	pending := false
	for _, e := range all {
		if e.kind == evTx && e.k == 1 {
			pending = true
		}
		if !pending {
			continue
		}
		closed := outcome{Kind: "closed", At: e.at}
		switch e.kind {
		case evTx:
			switch {
			case werr == e.k && raceK == e.k:
				p.outs = []outcome{{Kind: "write-error", At: e.at}, closed}
				pending = false
			case werr == e.k:
				p.outs = []outcome{{Kind: "write-error", At: e.at}}
				pending = false
			case raceK == e.k:
				p.outs, p.opt = []outcome{closed}, e.at
				pending = false
			default:
				p.arr = append(p.arr, e.at)
			}
		case evFail:
			p.outs = []outcome{{Kind: "timeout", At: e.at}}
			if raceK == e.k {
				p.outs = append(p.outs, closed)
			}
			pending = false
		case evClose:
			p.outs = []outcome{closed}
			pending = false
		case evResp:
			p.outs = []outcome{{Kind: "resp", At: e.at, Marker: e.marker}}
			pending = false
		case evConc:
			p.outs = []outcome{{Kind: "resp", At: e.at, Marker: e.marker}, closed}
			pending = false
		}
	}

	return p
}

// ------------------------------------------------------------------ world

var (
	srvAddr = &net.UDPAddr{IP: net.IPv4(10, 0, 0, 1).To4(), Port: 3478}
	// cfgAddr: the server address in the client's configuration; the transactions of the harness go to srvAddr
	// (a STUN server apart from the TURN server, SendBindingRequestTo): each transmission goes where its own transaction says
	cfgAddr = &net.UDPAddr{IP: net.IPv4(10, 0, 0, 9).To4(), Port: 3478}
	cliAddr = &net.UDPAddr{IP: net.IPv4(10, 0, 0, 2).To4(), Port: 4000}
	othAddr = &net.UDPAddr{IP: net.IPv4(10, 0, 0, 9).To4(), Port: 3478}

	errInjected = errors.New("c12: injected write error")
)

type arrival struct {
	at   time.Duration
	data []byte
	src  string
}

type world struct {
	net *simnet.Net
	cs  *simnet.UDPSock
	ss  *simnet.UDPSock
	cl  *turn.Client
	t0  time.Time
	mu  sync.Mutex
	arr []arrival
	// stray: datagrams that arrived at the address the client is CONFIGURED with as its STUN/TURN server. Every
	// transaction of this harness names its own destination (srvAddr); none of its transmissions belongs there.
	os    *simnet.UDPSock
	stray []arrival
	// closed is set once the harness has called Client.Close.
	closed bool
	viols  []viol
}

type viol struct{ sig, detail string }

func (w *world) violate(sig, f string, a ...any) {
	w.viols = append(w.viols, viol{sig, fmt.Sprintf(f, a...)})
}

func newWorld(rto time.Duration) (*world, error) {
	w := &world{net: simnet.New()}
	w.net.LogOff = true
	var err error
	if w.ss, err = w.net.ListenUDP("udp4", srvAddr); err != nil {
		return nil, err
	}
	if w.cs, err = w.net.ListenUDP("udp4", cliAddr); err != nil {
		return nil, err
	}
	if w.os, err = w.net.ListenUDP("udp4", cfgAddr); err != nil {
		return nil, err
	}
	go func() {
		buf := make([]byte, 2048)
		for {
			n, from, err := w.os.ReadFrom(buf)
			if err != nil {
				return
			}
			w.mu.Lock()
			w.stray = append(w.stray, arrival{at: time.Since(w.t0), data: append([]byte(nil), buf[:n]...), src: from.String()})
			w.mu.Unlock()
		}
	}()
	w.cl, err = turn.NewClient(&turn.ClientConfig{
		STUNServerAddr: cfgAddr.String(),
		TURNServerAddr: cfgAddr.String(),
		RTO:            rto,
		Conn:           w.cs,
		Net:            w.net.Transport(),
		LoggerFactory:  vtx.QuietFactory{},
	})
	if err != nil {
		return nil, err
	}
	if err = w.cl.Listen(); err != nil {
		return nil, err
	}
	w.t0 = time.Now()
	go func() { // the scripted server's receive side: exact arrival instants
		buf := make([]byte, 2048)
		for {
			n, from, err := w.ss.ReadFrom(buf)
			if err != nil {
				return
			}
			w.mu.Lock()
			w.arr = append(w.arr, arrival{at: time.Since(w.t0), data: append([]byte(nil), buf[:n]...), src: from.String()})
			w.mu.Unlock()
		}
	}()
	synctest.Wait()

	return w, nil
}

func (w *world) now() time.Duration { return time.Since(w.t0) }

func (w *world) arrivals() []arrival {
	w.mu.Lock()
	defer w.mu.Unlock()

	return append([]arrival(nil), w.arr...)
}

// goTo moves the virtual clock to t0+off and lets every timer due run.
func (w *world) goTo(off time.Duration) {
	d := off - w.now()
	if d < 0 {
		panic(fmt.Sprintf("c12 harness: script goes backwards (%v -> %v)", w.now(), off))
	}
	if d > 0 {
		time.Sleep(d)
	}
	synctest.Wait()
}

// item is one scripted harness action.
type item struct {
	at     time.Duration
	prio   int
	name   string
	fn     func(w *world)
	nowait bool // do not wait for quiescence before the next action
}

func (w *world) play(items []item) {
	sort.SliceStable(items, func(i, j int) bool {
		if items[i].at != items[j].at {
			return items[i].at < items[j].at
		}

		return items[i].prio < items[j].prio
	})
	prevNowait := false
	for _, it := range items {
		if !(prevNowait && it.at == w.now()) {
			w.goTo(it.at)
		}
		it.fn(w)
		if !it.nowait {
			synctest.Wait()
		}
		prevNowait = it.nowait
	}
	synctest.Wait()
}

// txrun is one PerformTransaction call made by the harness.
type txrun struct {
	name  string
	id    [12]byte
	raw   []byte
	start time.Duration
	done  bool
	at    time.Duration
	msg   *stun.Message
	err   error
	pan   any
}

func txid(s string) [12]byte {
	var id [12]byte
	copy(id[:], s)

	return id
}

func (w *world) start(name string, id [12]byte) *txrun {
	msg, err := stun.Build(stun.NewTransactionIDSetter(id), stun.BindingRequest)
	if err != nil {
		panic(err)
	}
	tr := &txrun{name: name, id: id, raw: append([]byte(nil), msg.Raw...), start: w.now()}
	go func() {
		defer func() {
			if e := recover(); e != nil {
				tr.pan, tr.at, tr.done = e, w.now(), true
			}
		}()
		res, err := w.cl.PerformTransaction(msg, srvAddr, false)
		tr.msg, tr.err, tr.at, tr.done = res.Msg, err, w.now(), true
	}()

	return tr
}

// obs is what PerformTransaction did.
type obs struct {
	Kind   string        `json:"kind"` // pending | panic | resp | error
	Err    string        `json:"err,omitempty"`
	At     time.Duration `json:"at"`
	OwnID  bool          `json:"own_id"`
	Marker int           `json:"marker,omitempty"`
}

func (o obs) String() string {
	switch o.Kind {
	case "resp":
		return fmt.Sprintf("resp#%d(own=%v)@%v", o.Marker, o.OwnID, o.At)
	case "error":
		return fmt.Sprintf("error(%s)@%v", o.Err, o.At)
	}

	return o.Kind
}

// label gives a short name for the observed completion (classes only).
func (o obs) label() string {
	switch {
	case o.Kind != "error":
		return o.Kind
	case strings.Contains(o.Err, "all retransmissions failed"):
		return "error:retransmissions-exhausted"
	case strings.Contains(o.Err, "transaction closed"):
		return "error:closed"
	case strings.Contains(o.Err, "failed to retransmit"):
		return "error:retransmit-write-failed"
	case strings.Contains(o.Err, "injected write error"):
		return "error:first-write-failed"
	}

	return "error:other"
}

func (tr *txrun) observe() obs {
	switch {
	case !tr.done:
		return obs{Kind: "pending"}
	case tr.pan != nil:
		return obs{Kind: "panic", Err: fmt.Sprint(tr.pan), At: tr.at}
	case tr.err != nil:
		return obs{Kind: "error", Err: tr.err.Error(), At: tr.at}
	case tr.msg == nil:
		return obs{Kind: "error", Err: "nil message and nil error", At: tr.at}
	}
	o := obs{Kind: "resp", At: tr.at, Marker: -1}
	// decode what was returned with the harness codec, not with pion/stun
	if m, err := wire.Parse(tr.msg.Raw); err == nil {
		o.OwnID = m.TxID == tr.id && [12]byte(tr.msg.TransactionID) == tr.id
		if a, ok := m.XorAddr(wire.AttrXORMappedAddress); ok {
			o.Marker = a.Port
		}
	}

	return o
}

// response builds a Binding success with the given id; the port of
// XOR-MAPPED-ADDRESS identifies this very copy of the response.
func response(id [12]byte, marker int) []byte {
	return wire.New(wire.Binding, wire.Success, id).XorAddr(wire.AttrXORMappedAddress, cliAddr.IP, marker).Bytes()
}

func (w *world) deliver(from *net.UDPAddr, b []byte) { w.cs.Inject(from, b) }

// closeClient calls Client.Close and reports whether it returned.
func (w *world) closeClient(where string) {
	done := false
	go func() {
		w.cl.Close()
		done = true
	}()
	synctest.Wait()
	w.closed = true
	if !done {
		w.violate("hang:close:"+where, "Client.Close() did not return")
	}
}

// tableSize reads Client.trMap.Size() (the field is not reachable through the
// public API; used as corroborating detail only, never as the deciding oracle).
func tableSize(c *turn.Client) int {
	defer func() { _ = recover() }()
	f := reflect.ValueOf(c).Elem().FieldByName("trMap")
	if !f.IsValid() || f.IsNil() {
		return -1
	}

	return (*iclient.TransactionMap)(f.UnsafePointer()).Size()
}

// checkTx compares one finished main-phase transaction with the reference.
func (w *world) checkTx(tr *txrun, tag string, pred prediction, arr []arrival) obs {
	wo, outs := pred.arr, pred.outs
	wantArr := wo
	o := tr.observe()
	want := make([]string, len(outs))
	for i, x := range outs {
		want[i] = x.Kind
	}
	wantS := strings.Join(want, "|")
	switch o.Kind {
	case "pending":
		w.violate("hang:transaction:want="+wantS+tag, "%s still pending at %v, predicted %v", tr.name, w.now(), outs)
	case "panic":
		w.violate("panic:PerformTransaction", "%s: %s", tr.name, o.Err)
	case "resp":
		if !o.OwnID {
			w.violate("foreign-response-returned"+tag, "%s got a response whose id is not its own (marker %d)", tr.name, o.Marker)

			break
		}
		ok, kindOK := false, false
		for _, x := range outs {
			if x.Kind == "resp" {
				kindOK = true
				if x.Marker == o.Marker && x.At == o.At {
					ok = true
				}
			}
		}
		switch {
		case ok:
		case !kindOK:
			w.violate("outcome:want="+wantS+":got=resp"+tag, "%s: predicted %v, observed %v", tr.name, outs, o)
		default:
			w.violate("outcome:resp:wrong-copy-or-instant"+tag, "%s: predicted %v, observed %v", tr.name, outs, o)
		}
	case "error":
		ok, kindOK := false, false
		for _, x := range outs {
			if x.Kind != "resp" {
				kindOK = true
				if x.At == o.At {
					ok = true
				}
			}
		}
		switch {
		case ok:
		case !kindOK:
			w.violate("outcome:want="+wantS+":got="+o.label()+tag, "%s: predicted %v, observed %v", tr.name, outs, o)
		default:
			w.violate("outcome:error-at-wrong-instant:want="+wantS+":got="+o.label()+tag, "%s: predicted %v, observed %v", tr.name, outs, o)
		}
	}
	// the request datagrams seen by the server
	var got []arrival
	for _, a := range arr {
		if m, err := wire.Parse(a.data); err == nil && m.TxID == tr.id {
			got = append(got, a)
		}
	}
	gotT := make([]time.Duration, len(got))
	for i, a := range got {
		gotT[i] = a.at
		if string(a.data) != string(tr.raw) {
			w.violate("retransmit-schedule:bytes-differ"+tag, "%s transmission %d differs from the request", tr.name, i+1)
		}
		if a.src != cliAddr.String() {
			w.violate("retransmit-schedule:source"+tag, "%s transmission %d from %s", tr.name, i+1, a.src)
		}
	}
	same := func(a, b []time.Duration) bool {
		if len(a) != len(b) {
			return false
		}
		for i := range a {
			if a[i] != b[i] {
				return false
			}
		}

		return true
	}
	if !same(gotT, wantArr) && !(pred.opt >= 0 && same(gotT, append(append([]time.Duration{}, wantArr...), pred.opt))) {
		sig := "retransmit-schedule:instants"
		switch {
		case len(gotT) > maxSends:
			sig = "retransmit-schedule:more-than-7"
		case len(gotT) > len(wantArr):
			sig = "retransmit-schedule:extra-transmission"
		case len(gotT) < len(wantArr):
			sig = "retransmit-schedule:missing-transmission"
		}
		if pred.opt >= 0 {
			wantArr = append(append([]time.Duration{}, wantArr...), pred.opt) // shown with the optional one
		}
		w.violate(sig+tag, "%s: server saw the request at %v, predicted %v (outcome predicted %v observed %v)", tr.name, gotT, wantArr, outs, o)
	}

	return o
}

// postCheck judges "nothing left in the table" behaviourally: late responses
// for every finished id, then a fresh transaction that must be answered at
// once; then Close, 10 s of silence, and the bubble must drain.
// causeWedged / causeExited name what preceded (used in the signature when
// the read loop turns out to be blocked for ever / to have returned).
// The returned state is "" (fine), "wedged", "exited", "exited+wedged" or "other".
func (w *world) postCheck(finished []*txrun, causeWedged, causeExited string) (state string) {
	w.cs.WriteErr, w.cs.WriteErrOnce = nil, false
	w.mu.Lock()
	if len(w.stray) > 0 {
		w.viols = append(w.viols, viol{"transmission-sent-to-another-destination-than-its-transaction's",
			fmt.Sprintf("%d datagram(s) arrived at the client's configured server %v, first at %v; every transaction was addressed to %v", len(w.stray), cfgAddr, w.stray[0].at, srvAddr)})
	}
	w.mu.Unlock()
	at := w.now()
	size := tableSize(w.cl)
	for _, tr := range finished {
		w.deliver(srvAddr, response(tr.id, 900))
		synctest.Wait()
	}
	n0 := len(w.arrivals())
	fresh := w.start("fresh", txid("fresh-txn-id"))
	synctest.Wait()
	arr := w.arrivals()
	if len(arr) != n0+1 || string(arr[len(arr)-1].data) != string(fresh.raw) {
		if !(w.closed && fresh.done && fresh.err != nil) {
			w.violate("post:fresh-request-not-sent", "server saw %d new datagrams after the fresh transaction started (%v)", len(arr)-n0, fresh.observe())
		}
	}
	w.deliver(srvAddr, response(fresh.id, 901))
	synctest.Wait()
	good := func(o obs) bool {
		okResp := o.Kind == "resp" && o.OwnID && o.Marker == 901 && o.At == at
		okErr := w.closed && o.Kind == "error" && o.At == at // the property does not forbid a closed client to refuse

		return okResp || okErr
	}
	o := fresh.observe()
	tail := fmt.Sprintf(" [Client.trMap.Size() after the transaction(s) had finished: %d]", size)
	switch {
	case good(o):
	case o.Kind != "pending":
		state = "other"
		w.violate("post:fresh-transaction:"+o.label(), "a fresh transaction answered at once at %v ended with %v%s", at, o, tail)
	case w.cl.Listen() == nil: // Listen succeeds only when the previous read loop has returned
		state = "exited"
		w.violate(causeExited+":read-loop-exited", "after late responses for the finished transaction(s) a fresh transaction answered at %v stays pending; "+
			"Client.Listen() succeeds again, i.e. the read loop had returned%s", at, tail)
		synctest.Wait() // the restarted loop reads what is queued
		if o = fresh.observe(); !good(o) {
			state = "exited+wedged"
			w.violate(causeWedged+":read-loop-wedged", "after the read loop was restarted with Listen() the fresh transaction is %v%s", o, tail)
		}
	default:
		state = "wedged"
		w.violate(causeWedged+":read-loop-wedged", "after late responses for the finished transaction(s) a fresh transaction answered at %v stays pending "+
			"and Client.Listen() says the read loop is still running: it is blocked for ever%s", at, tail)
	}
	w.closeClient("final")
	if !fresh.done {
		w.violate("hang:fresh-transaction-after-close", "fresh transaction still pending after Close")
	}
	for _, tr := range finished {
		if !tr.done {
			w.violate("hang:transaction-after-close", "%s still pending after Close", tr.name)
		}
	}
	n1 := len(w.arrivals())
	time.Sleep(10 * time.Second)
	synctest.Wait()
	if n2 := len(w.arrivals()); n2 != n1 {
		w.violate("datagram-after-close", "%d datagram(s) reached the server within 10 s after Close", n2-n1)
	}
	_ = w.cs.Close()
	_ = w.ss.Close()
	_ = w.os.Close()
	synctest.Wait()

	return state
}

// foldExited replaces the main-phase findings viols[from:to] of a case whose
// read loop had returned by one finding that names the cause.
func (w *world) foldExited(from, to int, cause string) {
	if to <= from {
		return
	}
	var d []string
	for _, v := range w.viols[from:to] {
		d = append(d, v.sig+": "+v.detail)
	}
	folded := viol{cause + ":read-loop-exited:matching-response-not-returned", strings.Join(d, " || ")}
	w.viols = append(append(append([]viol{}, w.viols[:from]...), folded), w.viols[to:]...)
}

// runBubble runs body inside a synctest bubble and turns a bubble that cannot
// drain (blocked goroutine left behind) or a harness/library panic in the
// root goroutine into data.
func runBubble(t *testing.T, body func() *world) (w *world, leak string) {
	t.Helper()
	func() {
		defer func() {
			if e := recover(); e != nil {
				leak = fmt.Sprint(e)
			}
		}()
		synctest.Test(t, func(*testing.T) { w = body() })
	}()

	return w, leak
}
