package c12

import (
	"fmt"
	"strings"
	"testing"
	"time"

	"github.com/pion/turn/v5/verif/rep"
)

// ans is the answer plan of one of the two concurrent transactions.
type ans struct {
	I     int    `json:"i"` // transmission that is answered (0 = never)
	Delay string `json:"delay,omitempty"`
}

func (a ans) String() string {
	if a.I == 0 {
		return "never"
	}

	return fmt.Sprintf("tx%d+%s", a.I, a.Delay)
}

// Case2 is one point of the product for two concurrent transactions.
type Case2 struct {
	RTOms int    `json:"rto_ms"`
	A     ans    `json:"a"`
	B     ans    `json:"b"`
	OffB  string `json:"off_b"` // B starts "0" or "half" (half of the first interval) after A
	Dup   string `json:"dup"`   // none | A-adjacent | B-adjacent | both-adjacent | A-at-B | B-at-A
	Order string `json:"order"` // for responses of the same instant: AB | BA | AB-nowait | BA-nowait
	Close string `json:"close"` // never | after-start | before-first-response | after-first-response
	// WErrB: the first transmission of B fails with a write error (only with OffB "half": the socket is armed
	// between two transmissions of A). B ends with that error; A is another transaction and goes on as if alone.
	WErrB bool `json:"werr_b,omitempty"`
}

func (c Case2) String() string {
	we := ""
	if c.WErrB {
		we = " B's-first-write-fails"
	}

	return fmt.Sprintf("rto=%dms A=%v B=%v offB=%s dup=%s order=%s close=%s%s", c.RTOms, c.A, c.B, c.OffB, c.Dup, c.Order, c.Close, we)
}

func ansPlans(thorough bool) []ans {
	out := []ans{{}}
	delays := []string{"imm", "half", "pre", "post"}
	if thorough {
		delays = []string{"imm", "quarter", "half", "pre", "post"}
	}
	for i := 1; i <= maxSends; i++ {
		for _, d := range delays {
			out = append(out, ans{i, d})
		}
	}

	return out
}

type res2 struct {
	Case  Case2     `json:"case"`
	WantA []outcome `json:"predicted_a"`
	WantB []outcome `json:"predicted_b"`
	GotA  obs       `json:"observed_a"`
	GotB  obs       `json:"observed_b"`
	viols []viol
	class string
}

func runPair(t *testing.T, c Case2) res2 {
	t.Helper()
	res := res2{Case: c}
	idA, idB := txid("txn-id-pair0"), txid("txn-id-pair1") // differ in one bit of the last byte
	rto := effRTO(c.RTOms)
	offB := time.Duration(0)
	if c.OffB == "half" {
		offB = intervals(rto)[1] / 2
	}
	var harnessErr string
	w, leak := runBubble(t, func() (w *world) {
		defer func() {
			if e := recover(); e != nil {
				harnessErr = fmt.Sprint(e)
			}
		}()
		var err error
		if w, err = newWorld(time.Duration(c.RTOms) * time.Millisecond); err != nil {
			panic(err)
		}
		var trA, trB *txrun
		prioB := prioTimer
		if offB == 0 {
			prioB = prioTimer + 1 // A first, B at the same virtual instant (after A has sent and blocked)
		}
		items := []item{
			{at: 0, prio: prioTimer, name: "start-A", fn: func(w *world) { trA = w.start("A", idA) }},
			{at: offB, prio: prioB, name: "start-B", fn: func(w *world) { trB = w.start("B", idB) }},
		}
		werrB := 0
		if c.WErrB {
			werrB = 1
			items = append(items, item{at: offB, prio: prioArmFirst, name: "arm-werr", fn: func(w *world) { w.cs.WriteErr, w.cs.WriteErrOnce = errInjected, true }})
		}
		var evA, evB []hEv
		var tA, tB time.Duration = -1, -1
		if c.A.I != 0 {
			tA = slot(c.A.I, c.A.Delay, 0, rto)
		}
		if c.B.I != 0 {
			tB = slot(c.B.I, c.B.Delay, offB, rto)
		}
		type dg struct {
			at     time.Duration
			who    string
			marker int
		}
		var dgs []dg // in delivery order within one instant
		addA := func(at time.Duration, m int) { dgs = append(dgs, dg{at, "A", m}) }
		addB := func(at time.Duration, m int) { dgs = append(dgs, dg{at, "B", m}) }
		dupA := c.Dup == "A-adjacent" || c.Dup == "both-adjacent"
		dupB := c.Dup == "B-adjacent" || c.Dup == "both-adjacent"
		emitA := func() {
			if c.Dup == "B-at-A" {
				addB(tA, 220)
			}
			if tA >= 0 {
				addA(tA, 110)
				if dupA {
					addA(tA, 210)
				}
			}
		}
		emitB := func() {
			if c.Dup == "A-at-B" {
				addA(tB, 210)
			}
			if tB >= 0 {
				addB(tB, 120)
				if dupB {
					addB(tB, 220)
				}
			}
		}
		if strings.HasPrefix(c.Order, "BA") {
			emitB()
			emitA()
		} else {
			emitA()
			emitB()
		}
		nowait := strings.HasSuffix(c.Order, "-nowait")
		for n, d := range dgs {
			id, evs := idA, &evA
			if d.who == "B" {
				id, evs = idB, &evB
			}
			data := response(id, d.marker)
			items = append(items, item{at: d.at, prio: prioDeliver + n, name: "deliver-" + d.who, nowait: nowait && n < len(dgs)-1 && dgs[n+1].at == d.at,
				fn: func(w *world) { w.deliver(srvAddr, data) }})
			*evs = append(*evs, hEv{at: d.at, prio: prioDeliver + n, kind: evResp, marker: d.marker})
		}
		tFirst := tA // instant of the earliest response
		if tA < 0 || (tB >= 0 && tB < tA) {
			tFirst = tB
		}
		closeAt, closePrio := time.Duration(-1), 0
		switch c.Close {
		case "after-start":
			closeAt, closePrio = offB, prioCloseTx+1
		case "before-first-response":
			closeAt, closePrio = tFirst, prioCloseAns
		case "after-first-response": // same instant, after everything delivered at that instant
			closeAt, closePrio = tFirst, prioDeliver+100
		}
		if closeAt >= 0 {
			items = append(items, item{at: closeAt, prio: closePrio, name: "close", fn: func(w *world) { w.closeClient(c.Close) }})
			evA = append(evA, hEv{at: closeAt, prio: closePrio, kind: evClose})
			evB = append(evB, hEv{at: closeAt, prio: closePrio, kind: evClose})
		}
		_, failB := sendTimes(offB, rto)
		end := failB
		for _, it := range items {
			if it.at > end {
				end = it.at
			}
		}
		w.play(items)
		w.goTo(end + 2*time.Millisecond)
		pA := reference(0, rto, 0, 0, evA)
		pB := reference(offB, rto, werrB, 0, evB)
		all := w.arrivals()
		oA := w.checkTx(trA, "", pA, all)
		oB := w.checkTx(trB, "", pB, all)
		res.WantA, res.WantB, res.GotA, res.GotB = pA.outs, pB.outs, oA, oB
		if len(all) != len(pA.arr)+len(pB.arr) {
			w.violate("retransmit-schedule:stray-datagram", "server saw %d datagrams, predicted %d+%d", len(all), len(pA.arr), len(pB.arr))
		}
		state := w.postCheck([]*txrun{trA, trB}, "late-response-after-"+oA.label()+"+"+oB.label(), "after-"+oA.label()+"+"+oB.label())
		rel := "none"
		switch {
		case tA >= 0 && tB >= 0 && tA < tB:
			rel = "A-before-B"
		case tA >= 0 && tB >= 0 && tA > tB:
			rel = "B-before-A"
		case tA >= 0 && tB >= 0:
			rel = "same-instant-" + c.Order
		case tA >= 0:
			rel = "only-A"
		case tB >= 0:
			rel = "only-B"
		}
		if c.WErrB {
			rel += "+B's-first-write-fails"
		}
		res.class = fmt.Sprintf("responses=%s dup=%s close=%s -> A:%s B:%s", rel, c.Dup, c.Close, oA.label(), oB.label())
		if state != "" {
			res.class += "; then read loop " + state
		}

		return w
	})
	if w != nil {
		res.viols = append(res.viols, w.viols...)
	}
	if harnessErr != "" {
		res.viols = append(res.viols, viol{"panic:harness-or-library-in-root", harnessErr})
	}
	if leak != "" {
		known := false
		for _, v := range res.viols {
			if strings.Contains(v.sig, "read-loop-wedged") {
				known = true
			}
		}
		switch {
		case known:
		case strings.Contains(leak, "blocked goroutines remain"):
			res.viols = append(res.viols, viol{"goroutine-leak:bubble-does-not-drain", leak})
		default:
			res.viols = append(res.viols, viol{"panic:bubble", leak})
		}
	}

	return res
}

func dupsFor(a, b ans) []string {
	out := []string{"none"}
	if a.I != 0 {
		out = append(out, "A-adjacent")
	}
	if b.I != 0 {
		out = append(out, "B-adjacent")
	}
	if a.I != 0 && b.I != 0 {
		out = append(out, "both-adjacent", "A-at-B", "B-at-A")
	}

	return out
}

func TestC12Concurrent(t *testing.T) {
	if rep.ReplayPath() != "" {
		var c Case2
		loadReplay(&c)
		res := runPair(t, c)
		fmt.Printf("case: %v\npredicted: A %v B %v\nobserved:  A %v B %v\n", c, res.WantA, res.WantB, res.GotA, res.GotB)
		for _, v := range res.viols {
			fmt.Printf("VIOLATION %s: %s\n", v.sig, v.detail)
		}
		if len(res.viols) == 0 {
			fmt.Println("no violation")
		}

		return
	}
	r := rep.New("C12")
	defer r.Write()
	thorough := rep.Thorough()
	rtos := []int{0, 100, 200, 400, 800, 1600}
	if thorough {
		rtos = []int{0, 1, 50, 100, 200, 400, 799, 800, 801, 1000, 1599, 1600}
	}
	ap := ansPlans(thorough)
	type outer struct {
		rto  int
		a, b ans
	}
	var outers []outer
	for _, a := range ap {
		for _, b := range ap {
			for _, rto := range rtos {
				outers = append(outers, outer{rto, a, b})
			}
		}
	}
	shard, n := rep.Shard()
	classes := map[string]int64{}
	defer func() {
		for k, v := range classes {
			for range v {
				r.Class(k)
			}
		}
	}()
	r.Note("outer=%d (answer plan A x answer plan B x RTO), each x B start offset {0, half interval} x duplicates x same-instant orders x Close {never, after both started, before / after the earliest response}", len(outers))
	for x := shard; x < len(outers); x += n {
		o := outers[x]
		if r.OverBudget("c12 concurrent transactions product") {
			return
		}
		for _, off := range []string{"0", "half"} {
			orders := []string{"AB"}
			if o.a.I != 0 && o.b.I != 0 && off == "0" && o.a == o.b {
				orders = []string{"AB", "BA", "AB-nowait", "BA-nowait"} // both responses at one virtual instant
			}
			for _, dup := range dupsFor(o.a, o.b) {
				for _, ord := range orders {
					closes := []string{"never", "after-start"}
					if o.a.I != 0 || o.b.I != 0 {
						closes = append(closes, "before-first-response", "after-first-response")
					}
					type cw struct {
						cl string
						we bool
					}
					var cws []cw
					for _, cl := range closes {
						cws = append(cws, cw{cl, false})
					}
					if off == "half" && o.b.I == 0 && (dup == "none" || dup == "A-adjacent") {
						cws = append(cws, cw{"never", true})
					}
					for _, k := range cws {
						cl := k.cl
						c := Case2{RTOms: o.rto, A: o.a, B: o.b, OffB: off, Dup: dup, Order: ord, Close: cl, WErrB: k.we}
						rep.Current(map[string]any{"part": "concurrent", "case": c, "sig_hint": "c12-concurrent:case-never-quiesces(lock-held-or-spin)"})
						stop := r.Guard(30*time.Second, "c12-concurrent:case-never-quiesces(lock-held-or-spin)", func() any { return c })
						res := runPair(t, c)
						stop()
						r.Evaluations++
						classes[res.class]++
						for _, v := range res.viols {
							r.Violate(rep.Violation{Oracle: "c12-concurrent", Signature: v.sig, Detail: c.String() + ": " + v.detail,
								Replay: map[string]any{"engine": "c12-concurrent", "case": c}})
						}
						if x < 3*n && off == "half" && dup == "none" && cl == "never" {
							r.Sample(res)
						}
					}
				}
			}
		}
	}
}
