package c12

import (
	"fmt"
	"testing"
	"testing/synctest"
	"time"

	"github.com/pion/stun/v3"
	"github.com/pion/turn/v5/verif/rep"
	"github.com/pion/turn/v5/verif/wire"
)

// Fire-and-forget transactions (ignoreResult = true, the mode Refresh 0 on
// Close and the client's keep-alives use): PerformTransaction returns at once
// and the message belongs to the caller again, who may build the next request
// in it. "The request has been sent 7 times" must still be *the request*:
// every transmission of A byte-identical to what A was when it was handed
// over, on A's timetable, whatever the caller does with its message
// afterwards; likewise for a second transaction B started from the reused
// message. A response ends the retransmissions; nothing stays in the table.

// Case3 is one fire-and-forget case.
type Case3 struct {
	RTOms   int    `json:"rto_ms"`
	Reuse   string `json:"reuse"`    // "none" | "fresh" | "rebuild" (msg.Build in place) | "scribble" (overwrite msg.Raw)
	ReuseAt int    `json:"reuse_at"` // 0: right after PerformTransaction returned; k: half an interval after transmission k of A
	AnsA    int    `json:"ans_a"`    // 0: never answered; i: A answered half an interval after transmission i
	AnsB    int    `json:"ans_b"`
}

func (c Case3) String() string {
	return fmt.Sprintf("rto=%dms reuse=%s@%d ansA=%d ansB=%d", c.RTOms, c.Reuse, c.ReuseAt, c.AnsA, c.AnsB)
}

type result3 struct {
	Case  Case3 `json:"case"`
	ArrA  []string
	ArrB  []string
	viols []viol
	class string
}

func runForget(t *testing.T, c Case3) result3 {
	t.Helper()
	res := result3{Case: c}
	idA, idB := txid("forget-txn-A"), txid("forget-txn-B")
	var harnessErr string
	w, leak := runBubble(t, func() (w *world) {
		defer func() {
			if e := recover(); e != nil {
				harnessErr = fmt.Sprint(e)
			}
		}()
		var err error
		rto := effRTO(c.RTOms)
		if w, err = newWorld(time.Duration(c.RTOms) * time.Millisecond); err != nil {
			panic(err)
		}
		msg, err := stun.Build(stun.NewTransactionIDSetter(idA), stun.BindingRequest, stun.NewSoftware("first-request-with-a-longer-body"))
		if err != nil {
			panic(err)
		}
		rawA := append([]byte(nil), msg.Raw...)
		var rawB []byte
		sA, failA := sendTimes(0, rto)
		iv := intervals(rto)
		reuseT := time.Duration(0)
		if c.ReuseAt > 0 {
			reuseT = sA[c.ReuseAt] + iv[c.ReuseAt]/2
		}
		sB, failB := sendTimes(reuseT, rto)
		hasB := c.Reuse == "fresh" || c.Reuse == "rebuild"
		perform := func(m *stun.Message, name string) {
			done := false
			go func() {
				defer func() {
					if e := recover(); e != nil {
						w.violate("panic:PerformTransaction", "%s: %v", name, e)
					}
					done = true
				}()
				if _, err := w.cl.PerformTransaction(m, srvAddr, true); err != nil {
					w.violate("fire-and-forget-start-failed", "%s: %v", name, err)
				}
			}()
			synctest.Wait()
			if !done {
				w.violate("hang:fire-and-forget-does-not-return", "%s: PerformTransaction(ignoreResult=true) is still blocked", name)
			}
		}
		items := []item{{at: 0, prio: prioTimer, name: "startA", fn: func(*world) { perform(msg, "A") }}}
		items = append(items, item{at: reuseT, prio: prioArm, name: "reuse", fn: func(*world) {
			switch c.Reuse {
			case "fresh":
				mb, err := stun.Build(stun.NewTransactionIDSetter(idB), stun.BindingRequest)
				if err != nil {
					panic(err)
				}
				rawB = append([]byte(nil), mb.Raw...)
				perform(mb, "B")
			case "rebuild":
				if err := msg.Build(stun.NewTransactionIDSetter(idB), stun.BindingRequest); err != nil {
					panic(err)
				}
				rawB = append([]byte(nil), msg.Raw...)
				perform(msg, "B")
			case "scribble":
				for i := range msg.Raw {
					msg.Raw[i] = 0xEE
				}
			}
		}})
		ansAt := func(s [maxSends + 1]time.Duration, i int) time.Duration { return s[i] + iv[i]/2 }
		if c.AnsA > 0 {
			items = append(items, item{at: ansAt(sA, c.AnsA), prio: prioDeliver, name: "ansA", fn: func(w *world) { w.deliver(srvAddr, response(idA, 1)) }})
		}
		if hasB && c.AnsB > 0 {
			items = append(items, item{at: ansAt(sB, c.AnsB), prio: prioDeliver + 1, name: "ansB", fn: func(w *world) { w.deliver(srvAddr, response(idB, 2)) }})
		}
		w.play(items)
		end := failA
		if hasB && failB > end {
			end = failB
		}
		w.goTo(end + time.Second)
		// oracle: what the server saw
		want := func(s [maxSends + 1]time.Duration, ans int) []time.Duration {
			var out []time.Duration
			for k := 1; k <= maxSends; k++ {
				if ans > 0 && s[k] > ansAt(s, ans) {
					break
				}
				out = append(out, s[k])
			}

			return out
		}
		wantA := want(sA, c.AnsA)
		var wantB []time.Duration
		if hasB {
			wantB = want(sB, c.AnsB)
		}
		var gotA, gotB []time.Duration
		for _, a := range w.arrivals() {
			m, perr := wire.Parse(a.data)
			switch {
			case perr == nil && m.TxID == idA:
				gotA = append(gotA, a.at)
				if string(a.data) != string(rawA) {
					w.violate("forget:transmission-of-A-differs-from-the-request:reuse="+c.Reuse, "at %v", a.at)
				}
			case perr == nil && m.TxID == idB && hasB:
				gotB = append(gotB, a.at)
				if string(a.data) != string(rawB) {
					w.violate("forget:transmission-of-B-differs-from-the-request:reuse="+c.Reuse, "at %v", a.at)
				}
			default:
				w.violate("forget:datagram-that-is-no-request-of-the-caller:reuse="+c.Reuse, "at %v: % x", a.at, a.data[:min(len(a.data), 24)])
			}
		}
		cmp := func(name string, got, wantT []time.Duration) {
			if fmt.Sprint(got) != fmt.Sprint(wantT) {
				kind := "instants"
				switch {
				case len(got) < len(wantT):
					kind = "missing-transmission"
				case len(got) > len(wantT):
					kind = "extra-transmission"
				}
				w.violate("forget:retransmit-schedule:"+kind+":"+name+":reuse="+c.Reuse, "%s seen at %v, predicted %v", name, got, wantT)
			}
		}
		cmp("A", gotA, wantA)
		cmp("B", gotB, wantB)
		for _, d := range gotA {
			res.ArrA = append(res.ArrA, d.String())
		}
		for _, d := range gotB {
			res.ArrB = append(res.ArrB, d.String())
		}
		if n := tableSize(w.cl); n != 0 {
			w.violate("forget:table-not-empty-after-finish", "Client.trMap.Size()=%d", n)
		}
		fin := []*txrun{{name: "A", id: idA, done: true}}
		if hasB {
			fin = append(fin, &txrun{name: "B", id: idB, done: true})
		}
		state := w.postCheck(fin, "late-response-after-fire-and-forget", "after-fire-and-forget")
		ak := func(a int) string {
			if a == 0 {
				return "never"
			}

			return "answered"
		}
		res.class = fmt.Sprintf("forget reuse=%s at=%s A=%s B=%s -> A sent %d, B sent %d %s", c.Reuse, map[bool]string{true: "at-once", false: "later"}[c.ReuseAt == 0],
			ak(c.AnsA), ak(c.AnsB), len(gotA), len(gotB), state)

		return w
	})
	if w != nil {
		res.viols = append(res.viols, w.viols...)
	}
	if harnessErr != "" {
		res.viols = append(res.viols, viol{"panic:harness-or-library-in-root", harnessErr})
	}
	if leak != "" {
		res.viols = append(res.viols, viol{"goroutine-leak-or-panic:bubble", leak})
	}

	return res
}

func forgetCases(thorough bool) []Case3 {
	rtos := []int{0, 100, 800}
	ans := []int{0, 1, 3}
	at := []int{0, 1, 2, 6}
	if thorough {
		rtos = []int{0, 1, 100, 300, 400, 800, 1000, 1600}
		ans = []int{0, 1, 2, 3, 4, 5, 6, 7}
		at = []int{0, 1, 2, 3, 4, 5, 6}
	}
	var out []Case3
	for _, r := range rtos {
		for _, reuse := range []string{"none", "fresh", "rebuild", "scribble"} {
			for _, k := range at {
				if reuse == "none" && k != 0 {
					continue
				}
				for _, a := range ans {
					if a > 0 && k > 0 && a <= k && reuse != "none" {
						// A finished before the reuse: still a valid case (reuse of a finished transaction's message)
						_ = a
					}
					bs := []int{0}
					if reuse == "fresh" || reuse == "rebuild" {
						bs = ans
					}
					for _, b := range bs {
						out = append(out, Case3{RTOms: r, Reuse: reuse, ReuseAt: k, AnsA: a, AnsB: b})
					}
				}
			}
		}
	}

	return out
}

func TestC12Forget(t *testing.T) {
	if rep.ReplayPath() != "" {
		var c Case3
		loadReplay(&c)
		res := runForget(t, c)
		fmt.Printf("case: %v\nA seen at %v\nB seen at %v\n", c, res.ArrA, res.ArrB)
		for _, v := range res.viols {
			fmt.Printf("VIOLATION %s: %s\n", v.sig, v.detail)
		}
		if len(res.viols) == 0 {
			fmt.Println("no violation")
		}

		return
	}
	r := rep.New("C12")
	defer r.Write()
	cs := forgetCases(rep.Thorough())
	shard, n := rep.Shard()
	r.Note("fire-and-forget cases=%d (RTO x reuse mode x reuse instant x answer to A x answer to B)", len(cs))
	for x := shard; x < len(cs); x += n {
		c := cs[x]
		if r.OverBudget("c12 fire-and-forget product") {
			return
		}
		rep.Current(map[string]any{"part": "forget", "case": c, "sig_hint": "c12-forget:case-never-quiesces(lock-held-or-spin)"})
		stop := r.Guard(30*time.Second, "c12-forget:case-never-quiesces(lock-held-or-spin)", func() any { return c })
		res := runForget(t, c)
		stop()
		r.Evaluations++
		r.Class(res.class)
		for _, v := range res.viols {
			r.Violate(rep.Violation{Oracle: "c12-forget", Signature: v.sig, Detail: c.String() + ": " + v.detail,
				Replay: map[string]any{"engine": "c12-forget", "case": c}})
		}
		if x < n {
			r.Sample(res)
		}
	}
}

// Close while a fire-and-forget transaction is still retransmitting (what an application does that closes its
// relayed socket - Refresh 0, fire-and-forget - and then the client): "or with an error when the client is closed"
// has nobody to tell here, but the transaction ends all the same: nothing more is sent, nothing stays in the table.
type Case4 struct {
	RTOms      int `json:"rto_ms"`
	CloseAfter int `json:"close_after"` // Close half an interval after transmission k of the pending fire-and-forget transaction
}

func runForgetClose(t *testing.T, c Case4) (viols []viol, sent int) {
	t.Helper()
	var harnessErr string
	w, leak := runBubble(t, func() (w *world) {
		defer func() {
			if e := recover(); e != nil {
				harnessErr = fmt.Sprint(e)
			}
		}()
		var err error
		rto := effRTO(c.RTOms)
		if w, err = newWorld(time.Duration(c.RTOms) * time.Millisecond); err != nil {
			panic(err)
		}
		msg, err := stun.Build(stun.NewTransactionIDSetter(txid("forget-close-A")), stun.BindingRequest)
		if err != nil {
			panic(err)
		}
		if _, err := w.cl.PerformTransaction(msg, srvAddr, true); err != nil {
			w.violate("fire-and-forget-start-failed", "%v", err)
		}
		s, _ := sendTimes(0, rto)
		iv := intervals(rto)
		w.goTo(s[c.CloseAfter] + iv[c.CloseAfter]/2)
		sent = len(w.arrivals())
		w.closeClient("while-fire-and-forget-pending")
		time.Sleep(10 * time.Second)
		synctest.Wait()
		if n := len(w.arrivals()); n != sent {
			w.violate("forget:retransmission-after-Close", "%d transmissions before Close, %d more within 10 s after it", sent, n-sent)
		}
		if n := tableSize(w.cl); n != 0 {
			w.violate("forget:table-not-empty-after-Close", "Client.trMap.Size()=%d", n)
		}
		_ = w.cs.Close()
		_ = w.ss.Close()
		_ = w.os.Close()
		synctest.Wait()

		return w
	})
	if w != nil {
		viols = append(viols, w.viols...)
	}
	if harnessErr != "" {
		viols = append(viols, viol{"panic:harness-or-library-in-root", harnessErr})
	}
	if leak != "" {
		viols = append(viols, viol{"goroutine-leak-or-panic:bubble", leak})
	}

	return viols, sent
}

func TestC12ForgetClose(t *testing.T) {
	r := rep.New("C12")
	defer r.Write()
	if i, _ := rep.Shard(); i != 0 {
		return
	}
	if rep.ReplayPath() != "" {
		var c Case4
		loadReplay(&c)
		v, sent := runForgetClose(t, c)
		fmt.Printf("case: %+v, %d transmissions before Close\n", c, sent)
		for _, x := range v {
			fmt.Printf("VIOLATION %s: %s\n", x.sig, x.detail)
		}

		return
	}
	rtos := []int{0, 100, 800}
	if rep.Thorough() {
		rtos = []int{0, 1, 100, 300, 400, 800, 1000, 1600}
	}
	for _, rto := range rtos {
		for k := 1; k <= 6; k++ {
			c := Case4{RTOms: rto, CloseAfter: k}
			rep.Current(map[string]any{"part": "forget-close", "case": c})
			stop := r.Guard(30*time.Second, "c12-forget-close:case-never-quiesces", func() any { return c })
			v, sent := runForgetClose(t, c)
			stop()
			r.Evaluations++
			r.Class(fmt.Sprintf("fire-and-forget pending, Close after transmission %d -> %d sent, then silence", k, sent))
			for _, x := range v {
				r.Violate(rep.Violation{Oracle: "c12-forget-close", Signature: x.sig, Detail: fmt.Sprintf("%+v: %s", c, x.detail),
					Replay: map[string]any{"engine": "c12-forget-close", "case": c}})
			}
		}
	}
}
