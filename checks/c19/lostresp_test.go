package c19

import (
	"fmt"
	"syscall"
	"testing"
	"testing/synctest"

	"github.com/pion/turn/v5/verif/rep"
	"github.com/pion/turn/v5/verif/vtx"
	"github.com/pion/turn/v5/verif/wire"
)

// TestC19LostResponse: the write of a success response fails once (ENOBUFS on the server's socket - to the client
// a lost datagram). "A retransmitted Allocate gets the same success again without creating anything" is what the
// retransmission is for: for the request whose answer was lost in {Allocate, Allocate with EVEN-PORT, Allocate with
// LIFETIME 1200} the k-th retransmission (k = 1..3) is answered with success, all of them with the same
// attributes, one relay socket exists, the count is 1, and a different Allocate on the 5-tuple gets 437.
func TestC19LostResponse(t *testing.T) {
	r := rep.New("C19")
	defer r.Write()
	if i, _ := rep.Shard(); i != 0 {
		return
	}
	variants := []struct {
		name  string
		attrs func(b *wire.B)
	}{
		{"plain", func(b *wire.B) { udp(b) }},
		{"even-port", func(b *wire.B) { udp(b); b.Attr(wire.AttrEvenPort, []byte{0x80}) }},
		{"lifetime-1200", func(b *wire.B) { udp(b); b.U32(wire.AttrLifetime, 1200) }},
	}
	for _, v := range variants {
		var fatal string
		func() {
			defer func() {
				if e := recover(); e != nil {
					fatal = fmt.Sprint(e)
				}
			}()
			synctest.Test(t, func(*testing.T) {
				fail := func(sig, detail string) {
					r.Violate(rep.Violation{Oracle: "c19-lost-response", Signature: "lost-response:" + sig + ":" + v.name, Detail: detail,
						Replay: map[string]any{"engine": "c19-lost-response", "variant": v.name}})
				}
				w, err := vtx.NewWorld(vtx.Config{}, []string{"c1"}, []string{"A"})
				if err != nil {
					fail("harness:newworld", err.Error())

					return
				}
				defer w.Close()
				c := w.C["c1"]
				c.Request(wire.Refresh, nil, nil) // learns the nonce (and is refused: no allocation)
				tx := w.NextTx()
				b := wire.New(wire.Allocate, wire.Request, tx)
				v.attrs(b)
				raw := c.Auth(b).Bytes()
				w.SrvSock.WriteErr, w.SrvSock.WriteErrOnce = syscall.ENOBUFS, true
				c.Send(raw)
				synctest.Wait()
				w.SrvSock.WriteErr = nil
				r.Evaluations++
				for _, rx := range c.Recv() {
					fail("harness:response-arrived-although-its-write-was-failed", rx.String())

					return
				}
				first := ""
				for k := 1; k <= 3; k++ {
					c.Send(raw)
					synctest.Wait()
					r.Evaluations++
					var resp *wire.Msg
					for _, rx := range c.Recv() {
						if rx.Msg != nil && rx.Msg.TxID == tx {
							resp = rx.Msg
						}
					}
					switch {
					case resp == nil:
						fail("retransmission-unanswered", fmt.Sprintf("retransmission %d", k))

						return
					case resp.Class != wire.Success:
						fail(fmt.Sprintf("retransmission-answered-%d", resp.ErrorCode()), fmt.Sprintf("retransmission %d of the Allocate whose success response was lost", k))

						return
					}
					if a := respAttrs(resp); first == "" {
						first = a
					} else if a != first {
						fail("retransmissions-answered-differently", fmt.Sprintf("%s vs %s", first, a))

						return
					}
				}
				relays := 0
				for _, s := range w.Net.OpenUDP() {
					if len(s) > 9 && s[:9] == "10.9.0.1:" {
						relays++
					}
				}
				if n := w.Srv.AllocationCount(); n != 1 || relays != 1 {
					fail("something-created-by-a-retransmission", fmt.Sprintf("AllocationCount=%d, relay sockets=%d", n, relays))

					return
				}
				res := c.Request(wire.Allocate, nil, v.attrs)
				if res.Resp == nil || res.Resp.Class != wire.Error || res.Resp.ErrorCode() != 437 {
					fail("other-allocate-not-437", fmt.Sprint(res.Resp))
				}
				r.Class(fmt.Sprintf("allocate (%s) whose success response is lost -> 3 retransmissions answered identically, then 437", v.name))
			})
		}()
		if fatal != "" {
			r.Violate(rep.Violation{Oracle: "fatal", Signature: "lost-response:fatal:" + fatal, Detail: v.name})
		}
	}
}
