package c19

import (
	"bytes"
	"fmt"
	"net"
	"testing"
	"testing/synctest"
	"time"

	"github.com/pion/turn/v5/verif/rep"
	"github.com/pion/turn/v5/verif/simnet"
	"github.com/pion/turn/v5/verif/vtx"
	"github.com/pion/turn/v5/verif/wire"
)

// A form is one request shape of the vocabulary.
type form struct {
	name   string
	method uint16
	tx     string // "", "zero", "ff", "shared", "retx"
	attrs  func(b *wire.B)
	as     string // present the credentials of this other user (valid ones) from the client's own 5-tuple
	// want returns the expected response class ("success", "error", "none", "nonsuccess") and, where the
	// property names one, the error code (0 = any).
	want func(a *vtx.MAlloc) (string, int)
}

func udp(b *wire.B)  { b.U32(wire.AttrRequestedTransport, 17<<24) }
func errIfAlloc(code int) func(a *vtx.MAlloc) (string, int) {
	return func(a *vtx.MAlloc) (string, int) {
		if a != nil {
			return "error", 437
		}

		return "error", code
	}
}

func forms() []form {
	allocOK := func(a *vtx.MAlloc) (string, int) {
		if a != nil {
			return "error", 437
		}

		return "success", 0
	}
	needAlloc := func(code int) func(a *vtx.MAlloc) (string, int) {
		return func(a *vtx.MAlloc) (string, int) {
			if a == nil {
				return "nonsuccess", 0
			}
			if code == 0 {
				return "success", 0
			}

			return "error", code
		}
	}
	f := []form{
		{name: "binding", method: wire.Binding, want: func(*vtx.MAlloc) (string, int) { return "success", 0 }},
		{name: "alloc", method: wire.Allocate, attrs: udp, want: allocOK},
		{name: "alloc-retx", method: wire.Allocate, tx: "retx", attrs: udp, want: func(a *vtx.MAlloc) (string, int) { return "success", 0 }},
		// a different user (valid credentials) on the occupied 5-tuple: 437 and nothing changes (sent only when occupied)
		{name: "alloc-other-user", method: wire.Allocate, attrs: udp, as: "u2", want: errIfAlloc(0)},
		{name: "alloc-other-user-evenport", method: wire.Allocate, as: "u2", attrs: func(b *wire.B) { udp(b); b.Attr(wire.AttrEvenPort, []byte{0x80}) }, want: errIfAlloc(0)},
		{name: "alloc-no-transport", method: wire.Allocate, want: errIfAlloc(400)},
		{name: "alloc-transport-len3", method: wire.Allocate, attrs: func(b *wire.B) { b.Attr(wire.AttrRequestedTransport, []byte{17, 0, 0}) }, want: errIfAlloc(400)},
		{name: "alloc-proto99", method: wire.Allocate, attrs: func(b *wire.B) { b.U32(wire.AttrRequestedTransport, 99<<24) }, want: errIfAlloc(442)},
		{name: "alloc-dontfrag", method: wire.Allocate, attrs: func(b *wire.B) { udp(b); b.Attr(wire.AttrDontFragment, nil) }, want: errIfAlloc(0)},
		{name: "alloc-token+evenport", method: wire.Allocate, attrs: func(b *wire.B) {
			udp(b)
			b.Attr(wire.AttrReservationToken, []byte("12345678")).Attr(wire.AttrEvenPort, []byte{0x80})
		}, want: errIfAlloc(0)},
		{name: "alloc-unknown-token", method: wire.Allocate, attrs: func(b *wire.B) { udp(b); b.Attr(wire.AttrReservationToken, []byte("12345678")) }, want: errIfAlloc(0)},
		{name: "alloc-family3", method: wire.Allocate, attrs: func(b *wire.B) { udp(b); b.U32(wire.AttrRequestedFamily, 0x03000000) }, want: errIfAlloc(0)},
		{name: "alloc-family-len3", method: wire.Allocate, attrs: func(b *wire.B) { udp(b); b.Attr(wire.AttrRequestedFamily, []byte{1, 0, 0}) }, want: errIfAlloc(0)},
		{name: "alloc-family4+token", method: wire.Allocate, attrs: func(b *wire.B) {
			udp(b)
			b.U32(wire.AttrRequestedFamily, 0x01000000).Attr(wire.AttrReservationToken, []byte("12345678"))
		}, want: errIfAlloc(0)},
		{name: "alloc-evenport", method: wire.Allocate, attrs: func(b *wire.B) { udp(b); b.Attr(wire.AttrEvenPort, []byte{0x80}) }, want: allocOK},
		{name: "alloc-token-last", method: wire.Allocate, attrs: func(b *wire.B) {
			udp(b)
			tok := lastToken
			if tok == nil {
				tok = []byte("nonexist")
			}
			b.Attr(wire.AttrReservationToken, tok)
		}, want: func(a *vtx.MAlloc) (string, int) {
			switch {
			case a != nil:
				return "error", 437
			case lastToken == nil:
				return "error", 0
			}

			return "success", 0
		}},
		{name: "alloc-genfail", method: wire.Allocate, attrs: udp, want: errIfAlloc(0)},
		{name: "alloc-quota-refused", method: wire.Allocate, attrs: udp, want: errIfAlloc(0)},
		{name: "alloc-fam6", method: wire.Allocate, attrs: func(b *wire.B) { udp(b); b.U32(wire.AttrRequestedFamily, 0x02000000) }, want: allocOK},
		{name: "alloc-fam4", method: wire.Allocate, attrs: func(b *wire.B) { udp(b); b.U32(wire.AttrRequestedFamily, 0x01000000) }, want: allocOK},
		{name: "alloc-unknown-required", method: wire.Allocate, attrs: func(b *wire.B) { udp(b); b.Attr(0x7777, []byte{1, 2, 3, 4}) },
			want: func(*vtx.MAlloc) (string, int) { return "error", 420 }},
		{name: "alloc-lifetime0", method: wire.Allocate, attrs: func(b *wire.B) { udp(b); b.U32(wire.AttrLifetime, 0) }, want: errIfAlloc(0)},
		{name: "refresh", method: wire.Refresh, want: needAlloc(0)},
		{name: "refresh-unknown-required", method: wire.Refresh, attrs: func(b *wire.B) { b.Attr(0x7777, []byte{1}) },
			want: func(*vtx.MAlloc) (string, int) { return "error", 420 }},
		{name: "refresh-family-mismatch", method: wire.Refresh, attrs: func(b *wire.B) { b.U32(wire.AttrRequestedFamily, 0x03000000) }, want: needAlloc(-1)},
		{name: "perm-no-peer", method: wire.CreatePermission, want: needAlloc(-1)},
		{name: "perm-A", method: wire.CreatePermission, attrs: func(b *wire.B) { b.XorAddr(wire.AttrXORPeerAddress, vtx.PeerSpec["A"].IP, 5000) }, want: func(a *vtx.MAlloc) (string, int) {
			switch {
			case a == nil:
				return "nonsuccess", 0
			case a.Fam == 4:
				return "success", 0
			}

			return "error", 0
		}},
		{name: "chan-no-number", method: wire.ChannelBind, attrs: func(b *wire.B) { b.XorAddr(wire.AttrXORPeerAddress, vtx.PeerSpec["A"].IP, 5000) }, want: needAlloc(-1)},
		{name: "chan-no-peer", method: wire.ChannelBind, attrs: func(b *wire.B) { b.U32(wire.AttrChannelNumber, 0x4000<<16) }, want: needAlloc(-1)},
		{name: "chan-unknown-required", method: wire.ChannelBind, attrs: func(b *wire.B) { b.Attr(0x7777, nil) },
			want: func(*vtx.MAlloc) (string, int) { return "error", 420 }},
		{name: "connect-on-udp", method: wire.Connect, attrs: func(b *wire.B) { b.XorAddr(wire.AttrXORPeerAddress, vtx.PeerSpec["A"].IP, 5000) }, want: needAlloc(-3)},
	}
	for _, tx := range []string{"zero", "ff", "shared"} {
		f = append(f, form{name: "binding", method: wire.Binding, tx: tx, want: func(*vtx.MAlloc) (string, int) { return "success", 0 }},
			form{name: "alloc", method: wire.Allocate, tx: tx, attrs: udp, want: allocOK})
	}

	return f
}

var (
	lastToken     []byte
	lastTokenPort int
)

type world struct {
	name    string
	cfg     vtx.Config
	clients []string
}

func worlds() []world {
	return []world{
		{"v4", vtx.Config{}, []string{"c1", "c2"}},
		{"v4-strict", vtx.Config{Strict: true}, []string{"c1", "c2"}},
		{"v4-mapped-source", vtx.Config{}, []string{"c1m", "c2"}},
		{"v6", vtx.Config{V6: true}, []string{"c6"}},
		{"v6-strict", vtx.Config{V6: true, Strict: true}, []string{"c6"}},
	}
}

func init() {
	vtx.ClientSpec["c1m"] = struct {
		Addr *net.UDPAddr
		User string
	}{&net.UDPAddr{IP: net.IPv4(10, 0, 0, 2), Port: 4000}, "u1"}
}

type step struct {
	Client, Form, Tx string
}

type viol struct{ sig, detail string }

func txFor(class string, a *vtx.MAlloc, w *vtx.World) *[12]byte {
	var t [12]byte
	switch class {
	case "zero":
	case "ff":
		for i := range t {
			t[i] = 0xFF
		}
	case "shared":
		copy(t[:], "shared-tx-id")
	case "retx":
		if a == nil {
			return nil
		}
		t = a.Tx
	default:
		return nil
	}

	return &t
}

// runSeq executes one request sequence in a fresh world.
func runSeq(t *testing.T, wd world, fs []form, seq []int, r *rep.Report, record bool) (v *viol, trace []string, steps []step) { //nolint:gocognit,cyclop,maintidx
	func() {
		defer func() {
			if e := recover(); e != nil {
				v = &viol{"fatal:" + fmt.Sprint(e), fmt.Sprint(trace)}
			}
		}()
		synctest.Test(t, func(*testing.T) {
			w, err := vtx.NewWorld(wd.cfg, wd.clients, []string{"A", "B", "V6"})
			if err != nil {
				v = &viol{"harness:newworld", err.Error()}

				return
			}
			defer w.Close()
			x := &vtx.Exec{W: w, M: vtx.NewModel(wd.cfg), Chans: []uint16{0x4000}}
			lastToken, lastTokenPort = nil, 0
			nf := len(fs)
			for _, code := range seq {
				cn := wd.clients[(code/nf)%len(wd.clients)]
				f := fs[code%nf]
				c := w.C[cn]
				a := x.M.Allocs[cn]
				steps = append(steps, step{cn, f.name, f.tx})
				now := time.Now()
				x.M.Expire(now)
				a = x.M.Allocs[cn]
				if f.as != "" && a == nil {
					continue // only meaningful on an occupied 5-tuple
				}
				tx := txFor(f.tx, a, w)
				isRetx := a != nil && tx != nil && *tx == a.Tx && f.method == wire.Allocate
				mark := w.Net.Mark()
				gen0, cnt0 := w.GenCalls, w.Srv.AllocationCount()
				// make sure the client holds a nonce so that the step is a single request/response
				if c.Nonce == "" {
					c.Request(wire.Refresh, nil, nil)
					mark = w.Net.Mark()
					gen0 = w.GenCalls
				}
				retries0 := c.Retries
				if f.name == "alloc-genfail" && a == nil {
					w.GenFailNext = 1
				}
				w.QuotaDeny = f.name == "alloc-quota-refused"
				user0, pass0 := c.User, c.Pass
				if f.as != "" {
					c.User, c.Pass = f.as, vtx.Users[f.as]
				}
				res := c.Request(f.method, tx, f.attrs)
				c.User, c.Pass = user0, pass0
				w.GenFailNext, w.QuotaDeny = 0, false
				lbl := fmt.Sprintf("%s:%s[tx=%s]", cn, f.name, f.tx)
				fail := func(sig, detail string) {
					v = &viol{sig, fmt.Sprintf("%s: %s; trace=%v", lbl, detail, trace)}
				}
				// (1) every datagram the server wrote goes to the requester, carries its id and method
				sent := 0
				for _, e := range w.Net.Since(mark) {
					if e.Sock != w.SrvAddr.String() || (e.Kind != "send" && e.Kind != "drop") {
						continue
					}
					sent++
					if e.Dst != c.Addr.String() {
						fail("correlation:response-sent-to-other-address", fmt.Sprintf("dst %s, requester %s", e.Dst, c.Addr))

						return
					}
				}
				wantSent := 1 + (c.Retries - retries0)
				for _, o := range res.Others {
					if o.Msg != nil && (o.Msg.Class == wire.Success || o.Msg.Class == wire.Error) {
						if o.Msg.Class == wire.Error && (o.Msg.ErrorCode() == 401 || o.Msg.ErrorCode() == 438) {
							continue
						}
						fail("correlation:response-with-foreign-id-or-method", o.String())

						return
					}
					fail("correlation:unsolicited-message", o.String())

					return
				}
				if res.Extra > 0 {
					fail("correlation:duplicate-response", "")

					return
				}
				class, code := f.want(a)
				if isRetx {
					class, code = "success", 0
				} else if f.tx == "retx" {
					class, code = f.want(a)
					if a == nil {
						class, code = "success", 0
					}
				}
				got := "none"
				gotCode := 0
				if res.Resp != nil {
					if res.Resp.Class == wire.Success {
						got = "success"
					} else {
						got = "error"
						gotCode = res.Resp.ErrorCode()
					}
				}
				if sent > wantSent || (res.Resp == nil && sent > wantSent-1) {
					fail("correlation:extra-datagrams-written", fmt.Sprintf("%d > %d", sent, wantSent))

					return
				}
				trace = append(trace, fmt.Sprintf("%s->%s/%d", lbl, got, gotCode))
				if record {
					r.Class(fmt.Sprintf("%s/%s state=%v -> %s/%d", wd.name, f.name, a != nil, got, gotCode))
				}
				switch class {
				case "success":
					if got != "success" {
						fail("outcome:expected-success:"+f.name, fmt.Sprintf("got %s/%d", got, gotCode))

						return
					}
				case "error":
					if got != "error" {
						fail("outcome:expected-error:"+f.name, fmt.Sprintf("got %s", got))

						return
					}
					if code > 0 && gotCode != code && (code == 437 || code == 420) {
						fail(fmt.Sprintf("outcome:expected-%d:%s", code, f.name), fmt.Sprintf("got %d", gotCode))

						return
					}
				case "nonsuccess":
					if got == "success" {
						fail("outcome:success-without-allocation:"+f.name, "")

						return
					}
				}
				// method specific truthfulness
				if f.method == wire.Binding {
					ma, ok := res.Resp.XorAddr(wire.AttrXORMappedAddress)
					if !ok || !ma.IP.Equal(c.Addr.IP) || ma.Port != c.Addr.Port {
						fail("truth:binding-mapped-address", fmt.Sprintf("%v vs %v", ma, c.Addr))

						return
					}
				}
				if f.method == wire.Allocate && got == "success" { //nolint:nestif
					ra, ok1 := res.Resp.XorAddr(wire.AttrXORRelayedAddress)
					ma, ok2 := res.Resp.XorAddr(wire.AttrXORMappedAddress)
					lt, ok3 := res.Resp.U32(wire.AttrLifetime)
					if !ok1 || !ok2 || !ok3 {
						fail("truth:allocate-success-missing-attribute", "")

						return
					}
					if !ma.IP.Equal(c.Addr.IP) || ma.Port != c.Addr.Port {
						fail("truth:allocate-mapped-address", fmt.Sprintf("%v vs %v", ma, c.Addr))

						return
					}
					if isRetx {
						if got, want := respAttrs(res.Resp), a.Note; got != want {
							fail("idempotence:retransmitted-allocate-differs", fmt.Sprintf("attributes %s vs original %s", got, want))

							return
						}
						if ra.String() != a.Relay.String() || time.Duration(lt)*time.Second != a.Granted0 {
							fail("idempotence:retransmitted-allocate-differs", fmt.Sprintf("relay %v vs %v lifetime %d vs %v", ra, a.Relay, lt, a.Granted0))

							return
						}
						if w.GenCalls != gen0 || w.Srv.AllocationCount() != cnt0 {
							fail("idempotence:retransmitted-allocate-created-something", "")

							return
						}
					} else {
						for _, o := range x.M.Allocs {
							if o.Relay.String() == ra.String() {
								fail("truth:relay-address-shared", ra.String())

								return
							}
						}
						if time.Duration(lt)*time.Second != x.M.Granted(-1) {
							fail("truth:allocate-lifetime", fmt.Sprint(lt))

							return
						}
						fam := 4
						switch {
						case f.name == "alloc-fam6":
							fam = 6
						case f.name == "alloc-fam4":
						case wd.cfg.V6 && !wd.cfg.Strict:
							fam = 6
						}
						if (ra.IP.To4() != nil) != (fam == 4) {
							fail("truth:relay-family", fmt.Sprintf("%v want family %d", ra, fam))

							return
						}
						if f.name == "alloc-token-last" && ra.Port != lastTokenPort {
							fail("truth:reserved-port", fmt.Sprintf("got %d want %d", ra.Port, lastTokenPort))

							return
						}
						if f.name == "alloc-evenport" {
							tok, ok := res.Resp.Get(wire.AttrReservationToken)
							if !ok || len(tok) != 8 || ra.Port%2 != 0 {
								fail("truth:even-port", fmt.Sprintf("port %d token %q", ra.Port, tok))

								return
							}
							lastToken, lastTokenPort = append([]byte(nil), tok...), ra.Port+1
						}
						x.M.Allocs[cn] = &vtx.MAlloc{Client: cn, User: c.User, Fam: fam, Relay: ra, Exp: now.Add(x.M.Granted(-1)),
							Granted: x.M.Granted(-1), Granted0: x.M.Granted(-1), Tx: res.Tx, Perms: map[string]time.Time{}, Chans: map[uint16]*vtx.MChan{},
							Note: respAttrs(res.Resp)}
					}
				}
				if got == "success" && a != nil {
					switch f.name {
					case "refresh":
						a.Exp = now.Add(x.M.Granted(-1))
					case "perm-A":
						a.Perms[vtx.PeerSpec["A"].IP.String()] = now.Add(wd.cfg.PermOrDefault())
					}
				}
				if f.name == "perm-A" && a != nil && a.Fam == 6 && got == "success" {
					fail("outcome:ipv4-peer-on-ipv6-allocation", "")

					return
				}
				if got != "success" && (w.GenCalls != gen0 && f.name != "alloc-evenport") {
					// an error path must not leave a relay socket behind (count + open sockets checked below)
					_ = gen0
				}
				ev := vtx.Event{K: "req", C: cn, L: -1}
				if vv := x.CheckCount(ev); vv != nil {
					fail("state:"+vv.Sig, vv.Detail)

					return
				}
				if vv := x.Sweep(ev); vv != nil {
					fail("state:"+vv.Sig, vv.Detail)

					return
				}
				// open relay sockets are exactly those of live allocations
				relays := 0
				for _, s := range w.Net.OpenUDP() {
					if bytes.HasPrefix([]byte(s), []byte("10.9.0.1:")) || bytes.HasPrefix([]byte(s), []byte("[fd00:9::1]:")) {
						relays++
					}
				}
				if relays != len(x.M.Allocs) {
					fail("state:relay-sockets-vs-allocations", fmt.Sprintf("%d open, %d allocations", relays, len(x.M.Allocs)))

					return
				}
			}
		})
	}()

	return v, trace, steps
}

var _ = simnet.New

func TestC19(t *testing.T) {
	r := rep.New("C19")
	defer r.Write()
	fs := forms()
	depth := 2
	if rep.Thorough() {
		depth = 3
	}
	shard, n := rep.Shard()
	idx := 0
	for _, wd := range worlds() {
		alpha := len(fs) * len(wd.clients)
		total := 1
		for range depth {
			total *= alpha
		}
		for code := 0; code < total; code++ {
			idx++
			if idx%n != shard {
				continue
			}
			if r.OverBudget("c19 sequences") {
				return
			}
			seq := make([]int, depth)
			c := code
			for i := range depth {
				seq[i] = c % alpha
				c /= alpha
			}
			v, trace, steps := runSeq(t, wd, fs, seq, r, true)
			r.Evaluations++
			r.Transitions += int64(len(trace))
			r.State(fmt.Sprint(wd.name, trace))
			if v != nil {
				r.Violate(rep.Violation{Oracle: "c19", Signature: v.sig, Detail: v.detail,
					Replay: map[string]any{"engine": "vtx-c19", "world": wd.name, "steps": steps, "seq": seq}})
			}
			if idx < 4*n {
				r.Sample(map[string]any{"world": wd.name, "trace": trace})
			}
		}
	}
	if depth == 2 {
		// quick tier: depth 3 for the sequences that start with a plain Allocate of the first client
		// (the state in which retransmissions, 437 and refreshes mean something)
		first := -1
		for i, f := range fs {
			if f.name == "alloc" && f.tx == "" {
				first = i

				break
			}
		}
		for _, wd := range worlds() {
			alpha := len(fs) * len(wd.clients)
			for code := 0; first >= 0 && code < alpha*alpha; code++ {
				idx++
				if idx%n != shard {
					continue
				}
				if r.OverBudget("c19 sequences (depth 3 after Allocate)") {
					return
				}
				seq := []int{first, code % alpha, code / alpha}
				v, trace, steps := runSeq(t, wd, fs, seq, r, true)
				r.Evaluations++
				r.Transitions += int64(len(trace))
				r.State(fmt.Sprint(wd.name, trace))
				if v != nil {
					r.Violate(rep.Violation{Oracle: "c19", Signature: v.sig, Detail: v.detail,
						Replay: map[string]any{"engine": "vtx-c19", "world": wd.name, "steps": steps, "seq": seq}})
				}
			}
		}
	}
	r.Depth = depth
}

// respAttrs renders the attributes of a success response that a retransmission must repeat.
func respAttrs(m *wire.Msg) string {
	out := ""
	for _, a := range m.Attrs {
		switch a.Type {
		case wire.AttrMessageIntegrity, wire.AttrFingerprint, wire.AttrSoftware:
		default:
			out += fmt.Sprintf("%#04x=%x ", a.Type, a.Value)
		}
	}

	return out
}
