package c19

import (
	"encoding/json"
	"fmt"
	"os"
	"testing"
	"time"

	"github.com/pion/turn/v5/verif/realnet"
	"github.com/pion/turn/v5/verif/rep"
)

// TestC19RealUDP: correlation and truthfulness on kernel loopback sockets
// (package realnet: why, and the asymmetric verdict rules): every request
// sequence up to the depth over three clients (two share an IP address, two a
// user) of {Binding, Allocate, the same Allocate retransmitted, Refresh 0,
// CreatePermission}; every response must arrive at the requester only, carry
// its transaction id, report the requester's real socket address and a relayed
// address no other live allocation has; a retransmitted Allocate gets the same
// attributes again; the sweep then proves that peers' datagrams really reach
// the allocation through the reported relayed address and nobody else.
func TestC19RealUDP(t *testing.T) {
	r := rep.New("C19")
	defer r.Write()
	clients := []string{"c1", "c2", "c3"}
	depth := 3
	if rep.Thorough() {
		depth = 4
	}
	peers := []string{"A", "B"}
	menu := func(w *realnet.World) []realnet.Event {
		var e []realnet.Event
		for _, c := range clients {
			e = append(e, realnet.Event{K: "binding", C: c}, realnet.Event{K: "alloc", C: c})
			if w.C[c].Relay != nil {
				e = append(e, realnet.Event{K: "alloc-retx", C: c}, realnet.Event{K: "refresh0", C: c}, realnet.Event{K: "perm", C: c, P: "A"})
			}
		}

		return e
	}
	run := func(evs []realnet.Event) (sig, detail string, next []realnet.Event, key string, trace []string) {
		w, err := realnet.NewWorld(clients, peers)
		if err != nil {
			return "harness:newworld", err.Error(), nil, "", nil
		}
		defer w.Close()
		for _, ev := range evs {
			if sig, detail = w.Apply(ev); sig != "" || w.Inconclusive != "" {
				break
			}
		}
		after := "start"
		if len(evs) > 0 {
			after = evs[len(evs)-1].String()
		}
		if sig == "" && w.Inconclusive == "" {
			sig, detail = w.Sweep(after)
		}
		if w.Inconclusive != "" {
			return "inconclusive", w.Inconclusive, nil, "", w.Trace
		}

		return sig, detail, menu(w), w.Key(), w.Trace
	}
	if p := rep.ReplayPath(); p != "" {
		var doc struct {
			Events []realnet.Event `json:"events"`
		}
		b, err := os.ReadFile(p)
		if err != nil {
			t.Fatal(err)
		}
		if err := json.Unmarshal(b, &doc); err != nil {
			t.Fatal(err)
		}
		sig, detail, _, key, trace := run(doc.Events)
		fmt.Printf("history: %v\ntrace: %v\nmodel state: %s\nverdict: %q %s\n", doc.Events, trace, key, sig, detail)

		return
	}
	shard, n := rep.Shard()
	idx := 0
	var rec func(prefix []realnet.Event, m []realnet.Event)
	rec = func(prefix []realnet.Event, m []realnet.Event) {
		for _, ev := range m {
			evs := append(append([]realnet.Event{}, prefix...), ev)
			idx++
			own := idx%n == shard
			if r.OverBudget("c19 real-socket histories") {
				return
			}
			if !own && len(evs) == depth {
				continue
			}
			rep.Current(map[string]any{"part": "realudp", "events": evs, "sig_hint": "realudp-history"})
			stop := r.Guard(120*time.Second, "realudp:history-does-not-finish", func() any { return evs })
			sig, detail, next, key, trace := run(evs)
			stop()
			if own {
				switch {
				case sig == "inconclusive":
					r.Note("inconclusive (no verdict): %v: %s", evs, detail)
					r.Exhaustive = false

					continue
				case sig != "":
					r.Violate(rep.Violation{Oracle: "realudp", Signature: sig, Detail: fmt.Sprintf("%v: %s", trace, detail),
						Replay: map[string]any{"engine": "realudp-c19", "events": evs}})

					continue
				}
				r.Evaluations++
				r.Transitions += int64(len(evs))
				r.State(key)
				r.Class("real-udp " + ev.K + " -> agrees with the model, sweep clean")
			}
			if len(evs) < depth && next != nil && sig == "" {
				rec(evs, next)
			}
		}
	}
	w0, err := realnet.NewWorld(clients, peers)
	if err != nil {
		r.Violate(rep.Violation{Oracle: "harness", Signature: "harness:newworld", Detail: err.Error()})

		return
	}
	m0 := menu(w0)
	w0.Close()
	rec(nil, m0)
	r.Depth = depth
}
