package c01

import (
	"testing"

	"github.com/pion/turn/v5/verif/checks/prof"
	"github.com/pion/turn/v5/verif/rep"
	"github.com/pion/turn/v5/verif/vtx"
)

func TestC01(t *testing.T) {
	r := rep.New("C01")
	defer r.Write()
	vtx.Explore(t, prof.Relay("c01", map[string]bool{"leak-c2p": true, "policy": true}), r)
}
