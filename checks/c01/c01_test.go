package c01

import (
	"testing"

	"github.com/pion/turn/v5/verif/checks/prof"
	"github.com/pion/turn/v5/verif/rep"
	"github.com/pion/turn/v5/verif/vtx"
)

func TestC01(t *testing.T) {
	r := rep.New("C01")
	defer r.Write()
	vtx.Explore(t, prof.Relay("c01", map[string]bool{"leak-c2p": true, "policy": true}), r)
}

// TestC01Connect: the TCP connect target is subject to the operator's
// permission handler as well: TCP allocations x policies, Connect / inbound
// connections / CreatePermission for allowed and refused peers.
func TestC01Connect(t *testing.T) {
	r := rep.New("C01")
	defer r.Write()
	p := prof.IsolationTCP("c01-connect-policy", map[string]bool{"policy": true, "leak-c2p": true, "tcp": true})
	p.Configs = []vtx.Config{{Stream: true, Policy: "denyB"}, {Stream: true, Policy: "denyAll"}, {Stream: true}}
	p.Depth = 3
	if rep.Thorough() {
		p.Depth = 4
	}
	vtx.Explore(t, p, r)
}

// TestC01BFS: merged breadth-first search to depth 7 (thorough tier only).
func TestC01BFS(t *testing.T) {
	r := rep.New("C01")
	defer r.Write()
	vtx.ExploreBFS(t, prof.Relay("c01-bfs", map[string]bool{"leak-c2p": true, "policy": true}), r, 7)
}

// TestC01Dual: every listener of a server has its own PermissionHandler. One
// server with a UDP socket and a stream listener on the same ip:port whose
// handlers differ (one admits B, the other refuses it, both ways round); c1
// arrives over UDP, c1t (same ip:port, same user) and c2t over the stream. The
// verdict that counts is that of the listener a client arrived through.
func TestC01Dual(t *testing.T) {
	r := rep.New("C01")
	defer r.Write()
	p := prof.IsolationDual("c01-listeners-with-different-handlers", map[string]bool{"leak-c2p": true, "policy": true})
	p.Configs = []vtx.Config{{Dual: true, Policy: "allow", StreamPolicy: "denyB"}, {Dual: true, Policy: "denyB", StreamPolicy: "allow"},
		{Dual: true, Policy: "denyAll", StreamPolicy: "allow"}}
	p.Depth = 3
	if rep.Thorough() {
		p.Depth = 4
	}
	vtx.Explore(t, p, r)
}
