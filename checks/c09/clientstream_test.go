package c09

import (
	"fmt"
	"net"
	"testing"
	"testing/synctest"
	"time"

	turn "github.com/pion/turn/v5"
	"github.com/pion/turn/v5/verif/rep"
	"github.com/pion/turn/v5/verif/simnet"
	"github.com/pion/turn/v5/verif/vtx"
	"github.com/pion/turn/v5/verif/wire"
)

// TestC09ClientStream: the real client with its Listen loop running over a
// stream transport (turn.NewSTUNConn over a simnet TCP connection to a scripted
// server). The server writes one *validly framed* hostile frame - STUN-framed
// or ChannelData-framed, every declared length class up to 0xFFFF (frames of
// 65 556 bytes), several contents, whole / in 1000-byte segments / byte at a
// time - which the packetiser hands to the client's inbound handler as one
// datagram; then a Binding transaction is the liveness probe (it must complete
// with the server's answer). A panic in the read loop kills the process and is
// reported by the runner with the case that was current.
func TestC09ClientStream(t *testing.T) {
	r := rep.New("C09")
	defer r.Write()
	shard, n := rep.Shard()
	type hcase struct {
		Kind string `json:"kind"`
		Len  int    `json:"declared_length"`
		Seg  int    `json:"segment"`
		Fill string `json:"fill"`
	}
	lens := []int{0, 1, 3, 4, 8, 20, 1500, 1600, 4096, 0x7FFC, 0x8000, 0xFFE8, 0xFFEB, 0xFFEC, 0xFFED, 0xFFF0, 0xFFFB, 0xFFFC, 0xFFFD, 0xFFFE, 0xFFFF}
	var cases []hcase
	for _, kind := range []string{"stun-success-binding", "stun-indication-data", "stun-request", "chandata-bound-range", "chandata-0x7fff"} {
		for _, l := range lens {
			for _, seg := range []int{0, 1000, 1} {
				if seg == 1 && l > 4096 && !rep.Thorough() && l != 0xFFFF {
					continue // byte-at-a-time delivery of the longest frames: one representative in the quick tier
				}
				for _, fill := range []string{"zeros", "attr-like"} {
					cases = append(cases, hcase{kind, l, seg, fill})
				}
			}
		}
	}
	srvAddr := &net.TCPAddr{IP: vtx.SrvV4.IP, Port: vtx.SrvV4.Port}
	for ci := shard; ci < len(cases); ci += n {
		c := cases[ci]
		if r.OverBudget("client stream frames") {
			return
		}
		rep.Current(map[string]any{"part": "client-stream", "case": c, "sig_hint": fmt.Sprintf("client-stream:%s:len=%#x", c.Kind, c.Len)})
		stop := r.Guard(60*time.Second, fmt.Sprintf("client-stream:wedged:%s:len=%#x", c.Kind, c.Len), func() any { return c })
		var fatal, verdict string
		func() {
			defer func() {
				if e := recover(); e != nil {
					fatal = fmt.Sprint(e)
				}
			}()
			synctest.Test(t, func(*testing.T) {
				nw := simnet.New()
				nw.LogOff = true
				l, err := nw.ListenTCPAddr("tcp4", srvAddr)
				if err != nil {
					panic(err)
				}
				conn, err := nw.DialTCPAddr(&net.TCPAddr{IP: net.IPv4(10, 0, 0, 2).To4(), Port: 4000}, srvAddr)
				if err != nil {
					panic(err)
				}
				sc := l.Take()
				cl, err := turn.NewClient(&turn.ClientConfig{
					STUNServerAddr: srvAddr.String(), TURNServerAddr: srvAddr.String(), Conn: turn.NewSTUNConn(conn),
					Username: "u1", Password: "p1", Realm: vtx.Realm, LoggerFactory: quietLF{}, Net: nw.Transport(),
				})
				if err != nil {
					panic(err)
				}
				if err := cl.Listen(); err != nil {
					panic(err)
				}
				defer func() {
					cl.Close()
					_ = conn.Close()
					_ = sc.Close()
					_ = l.Close()
				}()
				// the hostile frame
				var frame []byte
				body := make([]byte, c.Len)
				if c.Fill == "attr-like" {
					for i := 0; i+4 <= len(body); i += 4 {
						body[i], body[i+1], body[i+2], body[i+3] = 0x00, 0x13, 0xFF, 0xFF // DATA attributes announcing 65535 bytes
					}
				}
				switch c.Kind {
				case "stun-success-binding", "stun-indication-data", "stun-request":
					typ := map[string]uint16{"stun-success-binding": 0x0101, "stun-indication-data": 0x0017, "stun-request": 0x0001}[c.Kind]
					frame = mk(typ, c.Len, true, 0)
					frame = append(frame, body...) // a STUN frame is exactly header + declared length (no padding on the stream)
				case "chandata-bound-range":
					frame = wire.ChannelData(0x4000, body, true)
				default:
					frame = wire.ChannelData(0x7FFF, body, true)
				}
				sc.SetSegmentation(c.Seg, nil)
				_, _ = sc.Write(frame)
				synctest.Wait()
				// liveness: a Binding transaction answered by the scripted server
				_, _ = sc.TakeAll()
				type res struct {
					addr net.Addr
					err  error
				}
				done := make(chan res, 1)
				go func() {
					a, err := cl.SendBindingRequest()
					done <- res{a, err}
				}()
				synctest.Wait()
				raw, _ := sc.TakeAll()
				m, perr := wire.Parse(raw)
				if perr != nil || m.Method != wire.Binding {
					verdict = fmt.Sprintf("liveness:client-did-not-send-a-binding-request (%d bytes, %v)", len(raw), perr)

					return
				}
				sc.SetSegmentation(0, nil)
				_, _ = sc.Write(wire.New(wire.Binding, wire.Success, m.TxID).XorAddr(wire.AttrXORMappedAddress, net.IPv4(10, 0, 0, 2), 4000).Bytes())
				synctest.Wait()
				select {
				case x := <-done:
					if x.err != nil {
						verdict = "liveness:binding-transaction-failed:" + x.err.Error()
					}
				default:
					verdict = "liveness:client-deaf-after-hostile-frame(answer not delivered to the transaction)"
				}
			})
		}()
		stop()
		r.Evaluations++
		switch {
		case fatal != "" && verdict == "":
			// blocked goroutines left behind after teardown mean something in the client is wedged for good
			r.Violate(rep.Violation{Oracle: "c09-client-stream", Signature: fmt.Sprintf("client-stream:fatal:%s:len=%#x", c.Kind, c.Len), Detail: fatal,
				Replay: map[string]any{"engine": "enum-c09", "part": "client-stream", "case": c}})
		case verdict != "":
			r.Violate(rep.Violation{Oracle: "c09-client-stream", Signature: fmt.Sprintf("client-stream:%s:%s", c.Kind, verdict[:min(len(verdict), 60)]), Detail: fmt.Sprintf("%+v: %s", c, verdict),
				Replay: map[string]any{"engine": "enum-c09", "part": "client-stream", "case": c}})
		}
		size := "frame<=65535"
		if c.Len+20 > 65535 || (c.Kind[:4] == "chan" && c.Len+4 > 65535) {
			size = "frame>65535"
		}
		r.Class(fmt.Sprintf("client-stream %s %s -> served", c.Kind, size))
	}
}
