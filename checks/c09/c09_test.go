package c09

import (
	"encoding/binary"
	"fmt"
	"net"
	"testing"
	"testing/synctest"

	"github.com/pion/turn/v5/verif/rep"
	"github.com/pion/turn/v5/verif/vtx"
	"github.com/pion/turn/v5/verif/wire"
)

// world with a victim allocation (c3: permission for A, channel 0x4000 -> B), an
// "authenticated" hostile source (c1 with its own allocation) and an
// unauthenticated hostile source (c2).
type env struct {
	w *vtx.World
	x *vtx.Exec
}

func newEnv(stream bool) (*env, error) {
	w, err := vtx.NewWorld(vtx.Config{Stream: stream}, []string{"c1", "c2", "c3", "c4"}, []string{"A", "B"})
	if err != nil {
		return nil, err
	}
	x := &vtx.Exec{W: w, M: vtx.NewModel(w.Cfg), Chans: []uint16{0x4000}}
	for _, ev := range []vtx.Event{
		{K: "alloc", C: "c3", L: -1}, {K: "perm", C: "c3", Peers: []string{"A"}, L: -1}, {K: "chan", C: "c3", N: 0x4000, Peers: []string{"B"}, L: -1},
		{K: "alloc", C: "c1", L: -1}, {K: "perm", C: "c1", Peers: []string{"A"}, L: -1}, {K: "chan", C: "c1", N: 0x4000, Peers: []string{"B"}, L: -1},
		// c4 holds a TCP allocation (RFC 6062) with a permission: datagram-style traffic on it (Send indications,
		// ChannelData) has no relay socket to go to and is dropped
		{K: "alloc", C: "c4", L: -1, TCP: true}, {K: "perm", C: "c4", Peers: []string{"A"}, L: -1},
	} {
		if v := x.Apply(ev); v != nil {
			return nil, fmt.Errorf("setup: %s %s", v.Sig, v.Detail)
		}
	}
	w.C["c2"].Request(wire.Refresh, nil, nil) // c2 learns a nonce, holds no allocation

	return &env{w, x}, nil
}

func stream(w *vtx.World) bool { return w.Cfg.Stream }

func drainAll(w *vtx.World) {
	for _, n := range w.CNames {
		w.C[n].Recv()
	}
	for _, n := range w.PNames {
		w.P[n].Sock.Drain()
	}
}

// probe checks that the server still serves: Binding from src, the victim's
// relay in both directions, and a fresh Refresh of the victim.
func (e *env) probe(src string) string {
	w := e.w
	drainAll(w)
	c := w.C[src]
	if c.Conn == nil || !c.Conn.IsClosed() {
		res := c.Request(wire.Binding, nil, nil)
		if res.Resp == nil || res.Resp.Class != wire.Success {
			// over a stream the server may have closed a connection that sent garbage: not a liveness failure
			if c.Conn == nil {
				return "binding-from-same-source-unanswered"
			}
		}
	}
	if c4 := w.C["c4"]; c4.Conn == nil || !c4.Conn.IsClosed() {
		c4.Send(wire.New(wire.Send, wire.Indication, w.NextTx()).XorAddr(wire.AttrXORPeerAddress, w.P["A"].Addr.IP, w.P["A"].Addr.Port).Str(wire.AttrData, "datagram-on-a-tcp-allocation").Bytes())
		c4.Send(wire.ChannelData(0x4000, []byte("channel-data-on-a-tcp-allocation"), stream(w)))
		synctest.Wait()
	}
	v := w.C["c3"]
	a := e.x.M.Allocs["c3"]
	tag := w.Tag()
	v.Send(wire.New(wire.Send, wire.Indication, w.NextTx()).XorAddr(wire.AttrXORPeerAddress, w.P["A"].Addr.IP, w.P["A"].Addr.Port).Str(wire.AttrData, tag).Bytes())
	tag2 := w.Tag()
	_, _ = w.P["B"].Sock.WriteTo([]byte(tag2), a.Relay)
	synctest.Wait()
	okA, okB := false, false
	for _, d := range w.P["A"].Sock.Drain() {
		if string(d.Data) == tag && d.Src.String() == a.Relay.String() {
			okA = true
		}
	}
	for _, rx := range v.Recv() {
		if rx.Msg == nil && rx.Chan == 0x4000 && string(rx.Data) == tag2 {
			okB = true
		}
	}
	if !okA {
		return "victim-allocation-no-longer-relays-to-peer"
	}
	if !okB {
		return "victim-allocation-no-longer-relays-to-client"
	}
	res := v.Request(wire.Refresh, nil, nil)
	if res.Resp == nil || res.Resp.Class != wire.Success {
		return "victim-refresh-unanswered"
	}
	drainAll(w)

	return ""
}

func declLens(actual int) []int {
	return []int{0, 1, 2, 3, 4, 5, 7, 8, 19, 20, 21, actual - 1, actual, actual + 1, 0x7FFF, 0x8000,
		0xFFEB, 0xFFEC, 0xFFED, 0xFFF0, 0xFFFB, 0xFFFC, 0xFFFD, 0xFFFE, 0xFFFF}
}

func bodyLens() []int {
	if rep.Thorough() {
		return []int{0, 4, 16, 20, 24, 1500, 1580, 1600, 65487}
	}

	return []int{0, 4, 20, 1500}
}

// mk builds a hostile datagram: 2 type bytes, declared length, cookie or zeros, 12 id bytes, body.
func mk(b01 uint16, decl int, cookie bool, body int) []byte {
	out := make([]byte, 20+body)
	binary.BigEndian.PutUint16(out[0:], b01)
	binary.BigEndian.PutUint16(out[2:], uint16(decl&0xFFFF)) //nolint:gosec
	if cookie {
		binary.BigEndian.PutUint32(out[4:], wire.MagicCookie)
	}
	for i := 8; i < len(out); i++ {
		out[i] = byte(i * 3)
	}

	return out
}

// TestC09ServerUDP: every value of the first two bytes x declared length x body
// length x {cookie, zeros}, from an authenticated and an unauthenticated
// source, plus every short datagram length 0..19, followed by liveness probes.
func TestC09ServerUDP(t *testing.T) {
	r := rep.New("C09")
	defer r.Write()
	shard, n := rep.Shard()
	var fatal string
	func() {
		defer func() {
			if e := recover(); e != nil {
				fatal = fmt.Sprint(e)
			}
		}()
		synctest.Test(t, func(*testing.T) {
			e, err := newEnv(false)
			if err != nil {
				r.Violate(rep.Violation{Oracle: "harness", Signature: "harness:setup", Detail: err.Error()})

				return
			}
			defer e.w.Close()
			const block = 256
			for hi := shard; hi < 65536/block; hi += n {
				if r.OverBudget("udp headers") {
					return
				}
				for _, src := range []string{"c1", "c2"} {
					for _, body := range bodyLens() {
						rep.Current(map[string]any{"part": "udp", "first_two_bytes_block": hi * block, "src": src, "body": body, "sig_hint": "udp-header-block"})
						c := e.w.C[src]
						for b01 := hi * block; b01 < (hi+1)*block; b01++ {
							for _, decl := range declLens(body) {
								if decl < 0 {
									continue
								}
								for _, cookie := range []bool{true, false} {
									c.Send(mk(uint16(b01), decl, cookie, body)) //nolint:gosec
									r.Evaluations++
								}
							}
							if b01%16 == 0 {
								synctest.Wait()
								drainAll(e.w)
							}
						}
						synctest.Wait()
						if why := e.probe(src); why != "" {
							r.Violate(rep.Violation{Oracle: "liveness", Signature: "udp:" + why,
								Detail:  fmt.Sprintf("after datagrams with first two bytes %#04x..%#04x body %d from %s", hi*block, (hi+1)*block-1, body, src),
								Replay:  map[string]any{"engine": "enum-c09", "part": "udp", "block": hi * block, "src": src, "body": body}})

							return
						}
						r.Class(fmt.Sprintf("udp src=%s body=%d top2bits=%d -> served", src, body, (hi*block)>>14))
					}
				}
			}
			// short datagrams
			if shard == 0 {
				for l := 0; l < 20; l++ {
					for _, b0 := range []byte{0x00, 0x01, 0x40, 0x7F, 0x80, 0xFF} {
						d := make([]byte, l)
						for i := range d {
							d[i] = b0
						}
						e.w.C["c1"].Send(d)
						e.w.C["c2"].Send(d)
						r.Evaluations += 2
					}
				}
				synctest.Wait()
				if why := e.probe("c2"); why != "" {
					r.Violate(rep.Violation{Oracle: "liveness", Signature: "udp-short:" + why, Detail: "after short datagrams"})
				}
				r.Class("udp short datagrams -> served")
			}
		})
	}()
	if fatal != "" {
		r.Violate(rep.Violation{Oracle: "fatal", Signature: "fatal:" + fatal, Detail: "udp"})
	}
	r.Sample(map[string]any{"part": "udp", "declared_lengths": declLens(20), "body_lengths": bodyLens()})
}

// attribute scripts for the message part
type attrScript struct {
	name string
	add  func(b *wire.B)
}

func attrScripts() []attrScript {
	types := []uint16{wire.AttrMappedAddress, wire.AttrUsername, wire.AttrMessageIntegrity, wire.AttrErrorCode, wire.AttrUnknownAttributes,
		wire.AttrChannelNumber, wire.AttrLifetime, wire.AttrXORPeerAddress, wire.AttrData, wire.AttrRealm, wire.AttrNonce,
		wire.AttrXORRelayedAddress, wire.AttrRequestedFamily, wire.AttrEvenPort, wire.AttrRequestedTransport, wire.AttrDontFragment,
		wire.AttrXORMappedAddress, wire.AttrReservationToken, wire.AttrConnectionID, wire.AttrSoftware, wire.AttrFingerprint,
		0x7777 /* unknown comprehension-required */, 0xC001 /* unknown optional */}
	lens := []int{0, 1, 3, 4, 5, 8, 19, 20, 21}
	var out []attrScript
	for _, t := range types {
		for _, l := range lens {
			v := make([]byte, l)
			for i := range v {
				v[i] = byte(0x11 * (i + 1))
			}
			if l >= 2 {
				v[0], v[1] = 0, 1 // plausible family byte for address attributes
			}
			out = append(out, attrScript{fmt.Sprintf("%#04x/len%d", t, l), func(b *wire.B) { b.Attr(t, v) }})
		}
		if t == wire.AttrNonce || t == wire.AttrUsername || t == wire.AttrRealm {
			// text attributes: legal alphanumeric values of awkward lengths (a nonce is base36 / hex text)
			for _, ch := range []byte{'0', 'Z', 'f'} {
				for _, l := range []int{1, 24, 25, 26, 27, 40, 80, 128, 763} {
					v := make([]byte, l)
					for i := range v {
						v[i] = ch
					}
					out = append(out, attrScript{fmt.Sprintf("%#04x/text-%c-len%d", t, ch, l), func(b *wire.B) { b.Attr(t, v) }})
				}
			}
		}
		out = append(out, attrScript{fmt.Sprintf("%#04x/overrun+1", t), func(b *wire.B) { b.RawAttr(t, 5, []byte{1, 2, 3, 4}) }})
		out = append(out, attrScript{fmt.Sprintf("%#04x/overrun-ffff", t), func(b *wire.B) { b.RawAttr(t, 0xFFFF, []byte{1, 2, 3, 4}) }})
	}

	return out
}

var handled = []struct {
	m uint16
	c uint8
}{
	{wire.Binding, wire.Request}, {wire.Allocate, wire.Request}, {wire.Refresh, wire.Request}, {wire.CreatePermission, wire.Request},
	{wire.ChannelBind, wire.Request}, {wire.Connect, wire.Request}, {wire.ConnectionBind, wire.Request}, {wire.Send, wire.Indication},
}

// TestC09Messages: every method/class pair (4096 types) with no attribute and
// with each single attribute script; the handled types with every ordered pair
// of attribute scripts; each unauthenticated and, for requests, signed with
// valid long-term credentials after the scripted attributes.
func TestC09Messages(t *testing.T) {
	r := rep.New("C09")
	defer r.Write()
	shard, n := rep.Shard()
	scripts := attrScripts()
	var fatal string
	func() {
		defer func() {
			if e := recover(); e != nil {
				fatal = fmt.Sprint(e)
			}
		}()
		synctest.Test(t, func(*testing.T) {
			e, err := newEnv(false)
			if err != nil {
				r.Violate(rep.Violation{Oracle: "harness", Signature: "harness:setup", Detail: err.Error()})

				return
			}
			defer e.w.Close()
			w := e.w
			sendBoth := func(build func(b *wire.B), typ uint16, label string) {
				for _, src := range []string{"c1", "c2"} {
					c := w.C[src]
					b := wire.New(0, 0, w.NextTx()).RawType(typ)
					build(b)
					c.Send(b.Bytes())
					b2 := wire.New(0, 0, w.NextTx()).RawType(typ)
					build(b2)
					c.Auth(b2)
					c.Send(b2.Bytes())
					r.Evaluations += 2
				}
			}
			check := func(label string) bool {
				synctest.Wait()
				// c1's own allocation may legitimately change (signed Refresh etc.); the victim must not
				if why := e.probe("c2"); why != "" {
					r.Violate(rep.Violation{Oracle: "liveness", Signature: "messages:" + why, Detail: "after " + label,
						Replay: map[string]any{"engine": "enum-c09", "part": "messages", "after": label}})

					return false
				}

				return true
			}
			// (1) all 4096 message types x {no attribute, each single script}
			for typ := shard; typ < 0x4000; typ += n {
				if r.OverBudget("message types") {
					return
				}
				rep.Current(map[string]any{"part": "messages", "type": typ, "sig_hint": "message-type"})
				sendBoth(func(*wire.B) {}, uint16(typ), "") //nolint:gosec
				for _, s := range scripts {
					sendBoth(s.add, uint16(typ), s.name) //nolint:gosec
				}
				if !check(fmt.Sprintf("type %#04x with every single attribute script", typ)) {
					return
				}
				m, c := wire.SplitType(uint16(typ)) //nolint:gosec
				if typ%64 == 0 {
					r.Class(fmt.Sprintf("type class=%d method-known=%v x single-attribute -> served", c, m <= 0xc))
				}
			}
			// (2) handled types x ordered pairs of scripts
			idx := 0
			for _, h := range handled {
				typ := wire.TypeOf(h.m, h.c)
				for i, s1 := range scripts {
					idx++
					if idx%n != shard {
						continue
					}
					if r.OverBudget("attribute pairs") {
						return
					}
					rep.Current(map[string]any{"part": "messages", "type": typ, "first": s1.name, "sig_hint": "attribute-pair"})
					for _, s2 := range scripts {
						sendBoth(func(b *wire.B) { s1.add(b); s2.add(b) }, typ, "")
					}
					if !check(fmt.Sprintf("%s/%d with %s + every second script", wire.MethodName(h.m), h.c, s1.name)) {
						return
					}
					if i%23 == 0 {
						r.Class(fmt.Sprintf("%s x attribute pairs -> served", wire.MethodName(h.m)))
					}
				}
			}
		})
	}()
	if fatal != "" {
		r.Violate(rep.Violation{Oracle: "fatal", Signature: "fatal:" + fatal, Detail: "messages"})
	}
	r.Sample(map[string]any{"part": "messages", "attribute_scripts": len(scripts), "example": scripts[5].name})
}

var _ = net.IPv4
