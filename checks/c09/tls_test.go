package c09

import (
	"crypto/ecdsa"
	"crypto/elliptic"
	"crypto/rand"
	"crypto/tls"
	"crypto/x509"
	"crypto/x509/pkix"
	"fmt"
	"math/big"
	"net"
	"testing"
	"testing/synctest"
	"time"

	turn "github.com/pion/turn/v5"
	"github.com/pion/turn/v5/verif/rep"
	"github.com/pion/turn/v5/verif/simnet"
	"github.com/pion/turn/v5/verif/vtx"
	"github.com/pion/turn/v5/verif/wire"
)

func selfSigned() tls.Certificate {
	key, err := ecdsa.GenerateKey(elliptic.P256(), rand.Reader)
	if err != nil {
		panic(err)
	}
	tmpl := &x509.Certificate{SerialNumber: big.NewInt(1), Subject: pkix.Name{CommonName: "turn.test"},
		NotBefore: time.Date(1999, 1, 1, 0, 0, 0, 0, time.UTC), NotAfter: time.Date(2099, 1, 1, 0, 0, 0, 0, time.UTC)}
	der, err := x509.CreateCertificate(rand.Reader, tmpl, tmpl, &key.PublicKey, key)
	if err != nil {
		panic(err)
	}

	return tls.Certificate{Certificate: [][]byte{der}, PrivateKey: key}
}

// TestC09TLS: a TLS listener (crypto/tls over a simnet stream listener, in
// virtual time). Hostile parties open connections and send nothing, a partial
// TLS record header, clear-text STUN, or random bytes, and keep the connection
// open; after each of them another party connects, completes the TLS handshake
// and performs a Binding transaction, which must be answered within two
// seconds of virtual time (the TLS handshake timeout of the server is ten).
func TestC09TLS(t *testing.T) {
	r := rep.New("C09")
	defer r.Write()
	if i, _ := rep.Shard(); i != 0 {
		return
	}
	cert := selfSigned()
	hostiles := []struct {
		name string
		data []byte
	}{
		{"silent", nil},
		{"partial-record-header", []byte{0x16, 0x03, 0x01}},
		{"record-header-announcing-16k", []byte{0x16, 0x03, 0x01, 0x40, 0x00}},
		{"clear-text-stun", wire.New(wire.Binding, wire.Request, [12]byte{1}).Bytes()},
		{"garbage", []byte("GET / HTTP/1.1\r\n\r\n")},
	}
	for n := 1; n <= 3; n++ { // one, two, three hostile connections before the honest party
		for _, h := range hostiles {
			var verdict, fatal string
			stop := r.Guard(60*time.Second, "tls:wedged:"+h.name, func() any { return h.name })
			func() {
				defer func() {
					if e := recover(); e != nil {
						fatal = fmt.Sprint(e)
					}
				}()
				synctest.Test(t, func(*testing.T) {
					nw := simnet.New()
					nw.LogOff = true
					srvAddr := &net.TCPAddr{IP: vtx.SrvV4.IP, Port: 5349}
					l, err := nw.ListenTCPAddr("tcp4", srvAddr)
					if err != nil {
						panic(err)
					}
					srv, err := turn.NewServer(turn.ServerConfig{
						Realm: vtx.Realm, LoggerFactory: vtx.QuietFactory{},
						AuthHandler: func(*turn.RequestAttributes) (string, []byte, bool) { return "", nil, false },
						ListenerConfigs: []turn.ListenerConfig{{
							Listener:              tls.NewListener(l, &tls.Config{Certificates: []tls.Certificate{cert}, MinVersion: tls.VersionTLS12}),
							RelayAddressGenerator: &turn.RelayAddressGeneratorStatic{RelayAddress: net.IPv4(10, 9, 0, 1), Address: "10.9.0.1", Net: nw.Transport()},
						}},
					})
					if err != nil {
						panic(err)
					}
					var open []*simnet.Conn
					defer func() {
						for _, c := range open {
							_ = c.Close()
						}
						_ = srv.Close()
					}()
					for i := 0; i < n; i++ {
						hc, err := nw.DialTCPAddr(&net.TCPAddr{IP: net.IPv4(10, 0, 0, 66).To4(), Port: 20000 + i}, srvAddr)
						if err != nil {
							panic(err)
						}
						open = append(open, hc)
						if h.data != nil {
							_, _ = hc.Write(h.data)
						}
						synctest.Wait()
					}
					// the honest party
					start := time.Now()
					done := make(chan string, 1)
					cc, err := nw.DialTCPAddr(&net.TCPAddr{IP: net.IPv4(10, 0, 0, 2).To4(), Port: 4000}, srvAddr)
					if err != nil {
						panic(err)
					}
					open = append(open, cc)
					go func() {
						tc := tls.Client(cc, &tls.Config{InsecureSkipVerify: true, MinVersion: tls.VersionTLS12}) //nolint:gosec
						if err := tc.Handshake(); err != nil {
							done <- "handshake: " + err.Error()

							return
						}
						tx := [12]byte{7, 7, 7}
						if _, err := tc.Write(wire.New(wire.Binding, wire.Request, tx).Bytes()); err != nil {
							done <- "write: " + err.Error()

							return
						}
						buf := make([]byte, 2048)
						k, err := tc.Read(buf)
						if err != nil {
							done <- "read: " + err.Error()

							return
						}
						if m, perr := wire.Parse(buf[:k]); perr != nil || m.TxID != tx || m.Class != wire.Success {
							done <- "unexpected answer"

							return
						}
						done <- ""
					}()
					for {
						synctest.Wait()
						select {
						case res := <-done:
							el := time.Since(start)
							switch {
							case res != "":
								verdict = "liveness:honest-party-not-served:" + res
							case el > 2*time.Second:
								verdict = fmt.Sprintf("liveness:honest-party-served-only-after-%v-of-virtual-time", el.Round(time.Second))
							}

							return
						default:
						}
						if time.Since(start) > 30*time.Second {
							verdict = "liveness:honest-party-never-served(30 s)"

							return
						}
						time.Sleep(500 * time.Millisecond)
					}
				})
			}()
			stop()
			r.Evaluations++
			switch {
			case verdict != "":
				r.Violate(rep.Violation{Oracle: "c09-tls", Signature: "tls:" + h.name + ":" + verdict, Detail: fmt.Sprintf("%d hostile connection(s) of kind %s kept open", n, h.name),
					Replay: map[string]any{"engine": "enum-c09", "part": "tls", "hostile": h.name, "count": n}})
			case fatal != "":
				r.Violate(rep.Violation{Oracle: "c09-tls", Signature: "tls:fatal:" + h.name, Detail: fatal})
			}
			r.Class(fmt.Sprintf("tls %s x%d -> honest party served at once", h.name, n))
		}
	}
}
