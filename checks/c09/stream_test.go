package c09

import (
	"fmt"
	"net"
	"testing"
	"testing/synctest"

	"github.com/pion/logging"
	turn "github.com/pion/turn/v5"
	"github.com/pion/turn/v5/verif/rep"
	"github.com/pion/turn/v5/verif/simnet"
	"github.com/pion/turn/v5/verif/vtx"
	"github.com/pion/turn/v5/verif/wire"
)

// hostile opens a fresh stream connection to the listener, writes p (as
// scripted segments), optionally closes, and lets the server settle.
func hostile(w *vtx.World, port int, p []byte, maxSeg int, closeAfter bool) *simnet.Conn {
	conn, err := w.Net.DialTCPAddr(&net.TCPAddr{IP: net.IPv4(10, 0, 0, 66).To4(), Port: port},
		&net.TCPAddr{IP: w.SrvAddr.IP, Port: w.SrvAddr.Port})
	if err != nil {
		panic(err)
	}
	conn.SetSegmentation(maxSeg, nil)
	_, _ = conn.Write(p)
	if closeAfter {
		_ = conn.Close()
	}

	return conn
}

// TestC09ServerStream: hostile stream prefixes: every value of the first two
// bytes x declared length set x {cookie, zeros} x tail length, and every proper
// prefix of every valid message of the vocabulary, each on its own connection,
// closed or left open, whole or byte-at-a-time; then liveness probes.
func TestC09ServerStream(t *testing.T) {
	r := rep.New("C09")
	defer r.Write()
	shard, n := rep.Shard()
	var fatal string
	func() {
		defer func() {
			if e := recover(); e != nil {
				fatal = fmt.Sprint(e)
			}
		}()
		synctest.Test(t, func(*testing.T) {
			e, err := newEnv(true)
			if err != nil {
				r.Violate(rep.Violation{Oracle: "harness", Signature: "harness:setup", Detail: err.Error()})

				return
			}
			defer e.w.Close()
			w := e.w
			w.Net.LogOff = true
			port := 20000
			var open []*simnet.Conn
			flush := func(label string) bool {
				synctest.Wait()
				for _, c := range open {
					_ = c.Close()
				}
				open = open[:0]
				synctest.Wait()
				if why := e.probe("c2"); why != "" {
					r.Violate(rep.Violation{Oracle: "liveness", Signature: "stream:" + why, Detail: "after " + label,
						Replay: map[string]any{"engine": "enum-c09", "part": "stream", "after": label}})

					return false
				}

				return true
			}
			decls := []int{0, 4, 8, 0x10, 0x5C8, 0x7FFF, 0xFFEB, 0xFFEC, 0xFFF0, 0xFFFC, 0xFFFD, 0xFFFF}
			tails := []int{0, 5, 16, 40}
			const block = 256
			for hi := shard; hi < 65536/block; hi += n {
				if r.OverBudget("stream headers") {
					return
				}
				rep.Current(map[string]any{"part": "stream", "first_two_bytes_block": hi * block, "sig_hint": "stream-header-block"})
				for b01 := hi * block; b01 < (hi+1)*block; b01++ {
					for _, decl := range decls {
						for _, cookie := range []bool{true, false} {
							for _, tail := range tails {
								p := mk(uint16(b01), decl, cookie, 0)[:4+min(16, 4+tail)] //nolint:gosec
								p = append(p, make([]byte, tail)...)
								port++
								if port > 60000 {
									port = 20000
								}
								c := hostile(w, port, p, 0, tail%2 == 1)
								if tail%2 == 0 {
									open = append(open, c)
								}
								r.Evaluations++
							}
						}
					}
					if b01%8 == 0 {
						if !flush(fmt.Sprintf("stream prefixes with first two bytes up to %#04x", b01)) {
							return
						}
					}
				}
				r.Class(fmt.Sprintf("stream top2bits=%d -> served", (hi*block)>>14))
			}
			// complete frames of every size class around the inbound buffer (1600) and up to the largest a
			// 16-bit length can announce: STUN-framed (cookie) and ChannelData-framed, whole / in 1000-byte
			// segments / byte-at-a-time, each followed by a valid Binding request on the same connection.
			if shard == 1%n {
				tx := w.NextTx()
				binding := wire.New(wire.Binding, wire.Request, tx).Bytes()
				lens := []int{0, 4, 1500, 1576, 1579, 1580, 1581, 1584, 1596, 1600, 1604, 3004, 0x7FFC, 0xFFFC, 0xFFFF}
				for _, kind := range []string{"stun", "stun-no-cookie", "chandata", "chandata-unbound"} {
					for _, l := range lens {
						var frame []byte
						switch kind {
						case "stun", "stun-no-cookie":
							frame = mk(0x0001, l, kind == "stun", l)
						case "chandata":
							frame = wire.ChannelData(0x4000, make([]byte, l), true)
						default:
							frame = wire.ChannelData(0x4abc, make([]byte, l), true)
						}
						for _, seg := range []int{0, 1000, 1} {
							port++
							cn := hostile(w, port, append(append([]byte{}, frame...), binding...), seg, false)
							open = append(open, cn)
							r.Evaluations++
							if !flush(fmt.Sprintf("complete %s frame with declared length %d (seg=%d)", kind, l, seg)) {
								return
							}
						}
						r.Class(fmt.Sprintf("stream complete %s frame, %s inbound buffer -> served", kind, map[bool]string{true: "beyond", false: "within"}[len(frame) >= 1600]))
					}
				}
			}
			// every proper prefix of every valid message, whole and byte-at-a-time, closed and left open
			if shard == 0 {
				c := w.C["c2"]
				var vocab [][]byte
				a := vtx.PeerSpec["A"]
				mkreq := func(m uint16, attrs func(b *wire.B)) {
					b := wire.New(m, wire.Request, w.NextTx())
					if attrs != nil {
						attrs(b)
					}
					c.Auth(b)
					vocab = append(vocab, b.Bytes())
				}
				mkreq(wire.Binding, nil)
				mkreq(wire.Allocate, func(b *wire.B) { b.U32(wire.AttrRequestedTransport, 17<<24) })
				mkreq(wire.Refresh, func(b *wire.B) { b.U32(wire.AttrLifetime, 600) })
				mkreq(wire.CreatePermission, func(b *wire.B) { b.XorAddr(wire.AttrXORPeerAddress, a.IP, a.Port) })
				mkreq(wire.ChannelBind, func(b *wire.B) { b.U32(wire.AttrChannelNumber, 0x4000<<16); b.XorAddr(wire.AttrXORPeerAddress, a.IP, a.Port) })
				mkreq(wire.Connect, func(b *wire.B) { b.XorAddr(wire.AttrXORPeerAddress, a.IP, a.Port) })
				mkreq(wire.ConnectionBind, func(b *wire.B) { b.U32(wire.AttrConnectionID, 7) })
				vocab = append(vocab, wire.New(wire.Send, wire.Indication, w.NextTx()).XorAddr(wire.AttrXORPeerAddress, a.IP, a.Port).Str(wire.AttrData, "x").Bytes())
				vocab = append(vocab, wire.ChannelData(0x4000, []byte("hello"), true), wire.ChannelData(0x4000, nil, true))
				for vi, msg := range vocab {
					for cut := 0; cut < len(msg); cut++ {
						for _, seg := range []int{0, 1} {
							for _, cl := range []bool{true, false} {
								port++
								cn := hostile(w, port, msg[:cut], seg, cl)
								if !cl {
									open = append(open, cn)
								}
								r.Evaluations++
							}
						}
					}
					if !flush(fmt.Sprintf("proper prefixes of vocabulary message %d", vi)) {
						return
					}
					r.Class(fmt.Sprintf("stream prefixes of message %d -> served", vi))
				}
			}
		})
	}()
	if fatal != "" {
		r.Violate(rep.Violation{Oracle: "fatal", Signature: "fatal:" + fatal, Detail: "stream"})
	}
	r.Sample(map[string]any{"part": "stream", "example_prefix_hex": fmt.Sprintf("%x", mk(0x4000, 0xFFFC, false, 0)[:12])})
}

// TestC09Client: Client.HandleInbound on the header quotient in client states
// {no allocation}: must return (never panic / block) with the documented
// classification, and the client still completes a transaction afterwards.
func TestC09Client(t *testing.T) {
	r := rep.New("C09")
	defer r.Write()
	shard, n := rep.Shard()
	var fatal string
	func() {
		defer func() {
			if e := recover(); e != nil {
				fatal = fmt.Sprint(e)
			}
		}()
		synctest.Test(t, func(*testing.T) {
			nw := simnet.New()
			srvAddr := vtx.SrvV4
			srv, _ := nw.ListenUDP("udp", srvAddr)
			cs, _ := nw.ListenUDP("udp", &net.UDPAddr{IP: net.IPv4(10, 0, 0, 2).To4(), Port: 4000})
			cl, err := turn.NewClient(&turn.ClientConfig{
				STUNServerAddr: srvAddr.String(), TURNServerAddr: srvAddr.String(), Conn: cs,
				Username: "u1", Password: "p1", Realm: vtx.Realm, LoggerFactory: quietLF{}, Net: nw.Transport(),
			})
			if err != nil {
				r.Violate(rep.Violation{Oracle: "harness", Signature: "harness:newclient", Detail: err.Error()})

				return
			}
			defer func() {
				cl.Close()
				_ = srv.Close()
			}()
			other := &net.UDPAddr{IP: net.IPv4(10, 7, 7, 7).To4(), Port: 9}
			const block = 256
			for hi := shard; hi < 65536/block; hi += n {
				if r.OverBudget("client headers") {
					return
				}
				rep.Current(map[string]any{"part": "client", "first_two_bytes_block": hi * block, "sig_hint": "client-header-block"})
				for b01 := hi * block; b01 < (hi+1)*block; b01++ {
					for _, body := range []int{0, 4, 20, 1500} {
						for _, decl := range declLens(body) {
							if decl < 0 {
								continue
							}
							for _, cookie := range []bool{true, false} {
								d := mk(uint16(b01), decl, cookie, body) //nolint:gosec
								for _, from := range []net.Addr{srvAddr, other} {
									handledFlag, herr := cl.HandleInbound(d, from)
									r.Evaluations++
									// documented classification (client.go): (false, err) "shouldn't happen"
									if !handledFlag && herr != nil {
										r.Violate(rep.Violation{Oracle: "classification", Signature: "client:unhandled-with-error",
											Detail: fmt.Sprintf("% x... from %v: %v", d[:8], from, herr)})
									}
									// reference: STUN-looking (cookie, >=20 bytes) or valid ChannelData => handled
									isStun := cookie && len(d) >= 20
									isCD := b01 >= 0x4000 && b01 <= 0x7FFF && decl <= len(d)-4
									wantHandled := isStun || isCD || from == net.Addr(srvAddr)
									if handledFlag != wantHandled {
										r.Violate(rep.Violation{Oracle: "classification", Signature: fmt.Sprintf("client:handled=%v-want-%v:stun=%v:chandata=%v", handledFlag, wantHandled, isStun, isCD),
											Detail: fmt.Sprintf("% x... len %d from %v err=%v", d[:8], len(d), from, herr)})
									}
								}
							}
						}
					}
				}
				synctest.Wait()
				r.Class(fmt.Sprintf("client top2bits=%d -> classified", (hi*block)>>14))
			}
		})
	}()
	if fatal != "" {
		r.Violate(rep.Violation{Oracle: "fatal", Signature: "fatal:" + fatal, Detail: "client"})
	}
}

type quietLF struct{}

func (quietLF) NewLogger(string) logging.LeveledLogger { return vtx.Quiet{} }
