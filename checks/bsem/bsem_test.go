// Package bsem holds the Engine-B (schedule exploration) halves of the
// properties whose quantifier includes schedules: C02, C04, C16. Unlike C18's
// scenarios, which only look for crashes and lock-ups, these check the
// property's own semantics in every explored schedule.
package bsem

import (
	"fmt"
	"net"
	"os"
	"sort"
	"strings"
	"sync"
	"testing"
	"time"

	"github.com/pion/turn/v5/verif/rep"
	"github.com/pion/turn/v5/verif/sched"
	"github.com/pion/turn/v5/verif/shim/vsched"
	"github.com/pion/turn/v5/verif/simnet"
	"github.com/pion/turn/v5/verif/vtx"
	"github.com/pion/turn/v5/verif/wire"
)

func udp(b *wire.B) { b.U32(wire.AttrRequestedTransport, 17<<24) }
func tcp(b *wire.B) { b.U32(wire.AttrRequestedTransport, 6<<24) }

func peer(name string) func(b *wire.B) {
	return func(b *wire.B) { b.XorAddr(wire.AttrXORPeerAddress, vtx.PeerSpec[name].IP, vtx.PeerSpec[name].Port) }
}

func chanAttrs(n uint16, p string) func(b *wire.B) {
	return func(b *wire.B) { b.U32(wire.AttrChannelNumber, uint32(n)<<16); peer(p)(b) }
}

func lifetime(l uint32) func(b *wire.B) { return func(b *wire.B) { b.U32(wire.AttrLifetime, l) } }

func bound() int {
	if rep.Thorough() {
		return 3
	}

	return 2
}

var opt = vsched.Options{FireSlack: time.Millisecond, WritePref: true}

type notes struct {
	mu sync.Mutex
	m  map[string]string
}

func (n *notes) set(k, v string) {
	n.mu.Lock()
	if n.m == nil {
		n.m = map[string]string{}
	}
	n.m[k] = v
	n.mu.Unlock()
}

func (n *notes) get(k string) string {
	n.mu.Lock()
	defer n.mu.Unlock()

	return n.m[k]
}

// ---------------------------------------------------------------- C02

// c02ExpiryRace: a peer datagram races the permission's expiry timer and the
// owner's Refresh 0, with a second client (own allocation, same peer permitted)
// present. In every schedule the datagram is delivered to the owner at most once
// with truthful attribution or to nobody, and never to the other client.
func c02ExpiryRace() *sched.Scenario {
	return &sched.Scenario{Name: "c02-peer-data-vs-expiry-vs-refresh0", Bound: bound(), FreeBound: 3, Opt: opt,
		Body: func(*vsched.Sched) (func() []string, func()) {
			w := sched.NewBW(sched.BCfg{Perm: time.Second})
			c1, c2 := w.NewClient("c1"), w.NewClient("c2")
			pa := w.NewPeer("A")
			var nt notes
			vsched.Go("driver", func() {
				r1 := c1.Do(wire.Allocate, udp)
				relay1, _ := r1.XorAddr(wire.AttrXORRelayedAddress)
				c2.Do(wire.Allocate, udp)
				c2.Do(wire.CreatePermission, peer("A"))
				c1.Do(wire.CreatePermission, peer("A"))
				vsched.IdleSleep(time.Second - time.Nanosecond) // 1ns before c1's permission for A expires
				vsched.Mark()
				vsched.Go("peer", func() {
					_, _ = pa.WriteTo([]byte("late-datagram"), relay1)
					nt.set("peer", "sent")
				})
				resp := c1.Do(wire.Refresh, lifetime(0))
				if resp.Class == wire.Success {
					// whatever is in c1's inbox now arrived before the success was seen
					nt.set("refresh0", "success")
					nt.set("inbox-at-success", fmt.Sprint(len(c1.Inbox)))
				}
			})

			return func() []string {
				var out []string
				// final observation
				for _, rx := range c2.Sock.Drain() {
					out = append(out, "c02:delivered-to-other-client\n"+fmt.Sprintf("%x", rx.Data))
				}
				late := 0
				seen := 0
				for _, d := range c1.Sock.Drain() {
					c1.Inbox = append(c1.Inbox, vtx.Decode(d.Data, d.Src))
					late++
				}
				for _, rx := range c1.Inbox {
					if rx.Msg != nil && rx.Msg.Method == wire.Data {
						seen++
						pa2, _ := rx.Msg.XorAddr(wire.AttrXORPeerAddress)
						body, _ := rx.Msg.Get(wire.AttrData)
						if pa2 == nil || pa2.String() != vtx.PeerSpec["A"].String() || string(body) != "late-datagram" {
							out = append(out, "c02:untruthful-attribution-or-payload\n"+rx.String())
						}
					}
				}
				if seen > 1 {
					out = append(out, "c02:datagram-delivered-twice")
				}
				// (A Data indication may legitimately reach the client after the Refresh-0 success: the
				// datagram arrived at the relayed address while the permission was live and was already in
				// flight inside the relay loop. C02 speaks about authorisation when the datagram arrives.)
				_ = late

				return out
			}, func() { _ = w.Srv.Close() }
		}}
}

// c02SlowDeleteCallback: the operator's OnChannelDeleted / OnPermissionDeleted callback takes 2 s. An entry that
// has run out authorises nothing from its deadline on - also while the callback that reports its end (or the end of
// a sibling with the same deadline) is still running. kind "chan": ChannelBind(A) with channel timeout 1 s and
// permission timeout 500 ms, A sends at 1.5 s. kind "perm": CreatePermission[A, B] with timeout 1 s, B sends at 1.5 s.
func c02SlowDeleteCallback(kind string) *sched.Scenario {
	name := "c02-peer-datagram-during-slow-" + kind + "-deleted-callback"
	tcpAlloc := kind == "perm-tcp"
	if tcpAlloc {
		kind = "perm" // the same callback, a TCP allocation: the peer connects instead of sending a datagram
	}

	return &sched.Scenario{Name: name, Bound: bound(), FreeBound: 3, Opt: opt,
		Body: func(*vsched.Sched) (func() []string, func()) {
			cb := func(k string) {
				if k == kind+"-" {
					vsched.IdleSleep(2 * time.Second)
				}
			}
			cfg := sched.BCfg{Chan: time.Second, Perm: 500 * time.Millisecond, CB: cb}
			if kind == "perm" {
				cfg = sched.BCfg{Perm: time.Second, CB: cb}
			}
			w := sched.NewBW(cfg)
			c := w.NewClient("c1")
			pa, pb := w.NewPeer("A"), w.NewPeer("B")
			var nt notes
			vsched.Go("client", func() {
				transport := udp
				if tcpAlloc {
					transport = tcp
				}
				r := c.Do(wire.Allocate, transport)
				relay, _ := r.XorAddr(wire.AttrXORRelayedAddress)
				sender := pa
				if kind == "perm" {
					c.Do(wire.CreatePermission, func(b *wire.B) { peer("A")(b); peer("B")(b) })
					sender = pb
				} else {
					c.Do(wire.ChannelBind, chanAttrs(0x4000, "A"))
				}
				vsched.IdleSleep(1500 * time.Millisecond)
				c.Sock.Drain()
				vsched.Mark()
				if tcpAlloc {
					pb2 := vtx.PeerSpec["B"]
					_, _ = w.Net.DialTCPAddr(&net.TCPAddr{IP: pb2.IP, Port: 6000}, &net.TCPAddr{IP: relay.IP, Port: relay.Port})
				} else {
					_, _ = sender.WriteTo([]byte("half-a-second-after-the-deadline"), relay)
				}
				vsched.IdleSleep(5 * time.Second)
				nt.set("at-client", fmt.Sprint(c.Sock.Pending()))
			})

			return func() []string {
				if os.Getenv("VERIF_DEBUG_FAIL") != "" {
					return []string{"debug:forced"}
				}
				switch nt.get("at-client") {
				case "":
					return []string{"c02:client-never-completed"}
				case "0":
					return nil
				}

				return []string{"c02:datagram-of-a-peer-whose-entry-has-run-out-reached-the-client:" + kind}
			}, func() { _ = w.Srv.Close() }
		}}
}

// ---------------------------------------------------------------- C05

// c05StreamRelayVsResponse: over a stream listener two goroutines write to the client's connection: the relay loop
// of the allocation (a peer's datagram as ChannelData, another one as a Data indication) and the connection's read
// loop (the response to a Refresh). However their writes interleave, the client reads whole frames: exactly the two
// relayed payloads, byte-identical, and the response - a frame is written in one piece.
func c05StreamRelayVsResponse() *sched.Scenario {
	return &sched.Scenario{Name: "c05-relayed-frames-vs-response-on-one-stream", Bound: bound(), FreeBound: 3, Opt: opt,
		Body: func(*vsched.Sched) (func() []string, func()) {
			w := sched.NewBW(sched.BCfg{Stream: true})
			c := w.NewClient("c1")
			pa, pb := w.NewPeer("A"), w.NewPeer("B")
			var nt notes
			const viaChannel, viaIndication = "thirty-seven bytes through channel B!", "and these through a data indication"
			vsched.Go("client", func() {
				r := c.Do(wire.Allocate, udp)
				relay, _ := r.XorAddr(wire.AttrXORRelayedAddress)
				c.Do(wire.CreatePermission, peer("A"))
				c.Do(wire.ChannelBind, chanAttrs(0x4000, "B"))
				vsched.Mark()
				vsched.Go("peers", func() {
					_, _ = pb.WriteTo([]byte(viaChannel), relay)
					_, _ = pa.WriteTo([]byte(viaIndication), relay)
				})
				rr := c.Do(wire.Refresh, lifetime(600))
				nt.set("refresh", fmt.Sprintf("%d/%d", rr.Class, rr.ErrorCode()))
				vsched.IdleSleep(time.Second)
				c.Inbox = append(c.Inbox, c.Recv()...)
				var got []string
				for _, rx := range c.Inbox {
					switch {
					case rx.Bad != "":
						got = append(got, "undecodable:"+rx.Bad)
					case rx.Msg == nil:
						got = append(got, fmt.Sprintf("chan(%#x,%q)", rx.Chan, rx.Data))
					case rx.Msg.Method == wire.Data:
						d, _ := rx.Msg.Get(wire.AttrData)
						got = append(got, fmt.Sprintf("data(%q)", d))
					default:
						got = append(got, "other:"+rx.String())
					}
				}
				sort.Strings(got)
				nt.set("inbox", strings.Join(got, " | "))
			})

			return func() []string {
				want := fmt.Sprintf("chan(0x4000,%q) | data(%q)", viaChannel, viaIndication)
				switch {
				case nt.get("inbox") == "" && nt.get("refresh") == "":
					return []string{"c05:client-never-saw-the-response(stream-out-of-step)"}
				case nt.get("refresh") != fmt.Sprintf("%d/0", wire.Success):
					return []string{"c05:refresh-not-answered-success:" + nt.get("refresh")}
				case nt.get("inbox") != want:
					return []string{"c05:frames-on-the-stream-differ-from-what-was-relayed\ngot  " + nt.get("inbox") + "\nwant " + want}
				}

				return nil
			}, func() { _ = w.Srv.Close() }
		}}
}

// ---------------------------------------------------------------- C04

// c04TwoConns: two stream clients of one listener (two handler goroutines on one
// manager) use identical transaction ids, channel number and peer concurrently.
// In every schedule each client ends with its own allocation whose relay address
// differs from the other's, each relay delivers a peer datagram to its owner only,
// and deleting one leaves the other intact.
func c04TwoConns() *sched.Scenario {
	return &sched.Scenario{Name: "c04-two-stream-clients-isolated", Bound: bound() - 1, FreeBound: 2, Opt: opt,
		Body: func(*vsched.Sched) (func() []string, func()) {
			w := sched.NewBW(sched.BCfg{Stream: true})
			c1, c2 := w.NewClient("c1"), w.NewClient("c2")
			pa := w.NewPeer("A")
			var nt notes
			var wg sync.WaitGroup
			vsched.Go("driver", func() {
				vsched.Mark()
				for _, c := range []*sched.BClient{c1, c2} {
					wg.Add(1)
					vsched.Go(c.Name, func() {
						defer wg.Done()
						r := c.Do(wire.Allocate, udp)
						if r.Class != wire.Success {
							nt.set(c.Name+"-alloc", fmt.Sprintf("failed-%d", r.ErrorCode()))

							return
						}
						ra, _ := r.XorAddr(wire.AttrXORRelayedAddress)
						nt.set(c.Name+"-relay", ra.String())
						r = c.Do(wire.ChannelBind, chanAttrs(0x4000, "A"))
						nt.set(c.Name+"-chan", fmt.Sprint(r.Class))
					})
				}
			})

			return func() []string {
				var out []string
				r1, r2 := nt.get("c1-relay"), nt.get("c2-relay")
				if r1 == "" || r2 == "" {
					return []string{"c04:allocate-failed:" + nt.get("c1-alloc") + "/" + nt.get("c2-alloc")}
				}
				if r1 == r2 {
					out = append(out, "c04:two-allocations-share-relay-address")
				}
				if nt.get("c1-chan") != "2" || nt.get("c2-chan") != "2" {
					out = append(out, "c04:channel-bind-of-one-client-affected-by-the-other:"+nt.get("c1-chan")+"/"+nt.get("c2-chan"))
				}
				if n := w.Srv.AllocationCount(); n != 2 {
					out = append(out, fmt.Sprintf("c04:allocation-count-%d", n))
				}
				_ = pa

				return out
			}, func() { _ = w.Srv.Close() }
		}}
}

// ---------------------------------------------------------------- C16

func dataConn(w *sched.BW, c *sched.BClient, port int) *simnet.Conn {
	dc, err := w.Net.DialTCPAddr(&net.TCPAddr{IP: c.Addr.IP, Port: port}, &net.TCPAddr{IP: w.SrvAddr.IP, Port: w.SrvAddr.Port})
	if err != nil {
		panic(err)
	}

	return dc
}

func bindReq(c *sched.BClient, id uint32, tx [12]byte) []byte {
	b := wire.New(wire.ConnectionBind, wire.Request, tx).U32(wire.AttrConnectionID, id)
	b.Str(wire.AttrUsername, c.User).Str(wire.AttrRealm, vtx.Realm).Str(wire.AttrNonce, c.Nonce).Integrity(wire.LongTermKey(c.User, vtx.Realm, c.Pass))

	return b.Bytes()
}

func readResp(dc *simnet.Conn) (*wire.Msg, []byte) {
	raw, _ := dc.TakeAll()
	n, err := wire.FrameLen(raw)
	if err != nil || n == 0 {
		return nil, raw
	}
	m, err := wire.Parse(raw[:n])
	if err != nil {
		return nil, raw
	}

	return m, raw[n:]
}

// c16TwoBinds: two data connections try to bind the same connection id
// concurrently: in every schedule exactly one ConnectionBind succeeds.
func c16TwoBinds() *sched.Scenario {
	return &sched.Scenario{Name: "c16-two-binds-one-id", Bound: bound(), FreeBound: 2, Opt: opt,
		Body: func(*vsched.Sched) (func() []string, func()) {
			w := sched.NewBW(sched.BCfg{Stream: true})
			c := w.NewClient("c1")
			if _, err := w.Net.ListenTCPAddr("tcp4", &net.TCPAddr{IP: vtx.PeerSpec["B"].IP, Port: 5000}); err != nil {
				panic(err)
			}
			var nt notes
			d1, d2 := dataConn(w, c, 31001), dataConn(w, c, 31002)
			// wind-down: closing the data connections ends the copy loops of a bound connection, so the
			// ConnectionBind handler that waits for them returns instead of being stranded when the execution ends
			vsched.OnWind(func() { _ = d1.Close(); _ = d2.Close() })
			vsched.Go("driver", func() {
				c.Do(wire.Allocate, tcp)
				r := c.Do(wire.Connect, peer("B"))
				id, ok := r.U32(wire.AttrConnectionID)
				if !ok {
					nt.set("connect", "failed")

					return
				}
				vsched.Mark()
				for i, dc := range []*simnet.Conn{d1, d2} {
					name := fmt.Sprintf("bind%d", i+1)
					vsched.Go(name, func() {
						var tx [12]byte
						copy(tx[:], name)
						_, _ = dc.Write(bindReq(c, id, tx))
						vsched.Block("await", name, func() bool { return dc.PendingIn() > 0 || dc.SawEOF() })
						m, _ := readResp(dc)
						switch {
						case m == nil:
							nt.set(name, "closed")
						case m.Class == wire.Success:
							nt.set(name, "success")
						default:
							nt.set(name, "error")
						}
					})
				}
			})

			return func() []string {
				if nt.get("connect") == "failed" {
					return []string{"c16:connect-failed"}
				}
				s := 0
				for _, n := range []string{"bind1", "bind2"} {
					if nt.get(n) == "success" {
						s++
					}
				}
				if s != 1 {
					return []string{fmt.Sprintf("c16:connection-bound-%d-times:%s/%s", s, nt.get("bind1"), nt.get("bind2"))}
				}

				return nil
			}, func() { _ = w.Srv.Close() }
		}}
}

// c16BindVsTimeout: ConnectionBind arriving at the 30 s bind deadline: in every
// schedule either the bind succeeds and the peer connection stays open and pipes
// bytes, or it fails and the peer connection is closed; never success with a
// closed peer connection.
func c16BindVsTimeout() *sched.Scenario {
	return &sched.Scenario{Name: "c16-bind-vs-30s-timeout", Bound: bound(), FreeBound: 2, Opt: opt,
		Body: func(*vsched.Sched) (func() []string, func()) {
			w := sched.NewBW(sched.BCfg{Stream: true})
			c := w.NewClient("c1")
			pl, err := w.Net.ListenTCPAddr("tcp4", &net.TCPAddr{IP: vtx.PeerSpec["B"].IP, Port: 5000})
			if err != nil {
				panic(err)
			}
			var nt notes
			d1 := dataConn(w, c, 31001)
			vsched.OnWind(func() { _ = d1.Close() })
			var peerEnd *simnet.Conn
			vsched.Go("driver", func() {
				c.Do(wire.Allocate, tcp)
				r := c.Do(wire.Connect, peer("B"))
				id, ok := r.U32(wire.AttrConnectionID)
				if !ok {
					nt.set("connect", "failed")

					return
				}
				peerEnd = pl.Take()
				vsched.IdleSleep(30*time.Second - time.Nanosecond)
				vsched.Mark()
				var tx [12]byte
				copy(tx[:], "bind-late")
				_, _ = d1.Write(bindReq(c, id, tx))
				vsched.Block("await", "bind", func() bool { return d1.PendingIn() > 0 || d1.SawEOF() })
				m, _ := readResp(d1)
				if m != nil && m.Class == wire.Success {
					nt.set("bind", "success")
					_, _ = d1.Write([]byte("ping"))
					vsched.Block("await", "peer-bytes", func() bool { return peerEnd.PendingIn() > 0 || peerEnd.SawEOF() })
					got, _ := peerEnd.TakeAll()
					nt.set("peer-got", string(got))
				} else {
					nt.set("bind", "refused")
				}
			})

			return func() []string {
				if nt.get("connect") == "failed" {
					return []string{"c16:connect-failed"}
				}
				if nt.get("bind") == "success" && nt.get("peer-got") != "ping" {
					return []string{"c16:bind-succeeded-but-peer-connection-dead:" + nt.get("peer-got")}
				}
				if nt.get("bind") == "refused" && peerEnd != nil && !peerEnd.SawEOF() {
					return []string{"c16:bind-refused-but-peer-connection-left-open"}
				}

				return nil
			}, func() { _ = w.Srv.Close() }
		}}
}

// c16SlowDialBindWindow: the peer answers the Connect's SYN after 10 s. The 30 s in which the id can be bound count
// from the Connect success response that names it: a ConnectionBind 25 s after that response (35 s after the
// Connect request) binds, and the bytes reach the peer.
func c16SlowDialBindWindow() *sched.Scenario {
	return &sched.Scenario{Name: "c16-bind-window-after-a-slow-dial", Bound: bound(), FreeBound: 2, Opt: opt,
		Body: func(*vsched.Sched) (func() []string, func()) {
			w := sched.NewBW(sched.BCfg{Stream: true, SlowDial: 10 * time.Second})
			c := w.NewClient("c1")
			pl, err := w.Net.ListenTCPAddr("tcp4", &net.TCPAddr{IP: vtx.PeerSpec["B"].IP, Port: 5000})
			if err != nil {
				panic(err)
			}
			var nt notes
			d1 := dataConn(w, c, 31001)
			vsched.OnWind(func() { _ = d1.Close() })
			vsched.Go("driver", func() {
				c.Do(wire.Allocate, tcp)
				r := c.Do(wire.Connect, peer("B"))
				id, ok := r.U32(wire.AttrConnectionID)
				if !ok {
					nt.set("connect", "failed")

					return
				}
				peerEnd := pl.Take()
				vsched.IdleSleep(25 * time.Second)
				vsched.Mark()
				var tx [12]byte
				copy(tx[:], "bind-25s")
				_, _ = d1.Write(bindReq(c, id, tx))
				vsched.Block("await", "bind", func() bool { return d1.PendingIn() > 0 || d1.SawEOF() })
				m, _ := readResp(d1)
				if m == nil || m.Class != wire.Success {
					nt.set("bind", "refused")

					return
				}
				_, _ = d1.Write([]byte("ping"))
				vsched.Block("await", "peer-bytes", func() bool { return peerEnd.PendingIn() > 0 || peerEnd.SawEOF() })
				got, _ := peerEnd.TakeAll()
				nt.set("bind", "success:"+string(got))
			})

			return func() []string {
				switch {
				case nt.get("connect") == "failed":
					return []string{"c16:connect-failed"}
				case nt.get("bind") != "success:ping":
					return []string{"c16:bind-25s-after-the-connect-success-of-a-slow-dial:" + nt.get("bind")}
				}

				return nil
			}, func() { _ = w.Srv.Close() }
		}}
}

// c16InboundVsRealloc: a permitted peer connects to the relayed address of a TCP allocation while the client deletes
// that allocation (Refresh 0) and allocates again on the same 5-tuple. The connection was accepted at the FIRST
// relayed address: it belongs to the first allocation or is dropped; it is never bindable under the second one
// (whose relayed address it never reached and whose permissions it was never checked against).
func c16InboundVsRealloc() *sched.Scenario {
	return &sched.Scenario{Name: "c16-inbound-connection-vs-reallocation", Bound: bound(), FreeBound: 2, Opt: opt,
		Body: func(*vsched.Sched) (func() []string, func()) {
			w := sched.NewBW(sched.BCfg{Stream: true, CB: func(string) { vsched.Point("callback", "cb") }})
			c := w.NewClient("c1")
			var nt notes
			var dc *simnet.Conn
			vsched.OnWind(func() {
				if dc != nil {
					_ = dc.Close()
				}
			})
			vsched.Go("client", func() {
				r := c.Do(wire.Allocate, tcp)
				relay, ok := r.XorAddr(wire.AttrXORRelayedAddress)
				if !ok {
					nt.set("alloc", "failed")

					return
				}
				c.Do(wire.CreatePermission, peer("A"))
				vsched.Mark()
				vsched.Go("peer", func() {
					pa := vtx.PeerSpec["A"]
					_, _ = w.Net.DialTCPAddr(&net.TCPAddr{IP: pa.IP, Port: pa.Port}, &net.TCPAddr{IP: relay.IP, Port: relay.Port})
				})
				c.Do(wire.Refresh, lifetime(0))
				r2 := c.Do(wire.Allocate, tcp)
				if r2.Class != wire.Success {
					nt.set("alloc", "second-failed")

					return
				}
				nt.set("alloc", "ok")
				c.Inbox = nil // whatever was announced up to here belonged to the first allocation
				vsched.IdleSleep(time.Second)
				c.Inbox = append(c.Inbox, c.Recv()...)
				// an indication still in flight when the first allocation ended may arrive late; what must not
				// happen is that the connection it names is alive under the second allocation
				for _, rx := range c.Inbox {
					id, ok := uint32(0), false
					if rx.Msg != nil && rx.Msg.Method == wire.ConnectionAttempt {
						id, ok = rx.Msg.U32(wire.AttrConnectionID)
					}
					if !ok {
						continue
					}
					dc = dataConn(w, c, 31001)
					_, _ = dc.Write(bindReq(c, id, [12]byte{'l', 'a', 't', 'e'}))
					vsched.Block("await", "late-bind", func() bool { return dc.PendingIn() > 0 || dc.SawEOF() })
					if m, _ := readResp(dc); m != nil && m.Class == wire.Success {
						nt.set("late-bind", rx.String())
					}

					break
				}
			})

			return func() []string {
				switch {
				case nt.get("alloc") != "ok":
					return []string{"c16:harness:allocate:" + nt.get("alloc")}
				case nt.get("late-bind") != "":
					return []string{"c16:connection-accepted-at-the-first-relayed-address-bound-under-the-second-allocation\n" + nt.get("late-bind")}
				}

				return nil
			}, func() { _ = w.Srv.Close() }
		}}
}

// c16FullDuplex: a bound connection carries data in both directions at the same time, over connections that are
// plain net.Conns to the server (as crypto/tls connections are: io.Copy has no short cut and really uses its buffer).
// Whatever the interleaving of the two copy loops, each end reads exactly the bytes the other end wrote.
func c16FullDuplex() *sched.Scenario {
	return &sched.Scenario{Name: "c16-both-directions-at-once", Bound: bound(), FreeBound: 2, Opt: opt,
		Body: func(*vsched.Sched) (func() []string, func()) {
			w := sched.NewBW(sched.BCfg{Stream: true, PlainConns: true})
			c := w.NewClient("c1")
			pl, err := w.Net.ListenTCPAddr("tcp4", &net.TCPAddr{IP: vtx.PeerSpec["B"].IP, Port: 5000})
			if err != nil {
				panic(err)
			}
			var nt notes
			d1 := dataConn(w, c, 31001)
			vsched.OnWind(func() { _ = d1.Close() })
			const toPeer, toClient = "client->peer:0123456789abcdefghij", "peer->client:ZYXWVUTSRQPONMLKJIHG"
			vsched.Go("driver", func() {
				c.Do(wire.Allocate, tcp)
				r := c.Do(wire.Connect, peer("B"))
				id, ok := r.U32(wire.AttrConnectionID)
				if !ok {
					nt.set("connect", "failed")

					return
				}
				peerEnd := pl.Take()
				var tx [12]byte
				copy(tx[:], "bind-duplex")
				_, _ = d1.Write(bindReq(c, id, tx))
				vsched.Block("await", "bind", func() bool { return d1.PendingIn() > 0 || d1.SawEOF() })
				if m, _ := readResp(d1); m == nil || m.Class != wire.Success {
					nt.set("bind", "refused")

					return
				}
				vsched.Mark()
				vsched.Go("peer-writer", func() { _, _ = peerEnd.Write([]byte(toClient)) })
				_, _ = d1.Write([]byte(toPeer))
				vsched.IdleSleep(time.Second)
				atPeer, _ := peerEnd.TakeAll()
				atClient, _ := d1.TakeAll()
				nt.set("at-peer", string(atPeer))
				nt.set("at-client", string(atClient))
			})

			return func() []string {
				switch {
				case nt.get("connect") == "failed" || nt.get("bind") == "refused":
					return []string{"c16:harness:connect-or-bind-failed"}
				case nt.get("at-peer") != toPeer:
					return []string{fmt.Sprintf("c16:client-to-peer-bytes-differ\ngot %q", nt.get("at-peer"))}
				case nt.get("at-client") != toClient:
					return []string{fmt.Sprintf("c16:peer-to-client-bytes-differ\ngot %q", nt.get("at-client"))}
				}

				return nil
			}, func() { _ = w.Srv.Close() }
		}}
}

// ---------------------------------------------------------------- C15

// balance checks the lifecycle log and the resources at quiescence, when every
// allocation of the scenario must be gone.
func balance(w *sched.BW, s *vsched.Sched) []string {
	var out []string
	open := map[string]int{}
	w.LifeLock()
	life := append([]string{}, w.Life...)
	w.LifeUnlock()
	for _, l := range life {
		kind, rest := l[:strings.Index(l, " ")], l[strings.Index(l, " ")+1:]
		key := kind[:len(kind)-1] + " " + rest
		if kind == "alloc+" || kind == "alloc-" {
			key = "alloc " + strings.Fields(rest)[0]
		}
		if strings.HasSuffix(kind, "+") {
			open[key]++
			if open[key] > 1 {
				out = append(out, "c15:created-twice-without-delete:"+kind[:len(kind)-1]+"\n"+fmt.Sprint(life))
			}
		} else {
			open[key]--
			if open[key] < 0 {
				out = append(out, "c15:deleted-twice-or-without-create:"+kind[:len(kind)-1]+"\n"+fmt.Sprint(life))
			}
		}
	}
	for k, n := range open {
		if n > 0 {
			out = append(out, "c15:created-but-never-deleted:"+strings.Fields(k)[0]+"\n"+k+" "+fmt.Sprint(life))
		}
	}
	if n := w.Srv.AllocationCount(); n != 0 {
		out = append(out, fmt.Sprintf("c15:allocation-count-%d-after-everything-ended", n))
	}
	for _, sk := range w.Net.OpenUDP() {
		if strings.HasPrefix(sk, "10.9.0.1:") {
			out = append(out, "c15:relay-socket-open-after-everything-ended\n"+sk)
		}
	}
	if at := s.ActiveTimers(); len(at) > 0 {
		out = append(out, "c15:timer-armed-after-everything-ended\n"+fmt.Sprint(at))
	}

	return out
}

// c15SlowCallback: the allocation's lifetime (1 s) runs out while a lifecycle
// callback of kind `slow` sleeps for 2 s; afterwards everything must be gone and
// the created/deleted events must pair up.
func c15SlowCallback(slow string) *sched.Scenario { return c15SlowCallbackReq(slow, "") }

// c15SlowCallbackReq: req = "chanbind" sends a ChannelBind (which installs a permission first) while
// the permission callback is the slow one; "" = the request that matches the callback kind; a
// CreatePermission names two peers, so that the allocation ends between the two installations.
func c15SlowCallbackReq(slow, req string) *sched.Scenario {
	name := "c15-expiry-during-slow-" + slow + "-callback"
	if req != "" {
		name += "-of-a-" + req
	}

	return &sched.Scenario{Name: name, Bound: bound(), FreeBound: 3, Opt: opt,
		Body: func(s *vsched.Sched) (func() []string, func()) {
			w := sched.NewBW(sched.BCfg{CB: func(kind string) {
				if kind == slow+"+" {
					vsched.IdleSleep(2 * time.Second)
				}
			}})
			c := w.NewClient("c1")
			vsched.Go("client", func() {
				c.Fire(wire.Refresh, nil) // learn the nonce: answered 401 ...
				resp := c.Do(wire.Allocate, func(b *wire.B) { udp(b); b.U32(wire.AttrLifetime, 1) })
				_ = resp
				if slow != "alloc" {
					vsched.IdleSleep(500 * time.Millisecond)
					vsched.Mark()
					if slow == "perm" && req == "" {
						c.Fire(wire.CreatePermission, func(b *wire.B) { peer("A")(b); peer("B")(b) })
					} else {
						c.Fire(wire.ChannelBind, chanAttrs(0x4000, "A"))
					}
				}
				vsched.IdleSleep(10 * time.Second)
			})

			return func() []string { return balance(w, s) }, func() { _ = w.Srv.Close() }
		}}
}

// c15RequestDuringSlowTeardown: the allocation's lifetime (1 s) runs out while a CreatePermission for a new peer
// arrives (sent 1 ns before); the teardown is slow because the operator's OnPermissionDeleted callback takes 2 s.
// Whatever the request manages to do in the meantime, created and deleted callbacks still pair up and nothing is
// left on the allocation that has ended.
func c15RequestDuringSlowTeardown() *sched.Scenario {
	return &sched.Scenario{Name: "c15-request-during-a-teardown-with-a-slow-deleted-callback", Bound: bound(), FreeBound: 3, Opt: opt,
		Body: func(s *vsched.Sched) (func() []string, func()) {
			// (timeouts far beyond the scenario's horizon: what is left behind shows as left behind, it does not expire)
			w := sched.NewBW(sched.BCfg{Perm: 10 * time.Minute, Chan: 10 * time.Minute, CB: func(kind string) {
				if kind == "perm-" {
					vsched.IdleSleep(2 * time.Second)
				}
			}})
			c := w.NewClient("c1")
			vsched.Go("client", func() {
				c.Do(wire.Allocate, func(b *wire.B) { udp(b); b.U32(wire.AttrLifetime, 1) })
				c.Do(wire.CreatePermission, peer("A"))
				vsched.IdleSleep(time.Second - time.Nanosecond)
				vsched.Mark()
				c.Fire(wire.CreatePermission, peer("B"))
				vsched.IdleSleep(30 * time.Second)
			})

			return func() []string { return balance(w, s) }, func() { _ = w.Srv.Close() }
		}}
}

// c15ServerCloseVsRefresh: the server is closed while a Refresh of a stream client is in flight: the listener's
// goroutine closes the allocation manager (and with it the allocation) while the connection's goroutine still
// handles the request. Once both are done nothing is left: in particular no lifetime timer re-armed by the Refresh
// on the allocation that has been closed.
func c15ServerCloseVsRefresh() *sched.Scenario {
	return &sched.Scenario{Name: "c15-server-close-vs-refresh-of-a-stream-client", Bound: bound(), FreeBound: 3, Opt: opt,
		Body: func(s *vsched.Sched) (func() []string, func()) {
			w := sched.NewBW(sched.BCfg{Stream: true})
			c := w.NewClient("c1")
			vsched.Go("client", func() {
				c.Do(wire.Allocate, udp)
				vsched.Mark()
				vsched.Go("closer", func() { _ = w.Srv.Close() })
				c.Fire(wire.Refresh, lifetime(600))
				vsched.IdleSleep(10 * time.Second)
			})

			return func() []string { return balance(w, s) }, func() { _ = w.Srv.Close() }
		}}
}

// c15ServerCloseVsDialCompletion: the dial of a Connect completes at the very instant the server is closed (the
// dial takes 1 s, the server is closed 1 s after the Connect was sent). Wherever the registration of the new peer
// connection lands among the steps of the teardown, 3 s later the connection to the peer is closed and no
// timer (the 30 s bind timer) is left.
func c15ServerCloseVsDialCompletion() *sched.Scenario {
	o := opt
	o.IdleTies = true

	return &sched.Scenario{Name: "c15-connect-dial-completes-while-the-server-closes", Bound: bound(), FreeBound: -1, Opt: o,
		Body: func(s *vsched.Sched) (func() []string, func()) {
			w := sched.NewBW(sched.BCfg{Stream: true, SlowDial: time.Second})
			c := w.NewClient("c1")
			pl, err := w.Net.ListenTCPAddr("tcp4", &net.TCPAddr{IP: vtx.PeerSpec["B"].IP, Port: 5000})
			if err != nil {
				panic(err)
			}
			var nt notes
			vsched.Go("client", func() {
				c.Do(wire.Allocate, tcp)
				c.Fire(wire.Connect, peer("B"))
				vsched.IdleSleep(time.Second)
				vsched.Mark()
				_ = w.Srv.Close()
				vsched.IdleSleep(3 * time.Second)
				open := 0
				for {
					pc := pl.Take()
					if pc == nil {
						break
					}
					if !pc.Peer().IsClosed() {
						open++
					}
				}
				nt.set("open", fmt.Sprint(open))
			})

			return func() []string {
				out := balance(w, s)
				if o := nt.get("open"); o != "0" {
					out = append(out, "c15:peer-connection-open-after-server-close:"+o)
				}

				return out
			}, nil
		}}
}

// c15ServerCloseDuringSlowAllocate: the server (UDP listener) is closed while an Allocate is still inside the relay
// address generator (1 s). Whatever that request still creates once the generator returns is released as well:
// 3 s later no allocation is counted, no relay socket is open, and created / deleted callbacks pair up.
func c15ServerCloseDuringSlowAllocate() *sched.Scenario {
	return &sched.Scenario{Name: "c15-server-close-during-a-slow-allocate", Bound: bound(), FreeBound: 3, Opt: opt,
		Body: func(s *vsched.Sched) (func() []string, func()) {
			w := sched.NewBW(sched.BCfg{SlowAlloc: time.Second})
			c := w.NewClient("c1")
			vsched.Go("client", func() {
				c.Do(wire.Allocate, udp)        // learns the nonce ...
				c.Do(wire.Refresh, lifetime(0)) // ... and leaves nothing behind
				c.Fire(wire.Allocate, udp)
				vsched.IdleSleep(500 * time.Millisecond)
				vsched.Mark()
				_ = w.Srv.Close()
				vsched.IdleSleep(3 * time.Second)
			})

			return func() []string { return balance(w, s) }, nil
		}}
}

// c15Realloc: Refresh 0, Allocate again on the same 5-tuple while the goroutines of the first allocation are still
// winding down, then the server is closed: the reported count is that of the live allocations at every step (1
// after the second Allocate, whichever late goroutine has run), and at the end nothing of either allocation is left.
func c15Realloc() *sched.Scenario {
	return &sched.Scenario{Name: "c15-refresh0-then-allocate-then-server-close", Bound: bound(), FreeBound: 3, Opt: opt,
		Body: func(s *vsched.Sched) (func() []string, func()) {
			w := sched.NewBW(sched.BCfg{})
			c := w.NewClient("c1")
			var nt notes
			vsched.Go("client", func() {
				c.Do(wire.Allocate, udp)
				vsched.Mark()
				c.Do(wire.Refresh, lifetime(0))
				if r := c.Do(wire.Allocate, udp); r.Class != wire.Success {
					nt.set("second", fmt.Sprintf("refused-%d", r.ErrorCode()))

					return
				}
				vsched.IdleSleep(time.Second)
				nt.set("count", fmt.Sprint(w.Srv.AllocationCount()))
				_ = w.Srv.Close()
				vsched.IdleSleep(time.Second)
			})

			return func() []string {
				out := balance(w, s)
				switch {
				case nt.get("second") != "":
					out = append(out, "c15:harness:second-allocate-"+nt.get("second"))
				case nt.get("count") != "1":
					out = append(out, "c15:allocation-count-"+nt.get("count")+"-with-one-live-allocation")
				}

				return out
			}, nil
		}}
}

// c15EqualDeadlines: allocation lifetime == permission timeout == channel
// timeout: all timers fire at the same instant, in every order and interleaving.
func c15EqualDeadlines() *sched.Scenario {
	return &sched.Scenario{Name: "c15-expiry-vs-permission-and-channel-timers", Bound: bound(), FreeBound: 3, Opt: opt,
		Body: func(s *vsched.Sched) (func() []string, func()) {
			w := sched.NewBW(sched.BCfg{Perm: time.Second, Chan: time.Second, CB: func(string) { vsched.Point("callback", "cb") }})
			c := w.NewClient("c1")
			vsched.Go("client", func() {
				c.Do(wire.Allocate, func(b *wire.B) { udp(b); b.U32(wire.AttrLifetime, 1) })
				c.Do(wire.ChannelBind, chanAttrs(0x4000, "A"))
				c.Do(wire.CreatePermission, peer("B"))
				vsched.Mark()
				vsched.IdleSleep(10 * time.Second)
			})

			return func() []string { return balance(w, s) }, func() { _ = w.Srv.Close() }
		}}
}

// ---------------------------------------------------------------- C06

// c06Realloc: Refresh 0 followed at once by a new Allocate on the same 5-tuple,
// while the goroutines of the first allocation (its relay read loop, which
// sees the closed socket; its lifetime timer) are still winding down. In every
// schedule the second allocation, once its success response is out, exists
// until ITS lifetime: it still answers a Refresh afterwards and is the one
// allocation the server counts.
func c06Realloc() *sched.Scenario {
	return &sched.Scenario{Name: "c06-refresh0-then-allocate-vs-old-relay-loop", Bound: bound(), FreeBound: 3, Opt: opt,
		Body: func(*vsched.Sched) (func() []string, func()) {
			w := sched.NewBW(sched.BCfg{})
			c := w.NewClient("c1")
			var nt notes
			vsched.Go("client", func() {
				c.Do(wire.Allocate, udp)
				vsched.Mark()
				if r := c.Do(wire.Refresh, lifetime(0)); r.Class != wire.Success {
					nt.set("refresh0", "failed")
				}
				if r := c.Do(wire.Allocate, udp); r.Class != wire.Success {
					nt.set("second", fmt.Sprintf("refused-%d", r.ErrorCode()))

					return
				}
				nt.set("second", "ok")
				vsched.IdleSleep(time.Second)
				r := c.Do(wire.Refresh, lifetime(600))
				nt.set("alive", fmt.Sprintf("%d/%d", r.Class, r.ErrorCode()))
				nt.set("count", fmt.Sprint(w.Srv.AllocationCount()))
			})

			return func() []string {
				var out []string
				switch {
				case nt.get("refresh0") != "":
					out = append(out, "c06:refresh0-refused")
				case nt.get("second") == "":
					out = append(out, "c06:client-never-completed")
				case nt.get("second") != "ok":
					out = append(out, "c06:allocate-after-refresh0-"+nt.get("second"))
				case nt.get("alive") == "":
					out = append(out, "c06:allocation-gone-before-its-lifetime:refresh-unanswered")
				case nt.get("alive") != fmt.Sprintf("%d/0", wire.Success) || nt.get("count") != "1":
					out = append(out, fmt.Sprintf("c06:allocation-gone-before-its-lifetime:refresh=%s,count=%s", nt.get("alive"), nt.get("count")))
				}

				return out
			}, func() { _ = w.Srv.Close() }
		}}
}

// c06ReallocVsTimer: the same with the first allocation's lifetime timer: it
// fires (its goroutine is started) at the moment the client deletes the
// allocation and allocates again; the late timer goroutine must not take the
// new allocation with it.
func c06ReallocVsTimer() *sched.Scenario {
	return &sched.Scenario{Name: "c06-refresh0-then-allocate-vs-old-lifetime-timer", Bound: bound(), FreeBound: 3, Opt: opt,
		Body: func(*vsched.Sched) (func() []string, func()) {
			w := sched.NewBW(sched.BCfg{})
			c := w.NewClient("c1")
			var nt notes
			vsched.Go("client", func() {
				c.Do(wire.Allocate, func(b *wire.B) { udp(b); b.U32(wire.AttrLifetime, 1) })
				vsched.IdleSleep(time.Second - time.Nanosecond) // the lifetime timer is due in 1 ns
				vsched.Mark()
				c.Fire(wire.Refresh, lifetime(0)) // success, or no answer when the timer was first
				vsched.IdleSleep(10 * time.Millisecond)
				c.Inbox = nil
				r := c.Do(wire.Allocate, udp)
				if r.Class != wire.Success {
					nt.set("second", fmt.Sprintf("refused-%d", r.ErrorCode()))

					return
				}
				nt.set("second", "ok")
				vsched.IdleSleep(2 * time.Second)
				r = c.Do(wire.Refresh, lifetime(600))
				nt.set("alive", fmt.Sprintf("%d/%d", r.Class, r.ErrorCode()))
				nt.set("count", fmt.Sprint(w.Srv.AllocationCount()))
			})

			return func() []string {
				switch {
				case nt.get("second") == "":
					return []string{"c06:client-never-completed"}
				case nt.get("second") != "ok":
					return []string{"c06:allocate-after-the-first-allocation-ended-" + nt.get("second")}
				case nt.get("alive") == "":
					return []string{"c06:allocation-gone-before-its-lifetime:refresh-unanswered"}
				case nt.get("alive") != fmt.Sprintf("%d/0", wire.Success) || nt.get("count") != "1":
					return []string{fmt.Sprintf("c06:allocation-gone-before-its-lifetime:refresh=%s,count=%s", nt.get("alive"), nt.get("count"))}
				}

				return nil
			}, func() { _ = w.Srv.Close() }
		}}
}

// c15SlowDial: a Connect whose outgoing dial takes 2 s (a peer that answers late) on a stream listener.
// who = "other": another client's allocation (lifetime 1 s) expires while the dial is in progress: at
// 1.5 s it is gone (count 1), whatever the dialing request holds on to.
// who = "own": the dialing client's own allocation (lifetime 1 s) expires during its dial: nothing of
// it may be left once the dial has returned - in particular no peer connection.
func c15SlowDial(who string) *sched.Scenario {
	return &sched.Scenario{Name: "c15-allocation-expires-during-slow-connect-dial-" + who, Bound: bound() - 1, FreeBound: 2, Opt: opt,
		Body: func(*vsched.Sched) (func() []string, func()) {
			w := sched.NewBW(sched.BCfg{Stream: true, SlowDial: 2 * time.Second})
			c1, c2 := w.NewClient("c1"), w.NewClient("c2")
			pl, err := w.Net.ListenTCPAddr("tcp4", &net.TCPAddr{IP: vtx.PeerSpec["B"].IP, Port: 5000})
			if err != nil {
				panic(err)
			}
			pa := w.NewPeer("A")
			var nt notes
			life := func(c string) uint32 {
				if (who == "own") == (c == "c1") {
					return 1
				}

				return 600
			}
			vsched.Go("driver", func() {
				c1.Do(wire.Allocate, func(b *wire.B) { tcp(b); b.U32(wire.AttrLifetime, life("c1")) })
				r2 := c2.Do(wire.Allocate, func(b *wire.B) { udp(b); b.U32(wire.AttrLifetime, life("c2")) })
				relay2, _ := r2.XorAddr(wire.AttrXORRelayedAddress)
				c2.Do(wire.CreatePermission, peer("A"))
				vsched.Mark()
				c1.Fire(wire.Connect, peer("B")) // the server dials for 2 s
				vsched.IdleSleep(1500 * time.Millisecond)
				if who == "other" && relay2 != nil {
					// c2's allocation expired half a second ago: its relayed address relays nothing any more
					_, _ = pa.WriteTo([]byte("half-a-second-after-the-expiry"), relay2)
					vsched.IdleSleep(100 * time.Millisecond)
					nt.set("relayed-after-expiry", fmt.Sprint(c2.Conn.PendingIn()))
				}
				nt.set("count@1.5s", fmt.Sprint(w.Srv.AllocationCount()))
				vsched.IdleSleep(3 * time.Second) // the dial has returned long ago
				nt.set("count@4.5s", fmt.Sprint(w.Srv.AllocationCount()))
				open := 0
				for {
					pc := pl.Take()
					if pc == nil {
						break
					}
					if !pc.Peer().IsClosed() {
						open++
					}
				}
				nt.set("peer-conns-open@4.5s", fmt.Sprint(open))
			})

			return func() []string {
				var out []string
				if nt.get("count@4.5s") == "" {
					return []string{"c15:driver-never-completed"}
				}
				if nt.get("count@1.5s") != "1" || nt.get("count@4.5s") != "1" {
					out = append(out, fmt.Sprintf("c15:expired-allocation-still-counted-during-slow-dial:count@1.5s=%s,count@4.5s=%s", nt.get("count@1.5s"), nt.get("count@4.5s")))
				}
				if v := nt.get("relayed-after-expiry"); v != "" && v != "0" {
					out = append(out, "c15:expired-allocation-still-relays-while-another-request-dials")
				}
				if who == "own" && nt.get("peer-conns-open@4.5s") != "0" {
					out = append(out, "c15:peer-connection-of-an-expired-allocation-left-open:"+nt.get("peer-conns-open@4.5s"))
				}

				return out
			}, func() { _ = w.Srv.Close() }
		}}
}

// c06Reconnect: a stream client's control connection ends (reset by the client) and the client
// reconnects at once from the same address and port and allocates. The goroutine of the old
// connection may notice its end late; its clean-up must not take the allocation of the new
// connection with it: that one exists until its own lifetime.
func c06Reconnect() *sched.Scenario {
	return &sched.Scenario{Name: "c06-reconnect-from-the-same-port-vs-old-connection-cleanup", Bound: bound(), FreeBound: 3, Opt: opt,
		Body: func(*vsched.Sched) (func() []string, func()) {
			w := sched.NewBW(sched.BCfg{Stream: true})
			c := w.NewClient("c1")
			var nt notes
			vsched.Go("client", func() {
				c.Do(wire.Allocate, udp)
				c.Do(wire.Refresh, lifetime(0)) // the old connection owns no allocation any more
				vsched.Mark()
				_ = c.Conn.Close()
				c2 := w.NewClient("c1") // same address and port, a new connection
				c2.Nonce = c.Nonce
				if r := c2.Do(wire.Allocate, udp); r.Class != wire.Success {
					// the old allocation may still be there: 437 until the old connection's end is noticed; try once more later
					vsched.IdleSleep(time.Second)
					if r = c2.Do(wire.Allocate, udp); r.Class != wire.Success {
						nt.set("second", fmt.Sprintf("refused-%d", r.ErrorCode()))

						return
					}
				}
				nt.set("second", "ok")
				vsched.IdleSleep(2 * time.Second)
				r := c2.Do(wire.Refresh, lifetime(600))
				nt.set("alive", fmt.Sprintf("%d/%d", r.Class, r.ErrorCode()))
				nt.set("count", fmt.Sprint(w.Srv.AllocationCount()))
			})

			return func() []string {
				switch {
				case nt.get("second") == "":
					return []string{"c06:client-never-completed"}
				case nt.get("second") != "ok":
					return []string{"c06:allocate-on-the-new-connection-" + nt.get("second")}
				case nt.get("alive") == "":
					return []string{"c06:allocation-gone-before-its-lifetime:refresh-unanswered"}
				case nt.get("alive") != fmt.Sprintf("%d/0", wire.Success) || nt.get("count") != "1":
					return []string{fmt.Sprintf("c06:allocation-gone-before-its-lifetime:refresh=%s,count=%s", nt.get("alive"), nt.get("count"))}
				}

				return nil
			}, func() { _ = w.Srv.Close() }
		}}
}

// c06RefreshVsExpiry: a Refresh arrives at the instant the allocation's lifetime timer fires (lifetime 1 s,
// Refresh sent 1 ns before). Whatever the order of the timer goroutine and the request: once the Refresh
// is answered with success, the allocation exists for the granted lifetime from then on - it is counted
// and data sent half a lifetime later reaches the peer.
func c06RefreshVsExpiry() *sched.Scenario {
	return &sched.Scenario{Name: "c06-refresh-at-the-expiry-instant", Bound: bound(), FreeBound: 3, Opt: opt,
		Body: func(*vsched.Sched) (func() []string, func()) {
			w := sched.NewBW(sched.BCfg{Lifetime: time.Second, Perm: 10 * time.Second, CB: func(string) { vsched.Point("callback", "cb") }})
			c := w.NewClient("c1")
			pa := w.NewPeer("A")
			a := vtx.PeerSpec["A"]
			var nt notes
			vsched.Go("client", func() {
				c.Do(wire.Allocate, udp)
				c.Do(wire.CreatePermission, peer("A"))
				vsched.IdleSleep(time.Second - time.Nanosecond)
				vsched.Mark()
				c.Sock.Drain()
				tx := c.Fire(wire.Refresh, nil) // the server does not answer a Refresh for an allocation that is gone: do not wait for one
				vsched.IdleSleep(100 * time.Millisecond)
				nt.set("refresh", "unanswered")
				for _, d := range c.Sock.Drain() {
					if r, err := wire.Parse(d.Data); err == nil && r.TxID == tx {
						nt.set("refresh", fmt.Sprintf("%d/%d", r.Class, r.ErrorCode()))
						lt, _ := r.U32(wire.AttrLifetime)
						nt.set("granted", fmt.Sprint(lt))
					}
				}
				vsched.IdleSleep(400 * time.Millisecond)
				pa.Drain()
				nt.set("count", fmt.Sprint(w.Srv.AllocationCount()))
				c.Send(wire.New(wire.Send, wire.Indication, c.NextTx()).XorAddr(wire.AttrXORPeerAddress, a.IP, a.Port).Str(wire.AttrData, "half-a-lifetime-after-the-refresh").Bytes())
				vsched.IdleSleep(100 * time.Millisecond)
				nt.set("delivered", fmt.Sprint(pa.Pending()))
			})

			return func() []string {
				switch {
				case nt.get("delivered") == "":
					return []string{"c06:client-never-completed"}
				case nt.get("refresh") != fmt.Sprintf("%d/0", wire.Success):
					return nil // a refused Refresh (437: the expiry came first) promises nothing
				case nt.get("granted") != "1":
					return []string{"c06:refresh-success-without-the-configured-lifetime:" + nt.get("granted")}
				case nt.get("count") != "1" || nt.get("delivered") != "1":
					return []string{"c06:refresh-answered-success-but-the-allocation-is-gone-half-a-lifetime-later"}
				}

				return nil
			}, func() { _ = w.Srv.Close() }
		}}
}

// ---------------------------------------------------------------- C07

// c07RefreshVsExpiry: a refresh (CreatePermission / ChannelBind for an existing entry) arrives at the
// instant the entry's timer fires (timeout 1 s, refresh sent 1 ns before). Whatever the order of the timer
// goroutine and the request: once the refresh is answered with success, the entry authorises relaying for
// one full timeout from then on - data sent half a timeout later reaches the peer.
func c07RefreshVsExpiry(kind string) *sched.Scenario { return c07RefreshVsExpiryDir(kind, false) }

// c07RefreshVsExpiryDir: p2c = the probes are datagrams of the peer (C02's direction) instead of the client's.
func c07RefreshVsExpiryDir(kind string, p2c bool) *sched.Scenario {
	name := "c07-" + kind + "-refresh-at-the-expiry-instant"
	if p2c {
		name = "c02-" + kind + "-refresh-at-the-expiry-instant-peer-datagrams"
	}

	return &sched.Scenario{Name: name, Bound: bound(), FreeBound: 3, Opt: opt,
		Body: func(*vsched.Sched) (func() []string, func()) {
			cfg := sched.BCfg{Perm: time.Second, CB: func(string) { vsched.Point("callback", "cb") }}
			if kind == "chan" {
				cfg = sched.BCfg{Chan: time.Second, Perm: 10 * time.Second, CB: cfg.CB}
			}
			w := sched.NewBW(cfg)
			c := w.NewClient("c1")
			pa := w.NewPeer("A")
			a := vtx.PeerSpec["A"]
			var nt notes
			req := func() *wire.Msg {
				if kind == "chan" {
					return c.Do(wire.ChannelBind, chanAttrs(0x4000, "A"))
				}

				return c.Do(wire.CreatePermission, peer("A"))
			}
			vsched.Go("client", func() {
				ar := c.Do(wire.Allocate, udp)
				relay, _ := ar.XorAddr(wire.AttrXORRelayedAddress)
				req()
				vsched.IdleSleep(time.Second - time.Nanosecond)
				vsched.Mark()
				r := req()
				nt.set("refresh", fmt.Sprintf("%d/%d", r.Class, r.ErrorCode()))
				vsched.IdleSleep(500 * time.Millisecond)
				pa.Drain()
				c.Sock.Drain()
				pending := pa.Pending
				if p2c {
					pending = c.Sock.Pending
				}
				send := func(text string) {
					if p2c {
						_, _ = pa.WriteTo([]byte(text), relay)
					} else if kind == "chan" {
						c.Send(wire.ChannelData(0x4000, []byte(text), false))
					} else {
						c.Send(wire.New(wire.Send, wire.Indication, c.NextTx()).XorAddr(wire.AttrXORPeerAddress, a.IP, a.Port).Str(wire.AttrData, text).Bytes())
					}
				}
				send("half-a-timeout-after-the-refresh")
				vsched.IdleSleep(100 * time.Millisecond)
				nt.set("delivered", fmt.Sprint(pending()))
				// ... and for no longer than one timeout after the later of the two requests: 1.6 s after the
				// refresh (2.6 s after the first request) the entry is gone whichever of the two counted
				vsched.IdleSleep(time.Second)
				pa.Drain()
				c.Sock.Drain()
				send("long-after-every-deadline")
				vsched.IdleSleep(100 * time.Millisecond)
				nt.set("late", fmt.Sprint(pending()))
			})

			return func() []string {
				switch {
				case nt.get("late") == "":
					return []string{"c07:client-never-completed"}
				case nt.get("late") != "0":
					return []string{"c07:entry-refreshed-at-the-expiry-instant-never-expires:" + kind}
				case nt.get("refresh") != fmt.Sprintf("%d/0", wire.Success):
					return nil // a refused refresh promises nothing (either order is legitimate for the request itself)
				case nt.get("delivered") != "1":
					return []string{"c07:refresh-answered-success-but-the-entry-does-not-authorise-half-a-timeout-later:" + kind}
				}

				return nil
			}, func() { _ = w.Srv.Close() }
		}}
}

// ---------------------------------------------------------------- C19

// c19ErrorPreparedBeforeSlowGenerator: over a stream listener every connection has its own goroutine. c1's
// Allocate sits in a relay address generator that takes 1 s and then fails (508); c2's Binding request is served
// meanwhile. Every response carries the transaction id of the request it answers, whoever else was served in between.
func c19ErrorPreparedBeforeSlowGenerator() *sched.Scenario {
	return &sched.Scenario{Name: "c19-error-response-prepared-before-a-slow-generator", Bound: bound(), FreeBound: 3, Opt: opt,
		Body: func(*vsched.Sched) (func() []string, func()) {
			w := sched.NewBW(sched.BCfg{Stream: true, SlowAlloc: time.Second, FailAlloc: true})
			c1, c2 := w.NewClient("c1"), w.NewClient("c2")
			var nt notes
			vsched.Go("c1", func() {
				r := c1.Do(wire.Allocate, udp) // 401, then the signed request: 1 s in the generator, 508
				nt.set("c1", fmt.Sprintf("%d/%d", r.Class, r.ErrorCode()))
			})
			vsched.Go("c2", func() {
				vsched.IdleSleep(500 * time.Millisecond)
				r := c2.Do(wire.Binding, nil)
				nt.set("c2", fmt.Sprintf("%d/%d", r.Class, r.ErrorCode()))
			})
			vsched.Go("driver", func() { vsched.IdleSleep(3 * time.Second) })

			return func() []string {
				var out []string
				if nt.get("c1") != fmt.Sprintf("%d/508", wire.Error) {
					out = append(out, "c19:allocate-with-failing-generator-not-answered-508:"+nt.get("c1"))
				}
				if nt.get("c2") != fmt.Sprintf("%d/0", wire.Success) {
					out = append(out, "c19:binding-during-another-clients-slow-allocate-not-answered:"+nt.get("c2"))
				}
				return out
			}, func() { _ = w.Srv.Close() }
		}}
}

// c19RetransmitDuringSlowAllocate: an Allocate whose relay socket takes 1 s to create, retransmitted
// (same transaction id) three times meanwhile, as a client with a 200 ms RTO does. One allocation and one
// relay socket result, and every answer to that transaction names the same relayed address.
func c19RetransmitDuringSlowAllocate() *sched.Scenario {
	return &sched.Scenario{Name: "c19-allocate-retransmitted-while-the-first-copy-is-being-served", Bound: bound(), FreeBound: 3, Opt: opt,
		Body: func(*vsched.Sched) (func() []string, func()) {
			w := sched.NewBW(sched.BCfg{SlowAlloc: time.Second})
			c := w.NewClient("c1")
			var nt notes
			vsched.Go("client", func() {
				c.Do(wire.Allocate, udp)        // learns the nonce ...
				c.Do(wire.Refresh, lifetime(0)) // ... and leaves nothing behind
				c.Sock.Drain()
				vsched.Mark()
				tx := c.NextTx()
				m := wire.New(wire.Allocate, wire.Request, tx)
				udp(m)
				m.Str(wire.AttrUsername, c.User).Str(wire.AttrRealm, vtx.Realm).Str(wire.AttrNonce, c.Nonce).Integrity(wire.LongTermKey(c.User, vtx.Realm, c.Pass))
				raw := m.Bytes()
				for i := 0; i < 3; i++ {
					c.Send(raw)
					vsched.IdleSleep(200 * time.Millisecond)
				}
				vsched.IdleSleep(5 * time.Second)
				relays := map[string]bool{}
				for _, d := range c.Sock.Drain() {
					if msg, err := wire.Parse(d.Data); err == nil && msg.TxID == tx && msg.Class == wire.Success {
						if ra, ok := msg.XorAddr(wire.AttrXORRelayedAddress); ok {
							relays[ra.String()] = true
						}
					}
				}
				open := 0
				for _, sk := range w.Net.OpenUDP() {
					if strings.HasPrefix(sk, "10.9.0.1:") {
						open++
					}
				}
				nt.set("result", fmt.Sprintf("count=%d,relay-sockets=%d,relayed-addresses-answered=%d", w.Srv.AllocationCount(), open, len(relays)))
			})

			return func() []string {
				switch r := nt.get("result"); r {
				case "":
					return []string{"c19:client-never-completed"}
				case "count=1,relay-sockets=1,relayed-addresses-answered=1":
					return nil
				default:
					return []string{"c19:retransmitted-allocate-created-something:" + r}
				}
			}, func() { _ = w.Srv.Close() }
		}}
}

// c19SlowGeneratorShortLifetime: the relay address generator takes `gen` to produce the relay socket of an Allocate
// that asks for LIFETIME 1. The success response reports the lifetime actually in force: 700 ms after it the
// allocation still exists, 3 s after it the allocation and its relay socket are gone.
func c19SlowGeneratorShortLifetime(gen time.Duration) *sched.Scenario {
	return &sched.Scenario{Name: "c19-lifetime-1s-with-a-generator-that-takes-" + gen.String(), Bound: bound(), FreeBound: 2, Opt: opt,
		Body: func(*vsched.Sched) (func() []string, func()) {
			w := sched.NewBW(sched.BCfg{SlowAlloc: gen})
			c := w.NewClient("c1")
			var nt notes
			relaySockets := func() int {
				n := 0
				for _, sk := range w.Net.OpenUDP() {
					if strings.HasPrefix(sk, "10.9.0.1:") {
						n++
					}
				}

				return n
			}
			vsched.Go("client", func() {
				c.Fire(wire.Refresh, nil) // learns the nonce (401)
				vsched.IdleSleep(10 * time.Millisecond)
				c.Recv()
				vsched.Mark()
				r := c.Do(wire.Allocate, func(b *wire.B) { udp(b); b.U32(wire.AttrLifetime, 1) })
				lt, _ := r.U32(wire.AttrLifetime)
				if r.Class != wire.Success || lt != 1 {
					nt.set("alloc", fmt.Sprintf("class=%d lifetime=%d", r.Class, lt))

					return
				}
				vsched.IdleSleep(700 * time.Millisecond)
				nt.set("at+0.7s", fmt.Sprintf("count=%d,relay-sockets=%d", w.Srv.AllocationCount(), relaySockets()))
				vsched.IdleSleep(2300 * time.Millisecond)
				nt.set("at+3s", fmt.Sprintf("count=%d,relay-sockets=%d", w.Srv.AllocationCount(), relaySockets()))
			})

			return func() []string {
				var out []string
				if a := nt.get("alloc"); a != "" {
					return []string{"c19:harness:allocate:" + a}
				}
				if g := nt.get("at+0.7s"); g != "count=1,relay-sockets=1" {
					out = append(out, "c19:allocation-gone-before-the-lifetime-reported:"+g)
				}
				if g := nt.get("at+3s"); g != "count=0,relay-sockets=0" {
					out = append(out, "c19:allocation-outlives-the-lifetime-reported:"+g)
				}

				return out
			}, func() { _ = w.Srv.Close() }
		}}
}

// heavy: the scenarios with tens of thousands of schedules. They run last (all shards agree on the order), so
// that on an overloaded machine the part's budget cuts into them and not into the many small scenarios behind them.
var heavy = map[string]bool{
	"c02-peer-data-vs-expiry-vs-refresh0": true, "c15-expiry-vs-permission-and-channel-timers": true,
	"c16-two-binds-one-id": true, "c16-inbound-connection-vs-reallocation": true,
	"c19-error-response-prepared-before-a-slow-generator": true, "c06-reconnect-from-the-same-port-vs-old-connection-cleanup": true,
	"c04-two-stream-clients-isolated": true, "K2-two-writers-one-new-peer": true,
}

func run(t *testing.T, prop string, scs ...*sched.Scenario) {
	r := rep.New(prop)
	defer r.Write()
	sort.SliceStable(scs, func(i, j int) bool { return !heavy[scs[i].Name] && heavy[scs[j].Name] })
	for _, sc := range scs {
		if only := os.Getenv("VERIF_SCENARIO"); only != "" && only != sc.Name {
			continue
		}
		sched.Explore(t, sc, r)
	}
}

func TestC02Sched(t *testing.T) {
	run(t, "C02", c02ExpiryRace(), c07RefreshVsExpiryDir("perm", true), c02SlowDeleteCallback("chan"), c02SlowDeleteCallback("perm"), c02SlowDeleteCallback("perm-tcp"))
}
func TestC19Sched(t *testing.T) {
	// c06Realloc: the relayed address an Allocate success has just reported must be one that works - also when the
	// goroutines of the allocation that held the 5-tuple before are still winding down
	run(t, "C19", c19RetransmitDuringSlowAllocate(), c19ErrorPreparedBeforeSlowGenerator(), c06Realloc(), c19SlowGeneratorShortLifetime(500*time.Millisecond), c19SlowGeneratorShortLifetime(2*time.Second))
}
func TestC07Sched(t *testing.T) {
	run(t, "C07", c07RefreshVsExpiry("perm"), c07RefreshVsExpiry("chan"))
}
func TestC06Sched(t *testing.T) {
	run(t, "C06", c06Realloc(), c06ReallocVsTimer(), c06Reconnect(), c06RefreshVsExpiry())
}

// c06Reconnect is an isolation matter as well: the party that no longer owns the 5-tuple (the old connection) acts on the allocation now occupying it.
func TestC05Sched(t *testing.T) { run(t, "C05", c05StreamRelayVsResponse()) }

func TestC04Sched(t *testing.T) { run(t, "C04", c04TwoConns(), c06Reconnect()) }
func TestC16Sched(t *testing.T) {
	run(t, "C16", c16TwoBinds(), c16BindVsTimeout(), c16FullDuplex(), c16InboundVsRealloc(), c16SlowDialBindWindow())
}
func TestC15Sched(t *testing.T) {
	run(t, "C15", c15SlowCallback("alloc"), c15SlowCallback("perm"), c15SlowCallback("chan"), c15SlowCallbackReq("perm", "chanbind"), c15EqualDeadlines(), c15SlowDial("other"), c15SlowDial("own"), c15RequestDuringSlowTeardown(), c15ServerCloseVsRefresh(), c15ServerCloseVsDialCompletion(), c15ServerCloseDuringSlowAllocate(), c15Realloc())
}
